#!/bin/sh
# Runs every registered quick (or thorough: ./run_all.sh thorough) check on the current /repo tree and validates the evidence files.
tier="${1:-quick}"
cd "$(dirname "$0")"
fail=0
for id in $(python3 -c "import json; print(' '.join(c['property_id'] for c in json.load(open('MANIFEST.json'))['checks']))"); do
  out=$(./check "$id" --tier "$tier" 2>&1 | grep -v "^Invalid parameter" | tail -4)
  rc=$?
  echo "$out" | tail -1
  echo "$out" | grep -q "^VIOLATION" && fail=1
done
python3-vt - <<'PY'
import json, jsonschema, glob
s = json.load(open('/root/.vp/EVIDENCE.schema.json'))
m = json.load(open('MANIFEST.json'))
jsonschema.validate(m, json.load(open('/root/.vp/MANIFEST.schema.json')))
for c in m['checks']:
    e = json.load(open(c['evidence_file']))
    jsonschema.validate(e, s)
    cov = e['coverage']
    assert cov['obligations'] == cov['discharged'] >= 1, (c['property_id'], cov['obligations'], cov['discharged'])
    assert e['violations'] == 0, c['property_id']
print('manifest + %d evidence files valid' % len(m['checks']))
PY
exit $fail
