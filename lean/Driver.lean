/-
  Correspondence driver: one model operation per input line, one output line per input line.
  `<model> <op> <args…>`; see harness/props/*.py for the per-model protocol.
-/
import NcVerif.Driver.CapsD
import NcVerif.Driver.FramingD
import NcVerif.Driver.SessionD
import NcVerif.Driver.RpcErrorD
import NcVerif.Driver.LockD
import NcVerif.Driver.OpsD
import NcVerif.Driver.IsoD
import NcVerif.Driver.ConnectD
import NcVerif.Driver.XmlD
import NcVerif.Driver.JunosD
import NcVerif.Driver.XmlDocD
import NcVerif.Driver.BuildersD
open NcVerif.Driver

structure DState where
  sess : SessD := {}

def stepLine (st : DState) (line : String) : DState × String :=
  match (line.trimAscii.toString.splitOn " ").filter (· ≠ "") with
  | "caps" :: rest => (st, capsCmd rest)
  | "fr" :: rest => (st, framingCmd rest)
  | "re" :: rest => (st, rpcErrorCmd rest)
  | "lk" :: rest => (st, lockCmd rest)
  | "ops" :: rest => (st, opsCmd rest)
  | "iso" :: rest => (st, isoCmd rest)
  | "cn" :: rest => (st, connectCmd rest)
  | "xm" :: rest => (st, xmlCmd rest)
  | "js" :: rest => (st, junosCmd rest)
  | "xt" :: rest => (st, xmlTextCmd rest)
  | "xd" :: rest => (st, xmlDocCmd rest)
  | "bd" :: rest => (st, buildersCmd rest)
  | "ss" :: rest => let (s', out) := sessionCmd st.sess rest; ({ st with sess := s' }, out)
  | _ => (st, "bad-model")

partial def loop (h : IO.FS.Stream) (out : IO.FS.Stream) (st : DState) : IO Unit := do
  let line ← h.getLine
  if line.isEmpty then return ()
  let (st', o) := stepLine st line
  out.putStrLn o
  loop h out st'

def main : IO Unit := do
  let out ← IO.getStdout
  loop (← IO.getStdin) out {}
  out.flush
