/-
  Correspondence driver: one model operation per input line, one output line per input line.
  `<model> <op> <args…>`; see harness/props/*.py for the per-model protocol.
-/
import NcVerif.Driver.CapsD
open NcVerif.Driver

def stepLine (line : String) : String :=
  match (line.trimAscii.toString.splitOn " ").filter (· ≠ "") with
  | "caps" :: rest => capsCmd rest
  | _ => "bad-model"

partial def loop (h : IO.FS.Stream) (out : IO.FS.Stream) : IO Unit := do
  let line ← h.getLine
  if line.isEmpty then return ()
  out.putStrLn (stepLine line)
  loop h out

def main : IO Unit := do
  let out ← IO.getStdout
  loop (← IO.getStdin) out
  out.flush
