/- Helper lemmas about Model/Retrieve: what is built is a well-formed tree; a successful build implies the capability
   checks of its branch and that the with-defaults mode passed the server's own list. -/
import NcVerif.Model.Retrieve
import NcVerif.Proofs.Builders
namespace NcVerif.RetrieveP
open NcVerif NcVerif.XmlDoc NcVerif.XmlText NcVerif.Builders NcVerif.BuildersP NcVerif.XmlDocP NcVerif.Retrieve

/-- The caller's own trees inside a filter are well-formed elements. -/
def FilterGood : Option Filter → Prop
  | some (.subtree c) => Good c
  | some (.subtrees cs) => ∀ c ∈ cs, Good c
  | some (.element e) => Good e
  | _ => True

theorem filterPart_ok (f : Option Filter) (l : List XNode) (hf : FilterGood f) (h : filterPart f = .ok l) : ∀ c ∈ l, Good c := by
  match f, hf, h with
  | none, _, h => simp only [filterPart, pure, Except.pure] at h; injection h with h; subst h; intro c hc; cases hc
  | some (.xpath sel), _, h =>
    simp only [filterPart] at h
    split at h
    · simp only [pure, Except.pure] at h; injection h with h; subst h
      intro c hc; simp at hc; subst hc
      refine ⟨?_, rfl⟩
      have h1 : validName (nc "filter") = true := by decide
      have h2 : validName (s "type") = true := by decide
      have h3 : validName (s "select") = true := by decide
      have h4 : [s "type", s "select"].Nodup := by decide
      simp [wf, wfList, h1, h2, h3, h4]
    · cases h
  | some (.subtree c), hf, h =>
    simp only [filterPart, pure, Except.pure] at h; injection h with h; subst h
    intro x hx; simp at hx; subst hx
    have hl : wfList [c] = true := wfList_elems [c] (by intro y hy; simp at hy; subst hy; exact hf)
    refine ⟨?_, rfl⟩
    simp only [wf, hl, Bool.and_true]
    decide
  | some (.subtrees cs), hf, h =>
    simp only [filterPart, pure, Except.pure] at h; injection h with h; subst h
    intro x hx; simp at hx; subst hx
    have hl : wfList cs = true := wfList_elems cs hf
    refine ⟨?_, rfl⟩
    simp only [wf, hl, Bool.and_true]
    decide
  | some (.other t), _, h => simp only [filterPart] at h; cases h
  | some (.element e), hf, h =>
    simp only [filterPart] at h
    split at h
    · simp only [pure, Except.pure] at h; injection h with h; subst h
      intro x hx; simp at hx; subst hx; exact hf
    · cases h

theorem nsLeaf_good (ns : Str) (name : String) (t : Str) (x : XNode) (hn : validName (s "ns0:" ++ s name) = true)
    (h : nsLeaf ns name t = .ok x) : Good x ∧ ∃ a cs, x = .elem (s "ns0:" ++ s name) a cs ∧ wfList cs = true := by
  unfold nsLeaf at h
  split at h
  · injection h with h; subst h
    have hx : validName (s "xmlns:ns0") = true := by decide
    by_cases he : t.isEmpty = true
    · refine ⟨?_, _, _, rfl, by simp [he, wfList]⟩
      simp [he, Good, wf, wfList, hn, hx, isText]
    · have he' : t.isEmpty = false := by simpa using he
      refine ⟨?_, _, _, rfl, by simp [he', wfList, wf]⟩
      simp [he', Good, wf, wfList, hn, hx, isText]
  · cases h

theorem withDefaultsPart_ok (caps : Caps.Caps) (wd : Option Str) (l : List XNode) (h : withDefaultsPart caps wd = .ok l) :
    (∀ c ∈ l, Good c) ∧ ∀ mode, wd = some mode → Ops.withDefaultsGate caps mode = none := by
  cases wd with
  | none =>
    simp only [withDefaultsPart, pure, Except.pure] at h; injection h with h; subst h
    exact ⟨(by intro c hc; cases hc), (by intro m hm; cases hm)⟩
  | some mode =>
    simp only [withDefaultsPart] at h
    split at h
    · cases h
    · cases h
    · rename_i hg
      obtain ⟨x, hx, h⟩ := bind_ok h
      injection h with h; subst h
      refine ⟨?_, ?_⟩
      · intro c hc; simp at hc; subst hc
        exact (nsLeaf_good wdNs "with-defaults" mode c (by decide) hx).1
      · intro m hm; injection hm with hm; subst hm; exact hg

theorem nsOpt_ok (name : String) (o : Option Str) (l : List XNode) (hn : validName (s "ns0:" ++ s name) = true)
    (h : nsOpt name o = .ok l) : ∀ c ∈ l, Good c := by
  cases o with
  | none => simp only [nsOpt, pure, Except.pure] at h; injection h with h; subst h; intro c hc; cases hc
  | some t =>
    simp only [nsOpt] at h
    obtain ⟨x, hx, h⟩ := bind_ok h
    obtain ⟨_, a, cs, hxe, hcs⟩ := nsLeaf_good notifNs name t x hn hx
    subst hxe
    injection h with h; subst h
    intro c hc; simp at hc; subst hc
    simp [Good, wf, hn, hcs, isText]

theorem sourcePart_ok (caps : Caps.Caps) (src : Option Str) (l : List XNode) (h : sourcePart caps src = .ok l) :
    (∀ c ∈ l, Good c) ∧ ∀ cap ∈ optUrlCap src, has caps (s cap) = true := by
  cases src with
  | none =>
    simp only [sourcePart, pure, Except.pure] at h; injection h with h; subst h
    exact ⟨(by intro c hc; cases hc), (by intro c hc; cases hc)⟩
  | some loc =>
    simp only [sourcePart] at h
    obtain ⟨x, hx, h⟩ := bind_ok h
    injection h with h; subst h
    obtain ⟨hg, hu, _⟩ := datastoreOrUrl_good (has caps) "source" loc x (by decide) hx
    exact ⟨by intro c hc; simp at hc; subst hc; exact hg, urlCap_mem (fun hh => (hu hh).1)⟩

theorem good_append {a b : List XNode} (ha : ∀ c ∈ a, Good c) (hb : ∀ c ∈ b, Good c) : ∀ c ∈ a ++ b, Good c := by
  intro c hc; rw [List.mem_append] at hc; rcases hc with hc | hc
  · exact ha c hc
  · exact hb c hc

theorem pfxLeaf_good (pfx name : String) (t : Str) (x : XNode) (hn : validName (s pfx ++ s name) = true) (h : pfxLeaf pfx name t = .ok x) : Good x := by
  unfold pfxLeaf at h
  split at h
  · injection h with h; subst h
    by_cases he : t.isEmpty = true
    · simp [he, Good, wf, wfList, hn, isText]
    · have he' : t.isEmpty = false := by simpa using he
      simp [he', Good, wf, wfList, hn, isText]
  · cases h

theorem optPfxLeaf_ok (pfx name : String) (o : Option Str) (l : List XNode) (hn : validName (s pfx ++ s name) = true)
    (h : optPfxLeaf pfx name o = .ok l) : ∀ c ∈ l, Good c := by
  cases o with
  | none => simp only [optPfxLeaf, pure, Except.pure] at h; injection h with h; subst h; intro c hc; cases hc
  | some t =>
    simp only [optPfxLeaf] at h
    obtain ⟨x, hx, h⟩ := bind_ok h
    injection h with h; subst h
    intro c hc; simp at hc; subst hc
    exact pfxLeaf_good pfx name t c hn hx

theorem configElPart_ok (o : Option XNode) (l : List XNode) (hg : ∀ c, o = some c → Good c) (h : configElPart o = .ok l) : ∀ c ∈ l, Good c := by
  cases o with
  | none => simp only [configElPart, pure, Except.pure] at h; injection h with h; subst h; intro c hc; cases hc
  | some c =>
    simp only [configElPart] at h
    split at h
    · simp only [pure, Except.pure] at h; injection h with h; subst h
      intro x hx; simp at hx; rw [hx]; exact hg c rfl
    · cases h

theorem targetPart_ok (caps : Caps.Caps) (t : Option Str) (l : List XNode) (h : targetPart caps t = .ok l) :
    (∀ c ∈ l, Good c) ∧ ∀ cap ∈ optUrlCap t, has caps (s cap) = true := by
  cases t with
  | none =>
    simp only [targetPart, pure, Except.pure] at h; injection h with h; subst h
    exact ⟨(by intro c hc; cases hc), (by intro c hc; cases hc)⟩
  | some loc =>
    simp only [targetPart] at h
    obtain ⟨x, hx, h⟩ := bind_ok h
    injection h with h; subst h
    obtain ⟨hg, hu, _⟩ := datastoreOrUrl_good (has caps) "target" loc x (by decide) hx
    exact ⟨by intro c hc; simp at hc; subst hc; exact hg, urlCap_mem (fun hh => (hu hh).1)⟩

theorem gate_has (caps : Caps.Caps) (mode : Str) (h : Ops.withDefaultsGate caps mode = none) : has caps (s ":with-defaults") = true := by
  unfold Ops.withDefaultsGate at h
  split at h
  · cases h
  · rename_i hc
    have : Caps.contains caps Ops.kWithDefaults = true := by simpa using hc
    exact this

/-- Every retrieval call that is built is a well-formed element; every documented dependency of its arguments holds; and
    a with-defaults mode passed the validation against the modes the server's capability URI lists. -/
theorem build_ok (caps : Caps.Caps) (call : Retrieve.Call) (t : XNode) (hf : FilterGood (filterOf call))
    (he : ∀ e ∈ elemArgs call, Good e) (h : Retrieve.build caps call = .ok t) :
    Good t ∧ (∀ cap ∈ Retrieve.required call, has caps (s cap) = true) ∧ ∀ mode, wdOf call = some mode → Ops.withDefaultsGate caps mode = none := by
  cases call with
  | getSchema i v f =>
    unfold Retrieve.build getSchema at h
    obtain ⟨x, hx, h⟩ := bind_ok h
    obtain ⟨vl, hvl, h⟩ := bind_ok h
    obtain ⟨fl, hfl, h⟩ := bind_ok h
    injection h with h; subst h
    have hl : wfList ([x] ++ vl ++ fl) = true := wfList_elems _
      (good_append (good_append (by intro c hc; simp at hc; subst hc; exact pfxLeaf_good "ncm:" "identifier" i c (by decide) hx)
        (optPfxLeaf_ok "ncm:" "version" v vl (by decide) hvl)) (optPfxLeaf_ok "ncm:" "format" f fl (by decide) hfl))
    refine ⟨⟨?_, rfl⟩, (by intro cap hc; cases hc), (by intro m hm; cases hm)⟩
    simp only [wf, hl, Bool.and_true]
    decide
  | rpc cmd tg src f cfg =>
    unfold Retrieve.build genericRpc at h
    obtain ⟨root, hr, h⟩ := bind_ok h
    obtain ⟨tl, htl, h⟩ := bind_ok h
    obtain ⟨sl, hsl, h⟩ := bind_ok h
    obtain ⟨fl, hfl, h⟩ := bind_ok h
    obtain ⟨cl, hcl, h⟩ := bind_ok h
    obtain ⟨_, hre, hv⟩ := named_good cmd root hr
    subst hre
    injection h with h; subst h
    obtain ⟨htg, htc⟩ := targetPart_ok caps tg tl htl
    obtain ⟨hsg, hsc⟩ := sourcePart_ok caps src sl hsl
    have hcg := configElPart_ok cfg cl (by intro c hc; subst hc; exact he c (by simp [elemArgs])) hcl
    have hl : wfList (tl ++ sl ++ fl ++ cl) = true := wfList_elems _
      (good_append (good_append (good_append htg hsg) (filterPart_ok f fl hf hfl)) hcg)
    refine ⟨?_, ?_, (by intro m hm; cases hm)⟩
    · have hl' : wfList (tl ++ (sl ++ (fl ++ cl))) = true := by simpa [List.append_assoc] using hl
      simp [Good, wf, hl', isText, validName_nc_of cmd hv]
    · intro cap hcap
      simp only [Retrieve.required, List.mem_append] at hcap
      rcases hcap with hcap | hcap
      · exact htc cap hcap
      · exact hsc cap hcap
  | poweroff =>
    unfold Retrieve.build power at h
    obtain ⟨_, ha, h⟩ := bind_ok h
    injection h with h; subst h
    refine ⟨⟨by decide, rfl⟩, ?_, (by intro m hm; cases hm)⟩
    intro cap hcap
    simp only [Retrieve.required, List.mem_singleton] at hcap
    subst hcap; exact assert_ok ha
  | reboot =>
    unfold Retrieve.build power at h
    obtain ⟨_, ha, h⟩ := bind_ok h
    injection h with h; subst h
    refine ⟨⟨by decide, rfl⟩, ?_, (by intro m hm; cases hm)⟩
    intro cap hcap
    simp only [Retrieve.required, List.mem_singleton] at hcap
    subst hcap; exact assert_ok ha
  | validateEl cfg =>
    unfold Retrieve.build validateEl at h
    obtain ⟨_, ha, h⟩ := bind_ok h
    split at h
    · simp only [pure, Except.pure] at h; injection h with h; subst h
      have hc : Good cfg := he cfg (by simp [elemArgs])
      refine ⟨el_good "validate" _ (by decide) (by intro c hcm; simp at hcm; subst hcm; exact el_good "source" [cfg] (by decide) (by intro d hd; simp at hd; subst hd; exact hc)),
        ?_, (by intro m hm; cases hm)⟩
      intro cap hcap
      simp only [Retrieve.required, List.mem_singleton] at hcap
      subst hcap; exact assert_ok ha
    · cases h
  | copyEl tg srcEl =>
    unfold Retrieve.build copyConfigEl at h
    obtain ⟨x, hx, h⟩ := bind_ok h
    split at h
    · simp only [pure, Except.pure] at h; injection h with h; subst h
      obtain ⟨hg, hu, _⟩ := datastoreOrUrl_good (has caps) "target" tg x (by decide) hx
      have hs : Good srcEl := he srcEl (by simp [elemArgs])
      refine ⟨el_good "copy-config" _ (by decide) (by intro c hcm; simp at hcm; rcases hcm with hcm | hcm <;> subst hcm <;> assumption),
        urlCap_mem (fun hh => (hu hh).1), (by intro m hm; cases hm)⟩
    · cases h
  | get f w =>
    unfold Retrieve.build Retrieve.get at h
    obtain ⟨fl, hfl, h⟩ := bind_ok h
    obtain ⟨wl, hwl, h⟩ := bind_ok h
    injection h with h; subst h
    obtain ⟨hwg, hwm⟩ := withDefaultsPart_ok caps w wl hwl
    refine ⟨el_good "get" _ (by decide) (good_append (filterPart_ok f fl hf hfl) hwg), ?_, hwm⟩
    intro cap hcap
    simp only [Retrieve.required] at hcap
    split at hcap
    · rename_i hs
      simp only [List.mem_singleton] at hcap; subst hcap
      obtain ⟨mode, hm⟩ := Option.isSome_iff_exists.mp hs
      exact gate_has caps mode (hwm mode hm)
    · cases hcap
  | getConfig src f w =>
    unfold Retrieve.build Retrieve.getConfig at h
    obtain ⟨x, hx, h⟩ := bind_ok h
    obtain ⟨fl, hfl, h⟩ := bind_ok h
    obtain ⟨wl, hwl, h⟩ := bind_ok h
    injection h with h; subst h
    obtain ⟨hwg, hwm⟩ := withDefaultsPart_ok caps w wl hwl
    obtain ⟨hg, hu, _⟩ := datastoreOrUrl_good (has caps) "source" src x (by decide) hx
    refine ⟨el_good "get-config" _ (by decide) (good_append (good_append (by intro c hc; simp at hc; subst hc; exact hg) (filterPart_ok f fl hf hfl)) hwg), ?_, hwm⟩
    intro cap hcap
    simp only [Retrieve.required, List.mem_append] at hcap
    rcases hcap with hcap | hcap
    · exact urlCap_mem (fun hh => (hu hh).1) cap hcap
    · split at hcap
      · rename_i hs
        simp only [List.mem_singleton] at hcap; subst hcap
        obtain ⟨mode, hm⟩ := Option.isSome_iff_exists.mp hs
        exact gate_has caps mode (hwm mode hm)
      · cases hcap
  | dispatch cmd src f =>
    unfold Retrieve.build dispatch at h
    obtain ⟨root, hr, h⟩ := bind_ok h
    obtain ⟨sl, hsl, h⟩ := bind_ok h
    obtain ⟨fl, hfl, h⟩ := bind_ok h
    obtain ⟨_, hre, hv⟩ := named_good cmd root hr
    subst hre
    injection h with h; subst h
    obtain ⟨hsg, hsc⟩ := sourcePart_ok caps src sl hsl
    have hl : wfList (sl ++ fl) = true := wfList_elems _ (good_append hsg (filterPart_ok f fl hf hfl))
    refine ⟨?_, hsc, (by intro m hm; cases hm)⟩
    simp [Good, wf, hl, isText, validName_nc_of cmd hv]
  | subscribe f a b c =>
    unfold Retrieve.build createSubscription at h
    obtain ⟨_, ha, h⟩ := bind_ok h
    obtain ⟨fl, hfl, h⟩ := bind_ok h
    obtain ⟨l1, h1, h⟩ := bind_ok h
    obtain ⟨l2, h2, h⟩ := bind_ok h
    obtain ⟨_, _, h⟩ := bind_ok h
    obtain ⟨l3, h3, h⟩ := bind_ok h
    injection h with h; subst h
    have hl : wfList (fl ++ l1 ++ l2 ++ l3) = true := wfList_elems _
      (good_append (good_append (good_append (filterPart_ok f fl hf hfl) (nsOpt_ok "stream" a l1 (by decide) h1))
        (nsOpt_ok "startTime" b l2 (by decide) h2)) (nsOpt_ok "stopTime" c l3 (by decide) h3))
    refine ⟨?_, ?_, (by intro m hm; cases hm)⟩
    · refine ⟨?_, rfl⟩
      simp only [wf, hl, Bool.and_true]
      decide
    · intro cap hcap
      simp only [Retrieve.required, List.mem_singleton] at hcap
      subst hcap; exact assert_ok ha

/-! ### Parameter names and their order -/

def nameOf : XNode → Option Str
  | .elem n _ _ => some n
  | .text _ => none

def names (l : List XNode) : List Str := l.filterMap nameOf

theorem paramNames_elem (n : Str) (a : List (Str × Str)) (cs : List XNode) : paramNames (.elem n a cs) = names cs := by
  simp only [paramNames, names]
  induction cs with
  | nil => rfl
  | cons c rest ih =>
    cases c <;> simp [List.filterMap_cons, nameOf, ih]

theorem names_cons_of {x : XNode} {n : Str} (l : List XNode) (h : nameOf x = some n) : names (x :: l) = n :: names l := by
  simp [names, List.filterMap_cons, h]

theorem names_append (a b : List XNode) : names (a ++ b) = names a ++ names b := by
  simp [names, List.filterMap_append]

theorem filterPart_names (f : Option Filter) (l : List XNode) (h : filterPart f = .ok l) :
    (names l).Sublist [nc "filter", s "filter"] := by
  match f, h with
  | none, h => simp only [filterPart, pure, Except.pure] at h; injection h with h; subst h; simp [names]
  | some (.xpath sel), h =>
    simp only [filterPart] at h
    split at h
    · simp only [pure, Except.pure] at h; injection h with h; subst h; simp [names, nameOf]
    · cases h
  | some (.subtree c), h =>
    simp only [filterPart, pure, Except.pure] at h; injection h with h; subst h; simp [names, nameOf]
  | some (.subtrees cs), h =>
    simp only [filterPart, pure, Except.pure] at h; injection h with h; subst h; simp [names, nameOf]
  | some (.other t), h => simp only [filterPart] at h; cases h
  | some (.element e), h =>
    simp only [filterPart] at h
    split at h
    · rename_i hr
      simp only [pure, Except.pure] at h; injection h with h; subst h
      cases e with
      | text t => simp [rootIsFilter] at hr
      | elem n a cs =>
        simp only [rootIsFilter, Bool.or_eq_true, decide_eq_true_eq] at hr
        rcases hr with hr | hr <;> subst hr <;> simp [names, nameOf]
    · cases h

theorem withDefaultsPart_names (caps : Caps.Caps) (wd : Option Str) (l : List XNode) (h : withDefaultsPart caps wd = .ok l) :
    (names l).Sublist [s "ns0:with-defaults"] := by
  cases wd with
  | none => simp only [withDefaultsPart, pure, Except.pure] at h; injection h with h; subst h; simp [names]
  | some mode =>
    simp only [withDefaultsPart] at h
    split at h
    · cases h
    · cases h
    · obtain ⟨x, hx, h⟩ := bind_ok h
      injection h with h; subst h
      unfold nsLeaf at hx
      split at hx
      · injection hx with hx; subst hx; simp [names, nameOf, s]
      · cases hx

theorem ds_name (hasf : Str → Bool) (wha : String) (loc : Str) (x : XNode) (h : datastoreOrUrl hasf wha loc = .ok x) :
    nameOf x = some (nc wha) := by
  unfold datastoreOrUrl at h
  split at h
  · obtain ⟨_, _, h⟩ := bind_ok h
    obtain ⟨u, _, h⟩ := bind_ok h
    injection h with h; subst h; rfl
  · obtain ⟨d, _, h⟩ := bind_ok h
    injection h with h; subst h; rfl

theorem sourcePart_names (caps : Caps.Caps) (src : Option Str) (l : List XNode) (h : sourcePart caps src = .ok l) :
    (names l).Sublist [nc "source"] := by
  cases src with
  | none => simp only [sourcePart, pure, Except.pure] at h; injection h with h; subst h; simp [names]
  | some loc =>
    simp only [sourcePart] at h
    obtain ⟨x, hx, h⟩ := bind_ok h
    injection h with h; subst h
    simp [names, ds_name _ _ _ _ hx]

theorem targetPart_names (caps : Caps.Caps) (t : Option Str) (l : List XNode) (h : targetPart caps t = .ok l) :
    (names l).Sublist [nc "target"] := by
  cases t with
  | none => simp only [targetPart, pure, Except.pure] at h; injection h with h; subst h; simp [names]
  | some loc =>
    simp only [targetPart] at h
    obtain ⟨x, hx, h⟩ := bind_ok h
    injection h with h; subst h
    simp [names, ds_name _ _ _ _ hx]

theorem configElPart_names (o : Option XNode) (l : List XNode) (h : configElPart o = .ok l) :
    (names l).Sublist [nc "config", s "config"] := by
  cases o with
  | none => simp only [configElPart, pure, Except.pure] at h; injection h with h; subst h; simp [names]
  | some c =>
    simp only [configElPart] at h
    split at h
    · rename_i hr
      simp only [pure, Except.pure] at h; injection h with h; subst h
      cases c with
      | text t => simp [rootIsConfig] at hr
      | elem n a cs =>
        simp only [rootIsConfig, Bool.or_eq_true, decide_eq_true_eq] at hr
        rcases hr with hr | hr <;> subst hr <;> simp [names, nameOf]
    · cases h

theorem nsOpt_names (name : String) (o : Option Str) (l : List XNode) (h : nsOpt name o = .ok l) :
    (names l).Sublist [s "ns0:" ++ s name] := by
  cases o with
  | none => simp only [nsOpt, pure, Except.pure] at h; injection h with h; subst h; simp [names]
  | some t =>
    simp only [nsOpt] at h
    obtain ⟨x, hx, h⟩ := bind_ok h
    unfold nsLeaf at hx
    split at hx
    · injection hx with hx; subst hx
      simp only [pure, Except.pure] at h; injection h with h; subst h
      simp [names, nameOf]
    · cases hx

theorem pfxLeaf_name (pfx name : String) (t : Str) (x : XNode) (h : pfxLeaf pfx name t = .ok x) : nameOf x = some (s pfx ++ s name) := by
  unfold pfxLeaf at h
  split at h
  · injection h with h; subst h; rfl
  · cases h

theorem optPfxLeaf_names (pfx name : String) (o : Option Str) (l : List XNode) (h : optPfxLeaf pfx name o = .ok l) :
    (names l).Sublist [s pfx ++ s name] := by
  cases o with
  | none => simp only [optPfxLeaf, pure, Except.pure] at h; injection h with h; subst h; simp [names]
  | some t =>
    simp only [optPfxLeaf] at h
    obtain ⟨x, hx, h⟩ := bind_ok h
    injection h with h; subst h
    simp [names, pfxLeaf_name _ _ _ _ hx]

/-- The parameter elements RFC 6241 / 6243 / 5277 define for each retrieval call, in their order (both spellings of a
    caller-made `<filter>` / `<config>` root listed). -/
def rfcOrder : Retrieve.Call → List Str
  | .get _ _ => [nc "filter", s "filter", s "ns0:with-defaults"]
  | .getConfig _ _ _ => [nc "source", nc "filter", s "filter", s "ns0:with-defaults"]
  | .dispatch _ _ _ => [nc "source", nc "filter", s "filter"]
  | .rpc _ _ _ _ _ => [nc "target", nc "source", nc "filter", s "filter", nc "config", s "config"]
  | .subscribe _ _ _ _ => [nc "filter", s "filter", s "ns0:" ++ s "stream", s "ns0:" ++ s "startTime", s "ns0:" ++ s "stopTime"]
  | .getSchema _ _ _ => [s "ncm:" ++ s "identifier", s "ncm:" ++ s "version", s "ncm:" ++ s "format"]
  | .validateEl _ => [nc "source"]
  | .copyEl _ _ => [nc "target", nc "source", s "source"]
  | .poweroff => []
  | .reboot => []

/-- get / get-config / dispatch / rpc: whatever is built carries only parameter elements the protocol defines for that call,
    each at most once, in the protocol's order. -/
theorem parameter_order (caps : Caps.Caps) (call : Retrieve.Call) (t : XNode) (h : Retrieve.build caps call = .ok t) :
    (paramNames t).Sublist (rfcOrder call) := by
  cases call with
  | get f w =>
    unfold Retrieve.build Retrieve.get at h
    obtain ⟨fl, hfl, h⟩ := bind_ok h
    obtain ⟨wl, hwl, h⟩ := bind_ok h
    injection h with h; subst h
    simp only [el, paramNames_elem, names_append, rfcOrder]
    exact List.Sublist.append (filterPart_names f fl hfl) (withDefaultsPart_names caps w wl hwl)
  | getConfig src f w =>
    unfold Retrieve.build Retrieve.getConfig at h
    obtain ⟨x, hx, h⟩ := bind_ok h
    obtain ⟨fl, hfl, h⟩ := bind_ok h
    obtain ⟨wl, hwl, h⟩ := bind_ok h
    injection h with h; subst h
    simp only [el, paramNames_elem, names_append, rfcOrder]
    have hx' : names [x] = [nc "source"] := by simp [names, ds_name _ _ _ _ hx]
    rw [hx']
    exact List.Sublist.append (List.Sublist.append (List.Sublist.refl _) (filterPart_names f fl hfl)) (withDefaultsPart_names caps w wl hwl)
  | dispatch cmd src f =>
    unfold Retrieve.build dispatch at h
    obtain ⟨root, hr, h⟩ := bind_ok h
    obtain ⟨sl, hsl, h⟩ := bind_ok h
    obtain ⟨fl, hfl, h⟩ := bind_ok h
    obtain ⟨_, hre, _⟩ := named_good cmd root hr
    subst hre
    injection h with h; subst h
    simp only [paramNames_elem, names_append, rfcOrder]
    exact List.Sublist.append (sourcePart_names caps src sl hsl) (filterPart_names f fl hfl)
  | rpc cmd tg src f cfg =>
    unfold Retrieve.build genericRpc at h
    obtain ⟨root, hr, h⟩ := bind_ok h
    obtain ⟨tl, htl, h⟩ := bind_ok h
    obtain ⟨sl, hsl, h⟩ := bind_ok h
    obtain ⟨fl, hfl, h⟩ := bind_ok h
    obtain ⟨cl, hcl, h⟩ := bind_ok h
    obtain ⟨_, hre, _⟩ := named_good cmd root hr
    subst hre
    injection h with h; subst h
    simp only [paramNames_elem, names_append, rfcOrder]
    have := List.Sublist.append (List.Sublist.append (List.Sublist.append (targetPart_names caps tg tl htl) (sourcePart_names caps src sl hsl))
      (filterPart_names f fl hfl)) (configElPart_names cfg cl hcl)
    simpa [List.append_assoc] using this
  | getSchema i v f =>
    unfold Retrieve.build getSchema at h
    obtain ⟨x, hx, h⟩ := bind_ok h
    obtain ⟨vl, hvl, h⟩ := bind_ok h
    obtain ⟨fl, hfl, h⟩ := bind_ok h
    injection h with h; subst h
    simp only [paramNames_elem, names_append, rfcOrder]
    have hx' : names [x] = [s "ncm:" ++ s "identifier"] := by simp [names, pfxLeaf_name _ _ _ _ hx]
    rw [hx']
    exact List.Sublist.append (List.Sublist.append (List.Sublist.refl _) (optPfxLeaf_names _ _ v vl hvl)) (optPfxLeaf_names _ _ f fl hfl)
  | poweroff =>
    unfold Retrieve.build power at h
    obtain ⟨_, _, h⟩ := bind_ok h
    injection h with h; subst h
    simp [paramNames_elem, names, rfcOrder]
  | reboot =>
    unfold Retrieve.build power at h
    obtain ⟨_, _, h⟩ := bind_ok h
    injection h with h; subst h
    simp [paramNames_elem, names, rfcOrder]
  | validateEl cfg =>
    unfold Retrieve.build validateEl at h
    obtain ⟨_, _, h⟩ := bind_ok h
    split at h
    · simp only [pure, Except.pure] at h; injection h with h; subst h
      simp [el, paramNames_elem, names, nameOf, rfcOrder]
    · cases h
  | copyEl tg srcEl =>
    unfold Retrieve.build copyConfigEl at h
    obtain ⟨x, hx, h⟩ := bind_ok h
    split at h
    · rename_i hr
      simp only [pure, Except.pure] at h; injection h with h; subst h
      cases srcEl with
      | text t => simp [rootIsSource] at hr
      | elem n a cs =>
        simp only [rootIsSource, Bool.or_eq_true, decide_eq_true_eq] at hr
        have hx' : nameOf x = some (nc "target") := ds_name _ _ _ _ hx
        rcases hr with hr | hr <;> subst hr
        · simp only [el, paramNames_elem, rfcOrder]
          rw [names_cons_of _ hx', names_cons_of (n := nc "source") _ rfl]
          simp [names]
        · simp only [el, paramNames_elem, rfcOrder]
          rw [names_cons_of _ hx', names_cons_of (n := s "source") _ rfl]
          simp [names]
    · cases h
  | subscribe f a b c =>
    unfold Retrieve.build createSubscription at h
    obtain ⟨_, _, h⟩ := bind_ok h
    obtain ⟨fl, hfl, h⟩ := bind_ok h
    obtain ⟨l1, h1, h⟩ := bind_ok h
    obtain ⟨l2, h2, h⟩ := bind_ok h
    obtain ⟨_, _, h⟩ := bind_ok h
    obtain ⟨l3, h3, h⟩ := bind_ok h
    injection h with h; subst h
    simp only [paramNames_elem, names_append, rfcOrder]
    have := List.Sublist.append (List.Sublist.append (List.Sublist.append (filterPart_names f fl hfl) (nsOpt_names "stream" a l1 h1))
      (nsOpt_names "startTime" b l2 h2)) (nsOpt_names "stopTime" c l3 h3)
    simpa [List.append_assoc] using this

end NcVerif.RetrieveP
