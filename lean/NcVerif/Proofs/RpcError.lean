/-
  Helper lemmas about Model/RpcError (pattern tables, exemption, raise decision).
-/
import NcVerif.Model.RpcError
namespace NcVerif.RpcErrorP
open NcVerif NcVerif.RpcError

/-! ### Sub-list tests as append forms -/

theorem hasSub_iff {α} [BEq α] [LawfulBEq α] (p s : List α) :
    hasSub p s = true ↔ ∃ a b, s = a ++ p ++ b := by
  induction s with
  | nil =>
    cases p with
    | nil => simp [hasSub]
    | cons y ys => simp [hasSub]
  | cons x xs ih =>
    simp only [hasSub, Bool.or_eq_true, ih, List.isPrefixOf_iff_prefix]
    constructor
    · rintro (⟨b, hb⟩ | ⟨a, b, h⟩)
      · exact ⟨[], b, by simpa using hb.symm⟩
      · exact ⟨x :: a, b, by simp [h]⟩
    · rintro ⟨a, b, h⟩
      cases a with
      | nil => exact Or.inl ⟨b, by simpa using h.symm⟩
      | cons y a =>
        simp only [List.cons_append, List.cons.injEq] at h
        exact Or.inr ⟨a, b, h.2⟩

theorem isSuffixOf_iff {α} [BEq α] [LawfulBEq α] (p s : List α) :
    p.isSuffixOf s = true ↔ ∃ a, s = a ++ p := by
  rw [List.isSuffixOf_iff_suffix]
  exact ⟨fun ⟨a, h⟩ => ⟨a, h.symm⟩, fun ⟨a, h⟩ => ⟨a, h.symm⟩⟩

theorem isPrefixOf_iff {α} [BEq α] [LawfulBEq α] (p s : List α) :
    p.isPrefixOf s = true ↔ ∃ b, s = p ++ b := by
  rw [List.isPrefixOf_iff_prefix]
  exact ⟨fun ⟨a, h⟩ => ⟨a, h.symm⟩, fun ⟨a, h⟩ => ⟨a, h.symm⟩⟩

theorem suffix_iff {α} (p s : List α) : p <:+ s ↔ ∃ a, s = a ++ p :=
  ⟨fun ⟨a, h⟩ => ⟨a, h.symm⟩, fun ⟨a, h⟩ => ⟨a, h.symm⟩⟩

theorem prefix_iff {α} (p s : List α) : p <+: s ↔ ∃ b, s = p ++ b :=
  ⟨fun ⟨a, h⟩ => ⟨a, h.symm⟩, fun ⟨a, h⟩ => ⟨a, h.symm⟩⟩

/-! ### Exemption tables -/

/-- Copy of `C06.Matches` (that file imports this one); definitionally the same. -/
def Matches (pat : Str) (text : Str) : Prop :=
  let p := lowerAscii pat
  if p.head? = some '*' ∧ p.getLast? = some '*' then ∃ a b, text = a ++ dropLast (p.drop 1) ++ b
  else if p.head? = some '*' then ∃ a, text = a ++ p.drop 1
  else if p.getLast? = some '*' then ∃ b, text = dropLast p ++ b
  else text = p

def textOf (msg : Option Str) : Str :=
  match msg with | some m => pyStrip (lowerAscii m) | none => noErrorGiven

theorem isExempt_eq (p : Patterns) (msg : Option Str) :
    isExempt p msg =
      (p.exact.any (fun ex => decide (textOf msg = ex)) ||
       p.startWild.any (fun ex => ex.isSuffixOf (textOf msg)) ||
       p.endWild.any (fun ex => ex.isPrefixOf (textOf msg)) ||
       p.fullWild.any (fun ex => hasSub ex (textOf msg))) := by
  cases msg <;> rfl

theorem isExempt_empty (msg : Option Str) : isExempt {} msg = false := by
  simp [isExempt_eq]

theorem isExempt_addPattern (acc : Patterns) (raw : Str) (msg : Option Str) :
    isExempt (addPattern acc raw) msg = (isExempt acc msg || isExempt (addPattern {} raw) msg) := by
  simp only [isExempt_eq, addPattern]
  split
  · split <;> simp [List.any_append, Bool.or_assoc, Bool.or_comm, Bool.or_left_comm]
  · split <;> simp [List.any_append, Bool.or_assoc, Bool.or_comm, Bool.or_left_comm]

theorem isExempt_foldl (pats : List Str) (acc : Patterns) (msg : Option Str) :
    isExempt (pats.foldl addPattern acc) msg =
      (isExempt acc msg || pats.any (fun p => isExempt (addPattern {} p) msg)) := by
  induction pats generalizing acc with
  | nil => simp
  | cons p ps ih => rw [List.foldl_cons, ih, isExempt_addPattern, List.any_cons, Bool.or_assoc]

theorem isExempt_single (raw : Str) (msg : Option Str) :
    isExempt (addPattern {} raw) msg = true ↔ Matches raw (textOf msg) := by
  simp only [isExempt_eq, addPattern, Matches]
  by_cases h1 : (lowerAscii raw).head? = some '*' <;> by_cases h2 : (lowerAscii raw).getLast? = some '*'
    <;> simp [h1, h2, hasSub_iff, suffix_iff, prefix_iff]

theorem exempt_spec (pats : List Str) (msg : Option Str) :
    isExempt (mkPatterns pats) msg = true ↔ ∃ p ∈ pats, Matches p (textOf msg) := by
  simp only [mkPatterns, isExempt_foldl, isExempt_empty, Bool.false_or, List.any_eq_true,
    isExempt_single]

/-! ### Raise decision -/

theorem raises_isSome (mode : Mode) (p : Patterns) (errs : List Err) :
    (raises mode p ⟨false, errs⟩).isSome = true ↔
      ∃ e ∈ errs, isExempt p e.message = false ∧
        (mode = .all ∨ (mode = .errors ∧
          ∃ e' ∈ errs, isExempt p e'.message = false ∧ e'.severity = some sevError)) := by
  have hne : ∀ l : List Err, (!l.isEmpty) = true ↔ ∃ e, e ∈ l := by
    intro l; cases l <;> simp
  have hsome : ∀ es : List Err, (match es with
      | [e] => some (Raised.single e)
      | _ => some (Raised.aggregate es (aggregateSeverity es))).isSome = true := by
    intro es; split <;> rfl
  unfold raises errors
  simp only [Bool.false_eq_true, if_false]
  split
  · rename_i hc
    simp only [Bool.and_eq_true, Bool.or_eq_true, decide_eq_true_eq, hne, List.mem_filter,
      List.any_eq_true, Bool.not_eq_true'] at hc
    obtain ⟨⟨e, he, hex⟩, hm⟩ := hc
    refine ⟨fun _ => ⟨e, he, hex, ?_⟩, fun _ => hsome errs⟩
    rcases hm with hm | ⟨hm, e', ⟨he', hex'⟩, hs⟩
    · exact Or.inl hm
    · exact Or.inr ⟨hm, e', he', hex', hs⟩
  · rename_i hc
    simp only [Bool.and_eq_true, Bool.or_eq_true, decide_eq_true_eq, hne, List.mem_filter,
      List.any_eq_true, Bool.not_eq_true'] at hc
    simp only [Option.isSome_none, Bool.false_eq_true, false_iff]
    rintro ⟨e, he, hex, hm⟩
    apply hc
    refine ⟨⟨e, he, hex⟩, ?_⟩
    rcases hm with hm | ⟨hm, e', he', hex', hs⟩
    · exact Or.inl hm
    · exact Or.inr ⟨hm, e', ⟨he', hex'⟩, hs⟩

theorem raises_isSome_no_exempt (mode : Mode) (p : Patterns) (errs : List Err)
    (h : ∀ e ∈ errs, isExempt p e.message = false) :
    (raises mode p ⟨false, errs⟩).isSome = true ↔
      (mode = .all ∧ errs ≠ []) ∨ (mode = .errors ∧ ∃ e ∈ errs, e.severity = some sevError) := by
  rw [raises_isSome]
  constructor
  · rintro ⟨e, he, _, hm | ⟨hm, e', he', _, hs⟩⟩
    · exact Or.inl ⟨hm, List.ne_nil_of_mem he⟩
    · exact Or.inr ⟨hm, e', he', hs⟩
  · rintro (⟨hm, hne⟩ | ⟨hm, e, he, hs⟩)
    · obtain ⟨e, he⟩ := List.exists_mem_of_ne_nil _ hne
      exact ⟨e, he, h e he, Or.inl hm⟩
    · exact ⟨e, he, h e he, Or.inr ⟨hm, e, he, h e he, hs⟩⟩

theorem raises_all_exempt (mode : Mode) (p : Patterns) (errs : List Err)
    (h : ∀ e ∈ errs, isExempt p e.message = true) : raises mode p ⟨false, errs⟩ = none := by
  cases hr : raises mode p ⟨false, errs⟩ with
  | none => rfl
  | some x =>
    obtain ⟨e, he, hex, _⟩ := (raises_isSome mode p errs).1 (by rw [hr]; rfl)
    rw [h e he] at hex; cases hex

theorem raises_none_mode (p : Patterns) (r : Reply) : raises .none p r = none := by
  simp [raises]

theorem raises_single (mode : Mode) (p : Patterns) (e : Err) (x : Raised)
    (h : raises mode p ⟨false, [e]⟩ = some x) : x = .single e := by
  unfold raises errors at h
  simp only [Bool.false_eq_true, if_false] at h
  split at h
  · exact (Option.some.inj h).symm
  · cases h

theorem sevWarning_ne : sevWarning ≠ sevError := by decide

theorem raises_aggregate (mode : Mode) (p : Patterns) (errs : List Err) (x : Raised)
    (hl : errs.length ≥ 2) (h : raises mode p ⟨false, errs⟩ = some x) :
    ∃ sev, x = .aggregate errs sev ∧ (sev = sevError ↔ ∃ e ∈ errs, e.severity = some sevError) ∧
      (sev = sevError ∨ sev = sevWarning) := by
  unfold raises errors at h
  simp only [Bool.false_eq_true, if_false] at h
  split at h
  · split at h
    · simp at hl
    · refine ⟨aggregateSeverity errs, (Option.some.inj h).symm, ?_, ?_⟩
      · unfold aggregateSeverity
        split
        · rename_i ha
          simpa using ha
        · rename_i ha
          simp only [List.any_eq_true, decide_eq_true_eq] at ha
          exact ⟨fun hw => absurd hw sevWarning_ne, fun hx => absurd hx ha⟩
      · unfold aggregateSeverity
        split
        · exact Or.inl rfl
        · exact Or.inr rfl
  · cases h

end NcVerif.RpcErrorP
