/- Helper lemmas about Model/XmlDoc: the reader inverts the serialiser on well-formed trees. -/
import NcVerif.Model.XmlDoc
import NcVerif.Proofs.XmlText
namespace NcVerif.XmlDocP
open NcVerif NcVerif.XmlText NcVerif.XmlDoc NcVerif.XmlTextP

/-! ### Names -/

theorem takeWhile_append_stop {p : Char → Bool} (n : Str) (c : Char) (r : Str)
    (hn : ∀ x ∈ n, p x = true) (hc : p c = false) :
    (n ++ c :: r).takeWhile p = n ∧ (n ++ c :: r).dropWhile p = c :: r := by
  induction n with
  | nil => simp [hc]
  | cons x xs ih =>
    have hx : p x = true := hn x List.mem_cons_self
    have := ih (fun y hy => hn y (List.mem_cons_of_mem _ hy))
    simp [hx, this.1, this.2]

theorem takeName_append (n : Str) (c : Char) (r : Str)
    (hn : ∀ x ∈ n, isNameChar x = true) (hc : isNameChar c = false) :
    takeName (n ++ c :: r) = (n, c :: r) := by
  unfold takeName
  have := takeWhile_append_stop (p := isNameChar) n c r hn hc
  rw [this.1, this.2]

theorem validName_all {n : Str} (h : validName n = true) : ∀ x ∈ n, isNameChar x = true := by
  match n, h with
  | c :: cs, h =>
    unfold validName at h
    rw [Bool.and_eq_true] at h
    intro x hx
    rw [List.mem_cons] at hx
    rcases hx with hx | hx
    · subst hx
      have h1 := h.1
      unfold isNameStart at h1
      unfold isNameChar
      rw [Bool.or_eq_true] at h1
      rcases h1 with h1 | h1
      · have : x.isAlphanum = true := by
          unfold Char.isAlphanum; rw [h1]; rfl
        simp [this]
      · simp at h1; subst h1; decide
    · exact List.all_eq_true.1 h.2 x hx

theorem validName_ne_nil {n : Str} (h : validName n = true) : n ≠ [] := by
  intro hn; subst hn; simp [validName] at h

/-! ### Character data followed by markup or the end -/

theorem readChars_escTextChar (c : Char) (r : Str) (fuel : Nat) :
    readChars (fuel + 1) (escTextChar c ++ r) = (readChars fuel r).map fun p => (c :: p.1, p.2) := by
  unfold escTextChar
  split
  · subst c; simp [amp, readChars, readRef]
  · split
    · subst c; simp [lt, readChars, readRef]
    · split
      · subst c; simp [gt, readChars, readRef]
      · split
        · subst c; simp [cr, readChars, readRef]
        · simp [readChars, *]

/-- `stop` is where character data ends: the end of input or a `<`. -/
def Stop (stop : Str) : Prop := stop = [] ∨ ∃ r, stop = '<' :: r

theorem readChars_stop {stop : Str} (h : Stop stop) (fuel : Nat) : readChars (fuel + 1) stop = some ([], stop) := by
  rcases h with h | ⟨r, h⟩ <;> subst h <;> simp [readChars]

theorem readChars_escapeText (s stop : Str) (hs : Stop stop) :
    ∀ fuel, fuel ≥ (escapeText s).length + 1 → readChars fuel (escapeText s ++ stop) = some (s, stop) := by
  induction s with
  | nil =>
    intro fuel h
    match fuel, h with
    | fuel + 1, _ => rw [escapeText_nil, List.nil_append, readChars_stop hs]
  | cons c s ih =>
    intro fuel h
    rw [escapeText_cons, List.length_append] at h
    have hpos := escTextChar_length_pos c
    match fuel, h with
    | fuel + 1, h =>
      rw [escapeText_cons, List.append_assoc, readChars_escTextChar, ih fuel (by omega)]
      rfl

/-- Escaped non-empty text starts with a character that is not `<`. -/
theorem escTextChar_head (c : Char) : ∃ d tl, escTextChar c = d :: tl ∧ d ≠ '<' := by
  unfold escTextChar
  split
  · exact ⟨'&', _, rfl, by decide⟩
  · split
    · exact ⟨'&', _, rfl, by decide⟩
    · split
      · exact ⟨'&', _, rfl, by decide⟩
      · split
        · exact ⟨'&', _, rfl, by decide⟩
        · exact ⟨c, [], rfl, by assumption⟩

/-! ### Attribute values -/

theorem readQuoted_escAttrChar (c : Char) (r : Str) (fuel : Nat) :
    readQuoted (fuel + 1) (escAttrChar c ++ r) = (readQuoted fuel r).map fun p => (c :: p.1, p.2) := by
  unfold escAttrChar
  split
  · subst c; simp [amp, readQuoted, readRef]
  · split
    · subst c; simp [lt, readQuoted, readRef]
    · split
      · subst c; simp [gt, readQuoted, readRef]
      · split
        · subst c; simp [quot, readQuoted, readRef]
        · split
          · subst c; simp [lf, readQuoted, readRef]
          · split
            · subst c; simp [cr, readQuoted, readRef]
            · split
              · subst c; simp [tab, readQuoted, readRef]
              · simp [readQuoted, *]

theorem readQuoted_escapeAttr (v rest : Str) :
    ∀ fuel, fuel ≥ (escapeAttr v).length + 1 → readQuoted fuel (escapeAttr v ++ '"' :: rest) = some (v, rest) := by
  induction v with
  | nil =>
    intro fuel h
    match fuel, h with
    | fuel + 1, _ => simp [escapeAttr_nil, readQuoted]
  | cons c v ih =>
    intro fuel h
    rw [escapeAttr_cons, List.length_append] at h
    have hpos := escAttrChar_length_pos c
    match fuel, h with
    | fuel + 1, h =>
      rw [escapeAttr_cons, List.append_assoc, readQuoted_escAttrChar, ih fuel (by omega)]
      rfl


/-! ### Attribute lists -/

theorem serAttrs_nil : serAttrs [] = [] := rfl

theorem serAttrs_cons (a : Str × Str) (as : List (Str × Str)) :
    serAttrs (a :: as) = ' ' :: a.1 ++ '=' :: '"' :: escapeAttr a.2 ++ ['"'] ++ serAttrs as := by
  simp only [serAttrs, List.flatMap_cons]

theorem serAttrs_length (attrs : List (Str × Str)) : attrs.length ≤ (serAttrs attrs).length := by
  induction attrs with
  | nil => simp [serAttrs_nil]
  | cons a as ih => rw [serAttrs_cons]; simp only [List.length_append, List.length_cons]; omega

/-- What may follow an attribute list (or a name): `/` or `>` — anything that is neither a blank nor a name character. -/
def TagEnd (c : Char) : Prop := c = '/' ∨ c = '>'

theorem tagEnd_not_name {c : Char} (h : TagEnd c) : isNameChar c = false := by
  rcases h with h | h <;> subst h <;> decide

theorem tagEnd_not_blank {c : Char} (h : TagEnd c) : c ≠ ' ' := by
  rcases h with h | h <;> subst h <;> decide

theorem readAttrs_end (c : Char) (r : Str) (hc : c ≠ ' ') (fuel : Nat) :
    readAttrs (fuel + 1) (c :: r) = some ([], c :: r) := by
  unfold readAttrs
  split
  · rename_i heq; exact absurd heq (Nat.succ_ne_zero _)
  · rename_i heq; injection heq with h3 _; exact absurd h3 hc
  · rfl

theorem readAttrs_serAttrs (attrs : List (Str × Str)) (hn : ∀ a ∈ attrs, validName a.1 = true)
    (c : Char) (r : Str) (hc : TagEnd c) :
    ∀ fuel, fuel ≥ attrs.length + 1 → readAttrs fuel (serAttrs attrs ++ c :: r) = some (attrs, c :: r) := by
  induction attrs with
  | nil =>
    intro fuel h
    match fuel, h with
    | fuel + 1, _ => rw [serAttrs_nil, List.nil_append, readAttrs_end c r (tagEnd_not_blank hc)]
  | cons a as ih =>
    intro fuel h
    match fuel, h with
    | fuel + 1, h =>
      have hname := hn a List.mem_cons_self
      have hall := validName_all hname
      have hne := validName_ne_nil hname
      have ihr := ih (fun b hb => hn b (List.mem_cons_of_mem _ hb)) fuel (by simp only [List.length_cons] at h; omega)
      rw [serAttrs_cons]
      have hshape : ' ' :: a.1 ++ '=' :: '"' :: escapeAttr a.2 ++ ['"'] ++ serAttrs as ++ c :: r
          = ' ' :: (a.1 ++ '=' :: ('"' :: (escapeAttr a.2 ++ '"' :: (serAttrs as ++ c :: r)))) := by
        simp [List.append_assoc]
      rw [hshape]
      unfold readAttrs
      simp only []
      rw [takeName_append a.1 '=' _ hall (by decide)]
      have hemp : a.1.isEmpty = false := by
        cases h1 : a.1 with
        | nil => exact absurd h1 hne
        | cons _ _ => rfl
      simp only [hemp]
      rw [readQuoted_escapeAttr a.2 _ _ (by simp only [List.length_append, List.length_cons]; omega)]
      simp only [ihr]
      rfl


theorem serAttrs_append_head (attrs : List (Str × Str)) (c : Char) (r : Str) (hc : TagEnd c) :
    ∃ d r', serAttrs attrs ++ c :: r = d :: r' ∧ isNameChar d = false := by
  cases attrs with
  | nil => exact ⟨c, r, rfl, tagEnd_not_name hc⟩
  | cons a as =>
    rw [serAttrs_cons]
    exact ⟨' ', a.1 ++ '=' :: '"' :: escapeAttr a.2 ++ ['"'] ++ serAttrs as ++ c :: r, by simp [List.append_assoc], by decide⟩

/-! ### Fuel -/

mutual
  /-- Fuel that `parseNode` needs for the serialisation of a tree. -/
  def need : XNode → Nat
    | .elem _ _ cs => 1 + needList cs
    | .text _ => 1
  def needList : List XNode → Nat
    | [] => 1
    | x :: xs => 1 + max (need x) (needList xs)
end

def isText : XNode → Bool
  | .text _ => true
  | _ => false

/-! ### Shapes of serialised nodes -/

theorem serialize_elem_head (n : Str) (attrs : List (Str × Str)) (cs : List XNode) (hn : validName n = true) :
    ∃ d tl, serialize (.elem n attrs cs) = '<' :: d :: tl ∧ d ≠ '/' := by
  match n, hn with
  | d :: n', hn =>
    have hd : d ≠ '/' := by
      intro h; subst h
      unfold validName at hn
      simp [isNameStart] at hn
    cases cs with
    | nil => exact ⟨d, n' ++ serAttrs attrs ++ ['/', '>'], by simp [serialize], hd⟩
    | cons c cs =>
      exact ⟨d, n' ++ serAttrs attrs ++ '>' :: serializeList (c :: cs) ++ '<' :: '/' :: (d :: n') ++ ['>'], by simp [serialize], hd⟩

theorem serialize_text_head (s : Str) (hs : s ≠ []) : ∃ d tl, serialize (.text s) = d :: tl ∧ d ≠ '<' := by
  match s, hs with
  | c :: s', _ =>
    obtain ⟨d, tl, h1, h2⟩ := escTextChar_head c
    exact ⟨d, tl ++ escapeText s', by simp [serialize, escapeText_cons, h1], h2⟩


/-! ### wf unfolded -/

theorem wf_elem {n : Str} {attrs : List (Str × Str)} {cs : List XNode} (h : wf (.elem n attrs cs) = true) :
    validName n = true ∧ (∀ a ∈ attrs, validName a.1 = true) ∧ wfList cs = true := by
  unfold wf at h
  simp only [Bool.and_eq_true, List.all_eq_true] at h
  exact ⟨h.1.1.1, h.1.1.2, h.2⟩

theorem wf_text {s : Str} (h : wf (.text s) = true) : s ≠ [] := by
  intro hs; subst hs; simp [wf] at h

theorem wfList_cons {x : XNode} {xs : List XNode} (h : wfList (x :: xs) = true) :
    wf x = true ∧ wfList xs = true ∧ (isText x = true → ∀ y ys, xs = y :: ys → isText y = false) := by
  cases xs with
  | nil => exact ⟨by simpa [wfList] using h, by simp [wfList], fun _ y ys hh => by cases hh⟩
  | cons y ys =>
    unfold wfList at h
    simp only [Bool.and_eq_true] at h
    refine ⟨h.1.1, h.2, ?_⟩
    intro hx y' ys' hh
    injection hh with h1 _
    subst h1
    cases x with
    | text _ =>
      cases y with
      | text _ => simp at h
      | elem _ _ _ => rfl
    | elem _ _ _ => simp [isText] at hx

/-- After a text node comes a `<`: the next sibling is an element, or the parent's end tag follows. -/
theorem stop_after (xs : List XNode) (r : Str) (hw : wfList xs = true)
    (hnext : ∀ y ys, xs = y :: ys → isText y = false) : Stop (serializeList xs ++ '<' :: '/' :: r) := by
  cases xs with
  | nil => exact Or.inr ⟨_, rfl⟩
  | cons y ys =>
    have hy := hnext y ys rfl
    have hwy := (wfList_cons hw).1
    cases y with
    | text _ => simp [isText] at hy
    | elem n attrs cs =>
      obtain ⟨d, tl, hser, _⟩ := serialize_elem_head n attrs cs (wf_elem hwy).1
      refine Or.inr ⟨d :: tl ++ (serializeList ys ++ '<' :: '/' :: r), ?_⟩
      simp only [serializeList, hser, List.cons_append, List.append_assoc]


/-! ### The reader inverts the serialiser -/

theorem parseNode_text (s rest : Str) (hs : s ≠ []) (hstop : Stop rest) (fuel : Nat) :
    parseNode (fuel + 1) (serialize (.text s) ++ rest) = some (.text s, rest) := by
  obtain ⟨d, tl, hser, hd⟩ := serialize_text_head s hs
  have hrc := readChars_escapeText s rest hstop ((tl ++ rest).length + 2) (by
    have : (escapeText s).length = (d :: tl).length := by rw [← hser]; rfl
    rw [this]; simp only [List.length_append, List.length_cons]; omega)
  have hser' : escapeText s = d :: tl := hser
  rw [hser'] at hrc
  rw [hser, List.cons_append]
  unfold parseNode
  split
  · rename_i heq; exact absurd heq (Nat.succ_ne_zero _)
  · rename_i heq; injection heq with h1 _; exact absurd h1 hd
  · rename_i c r _ heq
    injection heq with h1 h2
    subst h1; subst h2
    rw [List.cons_append] at hrc
    rw [hrc]
    have hemp : s.isEmpty = false := by
      cases s with
      | nil => exact absurd rfl hs
      | cons _ _ => rfl
    simp only [hemp]
    rfl
  · rename_i heq; injection heq


/-- The element case of `parseNode`, given that the content parses. -/
theorem parseNode_elem (n : Str) (attrs : List (Str × Str)) (cs : List XNode) (rest : Str) (fuel : Nat)
    (hn : validName n = true) (ha : ∀ a ∈ attrs, validName a.1 = true)
    (hcs : ∀ r, cs ≠ [] → parseNodes fuel (serializeList cs ++ '<' :: '/' :: r) = some (cs, '<' :: '/' :: r)) :
    parseNode (fuel + 1) (serialize (.elem n attrs cs) ++ rest) = some (.elem n attrs cs, rest) := by
  have hall := validName_all hn
  have hne : n.isEmpty = false := by
    cases h1 : n with
    | nil => exact absurd h1 (validName_ne_nil hn)
    | cons _ _ => rfl
  cases cs with
  | nil =>
    have hshape : serialize (.elem n attrs []) ++ rest = '<' :: (n ++ (serAttrs attrs ++ '/' :: '>' :: rest)) := by
      simp [serialize, List.append_assoc]
    rw [hshape]
    obtain ⟨d, r', hd, hdn⟩ := serAttrs_append_head attrs '/' ('>' :: rest) (Or.inl rfl)
    unfold parseNode
    simp only []
    rw [hd, takeName_append n d r' hall hdn, ← hd]
    simp only [hne]
    rw [readAttrs_serAttrs attrs ha '/' ('>' :: rest) (Or.inl rfl) _ (by
      have := serAttrs_length attrs
      simp only [List.length_append, List.length_cons]; omega)]
    rfl
  | cons c cs =>
    have hshape : serialize (.elem n attrs (c :: cs)) ++ rest =
        '<' :: (n ++ (serAttrs attrs ++ '>' :: (serializeList (c :: cs) ++ '<' :: '/' :: (n ++ '>' :: rest)))) := by
      simp [serialize, List.append_assoc]
    rw [hshape]
    obtain ⟨d, r', hd, hdn⟩ := serAttrs_append_head attrs '>' (serializeList (c :: cs) ++ '<' :: '/' :: (n ++ '>' :: rest)) (Or.inr rfl)
    unfold parseNode
    simp only []
    rw [hd, takeName_append n d r' hall hdn, ← hd]
    simp only [hne]
    rw [readAttrs_serAttrs attrs ha '>' _ (Or.inr rfl) _ (by
      have := serAttrs_length attrs
      simp only [List.length_append, List.length_cons]; omega)]
    simp only []
    rw [hcs (n ++ '>' :: rest) (by simp)]
    simp only []
    rw [takeName_append n '>' rest hall (by decide)]
    simp


theorem parseNodes_nil (r : Str) (fuel : Nat) :
    parseNodes (fuel + 1) ('<' :: '/' :: r) = some ([], '<' :: '/' :: r) := by
  unfold parseNodes; rfl

/-- One step of `parseNodes` over input that does not start with an end tag. -/
theorem parseNodes_step (fuel : Nat) (d : Char) (tl : Str) (h : d ≠ '<' ∨ ∃ e tl', tl = e :: tl' ∧ e ≠ '/') :
    parseNodes (fuel + 1) (d :: tl) =
      match parseNode fuel (d :: tl) with
      | none => none
      | some (x, r) => (parseNodes fuel r).map fun p => (x :: p.1, p.2) := by
  conv => lhs; unfold parseNodes
  split
  · rename_i heq; exact absurd heq (Nat.succ_ne_zero _)
  · rename_i heq; injection heq
  · rename_i heq
    injection heq with h1 h2
    rcases h with h | ⟨e, tl', h3, h4⟩
    · exact absurd h1 h
    · subst h3; injection h2 with h5 _; exact absurd h5 h4
  · rename_i heq _ _
    injection heq with heq; subst heq; rfl

mutual
  theorem parseNode_serialize : ∀ (t : XNode), wf t = true → ∀ (rest : Str), (isText t = true → Stop rest) →
      ∀ fuel, fuel ≥ need t → parseNode fuel (serialize t ++ rest) = some (t, rest)
    | .text s, hw, rest, hstop, fuel, hf => by
      match fuel, hf with
      | fuel + 1, _ => exact parseNode_text s rest (wf_text hw) (hstop rfl) fuel
    | .elem n attrs cs, hw, rest, _, fuel, hf => by
      obtain ⟨hn, ha, hcs⟩ := wf_elem hw
      match fuel, hf with
      | 0, hf => unfold need at hf; omega
      | fuel + 1, hf =>
        refine parseNode_elem n attrs cs rest fuel hn ha ?_
        intro r _
        exact parseNodes_serializeList cs hcs r fuel (by unfold need at hf; omega)
  theorem parseNodes_serializeList : ∀ (xs : List XNode), wfList xs = true → ∀ (r : Str) (fuel : Nat), fuel ≥ needList xs →
      parseNodes fuel (serializeList xs ++ '<' :: '/' :: r) = some (xs, '<' :: '/' :: r)
    | [], _, r, fuel, hf => by
      match fuel, hf with
      | fuel + 1, _ => simp only [serializeList, List.nil_append]; exact parseNodes_nil r fuel
    | x :: xs, hw, r, fuel, hf => by
      obtain ⟨hx, hxs, hnext⟩ := wfList_cons hw
      match fuel, hf with
      | 0, hf => unfold needList at hf; omega
      | fuel + 1, hf =>
        have hneed : fuel ≥ need x ∧ fuel ≥ needList xs := by
          unfold needList at hf; omega
        have hnode := parseNode_serialize x hx (serializeList xs ++ '<' :: '/' :: r)
          (fun ht => stop_after xs r hxs (hnext ht)) fuel hneed.1
        have hrest := parseNodes_serializeList xs hxs r fuel hneed.2
        have hshape : serializeList (x :: xs) ++ '<' :: '/' :: r = serialize x ++ (serializeList xs ++ '<' :: '/' :: r) := by
          simp [serializeList, List.append_assoc]
        rw [hshape]
        -- the input does not start with an end tag
        have hhead : ∃ d tl, serialize x ++ (serializeList xs ++ '<' :: '/' :: r) = d :: tl ∧
            (d ≠ '<' ∨ ∃ e tl', tl = e :: tl' ∧ e ≠ '/') := by
          cases x with
          | text s =>
            obtain ⟨d, tl, h1, h2⟩ := serialize_text_head s (wf_text hx)
            exact ⟨d, tl ++ (serializeList xs ++ '<' :: '/' :: r), by rw [h1]; rfl, Or.inl h2⟩
          | elem n attrs cs =>
            obtain ⟨d, tl, h1, h2⟩ := serialize_elem_head n attrs cs (wf_elem hx).1
            exact ⟨'<', d :: tl ++ (serializeList xs ++ '<' :: '/' :: r), by rw [h1]; rfl, Or.inr ⟨d, _, rfl, h2⟩⟩
        obtain ⟨d, tl, hd, hcase⟩ := hhead
        rw [hd, parseNodes_step fuel d tl hcase, ← hd, hnode]
        simp only [hrest]
        rfl
end

theorem need_pos (t : XNode) : 1 ≤ need t := by
  cases t <;> unfold need <;> omega

theorem escapeText_length_pos {s : Str} (hs : s ≠ []) : 1 ≤ (escapeText s).length := by
  match s, hs with
  | c :: s', _ =>
    rw [escapeText_cons, List.length_append]
    have := escTextChar_length_pos c
    omega

mutual
  /-- The reader's own fuel (input length + 2) always suffices. -/
  theorem need_le : ∀ (t : XNode), wf t = true → need t ≤ (serialize t).length
    | .text s, hw => by
      unfold need serialize
      exact escapeText_length_pos (wf_text hw)
    | .elem n attrs [], _ => by
      unfold need needList serialize
      simp only [List.length_append, List.length_cons]
      omega
    | .elem n attrs (c :: cs), hw => by
      have := needList_le (c :: cs) (wf_elem hw).2.2
      unfold need serialize
      simp only [List.length_append, List.length_cons]
      omega
  theorem needList_le : ∀ (xs : List XNode), wfList xs = true → needList xs ≤ (serializeList xs).length + 1
    | [], _ => by unfold needList serializeList; simp
    | x :: xs, hw => by
      obtain ⟨hx, hxs, _⟩ := wfList_cons hw
      have h1 := need_le x hx
      have h2 := needList_le xs hxs
      have h3 := need_pos x
      unfold needList serializeList
      simp only [List.length_append]
      omega
end

/-- A whole document: one element and nothing after it. -/
theorem parseDoc_serialize (n : Str) (attrs : List (Str × Str)) (cs : List XNode)
    (hw : wf (.elem n attrs cs) = true) :
    parseDoc (serialize (.elem n attrs cs)) = some (.elem n attrs cs) := by
  unfold parseDoc
  have hfuel := need_le _ hw
  have := parseNode_serialize (.elem n attrs cs) hw [] (fun h => by simp [isText] at h)
    ((serialize (.elem n attrs cs)).length + 2) (by omega)
  rw [List.append_nil] at this
  rw [this]

/-! ### The `<hello>` and `<rpc>` envelopes -/

/-- The two prefixes the device profiles use for the base namespace. -/
def StdPfx (pfx : Str) : Prop := pfx = "nc:".toList ∨ pfx = []

theorem wfList_elems : ∀ (l : List XNode), (∀ x ∈ l, wf x = true ∧ isText x = false) → wfList l = true
  | [], _ => by simp [wfList]
  | [x], h => by simpa [wfList] using (h x List.mem_cons_self).1
  | x :: y :: rest, h => by
    have hx := h x List.mem_cons_self
    have ih := wfList_elems (y :: rest) (fun z hz => h z (List.mem_cons_of_mem _ hz))
    unfold wfList
    simp only [Bool.and_eq_true]
    refine ⟨⟨hx.1, ?_⟩, ih⟩
    cases x with
    | text _ => simp [isText] at hx
    | elem _ _ _ => rfl

theorem wf_helloTree (pfx : Str) (caps : List Str) (hp : StdPfx pfx) (hc : ∀ c ∈ caps, c ≠ []) :
    wf (helloTree pfx caps) = true := by
  have hcaps : wfList (caps.map fun c => XNode.elem (pfx ++ "capability".toList) [] [.text c]) = true := by
    apply wfList_elems
    intro x hx
    rw [List.mem_map] at hx
    obtain ⟨c, hcm, rfl⟩ := hx
    have hne : c.isEmpty = false := by
      cases c with
      | nil => exact absurd rfl (hc [] hcm)
      | cons _ _ => rfl
    rcases hp with hp | hp <;> subst hp <;> simp [wf, wfList, isText, hne] <;> decide
  rcases hp with hp | hp <;> subst hp
  · unfold helloTree wf
    simp only [Bool.and_eq_true]
    refine ⟨⟨⟨by decide, by decide⟩, by decide⟩, ?_⟩
    unfold wfList wf
    simp only [Bool.and_eq_true]
    exact ⟨⟨⟨by decide, by decide⟩, by decide⟩, hcaps⟩
  · unfold helloTree wf
    simp only [Bool.and_eq_true]
    refine ⟨⟨⟨by decide, by decide⟩, by decide⟩, ?_⟩
    unfold wfList wf
    simp only [Bool.and_eq_true]
    exact ⟨⟨⟨by decide, by decide⟩, by decide⟩, hcaps⟩

theorem capsOf_helloTree (pfx : Str) (caps : List Str) : capsOf pfx (helloTree pfx caps) = caps.map some := by
  unfold helloTree capsOf
  simp only [List.flatMap_cons, List.flatMap_nil, List.append_nil, if_true]
  induction caps with
  | nil => rfl
  | cons c cs ih =>
    simp only [List.map_cons, List.filterMap_cons, if_true]
    rw [ih]
    rfl

/-- What a peer reads out of the `<hello>` ncclient builds: exactly the capability list, in order, each
    string unaltered (query strings with `&`, `<` … included). -/
theorem hello_roundtrip (pfx : Str) (caps : List Str) (hp : StdPfx pfx) (hc : ∀ c ∈ caps, c ≠ []) :
    (parseDoc (serialize (helloTree pfx caps))).map (capsOf pfx) = some (caps.map some) := by
  have hw := wf_helloTree pfx caps hp hc
  unfold helloTree at hw ⊢
  rw [parseDoc_serialize _ _ _ hw]
  exact congrArg some (capsOf_helloTree pfx caps)

theorem wf_rpcTree (pfx mid : Str) (n : Str) (attrs : List (Str × Str)) (cs : List XNode) (hp : StdPfx pfx)
    (hop : wf (.elem n attrs cs) = true) : wf (rpcTree pfx mid (.elem n attrs cs)) = true := by
  rcases hp with hp | hp <;> subst hp
  · unfold rpcTree wf
    simp only [Bool.and_eq_true, List.all_cons, List.all_nil, Bool.and_true, List.map_cons, List.map_nil]
    refine ⟨⟨⟨by decide, ⟨by decide, by decide⟩⟩, by decide⟩, ?_⟩
    unfold wfList
    exact hop
  · unfold rpcTree wf
    simp only [Bool.and_eq_true, List.all_cons, List.all_nil, Bool.and_true, List.map_cons, List.map_nil]
    refine ⟨⟨⟨by decide, ⟨by decide, by decide⟩⟩, by decide⟩, ?_⟩
    unfold wfList
    exact hop

/-- The `<rpc>` envelope: a peer reads back the operation element as it was built and the message-id as
    it was generated, whatever characters either contains. -/
theorem rpc_roundtrip (pfx mid : Str) (n : Str) (attrs : List (Str × Str)) (cs : List XNode) (hp : StdPfx pfx)
    (hop : wf (.elem n attrs cs) = true) :
    parseDoc (serialize (rpcTree pfx mid (.elem n attrs cs))) = some (rpcTree pfx mid (.elem n attrs cs)) ∧
    attrOf "message-id".toList (rpcTree pfx mid (.elem n attrs cs)) = some mid := by
  have hw := wf_rpcTree pfx mid n attrs cs hp hop
  constructor
  · unfold rpcTree at hw ⊢
    exact parseDoc_serialize _ _ _ hw
  · rcases hp with hp | hp <;> subst hp <;> simp [rpcTree, attrOf, nsDecl] <;> decide

/-! ### The root-only parse -/

/-- Whatever the full parse accepts, the root-only parse reads the same root name and attributes from the start tag. -/
theorem parseRoot_of_parseNode (fuel : Nat) (s rest : Str) (t : XNode) (h : parseNode fuel s = some (t, rest)) (hs : s.head? = some '<') :
    parseRoot s = rootOf t := by
  cases fuel with
  | zero => simp [parseNode] at h
  | succ fuel =>
    cases s with
    | nil => simp at hs
    | cons c r =>
      simp only [List.head?_cons, Option.some.injEq] at hs
      subst hs
      simp only [parseNode] at h
      simp only [parseRoot]
      by_cases hn : List.isEmpty (takeName r).fst = true
      · rw [if_pos hn] at h; cases h
      · rw [if_neg hn] at h; rw [if_neg hn]
        cases hra : readAttrs (List.length (takeName r).snd + 1) (takeName r).snd with
        | none => rw [hra] at h; cases h
        | some p =>
          obtain ⟨attrs, r2⟩ := p
          rw [hra] at h
          simp only at h ⊢
          split at h
          · simp only [Option.some.injEq, Prod.mk.injEq] at h; rw [← h.1]; rfl
          · split at h
            · cases h
            · split at h
              · split at h
                · split at h
                  · simp only [Option.some.injEq, Prod.mk.injEq] at h; rw [← h.1]; rfl
                  · cases h
                · cases h
              · cases h
          · cases h

theorem parseRoot_agrees (s : Str) (t : XNode) (h : parseDoc s = some t) (hs : s.head? = some '<') : parseRoot s = rootOf t := by
  unfold parseDoc at h
  split at h
  · rename_i x hx
    injection h with h; subst h
    exact parseRoot_of_parseNode _ s [] x hx hs
  · cases h

end NcVerif.XmlDocP
