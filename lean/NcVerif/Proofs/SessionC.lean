/-
  Bridging lemmas between Model/Session (worker receive iterations) and Model/Framing.
-/
import NcVerif.Model.Session
import NcVerif.Spec.Session
import NcVerif.Spec.Framing
import NcVerif.Proofs.Framing10
import NcVerif.Proofs.Framing11
import NcVerif.Proofs.SessionA
namespace NcVerif.SessionC
open NcVerif NcVerif.Session NcVerif.SessionSpec NcVerif.Framing NcVerif.FramingSpec

/-! ## Fields that dispatching never touches -/

@[simp] theorem dispatchError_parser (w : World) (e : ErrK) : (dispatchError w e).parser = w.parser := by
  cases h1 : w.hasHello <;> cases h2 : w.hasReplyL <;> simp [dispatchError, h1, h2]
@[simp] theorem dispatchError_base11 (w : World) (e : ErrK) : (dispatchError w e).base11 = w.base11 := by
  cases h1 : w.hasHello <;> cases h2 : w.hasReplyL <;> simp [dispatchError, h1, h2]

@[simp] theorem dispatchMessage_parser (env : Env) (w : World) (raw : Str) :
    (dispatchMessage env w raw).1.parser = w.parser := by dm_field
@[simp] theorem dispatchMessage_base11 (env : Env) (w : World) (raw : Str) :
    (dispatchMessage env w raw).1.base11 = w.base11 := by dm_field

/-! ## `drain` -/

theorem drain_not_dispatching (env : Env) (fuel : Nat) (w : World) (h : ∀ t, w.pc ≠ .dispatching t) :
    drain env fuel w = w := by
  cases fuel with
  | zero => rfl
  | succ f =>
    simp only [drain]

theorem drain_dispatching (env : Env) (fuel : Nat) (w : World) (t : List Out) (h : w.pc = .dispatching t) :
    drain env (fuel + 1) w = drain env fuel (step env w .wDispatch) := by
  simp only [drain, h]

theorem delivers_cons_deliver (raw : Str) (outs : List Out) :
    delivers (.deliver raw :: outs) = raw :: delivers outs := by
  simp [delivers]

theorem hasRaise_cons_deliver (raw : Str) (outs : List Out) :
    hasRaise (.deliver raw :: outs) = hasRaise outs := by
  simp [hasRaise]

/-- Dispatching all outputs of one read: either every output was a message whose dispatch raised
    nothing (and the worker is back at the top of its loop, having been handed exactly those
    messages), or the worker is on its failure path. -/
theorem drain_spec (env : Env) (outs : List Out) :
    ∀ (w : World) (fuel : Nat), w.pc = .dispatching outs → outs ≠ [] → outs.length ≤ fuel →
      ((drain env fuel w).pc = .top ∧ hasRaise outs = false ∧
        (drain env fuel w).received = w.received ++ delivers outs ∧
        (drain env fuel w).parser = w.parser ∧ (drain env fuel w).base11 = w.base11) ∨
      (∃ e, (drain env fuel w).pc = .failing e) := by
  induction outs with
  | nil => intro w fuel _ hne; exact absurd rfl hne
  | cons o rest ih =>
    intro w fuel hpc _ hlen
    obtain ⟨f, rfl⟩ : ∃ f, fuel = f + 1 := ⟨fuel - 1, by simp only [List.length_cons] at hlen; omega⟩
    have hlen' : rest.length ≤ f := by simp only [List.length_cons] at hlen; omega
    rw [drain_dispatching env f w _ hpc]
    cases o with
    | raise k =>
      right
      have hst : ∃ e, (step env w .wDispatch).pc = .failing e := by
        cases k
        · exact ⟨.framing, by simp [step, hpc]⟩
        · exact ⟨.decode, by simp [step, hpc]⟩
      obtain ⟨e, he⟩ := hst
      rw [drain_not_dispatching env f _ (by intro t; rw [he]; simp)]
      exact ⟨e, he⟩
    | deliver raw =>
      rw [SessionA.step_wDispatch_deliver env w raw rest hpc]
      cases hres : (dispatchMessage env w raw).2 with
      | some e =>
        right
        rw [drain_not_dispatching env f _ (by intro t; simp)]
        exact ⟨e, rfl⟩
      | none =>
        cases rest with
        | nil =>
          left
          rw [drain_not_dispatching env f _ (by intro t; simp)]
          refine ⟨by simp, by simp [hasRaise], ?_, ?_, ?_⟩
          · simp [delivers]
          · simp
          · simp
        | cons o' rest' =>
          have := ih { (dispatchMessage env w raw).1 with pc := .dispatching (o' :: rest') } f rfl (by simp) hlen'
          simp only [List.isEmpty_cons, Bool.false_eq_true, if_false]
          rcases this with ⟨h1, h2, h3, h4, h5⟩ | h
          · left
            refine ⟨h1, ?_, ?_, ?_, ?_⟩
            · rw [hasRaise_cons_deliver]; exact h2
            · rw [h3, delivers_cons_deliver]; simp
            · rw [h4]; simp
            · rw [h5]; simp
          · right; exact h

/-! ## One receive iteration -/

theorem step_wTop_false (env : Env) (w : World) (h : w.pc = .top) :
    step env w (.wTop false) = { w with pc := .select } := by
  simp only [step, h, if_true]
  cases w.q <;> simp

theorem readSeg_failing (env : Env) (w : World) (seg : Bytes) (e : ErrK) (h : w.pc = .failing e) :
    readSeg env w seg = w := by
  simp [readSeg, step, h, drain]

theorem readSegs_failing (env : Env) (segs : List Bytes) :
    ∀ (w : World) (e : ErrK), w.pc = .failing e → readSegs env w segs = w := by
  induction segs with
  | nil => intro w e _; rfl
  | cons s rest ih =>
    intro w e h
    simp only [readSegs, List.foldl_cons]
    rw [readSeg_failing env w s e h]
    exact ih w e h

theorem readSegs_cons (env : Env) (w : World) (s : Bytes) (rest : List Bytes) :
    readSegs env w (s :: rest) = readSegs env (readSeg env w s) rest := rfl

/-- One receive iteration from `select`: back at `select` having been handed exactly what the
    parser delivered (no raise), or on the failure path. -/
theorem readSeg_spec (env : Env) (w : World) (seg : Bytes) (hs : w.pc = .select) (hne : seg ≠ []) :
    ((readSeg env w seg).pc = .select ∧ hasRaise (feed w.base11 w.parser seg).2 = false ∧
      (readSeg env w seg).received = w.received ++ delivers (feed w.base11 w.parser seg).2 ∧
      (readSeg env w seg).parser = (feed w.base11 w.parser seg).1 ∧
      (readSeg env w seg).base11 = w.base11) ∨
    (∃ e, (readSeg env w seg).pc = .failing e) := by
  have hne' : seg.isEmpty = false := by cases seg <;> simp_all
  have h1 : step env (step env w (.wSelect true)) (.wRead (.data seg)) =
      { w with parser := (feed w.base11 w.parser seg).1,
               pc := if (feed w.base11 w.parser seg).2.isEmpty then .top
                     else .dispatching (feed w.base11 w.parser seg).2 } := by
    simp [step, hs, hne']
  unfold readSeg
  simp only [h1]
  cases houts : (feed w.base11 w.parser seg).2 with
  | nil =>
    left
    simp only [List.isEmpty_nil, if_true, drain, step_wTop_false]
    simp [hasRaise, delivers]
  | cons o rest =>
    simp only [List.isEmpty_cons, Bool.false_eq_true, if_false]
    have := drain_spec env (o :: rest)
      { w with parser := (feed w.base11 w.parser seg).1, pc := .dispatching (o :: rest) }
      ((o :: rest).length + 1) rfl (by simp) (by omega)
    rcases this with ⟨h1, h2, h3, h4, h5⟩ | ⟨e, he⟩
    · left
      simp only [h1, if_true]
      rw [step_wTop_false env _ h1]
      exact ⟨rfl, h2, h3, h4, h5⟩
    · right
      refine ⟨e, ?_⟩
      rw [if_neg (by rw [he]; simp)]
      exact he

/-! ## All receive iterations -/

theorem feedAll_cons (b : Bool) (s : PState) (seg : Bytes) (segs : List Bytes) :
    feedAll b s (seg :: segs) =
      if hasRaise (feed b s seg).2 then ((feed b s seg).1, (feed b s seg).2)
      else ((feedAll b (feed b s seg).1 segs).1, (feed b s seg).2 ++ (feedAll b (feed b s seg).1 segs).2) := by
  simp only [feedAll]

theorem delivers_append (a b : List Out) : delivers (a ++ b) = delivers a ++ delivers b := by
  simp [delivers]

theorem hasRaise_append (a b : List Out) : hasRaise (a ++ b) = (hasRaise a || hasRaise b) := by
  simp [hasRaise]

theorem received_is_framing (env : Env) (segs : List Bytes) :
    ∀ (w : World), w.pc = .select → (∀ s ∈ segs, s ≠ []) → (readSegs env w segs).pc = .select →
      (readSegs env w segs).received = w.received ++ delivers (obs (feedAll w.base11 w.parser segs)) ∧
      hasRaise (obs (feedAll w.base11 w.parser segs)) = false := by
  induction segs with
  | nil =>
    intro w _ _ _
    simp [readSegs, feedAll, obs, delivers, hasRaise]
  | cons seg rest ih =>
    intro w hs hne hok
    rw [readSegs_cons] at hok ⊢
    rcases readSeg_spec env w seg hs (hne seg (by simp)) with ⟨h1, h2, h3, h4, h5⟩ | ⟨e, he⟩
    · obtain ⟨ih1, ih2⟩ := ih (readSeg env w seg) h1 (fun s hs' => hne s (by simp [hs'])) hok
      rw [h5, h4] at ih1 ih2
      simp only [obs] at ih1 ih2 ⊢
      rw [feedAll_cons]
      simp only [h2, Bool.false_eq_true, if_false]
      refine ⟨?_, ?_⟩
      · rw [ih1, h3, delivers_append, List.append_assoc]
      · rw [hasRaise_append, h2, ih2]; rfl
    · rw [readSegs_failing env rest _ e he, he] at hok
      exact absurd hok (by simp)

theorem received_seg_indep (env : Env) (w : World) (segs₁ segs₂ : List Bytes)
    (hs : w.pc = .select) (hp : w.parser = Framing.init)
    (hne₁ : ∀ s ∈ segs₁, s ≠ []) (hne₂ : ∀ s ∈ segs₂, s ≠ []) (hf : segs₁.flatten = segs₂.flatten)
    (hok₁ : (readSegs env w segs₁).pc = .select) (hok₂ : (readSegs env w segs₂).pc = .select) :
    (readSegs env w segs₁).received = (readSegs env w segs₂).received := by
  rw [(received_is_framing env segs₁ w hs hne₁ hok₁).1, (received_is_framing env segs₂ w hs hne₂ hok₂).1, hp]
  cases hb : w.base11
  · rw [Framing10.seg_indep10 segs₁ segs₂ hf]
  · rw [Framing11.seg_indep11 segs₁ segs₂ hf]

/-! ## A stored reply is a message that was received -/

def RInv (rpcs : List Rpc) (rcv : List Str) : Prop :=
  ∀ r ∈ rpcs, ∀ raw, r.reply = some raw → raw ∈ rcv

theorem RInv_mono {rpcs : List Rpc} {rcv : List Str} (x : List Str) (h : RInv rpcs rcv) : RInv rpcs (rcv ++ x) :=
  fun r hr raw hraw => List.mem_append_left _ (h r hr raw hraw)

theorem RInv_failAll {rpcs : List Rpc} {rcv : List Str} (ids : List Nat) (e : ErrK) (h : RInv rpcs rcv) :
    RInv (failAll rpcs ids e) rcv := by
  intro r' hr' raw hraw
  obtain ⟨r, hr, ⟨_, hre⟩ | ⟨_, hre⟩⟩ := SessionA.mem_failAll hr'
  · rw [hre] at hraw; exact h r hr raw hraw
  · rw [hre] at hraw; exact h r hr raw hraw

theorem RInv_updRpc {rpcs : List Rpc} {rcv : List Str} (id : Nat) (raw : Str) (hin : raw ∈ rcv) (h : RInv rpcs rcv) :
    RInv (updRpc rpcs id fun rpc => { rpc with reply := some raw, event := true, deliveries := rpc.deliveries + 1 }) rcv := by
  intro r' hr' raw' hraw'
  obtain ⟨r, hr, ⟨_, hre⟩ | ⟨_, hre⟩⟩ := SessionA.mem_updRpc hr'
  · rw [hre] at hraw'
    simp only [Option.some.injEq] at hraw'
    subst hraw'; exact hin
  · rw [hre] at hraw'; exact h r hr raw' hraw'

theorem RInv_dispatchError (w : World) (e : ErrK) (h : RInv w.rpcs w.received) :
    RInv (dispatchError w e).rpcs (dispatchError w e).received := by
  rw [SessionA.dispatchError_rpcs, SessionA.dispatchError_received]
  split
  · exact RInv_failAll _ _ h
  · exact h

theorem RInv_dispatchMessage (env : Env) (w : World) (raw : Str) (h : RInv w.rpcs w.received) :
    RInv (dispatchMessage env w raw).1.rpcs (dispatchMessage env w raw).1.received := by
  have h' : RInv w.rpcs (w.received ++ [raw]) := RInv_mono _ h
  unfold dispatchMessage
  dsimp only
  repeat' split
  all_goals first
    | exact h'
    | exact RInv_dispatchError { w with received := w.received ++ [raw] } _ h'
    | exact RInv_updRpc _ raw (by simp) h'

theorem RInv_step (env : Env) (w : World) (op : Op) (h : RInv w.rpcs w.received) :
    RInv (step env w op).rpcs (step env w op).received := by
  cases op with
  | cNew id =>
    simp only [step]
    split
    · exact h
    · intro r hr raw hraw
      simp only [List.mem_append, List.mem_singleton] at hr
      rcases hr with hr | rfl
      · exact h r hr raw hraw
      · simp at hraw
  | wDispatch =>
    simp only [step]
    split
    · split
      · exact h
      · exact h
      · rename_i raw _
        have hd := RInv_dispatchMessage env w raw h
        split <;> rename_i heq <;> rw [heq] at hd <;> exact hd
    · exact h
    · exact h
  | wErrback =>
    simp only [step]
    split
    · exact RInv_dispatchError w _ h
    · exact h
  | wExit =>
    simp only [step]
    split
    · exact RInv_dispatchError w _ h
    · exact h
  | _ =>
    simp only [step]
    repeat' split
    all_goals exact h

theorem RInv_run (env : Env) (ops : List Op) :
    ∀ w, RInv w.rpcs w.received → RInv (run env w ops).rpcs (run env w ops).received := by
  induction ops with
  | nil => intro w h; exact h
  | cons op ops ih => intro w h; exact ih (step env w op) (RInv_step env w op h)

theorem reply_was_received (env : Env) (ops : List Op) :
    ∀ r ∈ (run env Session.init ops).rpcs, ∀ raw, r.reply = some raw →
      raw ∈ (run env Session.init ops).received :=
  RInv_run env ops Session.init (by intro r hr; simp [Session.init] at hr)

end NcVerif.SessionC
