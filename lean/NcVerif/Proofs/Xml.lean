/- Helper lemmas about Model/Xml (tree inductions for replaceNs / stripNs / shape). -/
import NcVerif.Model.Xml
namespace NcVerif.XmlP
open NcVerif NcVerif.Xml

/-! ### renameQ -/

theorem renameQ_name (old new : Option Str) (q : QName) : (renameQ old new q).name = q.name := by
  unfold renameQ; split <;> rfl

theorem renameQ_of_ns (old new : Option Str) (q : QName) (h : q.ns = old) : (renameQ old new q).ns = new := by
  unfold renameQ; rw [if_pos h]

theorem renameQ_of_not_ns (old new : Option Str) (q : QName) (h : q.ns ≠ old) : renameQ old new q = q := by
  unfold renameQ; rw [if_neg h]

/-! ### replaceAttrs -/

/-- One step of the fold in `replaceAttrs`. -/
def step (old new : Option Str) (acc : List (QName × Str)) (a : QName × Str) : List (QName × Str) :=
  if acc.any (fun b => b.1 = renameQ old new a.1) then
    acc.map (fun b => if b.1 = renameQ old new a.1 then (renameQ old new a.1, a.2) else b)
  else acc ++ [(renameQ old new a.1, a.2)]

theorem replaceAttrs_eq (old new : Option Str) (attrs : List (QName × Str)) :
    replaceAttrs old new attrs =
      (attrs.filter (fun a => a.1.ns = old)).foldl (step old new) (attrs.filter (fun a => a.1.ns ≠ old)) := rfl

theorem foldl_step (old new : Option Str) (moved : List (QName × Str)) :
    ∀ acc : List (QName × Str),
      (∀ a ∈ moved, ∀ b ∈ acc, b.1 ≠ renameQ old new a.1) →
      (moved.map (fun a => renameQ old new a.1)).Nodup →
      moved.foldl (step old new) acc = acc ++ moved.map (fun a => (renameQ old new a.1, a.2)) := by
  induction moved with
  | nil => intro acc _ _; simp
  | cons a rest ih =>
    intro acc hfresh hnd
    rw [List.map_cons, List.nodup_cons] at hnd
    have hno : (acc.any fun b => decide (b.1 = renameQ old new a.1)) = false := by
      rw [Bool.eq_false_iff]
      intro hany
      rw [List.any_eq_true] at hany
      obtain ⟨b, hb, hbq⟩ := hany
      exact hfresh a (List.mem_cons_self) b hb (of_decide_eq_true hbq)
    have hstep : step old new acc a = acc ++ [(renameQ old new a.1, a.2)] := by
      unfold step; rw [hno]; rfl
    rw [List.foldl_cons, hstep, ih (acc ++ [(renameQ old new a.1, a.2)]) ?_ hnd.2]
    · simp [List.append_assoc]
    · intro a' ha' b hb
      rw [List.mem_append, List.mem_singleton] at hb
      rcases hb with hb | hb
      · exact hfresh a' (List.mem_cons_of_mem _ ha') b hb
      · subst hb
        intro heq
        apply hnd.1
        rw [List.mem_map]
        exact ⟨a', ha', heq.symm⟩

theorem inj_of_nodup_map {α β : Type} (f : α → β) : ∀ (l : List α), (l.map f).Nodup →
    ∀ a ∈ l, ∀ b ∈ l, f a = f b → a = b := by
  intro l
  induction l with
  | nil => intro _ a ha; cases ha
  | cons x xs ih =>
    intro hnd a ha b hb hab
    rw [List.map_cons, List.nodup_cons] at hnd
    rw [List.mem_cons] at ha hb
    rcases ha with ha | ha <;> rcases hb with hb | hb
    · rw [ha, hb]
    · subst ha
      exact absurd (by rw [hab]; exact List.mem_map.2 ⟨b, hb, rfl⟩) hnd.1
    · subst hb
      exact absurd (by rw [← hab]; exact List.mem_map.2 ⟨a, ha, rfl⟩) hnd.1
    · exact ih hnd.2 a ha b hb hab

theorem replaceAttrs_nocollide (old new : Option Str) (attrs : List (QName × Str))
    (hc : (attrs.map (fun a => renameQ old new a.1)).Nodup) :
    replaceAttrs old new attrs =
      attrs.filter (fun a => a.1.ns ≠ old) ++
        (attrs.filter (fun a => a.1.ns = old)).map (fun a => (renameQ old new a.1, a.2)) := by
  rw [replaceAttrs_eq]
  apply foldl_step
  · intro a ha b hb heq
    rw [List.mem_filter] at ha hb
    have hans : a.1.ns = old := of_decide_eq_true ha.2
    have hbns : b.1.ns ≠ old := of_decide_eq_true hb.2
    have : b = a := by
      apply inj_of_nodup_map (fun a => renameQ old new a.1) attrs hc b hb.1 a ha.1
      show renameQ old new b.1 = renameQ old new a.1
      rw [renameQ_of_not_ns old new b.1 hbns]; exact heq
    subst this
    exact hbns hans
  · exact hc.sublist ((List.filter_sublist (l := attrs)).map _)

theorem mem_replaceAttrs (old new : Option Str) (attrs : List (QName × Str))
    (hc : (attrs.map (fun a => renameQ old new a.1)).Nodup) (q : QName) (v : Str) :
    (q, v) ∈ replaceAttrs old new attrs ↔ ∃ q0, (q0, v) ∈ attrs ∧ q = renameQ old new q0 := by
  rw [replaceAttrs_nocollide old new attrs hc, List.mem_append, List.mem_filter, List.mem_map]
  constructor
  · rintro (⟨hm, hns⟩ | ⟨a, ha, heq⟩)
    · have hns' : q.ns ≠ old := of_decide_eq_true hns
      exact ⟨q, hm, (renameQ_of_not_ns old new q hns').symm⟩
    · rw [List.mem_filter] at ha
      obtain ⟨a1, a2⟩ := a
      simp only [Prod.mk.injEq] at heq
      obtain ⟨h1, h2⟩ := heq
      subst h2
      exact ⟨a1, ha.1, h1.symm⟩
  · rintro ⟨q0, hm, rfl⟩
    by_cases h : q0.ns = old
    · right
      exact ⟨(q0, v), List.mem_filter.2 ⟨hm, decide_eq_true h⟩, rfl⟩
    · left
      rw [renameQ_of_not_ns old new q0 h]
      exact ⟨hm, decide_eq_true h⟩

/-! ### validated -/

theorem validated_elem_iff (tags : List QName) (reqs : List (List QName)) (tag : QName)
    (attrs : List (QName × Str)) (ch : List Node) :
    validated tags reqs (.elem tag attrs ch) = true ↔
      (tags = [] ∨ tag ∈ tags) ∧ ∀ alts ∈ reqs, ∃ a ∈ alts, ∃ v, (a, v) ∈ attrs := by
  simp only [validated, Bool.and_eq_true, Bool.or_eq_true, List.isEmpty_iff, List.contains_iff_mem,
    List.all_eq_true, List.any_eq_true, decide_eq_true_eq]
  constructor
  · rintro ⟨h1, h2⟩
    refine ⟨h1, ?_⟩
    intro alts halts
    obtain ⟨a, ha, p, hp, hpa⟩ := h2 alts halts
    refine ⟨a, ha, p.2, ?_⟩
    rw [← hpa]; exact hp
  · rintro ⟨h1, h2⟩
    refine ⟨h1, ?_⟩
    intro alts halts
    obtain ⟨a, ha, v, hv⟩ := h2 alts halts
    exact ⟨a, ha, (a, v), hv, rfl⟩

/-! ### addDecl -/

theorem addDecl_spec (decl s : Str) (hd : declPrefix.isPrefixOf decl = true) :
    declPrefix.isPrefixOf (addDecl decl s) = true ∧ addDecl decl (addDecl decl s) = addDecl decl s ∧
    (declPrefix.isPrefixOf s = true → addDecl decl s = s) ∧
    (declPrefix.isPrefixOf s = false → addDecl decl s = decl ++ s) := by
  have hpre : declPrefix.isPrefixOf (decl ++ s) = true := by
    rw [List.isPrefixOf_iff_prefix] at hd ⊢
    exact hd.trans (List.prefix_append decl s)
  have h1 : declPrefix.isPrefixOf (addDecl decl s) = true := by
    unfold addDecl
    split
    · assumption
    · exact hpre
  refine ⟨h1, ?_, ?_, ?_⟩
  · show (if declPrefix.isPrefixOf (addDecl decl s) = true then addDecl decl s else decl ++ addDecl decl s) = _
    rw [if_pos h1]
  · intro h; unfold addDecl; rw [if_pos h]
  · intro h; unfold addDecl; rw [h]; rfl

/-! ### shape / stripNs / stripElemNs / hasNs -/

theorem shapeList_append : ∀ (l₁ l₂ : List Node), shapeList (l₁ ++ l₂) = shapeList l₁ ++ shapeList l₂
  | [], l₂ => by simp [shapeList]
  | n :: ns, l₂ => by
    rw [List.cons_append, shapeList, shapeList, shapeList_append ns l₂, List.append_assoc]

theorem hasNsList_append : ∀ (l₁ l₂ : List Node), hasNsList (l₁ ++ l₂) = (hasNsList l₁ || hasNsList l₂)
  | [], l₂ => by simp [hasNsList]
  | n :: ns, l₂ => by
    rw [List.cons_append, hasNsList, hasNsList, hasNsList_append ns l₂, Bool.or_assoc]

theorem stripQ_idem (q : QName) : stripQ (stripQ q) = stripQ q := rfl

theorem map_stripQ_idem (attrs : List (QName × Str)) :
    (attrs.map fun a => (stripQ a.1, a.2)).map (fun a => (stripQ a.1, a.2)) =
      attrs.map fun a => (stripQ a.1, a.2) := by
  rw [List.map_map]; rfl

mutual
  theorem shapeList_stripNs : ∀ n : Node, shapeList (stripNs n) = shape n
    | .elem tag attrs children => by
      rw [stripNs, shapeList, shapeList, shape, shape, map_stripQ_idem, stripQ_idem,
        shapeList_stripNsList children, List.append_nil]
    | .text s => by
      rw [stripNs, shape]
      split
      · rw [shapeList]
      · rw [shapeList, shapeList, shape, List.append_nil]
        split
        · contradiction
        · rfl
    | .comment s => by
      rw [stripNs, shapeList, shapeList, List.append_nil]
      all_goals simp
    | .pi t s => by
      rw [stripNs, shapeList, shapeList, List.append_nil]
      all_goals simp
  theorem shapeList_stripNsList : ∀ l : List Node, shapeList (stripNsList l) = shapeList l
    | [] => by rw [stripNsList]
    | n :: ns => by
      rw [stripNsList, shapeList_append, shapeList_stripNs n, shapeList_stripNsList ns, shapeList]
end

mutual
  theorem hasNsList_stripNs : ∀ n : Node, hasNsList (stripNs n) = false
    | .elem tag attrs children => by
      rw [stripNs, hasNsList, hasNsList, hasNs, hasNsList_stripNsList children]
      simp [stripQ]
    | .text s => by
      rw [stripNs]
      split
      · rw [hasNsList]
      · rw [hasNsList, hasNsList, hasNs]
        all_goals simp
    | .comment s => by
      rw [stripNs, hasNsList, hasNsList, hasNs]
      all_goals simp
    | .pi t s => by
      rw [stripNs, hasNsList, hasNsList, hasNs]
      all_goals simp
  theorem hasNsList_stripNsList : ∀ l : List Node, hasNsList (stripNsList l) = false
    | [] => by rw [stripNsList, hasNsList]
    | n :: ns => by
      rw [stripNsList, hasNsList_append, hasNsList_stripNs n, hasNsList_stripNsList ns]; rfl
end

mutual
  theorem shape_stripElemNs : ∀ n : Node, shape (stripElemNs n) = shape n
    | .elem tag attrs children => by
      rw [stripElemNs, shape, shape, stripQ_idem, shapeList_stripElemNsList children]
    | .text s => by rw [stripElemNs]; all_goals simp
    | .comment s => by rw [stripElemNs]; all_goals simp
    | .pi t s => by rw [stripElemNs]; all_goals simp
  theorem shapeList_stripElemNsList : ∀ l : List Node, shapeList (stripElemNsList l) = shapeList l
    | [] => by rw [stripElemNsList]
    | n :: ns => by
      rw [stripElemNsList, shapeList, shapeList, shape_stripElemNs n, shapeList_stripElemNsList ns]
end

/-! ### findChild -/

theorem findChild_some (q tag : QName) (attrs : List (QName × Str)) (children : List Node) (d : Node)
    (h : findChild q (.elem tag attrs children) = some d) :
    d ∈ children ∧ ∃ a c, d = .elem q a c := by
  unfold findChild at h
  refine ⟨List.mem_of_find?_eq_some h, ?_⟩
  have hp := List.find?_some h
  cases d with
  | elem t a c =>
    have : t = q := of_decide_eq_true hp
    exact ⟨a, c, by rw [this]⟩
  | text s => cases hp
  | comment s => cases hp
  | pi t s => cases hp

end NcVerif.XmlP
