/-
  Proofs about the 1.1 half of Model/Framing: `token` characterisation and monotonicity,
  fuel-free view `R` of `run11`, resumption across feeds, and the C01/C14 1.1 theorems.
-/
import NcVerif.Model.Framing
import NcVerif.Spec.Framing
namespace NcVerif.Framing11
open NcVerif NcVerif.Framing NcVerif.FramingSpec

/-! ### `token` equations -/

theorem token_nil : token [] = .need := by simp only [token]
theorem token_1 : token [0x0a] = .need := by simp only [token]
theorem token_2 : token [0x0a, 0x23] = .need := by simp only [token]
theorem token_3 : token [0x0a, 0x23, 0x23] = .need := by simp only [token]; rfl
theorem token_end (d : UInt8) (r : Bytes) :
    token (0x0a :: 0x23 :: 0x23 :: d :: r) = if d = 0x0a then .endMsg else .bad := by
  simp only [token]; rfl

theorem isDigit19_ne_23 {c : UInt8} (h : isDigit19 c = true) : c ≠ 0x23 := by
  rintro rfl; revert h; decide

theorem token_digit_need (c : UInt8) (rest : Bytes) (hc : isDigit19 c = true)
    (h : rest.dropWhile isDigit = []) : token (0x0a :: 0x23 :: c :: rest) = .need := by
  simp only [token, isDigit19_ne_23 hc, hc, h, if_false, if_true]

theorem token_digit_cons (c : UInt8) (rest : Bytes) (d : UInt8) (t : Bytes) (hc : isDigit19 c = true)
    (h : rest.dropWhile isDigit = d :: t) :
    token (0x0a :: 0x23 :: c :: rest) =
      if d = 0x0a then .chunk (digitsVal (c :: rest.takeWhile isDigit)) ((rest.takeWhile isDigit).length + 4)
      else .bad := by
  simp only [token, isDigit19_ne_23 hc, hc, h, if_false, if_true, List.length_cons]

theorem token_nondigit (c : UInt8) (rest : Bytes) (h23 : c ≠ 0x23) (hc : isDigit19 c = false) :
    token (0x0a :: 0x23 :: c :: rest) = .bad := by
  simp only [token, h23, hc, if_false]; simp

theorem token_ne_0a (a : UInt8) (r : Bytes) (h : a ≠ 0x0a) : token (a :: r) = .bad := by
  unfold token
  split <;> simp_all

theorem token_ne_23 (b : UInt8) (r : Bytes) (h : b ≠ 0x23) : token (0x0a :: b :: r) = .bad := by
  unfold token
  split <;> simp_all

/-! ### takeWhile / dropWhile helpers -/

theorem dropWhile_eq_cons {α} {p : α → Bool} {l : List α} {d : α} {t : List α}
    (h : l.dropWhile p = d :: t) : p d = false ∧ l = l.takeWhile p ++ d :: t := by
  constructor
  · have := List.head_dropWhile_not (p := p) (l := l) (by rw [h]; simp)
    simpa [h] using this
  · rw [← h]; simp

theorem takeWhile_mem {α} {p : α → Bool} {l : List α} : ∀ x ∈ l.takeWhile p, p x = true := by
  induction l with
  | nil => simp
  | cons a l ih =>
    intro x hx
    by_cases ha : p a = true
    · rw [List.takeWhile_cons_of_pos ha] at hx
      cases hx with
      | head => exact ha
      | tail _ h => exact ih x h
    · rw [List.takeWhile_cons_of_neg ha] at hx; cases hx

theorem dropWhile_eq_nil {α} {p : α → Bool} {l : List α} (h : l.dropWhile p = []) :
    ∀ x ∈ l, p x = true := by
  induction l with
  | nil => simp
  | cons a l ih =>
    by_cases ha : p a = true
    · rw [List.dropWhile_cons_of_pos ha] at h
      intro x hx
      cases hx with
      | head => exact ha
      | tail _ hx => exact ih h x hx
    · rw [List.dropWhile_cons_of_neg ha] at h; cases h

theorem dropWhile_all {α} {p : α → Bool} {l : List α} (h : ∀ x ∈ l, p x = true) :
    l.dropWhile p = [] := by
  have := List.dropWhile_append_of_pos (p := p) (l₁ := l) (l₂ := []) h
  simpa using this

theorem takeWhile_split {α} {p : α → Bool} (ds : List α) (d : α) (t : List α)
    (hds : ∀ x ∈ ds, p x = true) (hd : p d = false) :
    (ds ++ d :: t).takeWhile p = ds ∧ (ds ++ d :: t).dropWhile p = d :: t := by
  constructor
  · rw [List.takeWhile_append_of_pos hds, List.takeWhile_cons_of_neg (by simp [hd])]; simp
  · rw [List.dropWhile_append_of_pos hds, List.dropWhile_cons_of_neg (by simp [hd])]

/-- Canonical chunk-size digit strings: `DIGIT1 *DIGIT`. -/
def Canon (ds : Bytes) : Prop :=
  ∃ c t, ds = c :: t ∧ isDigit19 c = true ∧ ∀ x ∈ t, isDigit x = true

theorem isDigit_0a : isDigit 0x0a = false := by decide

theorem token_hdr (ds t : Bytes) (h : Canon ds) :
    token (0x0a :: 0x23 :: (ds ++ 0x0a :: t)) = .chunk (digitsVal ds) (ds.length + 3) := by
  obtain ⟨c, ds', rfl, hc, hds⟩ := h
  obtain ⟨h1, h2⟩ := takeWhile_split ds' 0x0a t hds isDigit_0a
  rw [List.cons_append, token_digit_cons c _ 0x0a t hc h2, h1]
  simp

theorem token_hdr_bad (ds : Bytes) (d : UInt8) (t : Bytes) (h : Canon ds)
    (hd : isDigit d = false) (hd' : d ≠ 0x0a) :
    token (0x0a :: 0x23 :: (ds ++ d :: t)) = .bad := by
  obtain ⟨c, ds', rfl, hc, hds⟩ := h
  obtain ⟨_, h2⟩ := takeWhile_split ds' d t hds hd
  rw [List.cons_append, token_digit_cons c _ d t hc h2, if_neg hd']

theorem token_digits_need (ds : Bytes) (h : Canon ds) : token (0x0a :: 0x23 :: ds) = .need := by
  obtain ⟨c, ds', rfl, hc, hds⟩ := h
  exact token_digit_need c ds' hc (dropWhile_all hds)

/-- Complete case analysis of `token`. -/
inductive TokView : Bytes → Tok → Prop
  | nil : TokView [] .need
  | n1 : TokView [0x0a] .need
  | n2 : TokView [0x0a, 0x23] .need
  | n3 : TokView [0x0a, 0x23, 0x23] .need
  | nd (ds : Bytes) : Canon ds → TokView (0x0a :: 0x23 :: ds) .need
  | endm (t : Bytes) : TokView (0x0a :: 0x23 :: 0x23 :: 0x0a :: t) .endMsg
  | chunk (ds t : Bytes) : Canon ds →
      TokView (0x0a :: 0x23 :: (ds ++ 0x0a :: t)) (.chunk (digitsVal ds) (ds.length + 3))
  | bad0 (a : UInt8) (t : Bytes) : a ≠ 0x0a → TokView (a :: t) .bad
  | bad1 (b : UInt8) (t : Bytes) : b ≠ 0x23 → TokView (0x0a :: b :: t) .bad
  | bad2 (c : UInt8) (t : Bytes) : c ≠ 0x23 → isDigit19 c = false → TokView (0x0a :: 0x23 :: c :: t) .bad
  | bad3 (d : UInt8) (t : Bytes) : d ≠ 0x0a → TokView (0x0a :: 0x23 :: 0x23 :: d :: t) .bad
  | bad4 (ds : Bytes) (d : UInt8) (t : Bytes) : Canon ds → isDigit d = false → d ≠ 0x0a →
      TokView (0x0a :: 0x23 :: (ds ++ d :: t)) .bad

theorem tokView (r : Bytes) : TokView r (token r) := by
  match r with
  | [] => rw [token_nil]; exact .nil
  | [a] =>
    by_cases ha : a = 0x0a
    · subst ha; rw [token_1]; exact .n1
    · rw [token_ne_0a _ _ ha]; exact .bad0 _ _ ha
  | [a, b] =>
    by_cases ha : a = 0x0a
    · subst ha
      by_cases hb : b = 0x23
      · subst hb; rw [token_2]; exact .n2
      · rw [token_ne_23 _ _ hb]; exact .bad1 _ _ hb
    · rw [token_ne_0a _ _ ha]; exact .bad0 _ _ ha
  | a :: b :: c :: rest =>
    by_cases ha : a = 0x0a
    · subst ha
      by_cases hb : b = 0x23
      · subst hb
        by_cases hc : c = 0x23
        · subst hc
          cases rest with
          | nil => rw [token_3]; exact .n3
          | cons d t =>
            rw [token_end]
            split
            · rename_i hd; subst hd; exact .endm t
            · rename_i hd; exact .bad3 _ _ hd
        · cases h19 : isDigit19 c with
          | false => rw [token_nondigit _ _ hc h19]; exact .bad2 _ _ hc h19
          | true =>
            cases hdw : rest.dropWhile isDigit with
            | nil =>
              rw [token_digit_need _ _ h19 hdw]
              exact .nd _ ⟨c, rest, rfl, h19, dropWhile_eq_nil hdw⟩
            | cons d t =>
              obtain ⟨hdd, hsplit⟩ := dropWhile_eq_cons hdw
              have hcan : Canon (c :: rest.takeWhile isDigit) := ⟨c, _, rfl, h19, takeWhile_mem⟩
              have hr : (0x0a : UInt8) :: 0x23 :: c :: rest
                  = 0x0a :: 0x23 :: ((c :: rest.takeWhile isDigit) ++ d :: t) := by
                simp only [List.cons_append]; rw [← hsplit]
              rw [hr]
              by_cases hd : d = 0x0a
              · subst hd
                rw [token_hdr _ _ hcan]; exact .chunk _ _ hcan
              · rw [token_hdr_bad _ _ _ hcan hdd hd]; exact .bad4 _ _ _ hcan hdd hd
      · rw [token_ne_23 _ _ hb]; exact .bad1 _ _ hb
    · rw [token_ne_0a _ _ ha]; exact .bad0 _ _ ha

theorem token_chunk_inv {r : Bytes} {n u : Nat} (h : token r = .chunk n u) :
    ∃ ds t, Canon ds ∧ r = 0x0a :: 0x23 :: (ds ++ 0x0a :: t) ∧ n = digitsVal ds ∧ u = ds.length + 3 := by
  have v := tokView r
  rw [h] at v
  cases v with
  | chunk ds t hc => exact ⟨ds, t, hc, rfl, rfl, rfl⟩

theorem token_endMsg_inv {r : Bytes} (h : token r = .endMsg) : ∃ t, r = endDelim11 ++ t := by
  have v := tokView r
  rw [h] at v
  cases v with
  | endm t => exact ⟨t, rfl⟩

theorem token_endDelim (t : Bytes) : token (endDelim11 ++ t) = .endMsg := by
  show token (0x0a :: 0x23 :: 0x23 :: 0x0a :: t) = _
  rw [token_end]; simp

/-! ### `token` monotonicity: a decided token is not changed by more data -/

theorem token_chunk_mono {r : Bytes} {n u : Nat} (d : Bytes) (h : token r = .chunk n u) :
    token (r ++ d) = .chunk n u := by
  obtain ⟨ds, t, hc, rfl, rfl, rfl⟩ := token_chunk_inv h
  have := token_hdr ds (t ++ d) hc
  simpa using this

theorem token_endMsg_mono {r : Bytes} (d : Bytes) (h : token r = .endMsg) :
    token (r ++ d) = .endMsg := by
  obtain ⟨t, rfl⟩ := token_endMsg_inv h
  rw [List.append_assoc]; exact token_endDelim _

theorem token_bad_mono {r : Bytes} (x : Bytes) (h : token r = .bad) : token (r ++ x) = .bad := by
  have v := tokView r
  rw [h] at v
  cases v with
  | bad0 a t ha => exact token_ne_0a _ _ ha
  | bad1 b t hb => exact token_ne_23 _ _ hb
  | bad2 c t hc h19 => exact token_nondigit _ _ hc h19
  | bad3 d t hd => simp only [List.cons_append]; rw [token_end, if_neg hd]
  | bad4 ds d t hc hd hd' =>
    have := token_hdr_bad ds d (t ++ x) hc hd hd'
    simpa using this

theorem token_chunk_used {r : Bytes} {n u : Nat} (h : token r = .chunk n u) : 4 ≤ u ∧ u ≤ r.length := by
  obtain ⟨ds, t, ⟨c, ds', rfl, _, _⟩, rfl, rfl, rfl⟩ := token_chunk_inv h
  simp only [List.length_cons, List.length_append]; omega

/-! ### `natDigits` / `digitsVal` -/

def dig (k : Nat) : UInt8 := UInt8.ofNat (Nat.digitChar k).toNat

theorem dig_facts : ∀ k, k < 10 → dig k = UInt8.ofNat (48 + k) ∧ (dig k).toNat - 0x30 = k ∧
    isDigit (dig k) = true ∧ (1 ≤ k → isDigit19 (dig k) = true) := by decide

theorem dig_of_isDigit {d : UInt8} (h : isDigit d = true) : dig (d.toNat - 0x30) = d ∧ d.toNat - 0x30 < 10 := by
  simp only [isDigit, Bool.and_eq_true, decide_eq_true_eq, UInt8.le_iff_toNat_le] at h
  have h1 : d.toNat - 0x30 < 10 := by have := h.2; simp at this; omega
  refine ⟨?_, h1⟩
  rw [(dig_facts _ h1).1]
  have : 48 + (d.toNat - 0x30) = d.toNat := by have := h.1; simp at this; omega
  rw [this]; simp

theorem isDigit_of_19 {c : UInt8} (h : isDigit19 c = true) : isDigit c = true ∧ 1 ≤ c.toNat - 0x30 := by
  simp only [isDigit19, isDigit, Bool.and_eq_true, decide_eq_true_eq, UInt8.le_iff_toNat_le] at h ⊢
  have := h.1; have := h.2; simp at *; omega

theorem natDigits_lt {n : Nat} (h : n < 10) : natDigits n = [dig n] := by
  simp [natDigits, Nat.toDigits_of_lt_base h, dig]

theorem natDigits_ge {n : Nat} (h : 10 ≤ n) : natDigits n = natDigits (n / 10) ++ [dig (n % 10)] := by
  simp [natDigits, Nat.toDigits_of_base_le (by decide : 1 < 10) h, dig]

theorem digitsVal_snoc (ds : Bytes) (d : UInt8) :
    digitsVal (ds ++ [d]) = digitsVal ds * 10 + (d.toNat - 0x30) := by
  simp [digitsVal, List.foldl_append]

theorem canon_snoc {ds : Bytes} {d : UInt8} (h : Canon ds) (hd : isDigit d = true) : Canon (ds ++ [d]) := by
  obtain ⟨c, t, rfl, hc, ht⟩ := h
  refine ⟨c, t ++ [d], rfl, hc, ?_⟩
  intro x hx
  rcases List.mem_append.mp hx with hx | hx
  · exact ht x hx
  · simp at hx; subst hx; exact hd

theorem natDigits_spec (n : Nat) (h : 1 ≤ n) : Canon (natDigits n) ∧ digitsVal (natDigits n) = n := by
  induction n using Nat.strongRecOn with
  | _ n ih =>
    by_cases hn : n < 10
    · rw [natDigits_lt hn]
      obtain ⟨_, h2, h3, h4⟩ := dig_facts n hn
      exact ⟨⟨dig n, [], rfl, h4 h, by simp⟩, by simp [digitsVal, h2]⟩
    · rw [natDigits_ge (by omega)]
      obtain ⟨ihc, ihv⟩ := ih (n / 10) (by omega) (by omega)
      obtain ⟨_, h2, h3, _⟩ := dig_facts (n % 10) (by omega)
      refine ⟨canon_snoc ihc h3, ?_⟩
      rw [digitsVal_snoc, ihv, h2]; omega

theorem canon_spec_aux (c : UInt8) (hc : isDigit19 c = true) :
    ∀ (k : Nat) (t : Bytes), t.length = k → (∀ x ∈ t, isDigit x = true) →
      1 ≤ digitsVal (c :: t) ∧ natDigits (digitsVal (c :: t)) = c :: t := by
  intro k
  induction k with
  | zero =>
    intro t ht _
    have : t = [] := List.eq_nil_of_length_eq_zero ht
    subst this
    obtain ⟨h1, h2⟩ := isDigit_of_19 hc
    obtain ⟨h3, h4⟩ := dig_of_isDigit h1
    have hv : digitsVal [c] = c.toNat - 0x30 := by simp [digitsVal]
    rw [hv]
    exact ⟨h2, by rw [natDigits_lt h4, h3]⟩
  | succ k ih =>
    intro t ht hall
    have hne : t ≠ [] := by intro h; subst h; simp at ht
    have hsplit := List.dropLast_concat_getLast hne
    obtain ⟨ih1, ih2⟩ := ih t.dropLast (by simp [ht]) (fun x hx => hall x (List.dropLast_subset _ hx))
    have hd := hall _ (List.getLast_mem hne)
    obtain ⟨h3, h4⟩ := dig_of_isDigit hd
    have e : c :: t = (c :: t.dropLast) ++ [t.getLast hne] := by simp [hsplit]
    rw [e, digitsVal_snoc]
    refine ⟨by omega, ?_⟩
    rw [natDigits_ge (by omega)]
    have e1 : (digitsVal (c :: t.dropLast) * 10 + ((t.getLast hne).toNat - 0x30)) / 10
        = digitsVal (c :: t.dropLast) := by omega
    have e2 : (digitsVal (c :: t.dropLast) * 10 + ((t.getLast hne).toNat - 0x30)) % 10
        = (t.getLast hne).toNat - 0x30 := by omega
    rw [e1, e2, ih2, h3]

theorem canon_spec {ds : Bytes} (h : Canon ds) : 1 ≤ digitsVal ds ∧ natDigits (digitsVal ds) = ds := by
  obtain ⟨c, t, rfl, hc, ht⟩ := h
  exact canon_spec_aux c hc t.length t rfl ht

/-! ### Fuel-free view of `run11` -/

/-- `run11` without fuel (well-founded on the length of the unread buffer). -/
def R (rest : Bytes) (chunks : List Bytes) : PState × List Out :=
  if rest.isEmpty then ({ buf := [], chunks := chunks }, []) else
  match _h : token rest with
  | .need => ({ buf := rest, chunks := chunks }, [])
  | .bad => ({ buf := rest, chunks := chunks }, [.raise .framing])
  | .chunk size used =>
    if rest.length ≥ used + size then
      R (rest.drop (used + size)) (chunks ++ [(rest.drop used).take size])
    else ({ buf := rest, chunks := chunks }, [])
  | .endMsg =>
    if chunks.isEmpty then ({ buf := rest, chunks := chunks }, [.raise .framing])
    else
      match Utf8.decode chunks.flatten with
      | none => ({ buf := rest, chunks := [] }, [.raise .decode])
      | some text => ((R (rest.drop 4) []).1, .deliver text :: (R (rest.drop 4) []).2)
termination_by rest.length
decreasing_by
  · have := token_chunk_used _h
    simp only [List.length_drop]; omega
  · have : rest ≠ [] := by intro h; simp [h] at *
    have := List.length_pos_iff.mpr this
    simp only [List.length_drop]; omega


theorem R_nil (cs : List Bytes) : R [] cs = ({ buf := [], chunks := cs }, []) := by
  rw [R]; simp

theorem R_need {r : Bytes} (cs : List Bytes) (h : token r = .need) :
    R r cs = ({ buf := r, chunks := cs }, []) := by
  rw [R]
  split
  · rename_i h0; simp at h0; subst h0; rfl
  · split <;> simp_all

theorem R_bad {r : Bytes} (cs : List Bytes) (h : token r = .bad) :
    R r cs = ({ buf := r, chunks := cs }, [.raise .framing]) := by
  rw [R]
  split
  · rename_i h0; simp at h0; subst h0; simp [token_nil] at h
  · split <;> simp_all

theorem R_chunk {r : Bytes} (cs : List Bytes) {n u : Nat} (h : token r = .chunk n u) :
    R r cs = if r.length ≥ u + n then R (r.drop (u + n)) (cs ++ [(r.drop u).take n])
      else ({ buf := r, chunks := cs }, []) := by
  rw [R]
  split
  · rename_i h0; simp at h0; subst h0; simp [token_nil] at h
  · split <;> simp_all

theorem R_end {r : Bytes} (cs : List Bytes) (h : token r = .endMsg) :
    R r cs = if cs.isEmpty then ({ buf := r, chunks := cs }, [.raise .framing])
      else match Utf8.decode cs.flatten with
        | none => ({ buf := r, chunks := [] }, [.raise .decode])
        | some text => ((R (r.drop 4) []).1, .deliver text :: (R (r.drop 4) []).2) := by
  rw [R]
  split
  · rename_i h0; simp at h0; subst h0; simp [token_nil] at h
  · split <;> simp_all

theorem run11_eq_R (fuel : Nat) (rest : Bytes) (chunks : List Bytes) (h : rest.length + 1 ≤ fuel) :
    run11 fuel rest chunks = R rest chunks := by
  induction fuel generalizing rest chunks with
  | zero => omega
  | succ fuel ih =>
    rw [run11]
    split
    · rename_i h0; simp at h0; subst h0; rw [R_nil]
    · rename_i hne
      have hpos : 0 < rest.length := List.length_pos_iff.mpr (by intro h; simp [h] at hne)
      split
      · rename_i htok; rw [R_need _ htok]
      · rename_i htok; rw [R_bad _ htok]
      · rename_i size used htok
        have := token_chunk_used htok
        rw [R_chunk _ htok]
        split
        · rw [ih]; simp only [List.length_drop]; omega
        · rfl
      · rename_i htok
        rw [R_end _ htok]
        split
        · rfl
        · split
          · rename_i htxt; simp only [htxt]
          · rename_i text htxt
            simp only [htxt]
            rw [ih _ _ (by simp only [List.length_drop]; omega)]

/-! ### Resumption: running on `rest ++ d` = running on `rest`, then on what was left `++ d` -/

theorem hasRaise_nil : hasRaise [] = false := rfl
theorem hasRaise_deliver (t : Str) (o : List Out) : hasRaise (.deliver t :: o) = hasRaise o := by
  simp [hasRaise]
theorem hasRaise_raise (k : ErrKind) (o : List Out) : hasRaise (.raise k :: o) = true := by
  simp [hasRaise]
theorem hasRaise_append (a b : List Out) : hasRaise (a ++ b) = (hasRaise a || hasRaise b) := by
  simp [hasRaise]

/-- Outputs of a run that raised are final; a run that did not raise resumes from its state. -/
theorem R_resume (rest : Bytes) (chunks : List Bytes) (d : Bytes) :
    (hasRaise (R rest chunks).2 = true → (R (rest ++ d) chunks).2 = (R rest chunks).2) ∧
    (hasRaise (R rest chunks).2 = false →
      R (rest ++ d) chunks =
        ((R ((R rest chunks).1.buf ++ d) (R rest chunks).1.chunks).1,
         (R rest chunks).2 ++ (R ((R rest chunks).1.buf ++ d) (R rest chunks).1.chunks).2)) := by
  induction rest, chunks using R.induct with
  | case1 rest chunks h0 =>
    simp at h0; subst h0
    simp [R_nil, hasRaise_nil]
  | case2 rest chunks _ htok => simp [R_need _ htok, hasRaise_nil]
  | case3 rest chunks _ htok =>
    simp [R_bad _ htok, R_bad _ (token_bad_mono d htok), hasRaise_raise]
  | case4 rest chunks _ size used htok hlen ih =>
    have hu := token_chunk_used htok
    have e1 : (rest ++ d).drop (used + size) = rest.drop (used + size) ++ d :=
      List.drop_append_of_le_length hlen
    have e2 : ((rest ++ d).drop used).take size = (rest.drop used).take size := by
      rw [List.drop_append_of_le_length hu.2, List.take_append_of_le_length]
      simp only [List.length_drop]; omega
    have hlen' : (rest ++ d).length ≥ used + size := by simp only [List.length_append]; omega
    rw [R_chunk _ htok, R_chunk _ (token_chunk_mono d htok), if_pos hlen, if_pos hlen', e1, e2]
    exact ih
  | case5 rest chunks _ size used htok hlen =>
    simp [R_chunk _ htok, if_neg hlen, hasRaise_nil]
  | case6 rest chunks _ htok hcs =>
    simp [R_end _ htok, R_end _ (token_endMsg_mono d htok), hcs, hasRaise_raise]
  | case7 rest chunks _ htok hcs hdec =>
    simp [R_end _ htok, R_end _ (token_endMsg_mono d htok), hcs, hdec, hasRaise_raise]
  | case8 rest chunks _ htok hcs text hdec ih =>
    obtain ⟨t, rfl⟩ := token_endMsg_inv htok
    have e1 : (endDelim11 ++ t ++ d).drop 4 = (endDelim11 ++ t).drop 4 ++ d := by
      simp [endDelim11]
    rw [R_end _ htok, R_end _ (token_endMsg_mono d htok)]
    simp only [hcs, hdec, e1]
    constructor
    · intro h; simp [ih.1 h]
    · intro h; rw [ih.2 h]; simp

/-! ### `feedAll true` computes `R` on the concatenated stream (at the level of `obs`) -/

theorem feed11 (s : PState) (data : Bytes) :
    feed true s data = if data.isEmpty then (s, []) else
      ({ (R (s.buf ++ data) s.chunks).1 with pos10 := s.pos10 }, (R (s.buf ++ data) s.chunks).2) := by
  simp only [feed, parse11, if_true]
  split
  · rfl
  · rw [run11_eq_R _ _ _ (Nat.le_refl _)]

theorem feedAll11_aux (segs : List Bytes) :
    ∀ (s : PState) (rest0 : Bytes) (chunks0 : List Bytes),
      hasRaise (R rest0 chunks0).2 = false →
      s.buf = (R rest0 chunks0).1.buf → s.chunks = (R rest0 chunks0).1.chunks →
      (R rest0 chunks0).2 ++ obs (feedAll true s segs) = (R (rest0 ++ segs.flatten) chunks0).2 := by
  induction segs with
  | nil => intro s rest0 chunks0 _ _ _; simp [feedAll, obs]
  | cons seg segs ih =>
    intro s rest0 chunks0 hr hb hc
    rw [feedAll, feed11]
    by_cases hseg : seg = []
    · subst hseg
      simp only [List.isEmpty_nil, if_true, hasRaise_nil, Bool.false_eq_true, if_false,
        List.nil_append, List.flatten_cons]
      exact ih s rest0 chunks0 hr hb hc
    · have hseg' : seg.isEmpty = false := by simpa using hseg
      simp only [hseg', Bool.false_eq_true, if_false, List.flatten_cons]
      have hres := (R_resume rest0 chunks0 seg).2 hr
      rw [← hb, ← hc] at hres
      have ho : (R (rest0 ++ seg) chunks0).2 = (R rest0 chunks0).2 ++ (R (s.buf ++ seg) s.chunks).2 := by
        rw [hres]
      have hs : (R (rest0 ++ seg) chunks0).1 = (R (s.buf ++ seg) s.chunks).1 := by rw [hres]
      cases hr1 : hasRaise (R (s.buf ++ seg) s.chunks).2 with
      | true =>
        simp only [if_true, obs]
        have : hasRaise (R (rest0 ++ seg) chunks0).2 = true := by
          rw [ho, hasRaise_append, hr1, Bool.or_true]
        rw [← List.append_assoc, (R_resume (rest0 ++ seg) chunks0 segs.flatten).1 this, ho]
      | false =>
        simp only [Bool.false_eq_true, if_false, obs]
        have hr' : hasRaise (R (rest0 ++ seg) chunks0).2 = false := by
          rw [ho, hasRaise_append, hr1, hr]; rfl
        have := ih { (R (s.buf ++ seg) s.chunks).1 with pos10 := s.pos10 } (rest0 ++ seg) chunks0 hr'
          (by rw [hs]) (by rw [hs])
        rw [ho] at this
        simp only [obs, List.append_assoc] at this
        exact this

theorem feedAll11 (segs : List Bytes) : obs (feedAll true init segs) = (R segs.flatten []).2 := by
  have := feedAll11_aux segs init [] [] (by simp [R_nil, hasRaise_nil]) (by simp [R_nil, init])
    (by simp [R_nil, init])
  simpa [R_nil] using this

theorem seg_indep11 (segs₁ segs₂ : List Bytes) (h : segs₁.flatten = segs₂.flatten) :
    obs (feedAll true init segs₁) = obs (feedAll true init segs₂) := by
  rw [feedAll11, feedAll11, h]

/-! ### Running over encoder output -/

/-- A chunk header for canonical digits `ds`. -/
def hdr (ds : Bytes) : Bytes := 0x0a :: 0x23 :: (ds ++ [0x0a])

theorem hdr_length (ds : Bytes) : (hdr ds).length = ds.length + 3 := by simp [hdr]

theorem chunk11_eq (c : Bytes) : chunk11 c = hdr (natDigits c.length) ++ c := by
  simp [chunk11, hdr]

theorem token_hdr' (ds t : Bytes) (h : Canon ds) :
    token (hdr ds ++ t) = .chunk (digitsVal ds) (ds.length + 3) := by
  have := token_hdr ds t h
  simpa [hdr] using this

/-- One complete chunk (canonical header `ds`, payload `c` of the announced size) is consumed. -/
theorem R_hdr_chunk (ds c more : Bytes) (acc : List Bytes) (h : Canon ds) (hc : c.length = digitsVal ds) :
    R (hdr ds ++ c ++ more) acc = R more (acc ++ [c]) := by
  have htok : token (hdr ds ++ c ++ more) = .chunk (digitsVal ds) (ds.length + 3) := by
    rw [List.append_assoc]; exact token_hdr' ds _ h
  rw [R_chunk _ htok]
  have hl : (hdr ds ++ c ++ more).length ≥ ds.length + 3 + digitsVal ds := by
    simp only [List.length_append, hdr_length]; omega
  rw [if_pos hl]
  have e1 : (hdr ds ++ c ++ more).drop (ds.length + 3 + digitsVal ds) = more :=
    List.drop_left' (by simp only [List.length_append, hdr_length]; omega)
  have e2 : ((hdr ds ++ c ++ more).drop (ds.length + 3)).take (digitsVal ds) = c := by
    rw [List.append_assoc, List.drop_left' (hdr_length ds), List.take_left' hc]
  rw [e1, e2]

theorem R_chunk11 (c more : Bytes) (acc : List Bytes) (hc : c ≠ []) :
    R (chunk11 c ++ more) acc = R more (acc ++ [c]) := by
  have hpos : 1 ≤ c.length := List.length_pos_iff.mpr hc
  obtain ⟨h1, h2⟩ := natDigits_spec c.length hpos
  rw [chunk11_eq]
  exact R_hdr_chunk _ c more acc h1 h2.symm

theorem R_chunks (cs : List Bytes) (more : Bytes) (acc : List Bytes) (h : ∀ c ∈ cs, c ≠ []) :
    R ((cs.map chunk11).flatten ++ more) acc = R more (acc ++ cs) := by
  induction cs generalizing acc with
  | nil => simp
  | cons c cs ih =>
    simp only [List.map_cons, List.flatten_cons, List.append_assoc]
    rw [R_chunk11 _ _ _ (h c (by simp)), ih _ (fun x hx => h x (by simp [hx]))]
    simp

theorem R_endDelim (more : Bytes) (cs : List Bytes) :
    R (endDelim11 ++ more) cs = if cs.isEmpty then ({ buf := endDelim11 ++ more, chunks := cs }, [.raise .framing])
      else match Utf8.decode cs.flatten with
        | none => ({ buf := endDelim11 ++ more, chunks := [] }, [.raise .decode])
        | some text => ((R more []).1, .deliver text :: (R more []).2) := by
  rw [R_end _ (token_endDelim more)]
  have : (endDelim11 ++ more).drop 4 = more := by simp [endDelim11]
  rw [this]

/-- Expected outputs for a list of messages followed by `tail`. -/
def outs11 (tail : List Out) : List (List Bytes) → List Out
  | [] => tail
  | cs :: mss =>
    match Utf8.decode cs.flatten with
    | none => [.raise .decode]
    | some t => .deliver t :: outs11 tail mss

theorem R_enc11msg (cs : List Bytes) (more : Bytes) (h : WFmsg cs) :
    (R (enc11msg cs ++ more) []).2 = outs11 (R more []).2 [cs] := by
  rw [enc11msg, List.append_assoc, R_chunks _ _ _ h.2, List.nil_append, R_endDelim]
  have : cs.isEmpty = false := by simpa using h.1
  simp only [this, Bool.false_eq_true, if_false, outs11]
  split <;> simp_all

theorem R_enc11 (mss : List (List Bytes)) (more : Bytes) (h : WF mss) :
    (R (enc11 mss ++ more) []).2 = outs11 (R more []).2 mss := by
  induction mss with
  | nil => simp [enc11, outs11]
  | cons cs mss ih =>
    have hw : WFmsg cs := h cs (by simp)
    have ih := ih (fun x hx => h x (by simp [hx]))
    have e : enc11 (cs :: mss) ++ more = enc11msg cs ++ (enc11 mss ++ more) := by simp [enc11]
    rw [e, R_enc11msg _ _ hw, ih]
    simp only [outs11]

theorem outs11_nil (mss : List (List Bytes)) :
    outs11 [] mss = outcomes present11 (mss.map List.flatten) := by
  induction mss with
  | nil => rfl
  | cons cs mss ih =>
    simp only [outs11, List.map_cons, outcomes, present11]
    split <;> simp_all

theorem decode_encode11 (mss : List (List Bytes)) (segs : List Bytes)
    (hw : WF mss) (h : segs.flatten = enc11 mss) :
    obs (feedAll true init segs) = outcomes present11 (mss.map List.flatten) := by
  rw [feedAll11, h]
  have := R_enc11 mss [] hw
  rw [List.append_nil, R_nil] at this
  rw [this, outs11_nil]

/-! ### Garbage where a header is expected -/

theorem outs11_valid (tail : List Out) (mss : List (List Bytes))
    (hd : ∀ cs ∈ mss, Utf8.valid cs.flatten = true) :
    outs11 tail mss = (mss.map fun cs => .deliver ((Utf8.decode cs.flatten).getD [])) ++ tail := by
  induction mss with
  | nil => rfl
  | cons cs mss ih =>
    have h1 := hd cs (by simp)
    have ih := ih (fun x hx => hd x (by simp [hx]))
    simp only [Utf8.valid] at h1
    obtain ⟨t, ht⟩ := Option.isSome_iff_exists.mp h1
    simp only [outs11, ht, ih, List.map_cons, Option.getD_some, List.cons_append]

theorem bad_header_raises (mss : List (List Bytes)) (junk : Bytes) (segs : List Bytes)
    (hw : WF mss) (hd : ∀ cs ∈ mss, Utf8.valid cs.flatten = true) (hj : token junk = .bad)
    (h : segs.flatten = enc11 mss ++ junk) :
    obs (feedAll true init segs) =
      (mss.map fun cs => .deliver ((Utf8.decode cs.flatten).getD [])) ++ [.raise .framing] := by
  rw [feedAll11, h, R_enc11 mss junk hw, R_bad _ hj, outs11_valid _ _ hd]

/-! ### Proper prefixes of a message: nothing is output -/

theorem prefix_append_cases {α} {q a b : List α} (h : q <+: a ++ b) :
    q <+: a ∨ ∃ q', q = a ++ q' ∧ q' <+: b := by
  rcases List.prefix_or_prefix_of_prefix h (List.prefix_append a b) with h1 | h1
  · exact .inl h1
  · obtain ⟨q', rfl⟩ := h1
    exact .inr ⟨q', rfl, (List.prefix_append_right_inj a).mp h⟩

theorem canon_prefix {ds q : Bytes} (h : Canon ds) (hq : q <+: ds) (hne : q ≠ []) : Canon q := by
  obtain ⟨c, t, rfl, hc, ht⟩ := h
  cases q with
  | nil => exact absurd rfl hne
  | cons x q =>
    obtain ⟨r, hr⟩ := hq
    simp only [List.cons_append, List.cons.injEq] at hr
    obtain ⟨rfl, rfl⟩ := hr
    exact ⟨x, q, rfl, hc, fun y hy => ht y (by simp [hy])⟩

/-- A proper prefix of a header: wait. -/
theorem R_prefix_hdr (ds q : Bytes) (acc : List Bytes) (h : Canon ds) (hq : q <+: hdr ds)
    (hne : q ≠ hdr ds) : R q acc = ({ buf := q, chunks := acc }, []) := by
  match q with
  | [] => exact R_nil acc
  | [a] =>
    obtain ⟨r, hr⟩ := hq
    simp only [hdr, List.cons_append, List.cons.injEq] at hr
    rw [hr.1]; exact R_need _ token_1
  | a :: b :: q' =>
    obtain ⟨r, hr⟩ := hq
    simp only [hdr, List.cons_append, List.cons.injEq] at hr
    obtain ⟨rfl, rfl, hr⟩ := hr
    have hq' : q' <+: ds ++ [0x0a] := ⟨r, hr⟩
    rcases prefix_append_cases hq' with h1 | ⟨x, rfl, hx⟩
    · by_cases hq0 : q' = []
      · subst hq0; exact R_need _ token_2
      · exact R_need _ (token_digits_need _ (canon_prefix h h1 hq0))
    · have : x = [] := by
        cases x with
        | nil => rfl
        | cons y x =>
          exfalso
          obtain ⟨r', hr'⟩ := hx
          simp only [List.cons_append, List.cons.injEq] at hr'
          have : x = [] := (List.append_eq_nil_iff.mp hr'.2).1
          apply hne; rw [this, hr'.1]; rfl
      subst this
      rw [List.append_nil]
      exact R_need _ (token_digits_need _ h)

/-- A proper prefix of a chunk: wait. -/
theorem R_prefix_chunk (ds c q : Bytes) (acc : List Bytes) (h : Canon ds) (hc : c.length = digitsVal ds)
    (hq : q <+: hdr ds ++ c) (hne : q ≠ hdr ds ++ c) : R q acc = ({ buf := q, chunks := acc }, []) := by
  rcases prefix_append_cases hq with h1 | ⟨c', rfl, hc'⟩
  · by_cases he : q = hdr ds
    · subst he
      have htok := token_hdr' ds [] h
      rw [List.append_nil] at htok
      rw [R_chunk _ htok, if_neg]
      have := (canon_spec h).1
      rw [hdr_length]; omega
    · exact R_prefix_hdr ds q acc h h1 he
  · have htok := token_hdr' ds c' h
    rw [R_chunk _ htok, if_neg]
    have hlt : c'.length < c.length := by
      have h1 := hc'.length_le
      rcases Nat.lt_or_ge c'.length c.length with h2 | h2
      · exact h2
      · exfalso; apply hne; rw [hc'.eq_of_length_le h2]
    simp only [List.length_append, hdr_length]; omega

theorem prefix_endDelim {q : Bytes} (hq : q <+: endDelim11) (hne : q ≠ endDelim11) :
    q = [] ∨ q = [0x0a] ∨ q = [0x0a, 0x23] ∨ q = [0x0a, 0x23, 0x23] := by
  have hl := hq.length_le
  have he := List.prefix_iff_eq_take.mp hq
  have hl4 : endDelim11.length = 4 := rfl
  rcases Nat.lt_or_ge q.length 4 with h | h
  · generalize q.length = k at *
    match k, h with
    | 0, _ => left; rw [he]; rfl
    | 1, _ => right; left; rw [he]; rfl
    | 2, _ => right; right; left; rw [he]; rfl
    | 3, _ => right; right; right; rw [he]; rfl
  · exfalso; apply hne; exact hq.eq_of_length_le (by omega)

theorem R_partial (cs : List Bytes) : ∀ (acc : List Bytes) (q : Bytes), (∀ c ∈ cs, c ≠ []) →
    q <+: (cs.map chunk11).flatten ++ endDelim11 → q ≠ (cs.map chunk11).flatten ++ endDelim11 →
    (R q acc).2 = [] := by
  induction cs with
  | nil =>
    intro acc q _ hq hne
    simp only [List.map_nil, List.flatten_nil, List.nil_append] at hq hne
    rcases prefix_endDelim hq hne with rfl | rfl | rfl | rfl
    · rw [R_nil]
    · rw [R_need _ token_1]
    · rw [R_need _ token_2]
    · rw [R_need _ token_3]
  | cons c cs ih =>
    intro acc q hcs hq hne
    have hc0 : c ≠ [] := hcs c (by simp)
    obtain ⟨h1, h2⟩ := natDigits_spec c.length (List.length_pos_iff.mpr hc0)
    simp only [List.map_cons, List.flatten_cons, List.append_assoc] at hq hne
    rcases prefix_append_cases hq with h3 | ⟨q', rfl, hq'⟩
    · by_cases he : q = chunk11 c
      · subst he
        have := R_chunk11 c [] acc hc0
        rw [List.append_nil] at this
        rw [this, R_nil]
      · rw [chunk11_eq] at h3 he
        rw [R_prefix_chunk _ c q acc h1 h2.symm h3 he]
    · rw [R_chunk11 _ _ _ hc0]
      exact ih _ q' (fun x hx => hcs x (by simp [hx])) hq' (fun h => hne (by rw [h]))

theorem no_early11 (mss : List (List Bytes)) (q : Bytes) (segs : List Bytes)
    (hw : WF mss) (hq : PartialMsg q) (h : segs.flatten = enc11 mss ++ q) :
    obs (feedAll true init segs) = outcomes present11 (mss.map List.flatten) := by
  obtain ⟨cs, hcs, hpre, hne⟩ := hq
  rw [feedAll11, h, R_enc11 mss q hw, R_partial cs [] q hcs.2 hpre hne, outs11_nil]

/-! ### Soundness of what is delivered, for arbitrary streams -/

/-- A consumed chunk is exactly `chunk11` of its (non-empty) payload: the header bytes are the
    canonical decimal of the size. -/
theorem chunk_step_recon {rest : Bytes} {n u : Nat} (htok : token rest = .chunk n u)
    (hlen : rest.length ≥ u + n) :
    (rest.drop u).take n ≠ [] ∧ chunk11 ((rest.drop u).take n) ++ rest.drop (u + n) = rest := by
  obtain ⟨ds, t, hc, rfl, rfl, rfl⟩ := token_chunk_inv htok
  obtain ⟨h1, h2⟩ := canon_spec hc
  have e0 : (0x0a : UInt8) :: 0x23 :: (ds ++ 0x0a :: t) = hdr ds ++ t := by simp [hdr]
  rw [e0] at hlen ⊢
  have htl : digitsVal ds ≤ t.length := by
    simp only [List.length_append, hdr_length] at hlen; omega
  have e1 : (hdr ds ++ t).drop (ds.length + 3) = t := List.drop_left' (hdr_length ds)
  have e2 : (hdr ds ++ t).drop (ds.length + 3 + digitsVal ds) = t.drop (digitsVal ds) := by
    rw [← List.drop_drop, e1]
  have hpl : (t.take (digitsVal ds)).length = digitsVal ds := by
    rw [List.length_take]; omega
  rw [e1, e2]
  constructor
  · intro h; rw [h] at hpl; simp at hpl; omega
  · rw [chunk11_eq, hpl, h2, List.append_assoc, List.take_append_drop]

theorem wf_nil : WF [] := fun _ h => nomatch h
theorem enc11_nil_prefix (x : Bytes) : enc11 [] <+: x := by simp [enc11]

theorem sound_aux (rest : Bytes) (acc : List Bytes) : (∀ c ∈ acc, c ≠ []) →
    ∃ (mss : List (List Bytes)) (texts : List Str), WF mss ∧
      enc11 mss <+: (acc.map chunk11).flatten ++ rest ∧
      (mss.map List.flatten).map present11 = texts.map some ∧
      ((R rest acc).2 = texts.map .deliver ∨ ∃ k, (R rest acc).2 = texts.map .deliver ++ [.raise k]) := by
  induction rest, acc using R.induct with
  | case1 rest acc h0 =>
    intro _
    simp at h0; subst h0
    exact ⟨[], [], wf_nil, enc11_nil_prefix _, rfl, .inl (by rw [R_nil]; rfl)⟩
  | case2 rest acc _ htok =>
    intro _
    exact ⟨[], [], wf_nil, enc11_nil_prefix _, rfl, .inl (by rw [R_need _ htok]; rfl)⟩
  | case3 rest acc _ htok =>
    intro _
    exact ⟨[], [], wf_nil, enc11_nil_prefix _, rfl, .inr ⟨.framing, by rw [R_bad _ htok]; rfl⟩⟩
  | case4 rest acc _ size used htok hlen ih =>
    intro hacc
    obtain ⟨hp, hrec⟩ := chunk_step_recon htok hlen
    have hacc' : ∀ c ∈ acc ++ [(rest.drop used).take size], c ≠ [] := by
      intro c hc
      rcases List.mem_append.mp hc with h | h
      · exact hacc c h
      · simp at h; rw [h]; exact hp
    obtain ⟨mss, texts, hw, hpre, htx, hshape⟩ := ih hacc'
    refine ⟨mss, texts, hw, ?_, htx, ?_⟩
    · have e : ((acc ++ [(rest.drop used).take size]).map chunk11).flatten ++ rest.drop (used + size)
          = (acc.map chunk11).flatten ++ rest := by
        conv => rhs; rw [← hrec]
        simp
      rw [e] at hpre; exact hpre
    · rw [R_chunk _ htok, if_pos hlen]; exact hshape
  | case5 rest acc _ size used htok hlen =>
    intro _
    exact ⟨[], [], wf_nil, enc11_nil_prefix _, rfl, .inl (by rw [R_chunk _ htok, if_neg hlen]; rfl)⟩
  | case6 rest acc _ htok hcs =>
    intro _
    exact ⟨[], [], wf_nil, enc11_nil_prefix _, rfl, .inr ⟨.framing, by rw [R_end _ htok, if_pos hcs]; rfl⟩⟩
  | case7 rest acc _ htok hcs hdec =>
    intro _
    exact ⟨[], [], wf_nil, enc11_nil_prefix _, rfl, .inr ⟨.decode, by rw [R_end _ htok, if_neg hcs, hdec]; rfl⟩⟩
  | case8 rest acc _ htok hcs text hdec ih =>
    intro hacc
    obtain ⟨t, rfl⟩ := token_endMsg_inv htok
    have e4 : (endDelim11 ++ t).drop 4 = t := by simp [endDelim11]
    rw [e4] at ih
    obtain ⟨mss, texts, hw, hpre, htx, hshape⟩ := ih (by intro c hc; cases hc)
    have hwf : WFmsg acc := ⟨by intro h; simp [h] at hcs, hacc⟩
    refine ⟨acc :: mss, text :: texts, ?_, ?_, ?_, ?_⟩
    · intro cs hcs'
      rcases List.mem_cons.mp hcs' with h | h
      · rw [h]; exact hwf
      · exact hw cs h
    · simp only [List.map_nil, List.flatten_nil, List.nil_append] at hpre
      have : enc11 (acc :: mss) = (acc.map chunk11).flatten ++ (endDelim11 ++ enc11 mss) := by
        simp [enc11, enc11msg]
      rw [this]
      exact (List.prefix_append_right_inj _).mpr ((List.prefix_append_right_inj _).mpr hpre)
    · simp only [List.map_cons, present11, hdec, List.cons.injEq, true_and]
      exact htx
    · rw [R_end _ htok, if_neg hcs, hdec, e4]
      rcases hshape with h | ⟨k, h⟩
      · exact .inl (by simp [h])
      · exact .inr ⟨k, by simp [h]⟩

theorem delivered_sound11 (segs : List Bytes) :
    ∃ mss : List (List Bytes), WF mss ∧ enc11 mss <+: segs.flatten ∧
      ∃ texts : List Str, (mss.map List.flatten).map present11 = texts.map some ∧
        (obs (feedAll true init segs) = texts.map .deliver ∨
          ∃ k, obs (feedAll true init segs) = texts.map .deliver ++ [.raise k]) := by
  obtain ⟨mss, texts, hw, hpre, htx, hshape⟩ := sound_aux segs.flatten [] (by intro c hc; cases hc)
  rw [feedAll11]
  exact ⟨mss, hw, by simpa using hpre, texts, htx, hshape⟩

/-! ### No stall -/

/-- Why the machine stops without raising. -/
def Stopped (r : Bytes) : Prop :=
  r = [] ∨ token r = .need ∨ ∃ n u, token r = .chunk n u ∧ r.length < u + n

theorem R_stopped (rest : Bytes) (chunks : List Bytes) :
    hasRaise (R rest chunks).2 = false → Stopped (R rest chunks).1.buf := by
  induction rest, chunks using R.induct with
  | case1 rest chunks h0 => simp at h0; subst h0; intro _; rw [R_nil]; exact .inl rfl
  | case2 rest chunks _ htok => intro _; rw [R_need _ htok]; exact .inr (.inl htok)
  | case3 rest chunks _ htok => rw [R_bad _ htok]; simp [hasRaise_raise]
  | case4 rest chunks _ size used htok hlen ih => rw [R_chunk _ htok, if_pos hlen]; exact ih
  | case5 rest chunks _ size used htok hlen =>
    intro _; rw [R_chunk _ htok, if_neg hlen]; exact .inr (.inr ⟨size, used, htok, by show rest.length < _; omega⟩)
  | case6 rest chunks _ htok hcs => rw [R_end _ htok, if_pos hcs]; simp [hasRaise_raise]
  | case7 rest chunks _ htok hcs hdec => rw [R_end _ htok, if_neg hcs, hdec]; simp [hasRaise_raise]
  | case8 rest chunks _ htok hcs text hdec ih =>
    rw [R_end _ htok, if_neg hcs, hdec]; simpa [hasRaise_deliver] using ih

theorem R_endDelim_pos (more : Bytes) (cs : List Bytes) : 0 < (R (endDelim11 ++ more) cs).2.length := by
  rw [R_endDelim]
  split
  · simp
  · split <;> simp

theorem token_need_inv {r : Bytes} (h : token r = .need) :
    r = [] ∨ r = [0x0a] ∨ r = [0x0a, 0x23] ∨ r = [0x0a, 0x23, 0x23] ∨
      ∃ ds, Canon ds ∧ r = 0x0a :: 0x23 :: ds := by
  have v := tokView r
  rw [h] at v
  cases v with
  | nil => exact .inl rfl
  | n1 => exact .inr (.inl rfl)
  | n2 => exact .inr (.inr (.inl rfl))
  | n3 => exact .inr (.inr (.inr (.inl rfl)))
  | nd ds hc => exact .inr (.inr (.inr (.inr ⟨ds, hc, rfl⟩)))

/-- From any stopped state some extension produces one more output: complete the pending header
    and chunk (payload padding is arbitrary) and close the message. -/
theorem stopped_progress {r : Bytes} (cs : List Bytes) (h : Stopped r) :
    ∃ ext, 0 < (R (r ++ ext) cs).2.length := by
  have fill : ∀ (ds t : Bytes), Canon ds → t.length ≤ digitsVal ds →
      0 < (R (hdr ds ++ t ++ (List.replicate (digitsVal ds - t.length) 0 ++ endDelim11)) cs).2.length := by
    intro ds t hc ht
    have e : hdr ds ++ t ++ (List.replicate (digitsVal ds - t.length) 0 ++ endDelim11)
        = hdr ds ++ (t ++ List.replicate (digitsVal ds - t.length) 0) ++ endDelim11 := by simp
    rw [e, R_hdr_chunk ds _ endDelim11 cs hc (by simp; omega)]
    have := R_endDelim_pos [] (cs ++ [t ++ List.replicate (digitsVal ds - t.length) 0])
    rwa [List.append_nil] at this
  rcases h with rfl | h | ⟨n, u, htok, hlen⟩
  · exact ⟨endDelim11, by simpa using R_endDelim_pos [] cs⟩
  · rcases token_need_inv h with rfl | rfl | rfl | rfl | ⟨ds, hc, rfl⟩
    · exact ⟨endDelim11, by simpa using R_endDelim_pos [] cs⟩
    · exact ⟨[0x23, 0x23, 0x0a], by simpa [endDelim11] using R_endDelim_pos [] cs⟩
    · exact ⟨[0x23, 0x0a], by simpa [endDelim11] using R_endDelim_pos [] cs⟩
    · exact ⟨[0x0a], by simpa [endDelim11] using R_endDelim_pos [] cs⟩
    · refine ⟨[0x0a] ++ (List.replicate (digitsVal ds - 0) 0 ++ endDelim11), ?_⟩
      have := fill ds [] hc (Nat.zero_le _)
      simpa [hdr] using this
  · obtain ⟨ds, t, hc, rfl, rfl, rfl⟩ := token_chunk_inv htok
    refine ⟨List.replicate (digitsVal ds - t.length) 0 ++ endDelim11, ?_⟩
    have := fill ds t hc (by simp at hlen; omega)
    simpa [hdr] using this

theorem no_stall11 (segs : List Bytes) (h : hasRaise (obs (feedAll true init segs)) = false) :
    ∃ ext : Bytes, (obs (feedAll true init (segs ++ [ext]))).length >
      (obs (feedAll true init segs)).length := by
  rw [feedAll11] at h
  obtain ⟨ext, hext⟩ := stopped_progress (R segs.flatten []).1.chunks (R_stopped _ _ h)
  refine ⟨ext, ?_⟩
  rw [feedAll11, feedAll11]
  have : (segs ++ [ext]).flatten = segs.flatten ++ ext := by simp
  rw [this, (R_resume segs.flatten [] ext).2 h]
  simp only [List.length_append]
  omega

end NcVerif.Framing11
