/- Helper lemmas about Model/XmlText (escaping / reading of character data). -/
import NcVerif.Model.XmlText
namespace NcVerif.XmlTextP
open NcVerif NcVerif.XmlText

/-! ### Structure of the escapers -/

theorem escapeText_nil : escapeText [] = [] := rfl
theorem escapeAttr_nil : escapeAttr [] = [] := rfl

theorem escapeText_cons (c : Char) (s : Str) :
    escapeText (c :: s) = escTextChar c ++ escapeText s := by
  simp only [escapeText, List.flatMap_cons]

theorem escapeAttr_cons (c : Char) (s : Str) :
    escapeAttr (c :: s) = escAttrChar c ++ escapeAttr s := by
  simp only [escapeAttr, List.flatMap_cons]

theorem escapeText_append (a b : Str) : escapeText (a ++ b) = escapeText a ++ escapeText b := by
  simp only [escapeText, List.flatMap_append]

theorem escapeAttr_append (a b : Str) : escapeAttr (a ++ b) = escapeAttr a ++ escapeAttr b := by
  simp only [escapeAttr, List.flatMap_append]

/-! ### Reading one escaped character -/

/-- One step of the text reader over the escape of a single source character. -/
theorem readText_escTextChar (c : Char) (r : Str) (fuel : Nat) :
    readText (fuel + 1) (escTextChar c ++ r) = (readText fuel r).map (c :: ·) := by
  unfold escTextChar
  split
  · subst c; simp [amp, readText, readRef]
  · split
    · subst c; simp [lt, readText, readRef]
    · split
      · subst c; simp [gt, readText, readRef]
      · split
        · subst c; simp [cr, readText, readRef]
        · simp [readText, *]

/-- One step of the attribute reader over the escape of a single source character. -/
theorem readAttr_escAttrChar (c : Char) (r : Str) (fuel : Nat) :
    readAttr (fuel + 1) (escAttrChar c ++ r) = (readAttr fuel r).map (c :: ·) := by
  unfold escAttrChar
  split
  · subst c; simp [amp, readAttr, readRef]
  · split
    · subst c; simp [lt, readAttr, readRef]
    · split
      · subst c; simp [gt, readAttr, readRef]
      · split
        · subst c; simp [quot, readAttr, readRef]
        · split
          · subst c; simp [lf, readAttr, readRef]
          · split
            · subst c; simp [cr, readAttr, readRef]
            · split
              · subst c; simp [tab, readAttr, readRef]
              · simp [readAttr, *]

/-! ### Lengths -/

theorem escTextChar_length_pos (c : Char) : 1 ≤ (escTextChar c).length := by
  unfold escTextChar
  repeat' split
  all_goals first | decide | exact Nat.le_refl _

theorem escAttrChar_length_pos (c : Char) : 1 ≤ (escAttrChar c).length := by
  unfold escAttrChar
  repeat' split
  all_goals first | decide | exact Nat.le_refl _

/-! ### Round trips -/

theorem readText_escapeText (s : Str) :
    ∀ fuel, fuel ≥ (escapeText s).length + 1 → readText fuel (escapeText s) = some s := by
  induction s with
  | nil =>
    intro fuel h
    match fuel, h with
    | _ + 1, _ => rfl
  | cons c s ih =>
    intro fuel h
    rw [escapeText_cons, List.length_append] at h
    have hpos := escTextChar_length_pos c
    match fuel, h with
    | fuel + 1, h =>
      rw [escapeText_cons, readText_escTextChar, ih fuel (by omega)]
      rfl

theorem readAttr_escapeAttr (s : Str) :
    ∀ fuel, fuel ≥ (escapeAttr s).length + 1 → readAttr fuel (escapeAttr s) = some s := by
  induction s with
  | nil =>
    intro fuel h
    match fuel, h with
    | _ + 1, _ => rfl
  | cons c s ih =>
    intro fuel h
    rw [escapeAttr_cons, List.length_append] at h
    have hpos := escAttrChar_length_pos c
    match fuel, h with
    | fuel + 1, h =>
      rw [escapeAttr_cons, readAttr_escAttrChar, ih fuel (by omega)]
      rfl

theorem parseText_escapeText (s : Str) : parseText (escapeText s) = some s :=
  readText_escapeText s _ (Nat.le_refl _)

theorem parseAttr_escapeAttr (s : Str) : parseAttr (escapeAttr s) = some s :=
  readAttr_escapeAttr s _ (Nat.le_refl _)

/-! ### No markup characters survive escaping -/

theorem lt_not_mem_escTextChar (c : Char) : '<' ∉ escTextChar c := by
  unfold escTextChar
  repeat' split
  all_goals first | decide | (simp only [List.mem_singleton]; exact fun h => ‹¬c = '<'› h.symm)

theorem lt_not_mem_escAttrChar (c : Char) : '<' ∉ escAttrChar c := by
  unfold escAttrChar
  repeat' split
  all_goals first | decide | (simp only [List.mem_singleton]; exact fun h => ‹¬c = '<'› h.symm)

theorem quot_not_mem_escAttrChar (c : Char) : '"' ∉ escAttrChar c := by
  unfold escAttrChar
  repeat' split
  all_goals first | decide | (simp only [List.mem_singleton]; exact fun h => ‹¬c = '"'› h.symm)

theorem lt_not_mem_escapeText (s : Str) : '<' ∉ escapeText s := by
  intro h
  simp only [escapeText, List.mem_flatMap] at h
  rcases h with ⟨c, _, hc⟩
  exact lt_not_mem_escTextChar c hc

theorem lt_not_mem_escapeAttr (s : Str) : '<' ∉ escapeAttr s := by
  intro h
  simp only [escapeAttr, List.mem_flatMap] at h
  rcases h with ⟨c, _, hc⟩
  exact lt_not_mem_escAttrChar c hc

theorem quot_not_mem_escapeAttr (s : Str) : '"' ∉ escapeAttr s := by
  intro h
  simp only [escapeAttr, List.mem_flatMap] at h
  rcases h with ⟨c, _, hc⟩
  exact quot_not_mem_escAttrChar c hc

end NcVerif.XmlTextP
