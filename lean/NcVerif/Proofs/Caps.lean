/-
  Helper lemmas for C08 / C09 / C05 about `Model/Caps` (dict primitives, `splitOn`, `mk`).
-/
import NcVerif.Model.Caps
namespace NcVerif
open NcVerif.Caps

/-! ### splitOn -/

theorem splitOn_ne_nil {α} [DecidableEq α] (c : α) (l : List α) : splitOn c l ≠ [] := by
  induction l with
  | nil => simp [splitOn]
  | cons x xs ih =>
    unfold splitOn
    split
    · simp
    · split <;> simp

/-- Splitting `a ++ c :: b` when `c ∉ a`. -/
theorem splitOn_append_sep {α} [DecidableEq α] (c : α) (a b : List α) (h : c ∉ a) :
    splitOn c (a ++ c :: b) = a :: splitOn c b := by
  induction a with
  | nil => simp [splitOn]
  | cons x xs ih =>
    have hx : x ≠ c := fun e => h (by simp [e])
    have hxs : c ∉ xs := fun e => h (by simp [e])
    simp only [List.cons_append, splitOn, hx, if_false]
    rw [ih hxs]

theorem splitOn_no_sep {α} [DecidableEq α] (c : α) (a : List α) (h : c ∉ a) : splitOn c a = [a] := by
  induction a with
  | nil => simp [splitOn]
  | cons x xs ih =>
    have hx : x ≠ c := fun e => h (by simp [e])
    have hxs : c ∉ xs := fun e => h (by simp [e])
    simp only [splitOn, hx, if_false]
    rw [ih hxs]

/-- The head of a split contains no separator, and the input is head ++ (sep :: rest) or head. -/
theorem splitOn_cons_inv {α} [DecidableEq α] (c : α) (l : List α) (h : List α) (t : List (List α))
    (e : splitOn c l = h :: t) :
    c ∉ h ∧ ((t = [] ∧ l = h) ∨ (∃ l', l = h ++ c :: l' ∧ splitOn c l' = t)) := by
  induction l generalizing h t with
  | nil =>
    simp [splitOn] at e
    obtain ⟨rfl, rfl⟩ := e
    simp
  | cons x xs ih =>
    unfold splitOn at e
    split at e
    · rename_i hx
      simp at e
      obtain ⟨rfl, rfl⟩ := e
      subst hx
      refine ⟨by simp, Or.inr ⟨xs, by simp, rfl⟩⟩
    · rename_i hx
      split at e
      · rename_i hnil
        exact absurd hnil (splitOn_ne_nil c xs)
      · rename_i h' t' hs
        simp at e
        obtain ⟨rfl, rfl⟩ := e
        obtain ⟨hn, hcases⟩ := ih h' t' hs
        refine ⟨by simp [hn, Ne.symm hx], ?_⟩
        rcases hcases with ⟨rfl, rfl⟩ | ⟨l', rfl, hl'⟩
        · exact Or.inl ⟨rfl, rfl⟩
        · exact Or.inr ⟨l', by simp, hl'⟩

/-! ### dict primitives -/

theorem dictGet_dictSet {κ ν} [DecidableEq κ] (d : List (κ × ν)) (k k' : κ) (v : ν) :
    dictGet (dictSet d k v) k' = if k = k' then some v else dictGet d k' := by
  induction d with
  | nil => simp [dictSet, dictGet]
  | cons p rest ih =>
    obtain ⟨a, b⟩ := p
    simp only [dictSet]
    split
    · rename_i h; subst h
      simp only [dictGet]
      split <;> simp_all
    · rename_i h
      simp only [dictGet]
      split
      · rename_i h2; subst h2
        have : ¬ k = a := fun e => h e.symm
        simp [this]
      · exact ih

theorem keys_dictSet {κ ν} [DecidableEq κ] (d : List (κ × ν)) (k : κ) (v : ν) :
    (dictSet d k v).map Prod.fst = if k ∈ d.map Prod.fst then d.map Prod.fst else d.map Prod.fst ++ [k] := by
  induction d with
  | nil => simp [dictSet]
  | cons p rest ih =>
    obtain ⟨a, b⟩ := p
    simp only [dictSet]
    split
    · rename_i h; subst h; simp
    · rename_i h
      simp only [List.map_cons, ih, List.mem_cons]
      have : ¬ k = a := fun e => h e.symm
      simp only [this, false_or]
      split <;> simp

theorem dictGet_some_mem {κ ν} [DecidableEq κ] (d : List (κ × ν)) (k : κ) (v : ν)
    (h : dictGet d k = some v) : (k, v) ∈ d := by
  induction d with
  | nil => simp [dictGet] at h
  | cons p rest ih =>
    obtain ⟨a, b⟩ := p
    simp only [dictGet] at h
    split at h
    · rename_i e; subst e; simp at h; subst h; simp
    · simp [ih h]

theorem dictGet_none_iff {κ ν} [DecidableEq κ] (d : List (κ × ν)) (k : κ) :
    dictGet d k = none ↔ k ∉ d.map Prod.fst := by
  induction d with
  | nil => simp [dictGet]
  | cons p rest ih =>
    obtain ⟨a, b⟩ := p
    simp only [dictGet]
    split
    · rename_i e; subst e; simp
    · rename_i e
      rw [ih]
      simp only [List.map_cons, List.mem_cons, not_or]
      constructor
      · intro h; exact ⟨fun e' => e e'.symm, h⟩
      · intro h; exact h.2

theorem mem_dictSet {κ ν} [DecidableEq κ] (d : List (κ × ν)) (k : κ) (v : ν) (p : κ × ν)
    (h : p ∈ dictSet d k v) : p = (k, v) ∨ p ∈ d := by
  induction d with
  | nil => simp [dictSet] at h; exact Or.inl h
  | cons q rest ih =>
    obtain ⟨a, b⟩ := q
    simp only [dictSet] at h
    split at h
    · rename_i e; subst e
      simp only [List.mem_cons] at h
      rcases h with h | h
      · exact Or.inl h
      · exact Or.inr (by simp [h])
    · simp only [List.mem_cons] at h
      rcases h with h | h
      · exact Or.inr (by simp [h])
      · rcases ih h with h | h
        · exact Or.inl h
        · exact Or.inr (by simp [h])

/-! ### `mk` -/

theorem dictGet_foldl_add (uris : List Str) (d : Caps) (u : Str) :
    dictGet (uris.foldl add d) u = if u ∈ uris then some (fromUri u) else dictGet d u := by
  induction uris generalizing d with
  | nil => simp
  | cons x xs ih =>
    simp only [List.foldl_cons, ih, add, dictGet_dictSet, List.mem_cons]
    by_cases h1 : u ∈ xs
    · simp [h1]
    · by_cases h2 : x = u
      · subst h2; simp [h1]
      · have : ¬ u = x := fun e => h2 e.symm
        simp [h1, h2, this]

theorem dictGet_mk (uris : List Str) (u : Str) :
    dictGet (mk uris) u = if u ∈ uris then some (fromUri u) else none := by
  simp [mk, dictGet_foldl_add, dictGet]

theorem foldl_add_inv (uris : List Str) (d : Caps) (S : List Str)
    (hd : ∀ p ∈ d, p.2 = fromUri p.1 ∧ p.1 ∈ S) (hu : ∀ u ∈ uris, u ∈ S) :
    ∀ p ∈ uris.foldl add d, p.2 = fromUri p.1 ∧ p.1 ∈ S := by
  induction uris generalizing d with
  | nil => simpa using hd
  | cons x xs ih =>
    simp only [List.foldl_cons]
    apply ih
    · intro p hp
      rcases mem_dictSet _ _ _ _ hp with rfl | h
      · exact ⟨rfl, hu x (by simp)⟩
      · exact hd p h
    · intro u hu'; exact hu u (by simp [hu'])

theorem mk_inv (uris : List Str) : ∀ p ∈ mk uris, p.2 = fromUri p.1 ∧ p.1 ∈ uris :=
  foldl_add_inv uris [] uris (by simp) (fun _ h => h)

theorem mem_keys_mk (uris : List Str) (u : Str) : u ∈ keys (mk uris) ↔ u ∈ uris := by
  constructor
  · intro h
    simp only [keys, List.mem_map] at h
    obtain ⟨p, hp, rfl⟩ := h
    exact (mk_inv uris p hp).2
  · intro h
    have := dictGet_mk uris u
    simp only [h, if_true] at this
    have := dictGet_some_mem _ _ _ this
    simp only [keys, List.mem_map]
    exact ⟨_, this, rfl⟩

/-! ### `fromUri` -/

/-- The head of a split is the part before the first separator. -/
theorem splitOn_head_takeWhile {α} [DecidableEq α] (c : α) (l : List α) :
    ∃ t, splitOn c l = l.takeWhile (· ≠ c) :: t := by
  induction l with
  | nil => exact ⟨[], by simp [splitOn]⟩
  | cons x xs ih =>
    obtain ⟨t, ht⟩ := ih
    by_cases hx : x = c
    · exact ⟨splitOn c xs, by simp [splitOn, hx]⟩
    · exact ⟨t, by simp [splitOn, hx, ht]⟩

theorem fromUri_ns_takeWhile (uri : Str) : (fromUri uri).ns = uri.takeWhile (· ≠ '?') := by
  obtain ⟨t, ht⟩ := splitOn_head_takeWhile '?' uri
  unfold fromUri
  rw [ht]
  cases t <;> rfl

/-! ### `abbreviate` -/

/-- `ver ++ rest` splits with head `ver` when `rest` is empty or starts with the separator. -/
theorem splitOn_append_rest {α} [DecidableEq α] (c : α) (ver rest : List α) (h : c ∉ ver)
    (hr : rest = [] ∨ ∃ r, rest = c :: r) : ∃ t, splitOn c (ver ++ rest) = ver :: t := by
  rcases hr with rfl | ⟨r, rfl⟩
  · exact ⟨[], by rw [List.append_nil, splitOn_no_sep c ver h]⟩
  · exact ⟨splitOn c r, splitOn_append_sep c ver r h⟩

/-- What `abbrevParts` computes on the `:`-split of the text `r` after the prefix, as a grammar. -/
theorem mem_abbrevParts_iff (r key : Str) :
    (∃ l, abbrevParts (splitOn ':' r) = some l ∧ key ∈ l) ↔
      (∃ name ver rest, ':' ∉ name ∧ ':' ∉ ver ∧ (rest = [] ∨ ∃ r', rest = ':' :: r') ∧
          r = sCapability ++ ':' :: (name ++ ':' :: (ver ++ rest)) ∧
          (key = ':' :: name ∨ key = ':' :: name ++ ':' :: ver)) ∨
      (∃ ver rest, ':' ∉ ver ∧ (rest = [] ∨ ∃ r', rest = ':' :: r') ∧
          r = sBase ++ ':' :: (ver ++ rest) ∧
          (key = sColonBase ∨ key = sColonBase ++ ':' :: ver)) := by
  constructor
  · rintro ⟨l, hl, hk⟩
    -- first piece
    cases hs : splitOn ':' r with
    | nil => exact absurd hs (splitOn_ne_nil _ _)
    | cons h t =>
    obtain ⟨hh, hcase⟩ := splitOn_cons_inv _ _ _ _ hs
    rw [hs] at hl
    rcases hcase with ⟨rfl, -⟩ | ⟨l1, rfl, hs1⟩
    · simp [abbrevParts] at hl
    -- second piece
    cases t with
    | nil => exact absurd hs1 (splitOn_ne_nil _ _)
    | cons a t =>
    obtain ⟨ha, hcase1⟩ := splitOn_cons_inv _ _ _ _ hs1
    have hrest1 : ∃ rest, (rest = [] ∨ ∃ r', rest = ':' :: r') ∧ l1 = a ++ rest := by
      rcases hcase1 with ⟨-, rfl⟩ | ⟨l2, rfl, -⟩
      · exact ⟨[], Or.inl rfl, by simp⟩
      · exact ⟨':' :: l2, Or.inr ⟨l2, rfl⟩, rfl⟩
    simp only [abbrevParts] at hl
    split at hl
    · rename_i hcap
      subst hcap
      -- third piece needed
      cases t with
      | nil => simp at hl
      | cons b t =>
      simp only [Option.some.injEq] at hl
      subst hl
      rcases hcase1 with ⟨hnil, -⟩ | ⟨l2, rfl, hs2⟩
      · simp at hnil
      obtain ⟨hb, hcase2⟩ := splitOn_cons_inv _ _ _ _ hs2
      have hrest2 : ∃ rest, (rest = [] ∨ ∃ r', rest = ':' :: r') ∧ l2 = b ++ rest := by
        rcases hcase2 with ⟨-, rfl⟩ | ⟨l3, rfl, -⟩
        · exact ⟨[], Or.inl rfl, by simp⟩
        · exact ⟨':' :: l3, Or.inr ⟨l3, rfl⟩, rfl⟩
      obtain ⟨rest, hrest, rfl⟩ := hrest2
      refine Or.inl ⟨a, b, rest, ha, hb, hrest, rfl, ?_⟩
      simpa using hk
    · split at hl
      · rename_i hbase
        subst hbase
        simp only [Option.some.injEq] at hl
        subst hl
        obtain ⟨rest, hrest, rfl⟩ := hrest1
        refine Or.inr ⟨a, rest, ha, hrest, rfl, ?_⟩
        simpa using hk
      · simp at hl
  · rintro (⟨name, ver, rest, hn, hv, hrest, rfl, hk⟩ | ⟨ver, rest, hv, hrest, rfl, hk⟩)
    · obtain ⟨t, ht⟩ := splitOn_append_rest ':' ver rest hv hrest
      have hc : ':' ∉ sCapability := by decide
      refine ⟨[':' :: name, ':' :: name ++ ':' :: ver], ?_, by simpa using hk⟩
      rw [splitOn_append_sep _ _ _ hc, splitOn_append_sep _ _ _ hn, ht]
      simp [abbrevParts]
    · obtain ⟨t, ht⟩ := splitOn_append_rest ':' ver rest hv hrest
      have hc : ':' ∉ sBase := by decide
      have hne : sBase ≠ sCapability := by decide
      refine ⟨[sColonBase, sColonBase ++ ':' :: ver], ?_, by simpa using hk⟩
      rw [splitOn_append_sep _ _ _ hc, ht]
      simp [abbrevParts, hne]

/-- The loop body of `_abbreviate` for one prefix. -/
theorem abbrev_body_eq_some (p ns : Str) (l : List Str) :
    (if p.isPrefixOf ns then abbrevParts (splitOn ':' (ns.drop p.length)) else none) = some l ↔
      ∃ r, ns = p ++ r ∧ abbrevParts (splitOn ':' r) = some l := by
  constructor
  · intro h
    split at h
    · rename_i hp
      obtain ⟨r, rfl⟩ := List.isPrefixOf_iff_prefix.mp hp
      rw [List.drop_left] at h
      exact ⟨r, rfl, h⟩
    · simp at h
  · rintro ⟨r, rfl, h⟩
    have hp : p.isPrefixOf (p ++ r) = true := List.isPrefixOf_iff_prefix.mpr (List.prefix_append p r)
    rw [if_pos hp, List.drop_left]
    exact h

/-- The two IETF prefixes are never both a prefix of the same string. -/
theorem pfx_exclusive (ns : Str) (h1 : pfxXml <+: ns) (h2 : pfxNc <+: ns) : False := by
  have : pfxNc <+: pfxXml := List.prefix_of_prefix_length_le h2 h1 (by decide)
  revert this
  decide

theorem mem_abbreviate_iff (key ns : Str) :
    key ∈ abbreviate ns ↔
      ∃ p ∈ prefixes, ∃ r, ns = p ++ r ∧ ∃ l, abbrevParts (splitOn ':' r) = some l ∧ key ∈ l := by
  have body := fun p l => abbrev_body_eq_some p ns l
  unfold abbreviate
  simp only [prefixes, List.findSome?_cons, List.findSome?_nil]
  constructor
  · intro h
    split at h
    · rename_i l hl
      obtain ⟨r, hr, hl'⟩ := (body _ _).mp hl
      exact ⟨pfxXml, by simp, r, hr, l, hl', by simpa using h⟩
    · split at h
      · rename_i l hl
        obtain ⟨r, hr, hl'⟩ := (body _ _).mp hl
        exact ⟨pfxNc, by simp, r, hr, l, hl', by simpa using h⟩
      · simp at h
  · rintro ⟨p, hp, r, hr, l, hl, hk⟩
    have hpl := (body p l).mpr ⟨r, hr, hl⟩
    simp only [List.mem_cons, List.not_mem_nil, or_false] at hp
    rcases hp with rfl | rfl
    · rw [hpl]; simpa using hk
    · have hx : pfxXml.isPrefixOf ns = false := by
        cases hx : pfxXml.isPrefixOf ns with
        | false => rfl
        | true =>
          exact (pfx_exclusive ns (List.isPrefixOf_iff_prefix.mp hx) ⟨r, hr.symm⟩).elim
      rw [hx]
      simp only [Bool.false_eq_true, if_false]
      rw [hpl]; simpa using hk

/-! ### `getItem` on shorthand keys -/

theorem getItem_mk_shorthand (uris : List Str) (key : Str) (c : Cap) (h : key ∉ uris)
    (hc : getItem (mk uris) key = .ok c) :
    ∃ u ∈ uris, c = fromUri u ∧ key ∈ abbreviate (fromUri u).ns := by
  unfold getItem at hc
  rw [dictGet_mk, if_neg h] at hc
  simp only at hc
  split at hc
  · rename_i c' hf
    cases hc
    have hmem := List.mem_of_find?_eq_some hf
    have hprop := List.find?_some hf
    simp only [List.mem_map] at hmem
    obtain ⟨p, hp, rfl⟩ := hmem
    obtain ⟨h2, h1⟩ := mk_inv uris p hp
    refine ⟨p.1, h1, h2, ?_⟩
    rw [← h2]
    simpa using hprop
  · cases hc

theorem getItem_mk_of_abbrev (uris : List Str) (key u : Str) (hu : u ∈ uris)
    (hk : key ∈ abbreviate (fromUri u).ns) : ∃ c, getItem (mk uris) key = .ok c := by
  unfold getItem
  split
  · exact ⟨_, rfl⟩
  · split
    · exact ⟨_, rfl⟩
    · rename_i hnone
      exfalso
      have hget := dictGet_mk uris u
      rw [if_pos hu] at hget
      have hmem := dictGet_some_mem _ _ _ hget
      rw [List.find?_eq_none] at hnone
      have := hnone (fromUri u) (List.mem_map.mpr ⟨_, hmem, rfl⟩)
      simp [hk] at this

/-! ### `parseParams` -/

/-- A fold of `dictSet` over optional pairs looks up as the last matching pair. -/
theorem dictGet_foldl_pairs {α κ ν} [DecidableEq κ] (f : α → Option (κ × ν))
    (step : List (κ × ν) → α → List (κ × ν))
    (hstep : ∀ d x, step d x = match f x with
      | some p => dictSet d p.1 p.2
      | none => d)
    (L : List α) (d : List (κ × ν)) (k : κ) :
    dictGet (L.foldl step d) k =
      (((L.filterMap f).reverse.find? (fun p => p.1 = k)).map Prod.snd).or (dictGet d k) := by
  induction L generalizing d with
  | nil => simp
  | cons x xs ih =>
    rw [List.foldl_cons, ih, hstep]
    cases hf : f x with
    | none => simp [hf]
    | some p =>
      simp only [List.filterMap_cons, hf, List.reverse_cons, List.find?_append, dictGet_dictSet]
      cases (List.find? (fun p => decide (p.1 = k)) (List.filterMap f xs).reverse) with
      | some q => simp
      | none =>
        by_cases hpk : p.1 = k <;> simp [hpk]

/-! ### Histories of `add` / `remove` -/

/-- Every entry is the parse of its own key. -/
def Canon (d : Caps) : Prop := ∀ p ∈ d, p.2 = fromUri p.1

theorem canon_step (d : Caps) (op : Op) (h : Canon d) : Canon (step d op) := by
  cases op with
  | add u =>
    intro p hp
    rcases mem_dictSet _ _ _ _ hp with rfl | hp
    · rfl
    · exact h p hp
  | remove u =>
    intro p hp
    exact h p (List.mem_filter.mp hp).1

theorem canon_run (d : Caps) (ops : List Op) (h : Canon d) : Canon (run d ops) := by
  induction ops generalizing d with
  | nil => exact h
  | cons op rest ih => exact ih (step d op) (canon_step d op h)

theorem keys_step (d : Caps) (op : Op) : keys (step d op) = absStep (keys d) op := by
  cases op with
  | add u =>
    simp only [step, add, keys, absStep]
    rw [keys_dictSet d u (fromUri u)]
    by_cases h : u ∈ List.map Prod.fst d <;> simp [h]
  | remove u =>
    simp only [step, remove, keys, absStep]
    induction d with
    | nil => rfl
    | cons p rest ih =>
      simp only [List.filter_cons, List.map_cons]
      split <;> simp [ih]

theorem keys_run (d : Caps) (ops : List Op) : keys (run d ops) = ops.foldl absStep (keys d) := by
  induction ops generalizing d with
  | nil => rfl
  | cons op rest ih => simp only [run, List.foldl_cons] at *; rw [ih, keys_step]

theorem canon_eq_ofKeys (d : Caps) (h : Canon d) : d = ofKeys (keys d) := by
  induction d with
  | nil => rfl
  | cons p rest ih =>
    have hp := h p (by simp)
    have hr : Canon rest := fun q hq => h q (by simp [hq])
    obtain ⟨k, c⟩ := p
    simp only at hp
    subst hp
    simp only [ofKeys, keys, List.map_cons, List.cons.injEq, true_and]
    exact ih hr

theorem canon_nil : Canon [] := by intro p hp; cases hp

theorem canon_ofKeys (l : List Str) : Canon (ofKeys l) := by
  intro p hp
  simp only [ofKeys, List.mem_map] at hp
  obtain ⟨u, _, rfl⟩ := hp
  rfl

theorem canon_mk (uris : List Str) : Canon (mk uris) := fun p hp => (mk_inv uris p hp).1

end NcVerif
