/-
  Helper lemmas for C08 / C09 / C05 about `Model/Caps` (dict primitives, `splitOn`, `mk`).
-/
import NcVerif.Model.Caps
namespace NcVerif
open NcVerif.Caps

/-! ### splitOn -/

theorem splitOn_ne_nil {α} [DecidableEq α] (c : α) (l : List α) : splitOn c l ≠ [] := by
  induction l with
  | nil => simp [splitOn]
  | cons x xs ih =>
    unfold splitOn
    split
    · simp
    · split <;> simp

/-- Splitting `a ++ c :: b` when `c ∉ a`. -/
theorem splitOn_append_sep {α} [DecidableEq α] (c : α) (a b : List α) (h : c ∉ a) :
    splitOn c (a ++ c :: b) = a :: splitOn c b := by
  induction a with
  | nil => simp [splitOn]
  | cons x xs ih =>
    have hx : x ≠ c := fun e => h (by simp [e])
    have hxs : c ∉ xs := fun e => h (by simp [e])
    simp only [List.cons_append, splitOn, hx, if_false]
    rw [ih hxs]

theorem splitOn_no_sep {α} [DecidableEq α] (c : α) (a : List α) (h : c ∉ a) : splitOn c a = [a] := by
  induction a with
  | nil => simp [splitOn]
  | cons x xs ih =>
    have hx : x ≠ c := fun e => h (by simp [e])
    have hxs : c ∉ xs := fun e => h (by simp [e])
    simp only [splitOn, hx, if_false]
    rw [ih hxs]

/-- The head of a split contains no separator, and the input is head ++ (sep :: rest) or head. -/
theorem splitOn_cons_inv {α} [DecidableEq α] (c : α) (l : List α) (h : List α) (t : List (List α))
    (e : splitOn c l = h :: t) :
    c ∉ h ∧ ((t = [] ∧ l = h) ∨ (∃ l', l = h ++ c :: l' ∧ splitOn c l' = t)) := by
  induction l generalizing h t with
  | nil =>
    simp [splitOn] at e
    obtain ⟨rfl, rfl⟩ := e
    simp
  | cons x xs ih =>
    unfold splitOn at e
    split at e
    · rename_i hx
      simp at e
      obtain ⟨rfl, rfl⟩ := e
      subst hx
      refine ⟨by simp, Or.inr ⟨xs, by simp, rfl⟩⟩
    · rename_i hx
      split at e
      · rename_i hnil
        exact absurd hnil (splitOn_ne_nil c xs)
      · rename_i h' t' hs
        simp at e
        obtain ⟨rfl, rfl⟩ := e
        obtain ⟨hn, hcases⟩ := ih h' t' hs
        refine ⟨by simp [hn, Ne.symm hx], ?_⟩
        rcases hcases with ⟨rfl, rfl⟩ | ⟨l', rfl, hl'⟩
        · exact Or.inl ⟨rfl, rfl⟩
        · exact Or.inr ⟨l', by simp, hl'⟩

/-! ### dict primitives -/

theorem dictGet_dictSet {κ ν} [DecidableEq κ] (d : List (κ × ν)) (k k' : κ) (v : ν) :
    dictGet (dictSet d k v) k' = if k = k' then some v else dictGet d k' := by
  induction d with
  | nil => simp [dictSet, dictGet]
  | cons p rest ih =>
    obtain ⟨a, b⟩ := p
    simp only [dictSet]
    split
    · rename_i h; subst h
      simp only [dictGet]
      split <;> simp_all
    · rename_i h
      simp only [dictGet]
      split
      · rename_i h2; subst h2
        have : ¬ k = a := fun e => h e.symm
        simp [this]
      · exact ih

theorem keys_dictSet {κ ν} [DecidableEq κ] (d : List (κ × ν)) (k : κ) (v : ν) :
    (dictSet d k v).map Prod.fst = if k ∈ d.map Prod.fst then d.map Prod.fst else d.map Prod.fst ++ [k] := by
  induction d with
  | nil => simp [dictSet]
  | cons p rest ih =>
    obtain ⟨a, b⟩ := p
    simp only [dictSet]
    split
    · rename_i h; subst h; simp
    · rename_i h
      simp only [List.map_cons, ih, List.mem_cons]
      have : ¬ k = a := fun e => h e.symm
      simp only [this, false_or]
      split <;> simp

theorem dictGet_some_mem {κ ν} [DecidableEq κ] (d : List (κ × ν)) (k : κ) (v : ν)
    (h : dictGet d k = some v) : (k, v) ∈ d := by
  induction d with
  | nil => simp [dictGet] at h
  | cons p rest ih =>
    obtain ⟨a, b⟩ := p
    simp only [dictGet] at h
    split at h
    · rename_i e; subst e; simp at h; subst h; simp
    · simp [ih h]

theorem dictGet_none_iff {κ ν} [DecidableEq κ] (d : List (κ × ν)) (k : κ) :
    dictGet d k = none ↔ k ∉ d.map Prod.fst := by
  induction d with
  | nil => simp [dictGet]
  | cons p rest ih =>
    obtain ⟨a, b⟩ := p
    simp only [dictGet]
    split
    · rename_i e; subst e; simp
    · rename_i e
      rw [ih]
      simp only [List.map_cons, List.mem_cons, not_or]
      constructor
      · intro h; exact ⟨fun e' => e e'.symm, h⟩
      · intro h; exact h.2

theorem mem_dictSet {κ ν} [DecidableEq κ] (d : List (κ × ν)) (k : κ) (v : ν) (p : κ × ν)
    (h : p ∈ dictSet d k v) : p = (k, v) ∨ p ∈ d := by
  induction d with
  | nil => simp [dictSet] at h; exact Or.inl h
  | cons q rest ih =>
    obtain ⟨a, b⟩ := q
    simp only [dictSet] at h
    split at h
    · rename_i e; subst e
      simp only [List.mem_cons] at h
      rcases h with h | h
      · exact Or.inl h
      · exact Or.inr (by simp [h])
    · simp only [List.mem_cons] at h
      rcases h with h | h
      · exact Or.inr (by simp [h])
      · rcases ih h with h | h
        · exact Or.inl h
        · exact Or.inr (by simp [h])

/-! ### `mk` -/

theorem dictGet_foldl_add (uris : List Str) (d : Caps) (u : Str) :
    dictGet (uris.foldl add d) u = if u ∈ uris then some (fromUri u) else dictGet d u := by
  induction uris generalizing d with
  | nil => simp
  | cons x xs ih =>
    simp only [List.foldl_cons, ih, add, dictGet_dictSet, List.mem_cons]
    by_cases h1 : u ∈ xs
    · simp [h1]
    · by_cases h2 : x = u
      · subst h2; simp [h1]
      · have : ¬ u = x := fun e => h2 e.symm
        simp [h1, h2, this]

theorem dictGet_mk (uris : List Str) (u : Str) :
    dictGet (mk uris) u = if u ∈ uris then some (fromUri u) else none := by
  simp [mk, dictGet_foldl_add, dictGet]

theorem foldl_add_inv (uris : List Str) (d : Caps) (S : List Str)
    (hd : ∀ p ∈ d, p.2 = fromUri p.1 ∧ p.1 ∈ S) (hu : ∀ u ∈ uris, u ∈ S) :
    ∀ p ∈ uris.foldl add d, p.2 = fromUri p.1 ∧ p.1 ∈ S := by
  induction uris generalizing d with
  | nil => simpa using hd
  | cons x xs ih =>
    simp only [List.foldl_cons]
    apply ih
    · intro p hp
      rcases mem_dictSet _ _ _ _ hp with rfl | h
      · exact ⟨rfl, hu x (by simp)⟩
      · exact hd p h
    · intro u hu'; exact hu u (by simp [hu'])

theorem mk_inv (uris : List Str) : ∀ p ∈ mk uris, p.2 = fromUri p.1 ∧ p.1 ∈ uris :=
  foldl_add_inv uris [] uris (by simp) (fun _ h => h)

theorem mem_keys_mk (uris : List Str) (u : Str) : u ∈ keys (mk uris) ↔ u ∈ uris := by
  constructor
  · intro h
    simp only [keys, List.mem_map] at h
    obtain ⟨p, hp, rfl⟩ := h
    exact (mk_inv uris p hp).2
  · intro h
    have := dictGet_mk uris u
    simp only [h, if_true] at this
    have := dictGet_some_mem _ _ _ this
    simp only [keys, List.mem_map]
    exact ⟨_, this, rfl⟩

end NcVerif
