/-
  Helper lemmas and invariants about Model/Session used by C03, C04, C11, C14 (request table,
  notification queue, failure paths).
-/
import NcVerif.Model.Session
import NcVerif.Spec.Session
namespace NcVerif.SessionA
open NcVerif NcVerif.Session NcVerif.SessionSpec NcVerif.Framing

/-! ## `dispatchError`: which fields it touches -/

theorem dispatchError_rpcs (w : World) (e : ErrK) :
    (dispatchError w e).rpcs = if w.hasReplyL then failAll w.rpcs w.id2rpc e else w.rpcs := by
  cases h1 : w.hasHello <;> cases h2 : w.hasReplyL <;> simp [dispatchError, h1, h2]

theorem dispatchError_id2rpc (w : World) (e : ErrK) :
    (dispatchError w e).id2rpc = if w.hasReplyL then [] else w.id2rpc := by
  cases h1 : w.hasHello <;> cases h2 : w.hasReplyL <;> simp [dispatchError, h1, h2]

@[simp] theorem dispatchError_hasReplyL (w : World) (e : ErrK) : (dispatchError w e).hasReplyL = w.hasReplyL := by
  cases h1 : w.hasHello <;> cases h2 : w.hasReplyL <;> simp [dispatchError, h1, h2]
@[simp] theorem dispatchError_errbackDone (w : World) (e : ErrK) : (dispatchError w e).errbackDone = w.errbackDone := by
  cases h1 : w.hasHello <;> cases h2 : w.hasReplyL <;> simp [dispatchError, h1, h2]
@[simp] theorem dispatchError_pc (w : World) (e : ErrK) : (dispatchError w e).pc = w.pc := by
  cases h1 : w.hasHello <;> cases h2 : w.hasReplyL <;> simp [dispatchError, h1, h2]
@[simp] theorem dispatchError_closing (w : World) (e : ErrK) : (dispatchError w e).closing = w.closing := by
  cases h1 : w.hasHello <;> cases h2 : w.hasReplyL <;> simp [dispatchError, h1, h2]
@[simp] theorem dispatchError_connected (w : World) (e : ErrK) : (dispatchError w e).connected = w.connected := by
  cases h1 : w.hasHello <;> cases h2 : w.hasReplyL <;> simp [dispatchError, h1, h2]
@[simp] theorem dispatchError_notifQ (w : World) (e : ErrK) : (dispatchError w e).notifQ = w.notifQ := by
  cases h1 : w.hasHello <;> cases h2 : w.hasReplyL <;> simp [dispatchError, h1, h2]
@[simp] theorem dispatchError_taken (w : World) (e : ErrK) : (dispatchError w e).taken = w.taken := by
  cases h1 : w.hasHello <;> cases h2 : w.hasReplyL <;> simp [dispatchError, h1, h2]
@[simp] theorem dispatchError_received (w : World) (e : ErrK) : (dispatchError w e).received = w.received := by
  cases h1 : w.hasHello <;> cases h2 : w.hasReplyL <;> simp [dispatchError, h1, h2]
@[simp] theorem dispatchError_hasNotif (w : World) (e : ErrK) : (dispatchError w e).hasNotif = w.hasNotif := by
  cases h1 : w.hasHello <;> cases h2 : w.hasReplyL <;> simp [dispatchError, h1, h2]
@[simp] theorem dispatchError_conn (w : World) (e : ErrK) : (dispatchError w e).conn = w.conn := by
  cases h1 : w.hasHello <;> cases h2 : w.hasReplyL <;> simp [dispatchError, h1, h2]

/-! ## `dispatchMessage`: which fields it touches -/

macro "dm_field" : tactic =>
  `(tactic| (unfold dispatchMessage; repeat' split; all_goals (repeat' split); all_goals simp))

@[simp] theorem dispatchMessage_pc (env : Env) (w : World) (raw : Str) : (dispatchMessage env w raw).1.pc = w.pc := by dm_field
@[simp] theorem dispatchMessage_closing (env : Env) (w : World) (raw : Str) : (dispatchMessage env w raw).1.closing = w.closing := by dm_field
@[simp] theorem dispatchMessage_connected (env : Env) (w : World) (raw : Str) : (dispatchMessage env w raw).1.connected = w.connected := by dm_field
@[simp] theorem dispatchMessage_errbackDone (env : Env) (w : World) (raw : Str) : (dispatchMessage env w raw).1.errbackDone = w.errbackDone := by dm_field
@[simp] theorem dispatchMessage_hasReplyL (env : Env) (w : World) (raw : Str) : (dispatchMessage env w raw).1.hasReplyL = w.hasReplyL := by dm_field
@[simp] theorem dispatchMessage_hasNotif (env : Env) (w : World) (raw : Str) : (dispatchMessage env w raw).1.hasNotif = w.hasNotif := by dm_field
@[simp] theorem dispatchMessage_conn (env : Env) (w : World) (raw : Str) : (dispatchMessage env w raw).1.conn = w.conn := by dm_field
@[simp] theorem dispatchMessage_taken (env : Env) (w : World) (raw : Str) : (dispatchMessage env w raw).1.taken = w.taken := by dm_field
@[simp] theorem dispatchMessage_received (env : Env) (w : World) (raw : Str) :
    (dispatchMessage env w raw).1.received = w.received ++ [raw] := by dm_field

/-- With the NotificationHandler registered, a message is queued iff it is a well-formed notification. -/
theorem dispatchMessage_notifQ (env : Env) (w : World) (raw : Str) (h : w.hasNotif = true) :
    (dispatchMessage env w raw).1.notifQ = w.notifQ ++ (if goodNotif env raw then [raw] else []) := by
  unfold dispatchMessage goodNotif
  cases hc : env.classify raw with
  | root r =>
    obtain ⟨t, m⟩ := r
    cases t <;> simp only [h, if_true] <;> (repeat' split) <;> simp_all
  | _ => simp

/-- The `wDispatch` step on a delivered message, in one expression. -/
theorem step_wDispatch_deliver (env : Env) (w : World) (raw : Str) (rest : List Out)
    (hpc : w.pc = .dispatching (.deliver raw :: rest)) :
    step env w .wDispatch =
      { (dispatchMessage env w raw).1 with
        pc := match (dispatchMessage env w raw).2 with
          | some e => .failing e
          | none => if rest.isEmpty then .top else .dispatching rest } := by
  simp only [step, hpc]
  split <;> simp_all

/-! ## The request table: `rpcs`, `_id2rpc`, listener registered, final errback done -/

structure Tbl where
  rpcs : List Rpc
  ids : List Nat
  hasL : Bool
  ebd : Bool

def tbl (w : World) : Tbl := ⟨w.rpcs, w.id2rpc, w.hasReplyL, w.errbackDone⟩

/-- `deliver_reply` as a function on one request. -/
def deliverTo (raw : Str) (rpc : Rpc) : Rpc :=
  { rpc with reply := some raw, event := true, deliveries := rpc.deliveries + 1 }

/-- Everything a step can do to the request table. -/
inductive TStep (env : Env) (op : Op) (t : Tbl) : Tbl → Prop
  | same : TStep env op t t
  | new (id : Nat) : op = .cNew id →
      TStep env op t ⟨if t.rpcs.any (·.id = id) then t.rpcs else t.rpcs ++ [{ id := id, lateBorn := t.ebd }],
                      if id ∈ t.ids then t.ids else t.ids ++ [id], true, t.ebd⟩
  | fail (e : ErrK) (b : Bool) : (b = t.ebd ∨ b = true) →
      TStep env op t ⟨if t.hasL then failAll t.rpcs t.ids e else t.rpcs, if t.hasL then [] else t.ids, t.hasL, b⟩
  | deliver (id : Nat) (raw : Str) : id ∈ t.ids → isReplyFor env id raw →
      TStep env op t ⟨updRpc t.rpcs id (deliverTo raw), t.ids.erase id, t.hasL, t.ebd⟩

theorem dispatchError_tstep (env : Env) (op : Op) (w : World) (e : ErrK) :
    TStep env op (tbl w) (tbl (dispatchError w e)) := by
  simp only [tbl, dispatchError_rpcs, dispatchError_id2rpc, dispatchError_hasReplyL, dispatchError_errbackDone]
  exact TStep.fail (t := ⟨w.rpcs, w.id2rpc, w.hasReplyL, w.errbackDone⟩) e w.errbackDone (Or.inl rfl)

theorem dispatchError_tstep' (env : Env) (op : Op) (w : World) (e : ErrK) (pc : WPc) :
    TStep env op (tbl w) (tbl { dispatchError w e with pc := pc, errbackDone := true }) := by
  simp only [tbl, dispatchError_rpcs, dispatchError_id2rpc, dispatchError_hasReplyL]
  exact TStep.fail (t := ⟨w.rpcs, w.id2rpc, w.hasReplyL, w.errbackDone⟩) e true (Or.inr rfl)

theorem dispatchMessage_tstep (env : Env) (op : Op) (w : World) (raw : Str) :
    TStep env op (tbl w) (tbl (dispatchMessage env w raw).1) := by
  unfold dispatchMessage
  cases hc : env.classify raw with
  | drop => exact .same
  | fatal => exact .same
  | rawErr => exact dispatchError_tstep env op { w with received := w.received ++ [raw] } .rawDispatch
  | root r =>
    obtain ⟨t, m⟩ := r
    cases t
    case hello => simp only; (repeat' split); all_goals exact .same
    case notification => simp only; (repeat' split); all_goals exact .same
    all_goals
      simp only
      split
      · rename_i hacc
        simp only [Bool.and_eq_true] at hacc
        cases m with
        | none => exact .same
        | some id =>
          simp only
          split
          · rename_i hid
            exact TStep.deliver (t := tbl w) id raw hid ⟨_, hc, hacc.2⟩
          · exact .same
      · exact .same

theorem step_tstep (env : Env) (w : World) (op : Op) : TStep env op (tbl w) (tbl (step env w op)) := by
  cases op with
  | cNew id => exact TStep.new (t := tbl w) id rfl
  | wDispatch =>
    simp only [step]
    split
    · split
      · exact .same
      · exact .same
      · rename_i raw _
        have h := dispatchMessage_tstep env .wDispatch w raw
        split <;> rename_i heq <;> rw [heq] at h <;> exact h
    · exact .same
    · exact .same
  | wErrback =>
    simp only [step]
    split
    · exact dispatchError_tstep' env _ w _ _
    · exact .same
  | wExit =>
    simp only [step]
    split
    · exact dispatchError_tstep' env _ w _ _
    · exact .same
  | _ =>
    simp only [step]
    repeat' split
    all_goals exact .same

/-! ## List helpers for `updRpc` / `failAll` -/

theorem map_id_updRpc (rpcs : List Rpc) (id : Nat) (f : Rpc → Rpc) (hf : ∀ r, (f r).id = r.id) :
    (updRpc rpcs id f).map (·.id) = rpcs.map (·.id) := by
  induction rpcs with
  | nil => rfl
  | cons r rs ih =>
    simp only [updRpc, List.map_cons, List.map_map] at ih ⊢
    rw [ih]; congr 1; split <;> simp [hf]

theorem map_id_failAll (rpcs : List Rpc) (ids : List Nat) (e : ErrK) :
    (failAll rpcs ids e).map (·.id) = rpcs.map (·.id) := by
  induction rpcs with
  | nil => rfl
  | cons r rs ih =>
    simp only [failAll, List.map_cons, List.map_map] at ih ⊢
    rw [ih]; congr 1; split <;> simp

theorem mem_updRpc {rpcs : List Rpc} {id : Nat} {f : Rpc → Rpc} {r' : Rpc} (h : r' ∈ updRpc rpcs id f) :
    ∃ r ∈ rpcs, (r.id = id ∧ r' = f r) ∨ (r.id ≠ id ∧ r' = r) := by
  simp only [updRpc, List.mem_map] at h
  obtain ⟨r, hr, rfl⟩ := h
  refine ⟨r, hr, ?_⟩
  split <;> simp_all

theorem mem_failAll {rpcs : List Rpc} {ids : List Nat} {e : ErrK} {r' : Rpc} (h : r' ∈ failAll rpcs ids e) :
    ∃ r ∈ rpcs, (r.id ∈ ids ∧ r' = { r with error := some e, event := true }) ∨ (r.id ∉ ids ∧ r' = r) := by
  simp only [failAll, List.mem_map] at h
  obtain ⟨r, hr, rfl⟩ := h
  refine ⟨r, hr, ?_⟩
  split <;> simp_all

theorem deliverTo_id (raw : Str) (r : Rpc) : (deliverTo raw r).id = r.id := rfl

/-! ## The table invariant -/

structure TInv (env : Env) (t : Tbl) : Prop where
  rpcNodup : (t.rpcs.map (·.id)).Nodup
  idNodup : t.ids.Nodup
  idHasRpc : ∀ id ∈ t.ids, ∃ r ∈ t.rpcs, r.id = id
  pend : ∀ r ∈ t.rpcs, r.event = false → r.id ∈ t.ids
  hasL : t.rpcs ≠ [] → t.hasL = true
  own : ∀ r ∈ t.rpcs, ∀ raw, r.reply = some raw → isReplyFor env r.id raw
  late : t.ebd = true → ∀ r ∈ t.rpcs, r.event = true ∨ r.lateBorn = true

theorem TInv_init (env : Env) : TInv env (tbl Session.init) := by
  constructor <;> simp [tbl, Session.init]

theorem nodup_addId {ids : List Nat} (id : Nat) (h : ids.Nodup) :
    (if id ∈ ids then ids else ids ++ [id]).Nodup := by
  split
  · exact h
  · rename_i hn
    refine List.nodup_append.2 ⟨h, by simp, ?_⟩
    intro a ha b hb
    simp only [List.mem_singleton] at hb
    subst hb; intro heq; subst heq; exact hn ha

theorem mem_addId {ids : List Nat} {id j : Nat} :
    j ∈ (if id ∈ ids then ids else ids ++ [id]) ↔ j ∈ ids ∨ j = id := by
  split
  · rename_i h; constructor
    · exact Or.inl
    · rintro (h' | rfl)
      · exact h'
      · exact h
  · simp

theorem TInv_new (env : Env) (t : Tbl) (id : Nat) (h : TInv env t) :
    TInv env ⟨if t.rpcs.any (·.id = id) then t.rpcs else t.rpcs ++ [{ id := id, lateBorn := t.ebd }],
              if id ∈ t.ids then t.ids else t.ids ++ [id], true, t.ebd⟩ := by
  obtain ⟨h1, h2, h3, h4, h5, h6, h7⟩ := h
  by_cases hany : t.rpcs.any (·.id = id) = true
  · simp only [hany, if_true]
    refine ⟨h1, nodup_addId id h2, ?_, ?_, fun _ => rfl, h6, h7⟩
    · intro j hj
      rcases mem_addId.1 hj with hj | rfl
      · exact h3 j hj
      · simp only [List.any_eq_true, decide_eq_true_eq] at hany
        exact hany
    · intro r hr he; exact mem_addId.2 (Or.inl (h4 r hr he))
  · simp only [hany]
    have hany' : ∀ r ∈ t.rpcs, r.id ≠ id := by
      intro r hr heq; apply hany; simp only [List.any_eq_true, decide_eq_true_eq]; exact ⟨r, hr, heq⟩
    refine ⟨?_, nodup_addId id h2, ?_, ?_, fun _ => rfl, ?_, ?_⟩
    · simp only [Bool.false_eq_true, if_false, List.map_append, List.map_cons, List.map_nil]
      refine List.nodup_append.2 ⟨h1, by simp, ?_⟩
      intro a ha b hb
      simp only [List.mem_map] at ha
      obtain ⟨r, hr, rfl⟩ := ha
      simp only [List.mem_singleton] at hb
      subst hb; exact hany' r hr
    · intro j hj
      rcases mem_addId.1 hj with hj | rfl
      · obtain ⟨r, hr, hrid⟩ := h3 j hj
        exact ⟨r, by simp [hr], hrid⟩
      · exact ⟨{ id := j, lateBorn := t.ebd }, by simp, rfl⟩
    · intro r hr he
      simp only [Bool.false_eq_true, if_false, List.mem_append, List.mem_singleton] at hr
      rcases hr with hr | rfl
      · exact mem_addId.2 (Or.inl (h4 r hr he))
      · exact mem_addId.2 (Or.inr rfl)
    · intro r hr raw hraw
      simp only [Bool.false_eq_true, if_false, List.mem_append, List.mem_singleton] at hr
      rcases hr with hr | rfl
      · exact h6 r hr raw hraw
      · simp at hraw
    · intro hb r hr
      simp only [Bool.false_eq_true, if_false, List.mem_append, List.mem_singleton] at hr
      rcases hr with hr | rfl
      · exact h7 hb r hr
      · right; exact hb

theorem TInv_fail (env : Env) (t : Tbl) (e : ErrK) (b : Bool) (_hb : b = t.ebd ∨ b = true) (h : TInv env t) :
    TInv env ⟨if t.hasL then failAll t.rpcs t.ids e else t.rpcs, if t.hasL then [] else t.ids, t.hasL, b⟩ := by
  obtain ⟨h1, h2, h3, h4, h5, h6, h7⟩ := h
  by_cases hL : t.hasL = true
  · simp only [hL, if_true]
    refine ⟨?_, List.nodup_nil, ?_, ?_, fun _ => rfl, ?_, ?_⟩
    · rw [map_id_failAll]; exact h1
    · intro j hj; simp at hj
    · intro r' hr' he
      obtain ⟨r, hr, ⟨hin, hre⟩ | ⟨hnin, hre⟩⟩ := mem_failAll hr'
      · simp [hre] at he
      · rw [hre] at he ⊢; exact absurd (h4 r hr he) hnin
    · intro r' hr' raw hraw
      obtain ⟨r, hr, ⟨hin, hre⟩ | ⟨hnin, hre⟩⟩ := mem_failAll hr'
      · rw [hre] at hraw ⊢; exact h6 r hr raw hraw
      · rw [hre] at hraw ⊢; exact h6 r hr raw hraw
    · intro _ r' hr'
      obtain ⟨r, hr, ⟨hin, hre⟩ | ⟨hnin, hre⟩⟩ := mem_failAll hr'
      · left; rw [hre]
      · left; rw [hre]
        cases hev : r.event
        · exact absurd (h4 r hr hev) hnin
        · rfl
  · have hnil : t.rpcs = [] := by
      cases hr : t.rpcs with
      | nil => rfl
      | cons a l => exact absurd (h5 (by simp [hr])) hL
    simp only [hL, Bool.false_eq_true, if_false]
    refine ⟨h1, h2, h3, h4, fun hne => absurd hnil hne, h6, ?_⟩
    intro _ r hr
    simp [hnil] at hr

theorem TInv_deliver (env : Env) (t : Tbl) (id : Nat) (raw : Str) (_hid : id ∈ t.ids)
    (hraw : isReplyFor env id raw) (h : TInv env t) :
    TInv env ⟨updRpc t.rpcs id (deliverTo raw), t.ids.erase id, t.hasL, t.ebd⟩ := by
  obtain ⟨h1, h2, h3, h4, h5, h6, h7⟩ := h
  refine ⟨?_, h2.erase id, ?_, ?_, ?_, ?_, ?_⟩
  · rw [map_id_updRpc _ _ _ (deliverTo_id raw)]; exact h1
  · intro j hj
    obtain ⟨r, hr, hrid⟩ := h3 j (List.mem_of_mem_erase hj)
    have : (updRpc t.rpcs id (deliverTo raw)).map (·.id) = t.rpcs.map (·.id) :=
      map_id_updRpc _ _ _ (deliverTo_id raw)
    have hm : j ∈ (updRpc t.rpcs id (deliverTo raw)).map (·.id) := by
      rw [this]; exact List.mem_map.2 ⟨r, hr, hrid⟩
    obtain ⟨r', hr', hr'id⟩ := List.mem_map.1 hm
    exact ⟨r', hr', hr'id⟩
  · intro r' hr' he
    obtain ⟨r, hr, ⟨hin, hre⟩ | ⟨hnin, hre⟩⟩ := mem_updRpc hr'
    · simp [hre, deliverTo] at he
    · rw [hre] at he ⊢; exact (List.mem_erase_of_ne hnin).2 (h4 r hr he)
  · intro hne
    apply h5
    intro hnil; apply hne; simp [updRpc, hnil]
  · intro r' hr' raw' hraw'
    obtain ⟨r, hr, ⟨hin, hre⟩ | ⟨hnin, hre⟩⟩ := mem_updRpc hr'
    · rw [hre] at hraw' ⊢
      simp only [deliverTo, Option.some.injEq] at hraw'
      subst hraw'
      show isReplyFor env r.id raw
      rw [hin]; exact hraw
    · rw [hre] at hraw' ⊢; exact h6 r hr raw' hraw'
  · intro hb r' hr'
    obtain ⟨r, hr, ⟨hin, hre⟩ | ⟨hnin, hre⟩⟩ := mem_updRpc hr'
    · left; rw [hre]; rfl
    · rw [hre]; exact h7 hb r hr

theorem TInv_step (env : Env) (op : Op) (t t' : Tbl) (h : TInv env t) (hs : TStep env op t t') : TInv env t' := by
  cases hs with
  | same => exact h
  | new id _ => exact TInv_new env t id h
  | fail e b hb => exact TInv_fail env t e b hb h
  | deliver id raw hid hraw => exact TInv_deliver env t id raw hid hraw h

theorem TInv_run_from (env : Env) (ops : List Op) :
    ∀ w, TInv env (tbl w) → TInv env (tbl (run env w ops)) := by
  induction ops with
  | nil => intro w h; exact h
  | cons op ops ih =>
    intro w h
    exact ih (step env w op) (TInv_step env op _ _ h (step_tstep env w op))

theorem TInv_run (env : Env) (ops : List Op) : TInv env (tbl (run env Session.init ops)) :=
  TInv_run_from env ops _ (TInv_init env)

/-! ## At most one `deliver_reply` per request (needs unique ids) -/

def DInv (t : Tbl) : Prop := ∀ r ∈ t.rpcs, r.deliveries ≤ 1 ∧ (r.id ∈ t.ids → r.deliveries = 0)

theorem DInv_step (env : Env) (op : Op) (t t' : Tbl) (hn : t.ids.Nodup) (h : DInv t) (hs : TStep env op t t')
    (hfresh : ∀ id, op = .cNew id → ∀ r ∈ t.rpcs, r.id ≠ id) : DInv t' := by
  cases hs with
  | same => exact h
  | new id hop =>
    have hf := hfresh id hop
    have hany : ¬ (t.rpcs.any (·.id = id) = true) := by
      simp only [List.any_eq_true, decide_eq_true_eq]
      rintro ⟨r, hr, heq⟩; exact hf r hr heq
    intro r hr
    simp only [hany, Bool.false_eq_true, if_false, List.mem_append, List.mem_singleton] at hr
    rcases hr with hr | rfl
    · refine ⟨(h r hr).1, fun hin => ?_⟩
      rcases mem_addId.1 hin with hin | heq
      · exact (h r hr).2 hin
      · exact absurd heq (hf r hr)
    · exact ⟨Nat.zero_le _, fun _ => rfl⟩
  | fail e b _ =>
    intro r' hr'
    by_cases hL : t.hasL = true
    · simp only [hL, if_true] at hr' ⊢
      obtain ⟨r, hr, ⟨_, hre⟩ | ⟨_, hre⟩⟩ := mem_failAll hr'
      · rw [hre]; exact ⟨(h r hr).1, fun hin => by simp at hin⟩
      · rw [hre]; exact ⟨(h r hr).1, fun hin => by simp at hin⟩
    · simp only [hL, Bool.false_eq_true, if_false] at hr' ⊢
      exact h r' hr'
  | deliver id raw hid _ =>
    intro r' hr'
    obtain ⟨r, hr, ⟨hin, hre⟩ | ⟨hnin, hre⟩⟩ := mem_updRpc hr'
    · rw [hre]
      have h0 : r.deliveries = 0 := (h r hr).2 (hin ▸ hid)
      refine ⟨by simp [deliverTo, h0], fun hmem => ?_⟩
      have hmem' : r.id ∈ t.ids.erase id := hmem
      rw [hin] at hmem'
      exact absurd hmem' (List.Nodup.not_mem_erase hn)
    · rw [hre]
      exact ⟨(h r hr).1, fun hmem => (h r hr).2 (List.mem_of_mem_erase hmem)⟩

/-- Ids of request objects after a step: old ones, or the one just created. -/
theorem TStep_ids (env : Env) (op : Op) (t t' : Tbl) (hs : TStep env op t t') :
    ∀ r' ∈ t'.rpcs, (∃ r ∈ t.rpcs, r.id = r'.id) ∨ op = .cNew r'.id := by
  have key : t'.rpcs.map (·.id) = t.rpcs.map (·.id) →
      ∀ r' ∈ t'.rpcs, (∃ r ∈ t.rpcs, r.id = r'.id) ∨ op = .cNew r'.id := by
    intro hmap r' hr'
    have : r'.id ∈ t.rpcs.map (·.id) := hmap ▸ List.mem_map.2 ⟨r', hr', rfl⟩
    obtain ⟨r, hr, hrid⟩ := List.mem_map.1 this
    exact Or.inl ⟨r, hr, hrid⟩
  cases hs with
  | same => exact key rfl
  | new id hop =>
    intro r' hr'
    simp only at hr'
    split at hr'
    · exact Or.inl ⟨r', hr', rfl⟩
    · simp only [List.mem_append, List.mem_singleton] at hr'
      rcases hr' with hr' | rfl
      · exact Or.inl ⟨r', hr', rfl⟩
      · exact Or.inr hop
  | fail e b _ =>
    apply key
    simp only
    split
    · exact map_id_failAll _ _ _
    · rfl
  | deliver id raw _ _ => exact key (map_id_updRpc _ _ _ (deliverTo_id raw))

theorem newIds_cons (op : Op) (ops : List Op) :
    newIds (op :: ops) = (match op with | .cNew id => [id] | _ => []) ++ newIds ops := by
  cases op <;> simp [newIds]

theorem mem_newIds_cons {x : Nat} (op : Op) (ops : List Op) (h : x ∈ newIds ops) : x ∈ newIds (op :: ops) := by
  rw [newIds_cons]; exact List.mem_append_right _ h

theorem nodup_newIds_tail (op : Op) (ops : List Op) (h : (newIds (op :: ops)).Nodup) : (newIds ops).Nodup := by
  rw [newIds_cons] at h; exact (List.nodup_append.1 h).2.1

theorem at_most_once_from (env : Env) (ops : List Op) :
    ∀ w, TInv env (tbl w) → DInv (tbl w) → (∀ r ∈ w.rpcs, r.id ∉ newIds ops) → (newIds ops).Nodup →
      DInv (tbl (run env w ops)) := by
  induction ops with
  | nil => intro w _ h _ _; exact h
  | cons op ops ih =>
    intro w hT hD hdisj hnd
    have hs := step_tstep env w op
    apply ih (step env w op) (TInv_step env op _ _ hT hs)
    · apply DInv_step env op _ _ hT.idNodup hD hs
      intro id hop r hr heq
      apply hdisj r hr
      subst hop
      simp [newIds, heq]
    · intro r' hr'
      rcases TStep_ids env op _ _ hs r' hr' with ⟨r, hr, hrid⟩ | hop
      · intro hmem
        apply hdisj r hr
        rw [hrid]
        exact mem_newIds_cons op ops hmem
      · subst hop
        simp only [newIds, List.filterMap_cons, List.nodup_cons] at hnd
        exact hnd.1
    · exact nodup_newIds_tail op ops hnd

theorem at_most_once (env : Env) (ops : List Op) (h : FreshIds ops) :
    ∀ r ∈ (run env Session.init ops).rpcs, r.deliveries ≤ 1 := by
  have := at_most_once_from env ops Session.init (TInv_init env) (by simp [DInv, tbl, Session.init])
    (by simp [Session.init]) h
  intro r hr
  exact (this r hr).1

/-! ## Notification queue and worker termination -/

structure WInv (env : Env) (w : World) : Prop where
  notif : w.taken ++ w.notifQ = w.received.filter (goodNotif env)
  connNotif : w.conn ≠ .idle → w.hasNotif = true
  pcNotif : w.pc ≠ .notStarted → w.hasNotif = true
  stopped : w.pc = .stopped → w.closing = true ∧ w.errbackDone = true
  exiting : w.pc = .exiting → w.closing = true
  closingSelf : w.pc = .closingSelf → w.errbackDone = true

theorem WInv_init (env : Env) : WInv env Session.init := by
  constructor <;> simp [Session.init]

theorem WInv_wDispatch (env : Env) (w : World) (h : WInv env w) : WInv env (step env w .wDispatch) := by
  obtain ⟨h1, h2, h3, h4, h5, h6⟩ := h
  cases hpc : w.pc with
  | dispatching todo =>
    have hN : w.hasNotif = true := h3 (by simp [hpc])
    match todo with
    | [] => constructor <;> simp_all [step]
    | .raise .framing :: rest => constructor <;> simp_all [step]
    | .raise .decode :: rest => constructor <;> simp_all [step]
    | .deliver raw :: rest =>
      rw [step_wDispatch_deliver env w raw rest hpc]
      refine ⟨?_, ?_, ?_, ?_, ?_, ?_⟩
      · simp only [dispatchMessage_taken, dispatchMessage_received, dispatchMessage_notifQ env w raw hN,
          List.filter_append, ← h1, List.append_assoc]
        congr 2
        simp only [List.filter_cons, List.filter_nil]
      · simpa using h2
      · simp [hN]
      · split <;> (try split) <;> simp
      · split <;> (try split) <;> simp
      · split <;> (try split) <;> simp
  | _ => simp only [step, hpc]; exact ⟨h1, h2, h3, h4, h5, h6⟩

theorem WInv_step (env : Env) (w : World) (op : Op) (h : WInv env w) : WInv env (step env w op) := by
  cases op with
  | wDispatch => exact WInv_wDispatch env w h
  | _ =>
    obtain ⟨h1, h2, h3, h4, h5, h6⟩ := h
    simp only [step]
    repeat' split
    all_goals constructor <;> simp_all

theorem WInv_run_from (env : Env) (ops : List Op) : ∀ w, WInv env w → WInv env (run env w ops) := by
  induction ops with
  | nil => intro w h; exact h
  | cons op ops ih => intro w h; exact ih (step env w op) (WInv_step env w op h)

theorem WInv_run (env : Env) (ops : List Op) : WInv env (run env Session.init ops) :=
  WInv_run_from env ops _ (WInv_init env)

/-- The global invariant of every reachable state. -/
structure Inv (env : Env) (w : World) : Prop where
  table : TInv env (tbl w)
  world : WInv env w

theorem Inv_init (env : Env) : Inv env Session.init := ⟨TInv_init env, WInv_init env⟩

theorem Inv_step (env : Env) (w : World) (op : Op) (h : Inv env w) : Inv env (step env w op) :=
  ⟨TInv_step env op _ _ h.table (step_tstep env w op), WInv_step env w op h.world⟩

theorem Inv_run (env : Env) (ops : List Op) : Inv env (run env Session.init ops) :=
  ⟨TInv_run env ops, WInv_run env ops⟩

/-! ## C03 -/

theorem own_reply (env : Env) (ops : List Op) :
    ∀ r ∈ (run env Session.init ops).rpcs, ∀ raw, r.reply = some raw → isReplyFor env r.id raw :=
  (TInv_run env ops).own

theorem table_wellformed (env : Env) (ops : List Op) :
    ((run env Session.init ops).rpcs.map (·.id)).Nodup ∧ (run env Session.init ops).id2rpc.Nodup ∧
    ∀ id ∈ (run env Session.init ops).id2rpc, ∃ r ∈ (run env Session.init ops).rpcs, r.id = id :=
  ⟨(TInv_run env ops).rpcNodup, (TInv_run env ops).idNodup, (TInv_run env ops).idHasRpc⟩

theorem replyAccepts_tag {env : Env} {t : Tag} (h : replyAccepts env t = true) :
    t = .rpcReplyBase ∨ t = .rpcReplyOther := by
  cases t <;> simp_all [replyAccepts]

theorem dispatchMessage_reply (env : Env) (w : World) (raw : Str) (t : Tag) (id : Nat)
    (hc : env.classify raw = .root ⟨t, some id⟩) (ha : replyAccepts env t = true)
    (hL : w.hasReplyL = true) (hid : id ∈ w.id2rpc) :
    dispatchMessage env w raw =
      ({ w with received := w.received ++ [raw], rpcs := updRpc w.rpcs id (deliverTo raw),
                id2rpc := w.id2rpc.erase id }, none) := by
  unfold dispatchMessage
  rcases replyAccepts_tag ha with rfl | rfl <;> simp [hc, hL, ha, hid] <;> rfl

theorem late_reply_harmless (env : Env) (w : World) (raw : Str) (rest : List Out) (t : Tag) (id : Nat)
    (hpc : w.pc = .dispatching (.deliver raw :: rest)) (hc : env.classify raw = .root ⟨t, some id⟩)
    (ha : replyAccepts env t = true) (hL : w.hasReplyL = true) (hid : id ∈ w.id2rpc) :
    (step env w .wDispatch).connected = w.connected ∧ (step env w .wDispatch).closing = w.closing ∧
    (step env w .wDispatch).notifQ = w.notifQ ∧
    (∀ r ∈ w.rpcs, r.id ≠ id → r ∈ (step env w .wDispatch).rpcs) ∧
    (∀ e, (step env w .wDispatch).pc ≠ .failing e) ∧
    (∀ j, j ≠ id → (j ∈ (step env w .wDispatch).id2rpc ↔ j ∈ w.id2rpc)) := by
  rw [step_wDispatch_deliver env w raw rest hpc, dispatchMessage_reply env w raw t id hc ha hL hid]
  refine ⟨rfl, rfl, rfl, ?_, ?_, ?_⟩
  · intro r hr hne
    simp only [updRpc, List.mem_map]
    exact ⟨r, hr, by simp [hne]⟩
  · intro e; simp only; split <;> simp
  · intro j hj; exact List.mem_erase_of_ne hj

theorem dispatchMessage_inert (env : Env) (w : World) (raw : Str) (r : Root)
    (hc : env.classify raw = .root r) (ht : inertTag env w.hasHello r.tag = true)
    (hn : r.tag = .notification → env.notifOk raw = true) :
    (dispatchMessage env w raw).1.rpcs = w.rpcs ∧ (dispatchMessage env w raw).1.id2rpc = w.id2rpc ∧
    (dispatchMessage env w raw).2 = none := by
  obtain ⟨t, m⟩ := r
  unfold dispatchMessage
  cases t <;> simp_all [inertTag, replyAccepts] <;> (repeat' split) <;> simp_all

theorem non_reply_inert (env : Env) (w : World) (raw : Str) (rest : List Out) (r : Root)
    (hpc : w.pc = .dispatching (.deliver raw :: rest)) (hc : env.classify raw = .root r)
    (ht : inertTag env w.hasHello r.tag = true) (hn : r.tag = .notification → env.notifOk raw = true) :
    (step env w .wDispatch).rpcs = w.rpcs ∧ (step env w .wDispatch).id2rpc = w.id2rpc ∧
    (step env w .wDispatch).connected = w.connected ∧ (∀ e, (step env w .wDispatch).pc ≠ .failing e) := by
  rw [step_wDispatch_deliver env w raw rest hpc]
  obtain ⟨h1, h2, h3⟩ := dispatchMessage_inert env w raw r hc ht hn
  refine ⟨h1, h2, by simp, ?_⟩
  intro e; simp only [h3]; split <;> simp

/-! ## C11 -/

theorem notifQ_spec (env : Env) (ops : List Op) :
    (run env Session.init ops).taken ++ (run env Session.init ops).notifQ =
      (run env Session.init ops).received.filter (goodNotif env) :=
  (WInv_run env ops).notif

theorem notif_inert (env : Env) (w : World) (raw : Str) (rest : List Out) (m : Option Nat)
    (hpc : w.pc = .dispatching (.deliver raw :: rest))
    (hc : env.classify raw = .root ⟨.notification, m⟩) (hn : env.notifOk raw = true) :
    (step env w .wDispatch).rpcs = w.rpcs ∧ (step env w .wDispatch).id2rpc = w.id2rpc ∧
    (step env w .wDispatch).connected = w.connected ∧ (step env w .wDispatch).closing = w.closing ∧
    (∀ e, (step env w .wDispatch).pc ≠ .failing e) ∧
    (w.hasNotif = true → (step env w .wDispatch).notifQ = w.notifQ ++ [raw]) := by
  obtain ⟨h1, h2, h3, h4⟩ := non_reply_inert env w raw rest ⟨.notification, m⟩ hpc hc rfl (fun _ => hn)
  refine ⟨h1, h2, h3, ?_, h4, ?_⟩
  · rw [step_wDispatch_deliver env w raw rest hpc]; simp
  · intro hN
    rw [step_wDispatch_deliver env w raw rest hpc]
    simp [dispatchMessage_notifQ env w raw hN, goodNotif, hc, hn]

theorem only_notifications_queued (env : Env) (ops : List Op) :
    ∀ n ∈ (run env Session.init ops).notifQ ++ (run env Session.init ops).taken, goodNotif env n = true := by
  intro n hn
  have hmem : n ∈ (run env Session.init ops).taken ++ (run env Session.init ops).notifQ := by
    simp only [List.mem_append] at hn ⊢; exact hn.symm
  rw [notifQ_spec] at hmem
  exact (List.mem_filter.1 hmem).2

theorem take_empty (env : Env) (w : World) (h : w.notifQ = []) : step env w .cTake = w := by
  simp [step, h]

theorem take_oldest (env : Env) (w : World) (n : Str) (rest : List Str) (h : w.notifQ = n :: rest) :
    (step env w .cTake).notifQ = rest ∧ (step env w .cTake).taken = w.taken ++ [n] := by
  simp [step, h]

theorem handler_before_worker (env : Env) (ops : List Op) :
    (run env Session.init ops).pc ≠ .notStarted → (run env Session.init ops).hasNotif = true :=
  (WInv_run env ops).pcNotif

/-! ## C04 -/

theorem pending_registered (env : Env) (ops : List Op) :
    ∀ r ∈ (run env Session.init ops).rpcs, r.event = false → r.id ∈ (run env Session.init ops).id2rpc :=
  (TInv_run env ops).pend

theorem eof_is_loss (env : Env) (w : World) (h : w.pc = .read) (hc : w.closing = false) :
    (step env w (.wRead .eof)).pc = .failing .sessionClose ∧
    (step env w (.wRead (.data []))).pc = .failing .sessionClose := by
  simp [step, h, hc]

theorem read_error_is_loss (env : Env) (w : World) (h : w.pc = .read) :
    (step env w (.wRead .err)).pc = .failing .transport := by
  simp [step, h]

theorem failed_write_is_loss (env : Env) (w : World) (data : Bytes) (n : Int) (h : w.pc = .writing data) (hn : n ≤ 0) :
    (step env w (.wWrite n)).pc = .failing .sessionClose ∧ (step env w .wWriteErr).pc = .failing .transport := by
  simp [step, h, hn]

theorem find_failAll (rpcs : List Rpc) (ids : List Nat) (e : ErrK) (id : Nat) (hid : id ∈ ids)
    (hex : ∃ r ∈ rpcs, r.id = id) :
    ∃ r, (failAll rpcs ids e).find? (·.id = id) = some r ∧ r.event = true ∧ r.error = some e := by
  induction rpcs with
  | nil => obtain ⟨r, hr, _⟩ := hex; simp at hr
  | cons a l ih =>
    by_cases ha : a.id = id
    · subst ha
      refine ⟨{ a with error := some e, event := true }, ?_, rfl, rfl⟩
      simp [failAll, hid]
    · have hex' : ∃ r ∈ l, r.id = id := by
        obtain ⟨r, hr, hrid⟩ := hex
        rcases List.mem_cons.1 hr with rfl | hr
        · exact absurd hrid ha
        · exact ⟨r, hr, hrid⟩
      obtain ⟨r, hr, h1, h2⟩ := ih hex'
      refine ⟨r, ?_, h1, h2⟩
      simp only [failAll, List.map_cons] at hr ⊢
      rw [List.find?_cons_of_neg]
      · exact hr
      · split <;> simpa using ha

theorem loss_error_kind_w (env : Env) (w : World) (e : ErrK) (hT : TInv env (tbl w)) (hpc : w.pc = .failing e) :
    ∀ id ∈ w.id2rpc, outcome (step env w .wErrback) id = some (.raised e) := by
  intro id hid
  obtain ⟨r0, hr0, hr0id⟩ := hT.idHasRpc id hid
  have hL : w.hasReplyL = true := hT.hasL (by intro hnil; rw [hnil] at hr0; simp at hr0)
  obtain ⟨r, hr, hev, herr⟩ := find_failAll w.rpcs w.id2rpc e id hid ⟨r0, hr0, hr0id⟩
  simp only [step, hpc, outcome, dispatchError_rpcs, hL, if_true]
  rw [hr]
  simp [hev, herr]

theorem loss_error_kind (env : Env) (ops : List Op) (e : ErrK) :
    (run env Session.init ops).pc = .failing e →
    ∀ id ∈ (run env Session.init ops).id2rpc,
      outcome (step env (run env Session.init ops) .wErrback) id = some (.raised e) :=
  loss_error_kind_w env _ e (TInv_run env ops)

theorem loss_fails_pending (env : Env) (ops : List Op) :
    (run env Session.init ops).errbackDone = true →
    ∀ r ∈ (run env Session.init ops).rpcs, r.event = true ∨ r.lateBorn = true :=
  (TInv_run env ops).late

theorem error_path_closes (env : Env) (w : World) (e : ErrK) (h : w.pc = .failing e) :
    (run env w [.wErrback, .wCloseSelf]).connected = false ∧ (run env w [.wErrback, .wCloseSelf]).pc = .stopped := by
  simp [run, step, h]

theorem later_refused (env : Env) (w : World) (d : Bytes) (h : w.connected = false) :
    step env w (.cSend d) = w := by
  simp [step, h]

theorem error_wins (w : World) (r : Rpc) (e : ErrK) (hr : w.rpcs.find? (·.id = r.id) = some r)
    (he : r.error = some e) (hev : r.event = true) : outcome w r.id = some (.raised e) := by
  simp [outcome, hr, he, hev]

theorem bounded_wait (w : World) (r : Rpc) (hr : w.rpcs.find? (·.id = r.id) = some r) :
    ∃ o, outcome w r.id = some o := by
  simp [outcome, hr]

/-! ## C14, session level -/

theorem parser_error_fails_session (env : Env) (w : World) (k : ErrKind) (rest : List Out)
    (h : w.pc = .dispatching (.raise k :: rest)) :
    ∃ e, (step env w .wDispatch).pc = .failing e ∧ (step env w .wDispatch).received = w.received ∧
         (step env w .wDispatch).rpcs = w.rpcs ∧ (step env w .wDispatch).notifQ = w.notifQ := by
  cases k
  · exact ⟨.framing, by simp [step, h]⟩
  · exact ⟨.decode, by simp [step, h]⟩

theorem bad_payload_not_delivered (env : Env) (w : World) (raw : Str) (h : env.classify raw = .drop) :
    (dispatchMessage env w raw).1.rpcs = w.rpcs ∧ (dispatchMessage env w raw).1.notifQ = w.notifQ ∧
    (dispatchMessage env w raw).1.id2rpc = w.id2rpc ∧ (dispatchMessage env w raw).2 = none := by
  simp [dispatchMessage, h]

theorem step_wDispatch_pc_ne_stopped (env : Env) (w : World) (h : w.pc ≠ .stopped) :
    (step env w .wDispatch).pc ≠ .stopped := by
  cases hpc : w.pc with
  | dispatching todo =>
    match todo with
    | [] => simp [step, hpc]
    | .raise .framing :: rest => simp [step, hpc]
    | .raise .decode :: rest => simp [step, hpc]
    | .deliver raw :: rest =>
      rw [step_wDispatch_deliver env w raw rest hpc]
      simp only; split <;> (try split) <;> simp
  | _ => simp_all [step]

theorem stop_paths (env : Env) (w : World) (op : Op) (h : w.pc ≠ .stopped)
    (h' : (step env w op).pc = .stopped) :
    (op = .wCloseSelf ∧ w.pc = .closingSelf) ∨ (op = .wExit ∧ w.pc = .exiting) := by
  cases op with
  | wDispatch => exact absurd h' (step_wDispatch_pc_ne_stopped env w h)
  | _ =>
    simp only [step] at h'
    repeat' split at h'
    all_goals simp_all

theorem worker_stop_invariant (env : Env) (ops : List Op) :
    (run env Session.init ops).pc = .stopped →
      (run env Session.init ops).closing = true ∧ (run env Session.init ops).errbackDone = true ∧
      (∀ r ∈ (run env Session.init ops).rpcs, r.event = true ∨ r.lateBorn = true) ∧
      (step env (run env Session.init ops) .cCloseEnd).connected = false := by
  intro hpc
  obtain ⟨hc, hb⟩ := (WInv_run env ops).stopped hpc
  refine ⟨hc, hb, (TInv_run env ops).late hb, ?_⟩
  simp [step, hc, hpc]

theorem stopped_is_final (env : Env) (w : World) (op : Op) (h : w.pc = .stopped) (hw : isWorkerOp op = true) :
    step env w op = w := by
  cases op <;> simp_all [step, isWorkerOp]

end NcVerif.SessionA
