/- Helper lemmas about Model/Builders: every operation element that is built is a well-formed tree, and
   a successful build implies the capability checks of its branch. -/
import NcVerif.Model.Builders
import NcVerif.Proofs.XmlDoc
namespace NcVerif.BuildersP
open NcVerif NcVerif.XmlDoc NcVerif.XmlText NcVerif.Builders NcVerif.XmlDocP

theorem bind_ok {α β : Type} {x : Except Refusal α} {f : α → Except Refusal β} {b : β}
    (h : (x >>= f) = .ok b) : ∃ a, x = .ok a ∧ f a = .ok b := by
  cases x with
  | error e => simp [bind, Except.bind] at h
  | ok a => exact ⟨a, rfl, by simpa [bind, Except.bind] using h⟩

/-- A built node: an element (never bare text) that is well-formed. -/
def Good (t : XNode) : Prop := wf t = true ∧ isText t = false

theorem validName_nc_of (n : Str) (h : validName n = true) : validName (s "nc:" ++ n) = true := by
  have hall := validName_all h
  show validName ('n' :: 'c' :: ':' :: n) = true
  unfold validName
  simp only [Bool.and_eq_true, List.all_cons, List.all_eq_true]
  exact ⟨by decide, by decide, by decide, hall⟩

theorem leaf_good (name : String) (t : Str) (x : XNode) (hn : validName (nc name) = true) (h : leaf name t = .ok x) : Good x := by
  unfold leaf at h
  split at h
  · injection h with h; subst h
    by_cases he : t.isEmpty = true
    · simp [he, Good, wf, wfList, hn, isText]
    · have he' : t.isEmpty = false := by simpa using he
      simp [he', Good, wf, wfList, hn, isText]
  · cases h

theorem named_good (n : Str) (x : XNode) (h : named n = .ok x) : Good x ∧ x = .elem (s "nc:" ++ n) [] [] ∧ validName n = true := by
  unfold named at h
  split at h
  · rename_i hv
    rw [Bool.and_eq_true] at hv
    injection h with h; subst h
    refine ⟨?_, rfl, hv.1⟩
    simp [Good, wf, wfList, isText, validName_nc_of n hv.1]
  · cases h

theorem el_good (name : String) (cs : List XNode) (hn : validName (nc name) = true) (hc : ∀ c ∈ cs, Good c) : Good (el name cs) := by
  have hl : wfList cs = true := wfList_elems cs (fun c hcm => hc c hcm)
  simp [Good, el, wf, hn, hl, isText]

theorem assert_ok {has : Str → Bool} {cap : String} (h : assertCap has cap = .ok ()) : has (s cap) = true := by
  unfold assertCap at h
  split at h
  · assumption
  · cases h

theorem datastoreOrUrl_good (has : Str → Bool) (wha : String) (loc : Str) (x : XNode) (hn : validName (nc wha) = true)
    (h : datastoreOrUrl has wha loc = .ok x) :
    Good x ∧ (hasSub (s "://") loc = true → has (s ":url") = true ∧ x = el wha [.elem (nc "url") [] (if loc.isEmpty then [] else [.text loc])]) ∧
      (hasSub (s "://") loc = false → x = el wha [.elem (s "nc:" ++ loc) [] []]) := by
  unfold datastoreOrUrl at h
  split at h
  · rename_i hu
    obtain ⟨_, ha, h⟩ := bind_ok h
    obtain ⟨u, hl, h⟩ := bind_ok h
    injection h with h; subst h
    have hg := leaf_good "url" loc u (by decide) hl
    refine ⟨el_good wha [u] hn (by intro c hc; simp at hc; subst hc; exact hg), ?_, ?_⟩
    · intro _
      refine ⟨assert_ok ha, ?_⟩
      unfold leaf at hl
      split at hl
      · injection hl with hl; subst hl; rfl
      · cases hl
    · intro hf; rw [hu] at hf; cases hf
  · rename_i hu
    obtain ⟨d, hd, h⟩ := bind_ok h
    injection h with h; subst h
    obtain ⟨hg, hd', _⟩ := named_good loc d hd
    refine ⟨el_good wha [d] hn (by intro c hc; simp at hc; subst hc; exact hg), ?_, ?_⟩
    · intro ht; simp [ht] at hu
    · intro _; rw [hd']


theorem validateArg_ok {v : Str} {allowed : List String} (h : validateArg v allowed = .ok ()) : ∃ a ∈ allowed, s a = v := by
  unfold validateArg at h
  split at h
  · rename_i hv; rw [List.any_eq_true] at hv
    obtain ⟨a, ha, he⟩ := hv
    exact ⟨a, ha, of_decide_eq_true he⟩
  · cases h

def enumDo : List String := ["merge", "replace", "none"]
def enumTo : List String := ["test-then-set", "set", "test-only"]
def enumEo : List String := ["stop-on-error", "continue-on-error", "rollback-on-error"]

theorem leaf_names (name : String) (t : Str) (x : XNode) (h : leaf name t = .ok x) : paramNames (el "x" [x]) = [nc name] := by
  unfold leaf at h; split at h
  · injection h with h; subst h; simp [paramNames, el]
  · cases h

theorem assertIf_ok {has : Str → Bool} {c : Bool} {cap : String} (h : assertIf has c cap = .ok ()) (hc : c = true) : has (s cap) = true := by
  unfold assertIf at h; rw [if_pos hc] at h; exact assert_ok h

theorem defaultOpPart_ok (dop : Option Str) (l : List XNode) (h : defaultOpPart dop = .ok l) :
    (∀ d, dop = some d → ∃ a ∈ enumDo, s a = d) ∧ (∀ c ∈ l, Good c) ∧ (paramNames (el "x" l)).Sublist [nc "default-operation"] := by
  unfold defaultOpPart at h
  cases dop with
  | none => injection h with h; subst h; exact ⟨(by intro d hd; cases hd), (by intro c hc; cases hc), (by simp [paramNames, el])⟩
  | some d =>
    obtain ⟨_, hv, h⟩ := bind_ok h
    obtain ⟨x, hl, h⟩ := bind_ok h
    injection h with h; subst h
    refine ⟨(by intro d' hd'; injection hd' with hd'; subst hd'; exact validateArg_ok hv),
      (by intro c hc; simp at hc; rw [hc]; exact leaf_good "default-operation" d x (by decide) hl), ?_⟩
    rw [leaf_names _ d x hl]; exact List.Sublist.refl _

theorem testOptPart_ok (has : Str → Bool) (top : Option Str) (l : List XNode) (h : testOptPart has top = .ok l) :
    (∀ x, top = some x → (∃ a ∈ enumTo, s a = x) ∧ has (s ":validate") = true ∧ (x = s "test-only" → has (s ":validate:1.1") = true)) ∧
    (∀ c ∈ l, Good c) ∧ (paramNames (el "x" l)).Sublist [nc "test-option"] := by
  unfold testOptPart at h
  cases top with
  | none => injection h with h; subst h; exact ⟨(by intro d hd; cases hd), (by intro c hc; cases hc), (by simp [paramNames, el])⟩
  | some t =>
    obtain ⟨_, hv, h⟩ := bind_ok h
    obtain ⟨_, ha, h⟩ := bind_ok h
    obtain ⟨_, ha2, h⟩ := bind_ok h
    obtain ⟨x, hl, h⟩ := bind_ok h
    injection h with h; subst h
    refine ⟨?_, (by intro c hc; simp at hc; rw [hc]; exact leaf_good "test-option" t x (by decide) hl), (by rw [leaf_names _ t x hl]; exact List.Sublist.refl _)⟩
    intro t' ht'; injection ht' with ht'; subst ht'
    exact ⟨validateArg_ok hv, assert_ok ha, fun hto => assertIf_ok ha2 (by simp [hto])⟩

theorem errorOptPart_ok (has : Str → Bool) (eop : Option Str) (l : List XNode) (h : errorOptPart has eop = .ok l) :
    (∀ e, eop = some e → (∃ a ∈ enumEo, s a = e) ∧ (e = s "rollback-on-error" → has (s ":rollback-on-error") = true)) ∧
    (∀ c ∈ l, Good c) ∧ (paramNames (el "x" l)).Sublist [nc "error-option"] := by
  unfold errorOptPart at h
  cases eop with
  | none => injection h with h; subst h; exact ⟨(by intro d hd; cases hd), (by intro c hc; cases hc), (by simp [paramNames, el])⟩
  | some e =>
    obtain ⟨_, hv, h⟩ := bind_ok h
    obtain ⟨_, ha2, h⟩ := bind_ok h
    obtain ⟨x, hl, h⟩ := bind_ok h
    injection h with h; subst h
    refine ⟨?_, (by intro c hc; simp at hc; rw [hc]; exact leaf_good "error-option" e x (by decide) hl), (by rw [leaf_names _ e x hl]; exact List.Sublist.refl _)⟩
    intro e' he'; injection he' with he'; subst he'
    exact ⟨validateArg_ok hv, fun hro => assertIf_ok ha2 (by simp [hro])⟩

theorem configPart_ok (has : Str → Bool) (config : Config) (l : List XNode) (hcfg : ∀ c, config = .xml c → Good c)
    (h : configPart has config = .ok l) :
    (∀ u ok, config = .url u ok → ok = true ∧ has (s ":url") = true) ∧ (∀ c ∈ l, Good c) ∧
    (paramNames (el "x" l)).Sublist [nc "config", s "config", nc "config-text", nc "url"] := by
  unfold configPart at h
  cases config with
  | xml c =>
    simp only [] at h
    split at h
    · rename_i hr
      injection h with h; subst h
      refine ⟨(by intro u ok hu; cases hu), (by intro c' hc'; simp at hc'; rw [hc']; exact hcfg c rfl), ?_⟩
      cases c with
      | text _ => simp [rootIsConfig] at hr
      | elem n a k =>
        simp only [rootIsConfig, Bool.or_eq_true, decide_eq_true_eq] at hr
        rcases hr with hr | hr <;> subst hr <;> simp [paramNames, el] <;> decide
    · cases h
  | text tx =>
    obtain ⟨x, hl, h⟩ := bind_ok h
    injection h with h; subst h
    refine ⟨(by intro u ok hu; cases hu), ?_, (by simp [paramNames, el])⟩
    intro c hc; simp at hc; rw [hc]
    exact el_good "config-text" [x] (by decide) (by intro c hc; simp at hc; rw [hc]; exact leaf_good "configuration-text" tx x (by decide) hl)
  | url u ok =>
    simp only [] at h
    split at h
    · rename_i hok
      obtain ⟨_, ha, h⟩ := bind_ok h
      obtain ⟨x, hl, h⟩ := bind_ok h
      injection h with h; subst h
      refine ⟨(by intro u' ok' hu'; injection hu' with _ h2; subst h2; exact ⟨hok, assert_ok ha⟩),
        (by intro c hc; simp at hc; rw [hc]; exact leaf_good "url" u x (by decide) hl), ?_⟩
      rw [leaf_names _ u x hl]; decide
    · cases h

theorem paramNames_el_append (a b : List XNode) :
    paramNames (el "x" (a ++ b)) = paramNames (el "x" a) ++ paramNames (el "x" b) := by
  simp [paramNames, el, List.filterMap_append]

theorem paramNames_el_name (n m : String) (cs : List XNode) : paramNames (el n cs) = paramNames (el m cs) := rfl

/-- Everything a successful `edit_config` build implies. -/
theorem editConfig_ok (has : Str → Bool) (config : Config) (target : Str) (dop top eop : Option Str) (t : XNode)
    (hcfg : ∀ c, config = .xml c → Good c)
    (h : editConfig has config target dop top eop = .ok t) :
    Good t ∧
    (hasSub (s "://") target = true → has (s ":url") = true) ∧
    (∀ d, dop = some d → ∃ a ∈ enumDo, s a = d) ∧
    (∀ x, top = some x → (∃ a ∈ enumTo, s a = x) ∧ has (s ":validate") = true ∧ (x = s "test-only" → has (s ":validate:1.1") = true)) ∧
    (∀ e, eop = some e → (∃ a ∈ enumEo, s a = e) ∧ (e = s "rollback-on-error" → has (s ":rollback-on-error") = true)) ∧
    (∀ u ok, config = .url u ok → ok = true ∧ has (s ":url") = true) ∧
    (paramNames t).Sublist ([nc "target"] ++ [nc "default-operation"] ++ [nc "test-option"] ++ [nc "error-option"] ++
      [nc "config", s "config", nc "config-text", nc "url"]) := by
  unfold editConfig at h
  obtain ⟨tgt, htgt, h⟩ := bind_ok h
  obtain ⟨dl, hdl, h⟩ := bind_ok h
  obtain ⟨tl, htl, h⟩ := bind_ok h
  obtain ⟨el_, hel, h⟩ := bind_ok h
  obtain ⟨cl, hcl, h⟩ := bind_ok h
  injection h with h
  obtain ⟨gt, hturl, _⟩ := datastoreOrUrl_good has "target" target tgt (by decide) htgt
  have hD := defaultOpPart_ok dop dl hdl
  have hT := testOptPart_ok has top tl htl
  have hE := errorOptPart_ok has eop el_ hel
  have hC := configPart_ok has config cl hcfg hcl
  subst h
  refine ⟨?_, fun hu => (hturl hu).1, hD.1, hT.1, hE.1, hC.1, ?_⟩
  · apply el_good "edit-config" _ (by decide)
    intro c hc
    simp only [List.mem_append, List.mem_singleton] at hc
    rcases hc with (((hc | hc) | hc) | hc) | hc
    · subst hc; exact gt
    · exact hD.2.1 c hc
    · exact hT.2.1 c hc
    · exact hE.2.1 c hc
    · exact hC.2.1 c hc
  · rw [paramNames_el_name "edit-config" "x", paramNames_el_append, paramNames_el_append, paramNames_el_append, paramNames_el_append]
    have htn : paramNames (el "x" [tgt]) = [nc "target"] := by
      unfold datastoreOrUrl at htgt
      split at htgt
      · obtain ⟨_, _, htgt⟩ := bind_ok htgt
        obtain ⟨u, _, htgt⟩ := bind_ok htgt
        injection htgt with htgt; subst htgt; simp [paramNames, el]
      · obtain ⟨d, _, htgt⟩ := bind_ok htgt
        injection htgt with htgt; subst htgt; simp [paramNames, el]
    rw [htn]
    exact List.Sublist.append (List.Sublist.append (List.Sublist.append (List.Sublist.append (List.Sublist.refl _) hD.2.2) hT.2.2) hE.2.2) hC.2.2


/-! ### The other operations -/

theorem lockOp_ok (name : String) (target : Str) (t : XNode) (hn : validName (nc name) = true) (h : lockOp name target = .ok t) :
    Good t ∧ t = el name [el "target" [.elem (s "nc:" ++ target) [] []]] := by
  unfold lockOp at h
  obtain ⟨d, hd, h⟩ := bind_ok h
  injection h with h; subst h
  obtain ⟨hg, hd', _⟩ := named_good target d hd
  refine ⟨?_, by rw [hd']⟩
  apply el_good name _ hn
  intro c hc; simp at hc; rw [hc]
  exact el_good "target" [d] (by decide) (by intro c hc; simp at hc; rw [hc]; exact hg)

theorem urlCap_mem {has : Str → Bool} {loc : Str} (h : hasSub (s "://") loc = true → has (s ":url") = true) :
    ∀ cap ∈ urlCap loc, has (s cap) = true := by
  intro cap hc
  unfold urlCap at hc
  split at hc
  · rename_i hu; simp at hc; subst hc; exact h hu
  · cases hc

theorem optLeaf_ok (name : String) (o : Option Str) (l : List XNode) (hn : validName (nc name) = true) (h : optLeaf name o = .ok l) :
    ∀ c ∈ l, Good c := by
  unfold optLeaf at h
  cases o with
  | none => injection h with h; subst h; intro c hc; cases hc
  | some t =>
    obtain ⟨x, hl, h⟩ := bind_ok h
    injection h with h; subst h
    intro c hc; simp at hc; rw [hc]; exact leaf_good name t x hn hl

theorem commit_ok (has : Str → Bool) (confirmed : Bool) (timeout persist pid : Option Str) (t : XNode)
    (h : commit has confirmed timeout persist pid = .ok t) :
    Good t ∧ has (s ":candidate") = true ∧ (confirmed = true → has (s ":confirmed-commit") = true) ∧
      ¬ (truthy persist = true ∧ truthy pid = true) := by
  unfold commit at h
  obtain ⟨_, hc, h⟩ := bind_ok h
  obtain ⟨_, hp, h⟩ := bind_ok h
  obtain ⟨conf, hconf, h⟩ := bind_ok h
  obtain ⟨pl, hpl, h⟩ := bind_ok h
  injection h with h; subst h
  have hnot : ¬ (truthy persist = true ∧ truthy pid = true) := by
    intro hb
    simp only [hb.1, hb.2, Bool.and_self, if_true] at hp
    cases hp
  have hC : (∀ c ∈ conf, Good c) ∧ (confirmed = true → has (s ":confirmed-commit") = true) := by
    unfold confirmedPart at hconf
    split at hconf
    · obtain ⟨_, ha, hconf⟩ := bind_ok hconf
      obtain ⟨tl, htl, hconf⟩ := bind_ok hconf
      obtain ⟨pl2, hpl2, hconf⟩ := bind_ok hconf
      injection hconf with hconf; subst hconf
      refine ⟨?_, fun _ => assert_ok ha⟩
      intro c hc'
      simp only [List.mem_append, List.mem_singleton] at hc'
      rcases hc' with (hc' | hc') | hc'
      · rw [hc']; exact el_good "confirmed" [] (by decide) (by intro c hc; cases hc)
      · exact optLeaf_ok "confirm-timeout" timeout tl (by decide) htl c hc'
      · exact optLeaf_ok "persist" persist pl2 (by decide) hpl2 c hc'
    · rename_i hcf
      injection hconf with hconf; subst hconf
      exact ⟨(by intro c hc'; cases hc'), fun hct => absurd hct hcf⟩
  have hP : ∀ c ∈ pl, Good c := by
    split at hpl
    · exact optLeaf_ok "persist-id" pid pl (by decide) hpl
    · injection hpl with hpl; subst hpl; intro c hc'; cases hc'
  refine ⟨?_, assert_ok hc, hC.2, hnot⟩
  apply el_good "commit" _ (by decide)
  intro c hc'
  rw [List.mem_append] at hc'
  rcases hc' with hc' | hc'
  · exact hC.1 c hc'
  · exact hP c hc'

/-- Every call that is built is a well-formed element, and every documented dependency of its arguments holds. -/
theorem build_ok (has : Str → Bool) (call : Call) (t : XNode)
    (hcfg : ∀ c tg d to e, call = .edit (.xml c) tg d to e → Good c)
    (h : build has call = .ok t) : Good t ∧ ∀ cap ∈ required call, has (s cap) = true := by
  cases call with
  | edit c tg d to e =>
    have h' := editConfig_ok has c tg d to e t (by intro c' hc'; subst hc'; exact hcfg c' tg d to e rfl) h
    refine ⟨h'.1, ?_⟩
    intro cap hcap
    simp only [required, List.mem_append] at hcap
    rcases hcap with ((hcap | hcap) | hcap) | hcap
    · exact urlCap_mem h'.2.1 cap hcap
    · cases to with
      | none => cases hcap
      | some x =>
        obtain ⟨_, hv, hv11⟩ := h'.2.2.2.1 x rfl
        simp only [List.mem_cons] at hcap
        rcases hcap with hcap | hcap
        · subst hcap; exact hv
        · split at hcap
          · rename_i hx; simp at hcap; subst hcap; exact hv11 hx
          · cases hcap
    · split at hcap
      · rename_i he
        simp at hcap; subst hcap
        exact (h'.2.2.2.2.1 (s "rollback-on-error") he).2 rfl
      · cases hcap
    · cases c with
      | url u ok => simp at hcap; subst hcap; exact (h'.2.2.2.2.2.1 u ok rfl).2
      | xml _ => cases hcap
      | text _ => cases hcap
  | lock tg => exact ⟨(lockOp_ok "lock" tg t (by decide) h).1, by intro cap hc; cases hc⟩
  | unlock tg => exact ⟨(lockOp_ok "unlock" tg t (by decide) h).1, by intro cap hc; cases hc⟩
  | getConfig src =>
    unfold build getConfig at h
    obtain ⟨x, hx, h⟩ := bind_ok h
    injection h with h; subst h
    obtain ⟨hg, hu, _⟩ := datastoreOrUrl_good has "source" src x (by decide) hx
    exact ⟨el_good "get-config" [x] (by decide) (by intro c hc; simp at hc; rw [hc]; exact hg), urlCap_mem (fun hh => (hu hh).1)⟩
  | delete tg =>
    unfold build deleteConfig at h
    obtain ⟨x, hx, h⟩ := bind_ok h
    injection h with h; subst h
    obtain ⟨hg, hu, _⟩ := datastoreOrUrl_good has "target" tg x (by decide) hx
    exact ⟨el_good "delete-config" [x] (by decide) (by intro c hc; simp at hc; rw [hc]; exact hg), urlCap_mem (fun hh => (hu hh).1)⟩
  | copy src tg =>
    unfold build copyConfig at h
    obtain ⟨x, hx, h⟩ := bind_ok h
    obtain ⟨y, hy, h⟩ := bind_ok h
    injection h with h; subst h
    obtain ⟨hgx, hux, _⟩ := datastoreOrUrl_good has "target" tg x (by decide) hx
    obtain ⟨hgy, huy, _⟩ := datastoreOrUrl_good has "source" src y (by decide) hy
    refine ⟨el_good "copy-config" [x, y] (by decide) (by intro c hc; simp at hc; rcases hc with hc | hc <;> rw [hc] <;> assumption), ?_⟩
    intro cap hcap
    simp only [required, List.mem_append] at hcap
    rcases hcap with hcap | hcap
    · exact urlCap_mem (fun hh => (hux hh).1) cap hcap
    · exact urlCap_mem (fun hh => (huy hh).1) cap hcap
  | validate src =>
    unfold build validate at h
    obtain ⟨_, ha, h⟩ := bind_ok h
    obtain ⟨x, hx, h⟩ := bind_ok h
    injection h with h; subst h
    obtain ⟨hg, hu, _⟩ := datastoreOrUrl_good has "source" src x (by decide) hx
    refine ⟨el_good "validate" [x] (by decide) (by intro c hc; simp at hc; rw [hc]; exact hg), ?_⟩
    intro cap hcap
    simp only [required, List.mem_cons] at hcap
    rcases hcap with hcap | hcap
    · subst hcap; exact assert_ok ha
    · exact urlCap_mem (fun hh => (hu hh).1) cap hcap
  | commit c tm p pid =>
    obtain ⟨hg, hcand, hconf, _⟩ := commit_ok has c tm p pid t h
    refine ⟨hg, ?_⟩
    intro cap hcap
    simp only [required, List.mem_cons] at hcap
    rcases hcap with hcap | hcap
    · subst hcap; exact hcand
    · split at hcap
      · rename_i hc; simp at hcap; subst hcap; exact hconf hc
      · cases hcap
  | cancel pid =>
    unfold build cancelCommit at h
    obtain ⟨_, ha, h⟩ := bind_ok h
    obtain ⟨_, hb, h⟩ := bind_ok h
    obtain ⟨pl, hpl, h⟩ := bind_ok h
    injection h with h; subst h
    refine ⟨el_good "cancel-commit" pl (by decide) (optLeaf_ok "persist-id" pid pl (by decide) hpl), ?_⟩
    intro cap hcap
    simp only [required, List.mem_cons] at hcap
    rcases hcap with hcap | hcap | hcap
    · subst hcap; exact assert_ok ha
    · subst hcap; exact assert_ok hb
    · cases hcap
  | discard =>
    unfold build discardChanges at h
    obtain ⟨_, ha, h⟩ := bind_ok h
    injection h with h; subst h
    refine ⟨el_good "discard-changes" [] (by decide) (by intro c hc; cases hc), ?_⟩
    intro cap hcap
    simp only [required, List.mem_singleton] at hcap
    subst hcap; exact assert_ok ha
  | kill sid =>
    unfold build killSession at h
    obtain ⟨x, hx, h⟩ := bind_ok h
    injection h with h; subst h
    exact ⟨el_good "kill-session" [x] (by decide) (by intro c hc; simp at hc; rw [hc]; exact leaf_good "session-id" sid x (by decide) hx),
      by intro cap hc; cases hc⟩
  | close =>
    unfold build closeSession at h
    injection h with h; subst h
    exact ⟨el_good "close-session" [] (by decide) (by intro c hc; cases hc), by intro cap hc; cases hc⟩

end NcVerif.BuildersP
