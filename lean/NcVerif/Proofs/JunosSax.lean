/- Helper lemmas about Model/JunosSax (handler invariants along the events of a reply tree). -/
import NcVerif.Model.JunosSax
namespace NcVerif.JunosSaxP
open NcVerif NcVerif.JunosSax

/-! ### characters -/

theorem escape_append (a b : Str) : escape (a ++ b) = escape a ++ escape b := by
  simp [escape]

theorem escape_nil : escape [] = [] := rfl

theorem characters_nil (h : H) : characters h [] = h := by
  unfold characters
  split <;> simp [escape_nil]

theorem characters_append (h : H) (a b : Str) :
    characters (characters h a) b = characters h (a ++ b) := by
  cases hc : h.currenttag.isSome <;> simp [characters, hc, escape_append]

theorem foldl_characters (pieces : List Str) (h : H) :
    pieces.foldl characters h = characters h pieces.flatten := by
  induction pieces generalizing h with
  | nil => simp [characters_nil]
  | cons p ps ih => simp [ih, characters_append]

/-! ### feed -/

theorem feed_append (lk : Lookup) (e1 e2 : List Ev) (h : H) :
    feed lk h (e1 ++ e2) = match feed lk h e1 with | .ok h' => feed lk h' e2 | r => r := by
  induction e1 generalizing h with
  | nil => simp [feed]
  | cons e es ih =>
    cases e with
    | start t a =>
      simp only [List.cons_append, feed]
      cases hs : startElement lk h t a with
      | ok h' => simp only [ih]
      | noFilter => rfl
      | unknownId => rfl
    | stop t => simp only [List.cons_append, feed, ih]
    | chars s => simp only [List.cons_append, feed, ih]

theorem feed_append_ok (lk : Lookup) (e1 e2 : List Ev) (h h' : H) (h1 : feed lk h e1 = .ok h') :
    feed lk h (e1 ++ e2) = feed lk h' e2 := by
  rw [feed_append, h1]

theorem feed_start_ok (lk : Lookup) (h h' : H) (t : Str) (a : List (Str × Str)) (k : List Ev)
    (h1 : startElement lk h t a = .ok h') : feed lk h (.start t a :: k) = feed lk h' k := by
  simp only [feed, h1]

theorem feed_stop (lk : Lookup) (h : H) (t : Str) (k : List Ev) :
    feed lk h (.stop t :: k) = feed lk (endElement h t) k := by
  simp only [feed]

theorem feed_chars (lk : Lookup) (pieces : List Str) (h : H) (k : List Ev) :
    feed lk h (pieces.map .chars ++ k) = feed lk (characters h pieces.flatten) k := by
  rw [← foldl_characters]
  induction pieces generalizing h with
  | nil => rfl
  | cons p ps ih => simp only [List.map_cons, List.cons_append, feed, ih, List.foldl_cons]

/-- Only the concatenation of consecutive `characters` events matters, anywhere in a stream. -/
theorem feed_pieces_irrel (lk : Lookup) (h : H) (pre post : List Ev) (p q : List Str)
    (hp : p.flatten = q.flatten) :
    feed lk h (pre ++ (p.map .chars ++ post)) = feed lk h (pre ++ (q.map .chars ++ post)) := by
  rw [feed_append, feed_append]
  cases feed lk h pre with
  | ok h' => simp only [feed_chars, hp]
  | noFilter => rfl
  | unknownId => rfl

/-- With a filter known for the message-id, `startElement` never bails out. -/
theorem startElement_filter_ok (f : FT) (h : H) (t : Str) (a : List (Str × Str)) :
    ∃ h', startElement (.filter f) h t a = .ok h' := by
  by_cases ht : t ∈ rpcReplyTags
  · simp only [startElement, ht, ↓reduceIte]
    repeat' split
    all_goals exact ⟨_, rfl⟩
  · simp only [startElement, ht, ↓reduceIte]
    repeat' split
    all_goals exact ⟨_, rfl⟩

theorem feed_filter_ok (f : FT) (evs : List Ev) (h : H) : ∃ h', feed (.filter f) h evs = .ok h' := by
  induction evs generalizing h with
  | nil => exact ⟨h, rfl⟩
  | cons e es ih =>
    cases e with
    | start t a =>
      obtain ⟨h1, e1⟩ := startElement_filter_ok f h t a
      rw [feed_start_ok _ _ _ _ _ _ e1]; exact ih h1
    | stop t => rw [feed_stop]; exact ih _
    | chars s => simp only [feed]; exact ih _

/-! ### FT.find -/

theorem find_tag {g n : FT} {tag : Str} (h : g.find tag = some n) : n.tag = tag := by
  unfold FT.find at h
  have := List.find?_some h
  simpa using this

/-! ### single handler steps, on explicit states -/

/-- `<rpc-reply …>` from the initial state when the filter root has no `rpc-reply` child. -/
theorem start_rpcreply (f : FT) (tag : Str) (attrs : List (Str × Str)) (hm : tag ∈ rpcReplyTags)
    (hne : f.tag ≠ tag) (hnf : f.find tag = none) :
    startElement (.filter f) {} tag attrs =
      .ok ⟨some f, [f], false, none, [tag], none, true, openTag tag attrs, false⟩ := by
  simp [startElement, hm, hne, hnf, curIsRoot]

/-- The top element (tag = the filter root's tag) right after `<rpc-reply>`. -/
theorem start_top (lk : Lookup) (f : FT) (dts : List Str) (ct : Option Str) (out : Str)
    (fl : Bool) (attrs : List (Str × Str)) (hn : f.tag ∉ rpcReplyTags) :
    startElement lk ⟨some f, [f], false, none, dts, ct, true, out, fl⟩ f.tag attrs =
      .ok ⟨some f, [f], false, none, dts ++ [f.tag], some f.tag, false,
           out ++ openTag f.tag attrs, fl⟩ := by
  simp [startElement, hn, curIsRoot]

/-- A start tag while ignoring. -/
theorem start_ignoring (lk : Lookup) (h : H) (tag : Str) (attrs : List (Str × Str))
    (ht : tag ∉ rpcReplyTags) (hi : h.ignoretag.isSome = true) :
    startElement lk h tag attrs = .ok h := by
  simp [startElement, ht, hi]

/-- A start tag of an element on a filter path. -/
theorem start_kept (lk : Lookup) (r g n : FT) (rest : List FT) (w : Bool) (dts : List Str)
    (ct : Option Str) (out : Str) (fl : Bool) (tag : Str) (attrs : List (Str × Str))
    (ht : tag ∉ rpcReplyTags) (hg : g.tag ≠ tag) (hf : g.find tag = some n) :
    startElement lk ⟨some r, g :: rest, w, none, dts, ct, false, out, fl⟩ tag attrs =
      .ok ⟨some r, n :: g :: rest, w, none, dts, some tag, false, out ++ openTag tag attrs, fl⟩ := by
  simp [startElement, ht, hg, hf]

/-- A start tag of an element off the filter paths: ignore mode begins. -/
theorem start_dropped (lk : Lookup) (r g : FT) (rest : List FT) (w : Bool) (dts : List Str)
    (ct : Option Str) (out : Str) (fl : Bool) (tag : Str) (attrs : List (Str × Str))
    (ht : tag ∉ rpcReplyTags) (hg : g.tag ≠ tag) (hf : g.find tag = none) :
    startElement lk ⟨some r, g :: rest, w, none, dts, ct, false, out, fl⟩ tag attrs =
      .ok ⟨some r, g :: rest, w, some tag, dts, none, false, out, fl⟩ := by
  simp [startElement, ht, hg, hf]

/-- End tag of a kept element: written, filter node popped. -/
theorem end_kept (r : Option FT) (n : FT) (rest : List FT) (w : Bool) (dts : List Str)
    (ct : Option Str) (v : Bool) (out : Str) (fl : Bool) (tag : Str)
    (hd : tag ∉ dts) (hn : n.tag = tag) :
    endElement ⟨r, n :: rest, w, none, dts, ct, v, out, fl⟩ tag =
      ⟨r, rest, w, none, dts, none, v, out ++ closeTag tag, fl⟩ := by
  simp [endElement, hd, hn]

/-- End tag of a default tag (`rpc-reply`, the top element): written, nothing popped. -/
theorem end_default (r : Option FT) (st : List FT) (w : Bool) (dts : List Str)
    (ct : Option Str) (v : Bool) (out : Str) (fl : Bool) (tag : Str) (hd : tag ∈ dts) :
    endElement ⟨r, st, w, none, dts, ct, v, out, fl⟩ tag =
      ⟨r, st, w, none, dts, none, v, out ++ closeTag tag, fl⟩ := by
  simp [endElement, hd]

/-- End tag of the dropped element itself: ignore mode ends, nothing written. -/
theorem end_dropped (r : Option FT) (g : FT) (rest : List FT) (w : Bool) (dts : List Str)
    (ct : Option Str) (v : Bool) (out : Str) (fl : Bool) (tag : Str)
    (hd : tag ∉ dts) (hg : g.tag ≠ tag) :
    endElement ⟨r, g :: rest, w, some tag, dts, ct, v, out, fl⟩ tag =
      ⟨r, g :: rest, w, none, dts, none, v, out, fl⟩ := by
  simp [endElement, hd, hg]

/-- End tag of an element inside a dropped one: nothing happens. -/
theorem end_inner (r : Option FT) (g : FT) (rest : List FT) (w : Bool) (dts : List Str)
    (ct : Option Str) (v : Bool) (out : Str) (fl : Bool) (ig tag : Str)
    (hi : ig ≠ tag) (hd : tag ∉ dts) (hg : g.tag ≠ tag) :
    endElement ⟨r, g :: rest, w, some ig, dts, ct, v, out, fl⟩ tag =
      ⟨r, g :: rest, w, some ig, dts, none, v, out, fl⟩ := by
  simp [endElement, hi, hd, hg]

/-- Character data while no kept leaf is open is dropped. -/
theorem characters_none (r : Option FT) (st : List FT) (w : Bool) (ig : Option Str) (dts : List Str)
    (v : Bool) (out : Str) (fl : Bool) (s : Str) :
    characters ⟨r, st, w, ig, dts, none, v, out, fl⟩ s = ⟨r, st, w, ig, dts, none, v, out, fl⟩ := by
  simp [characters]

theorem characters_some (r : Option FT) (st : List FT) (w : Bool) (ig : Option Str) (dts : List Str)
    (t : Str) (v : Bool) (out : Str) (fl : Bool) (s : Str) :
    characters ⟨r, st, w, ig, dts, some t, v, out, fl⟩ s =
      ⟨r, st, w, ig, dts, some t, v, out ++ escape s, fl⟩ := by
  simp [characters]

end NcVerif.JunosSaxP
