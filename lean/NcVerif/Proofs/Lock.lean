/- Helper lemmas about Model/Lock. -/
import NcVerif.Model.Lock
namespace NcVerif.LockP
open NcVerif NcVerif.Lock

theorem run_skip (srv : Server) (m : Mode) (tr : List Ev) : run srv m .skip tr = (tr, none) := by
  simp only [run]

theorem run_raise (srv : Server) (m : Mode) (e : Nat) (tr : List Ev) :
    run srv m (.raise e) tr = (tr, some (.body e)) := by
  simp only [run]

theorem run_req_fst (srv : Server) (m : Mode) (n : Nat) (tr : List Ev) :
    (run srv m (.req n) tr).1 = tr ++ [.req n] := by
  simp only [run]

theorem run_seq_some (srv : Server) (m : Mode) (a b : Prog) (tr tr' : List Ev) (x : Exc)
    (h : run srv m a tr = (tr', some x)) : run srv m (.seq a b) tr = (tr', some x) := by
  simp only [run, h]

theorem run_seq_none (srv : Server) (m : Mode) (a b : Prog) (tr tr' : List Ev)
    (h : run srv m a tr = (tr', none)) : run srv m (.seq a b) tr = run srv m b tr' := by
  simp only [run, h]

/-- Lock refused: nothing else happens. -/
theorem run_locked_refused (srv : Server) (m : Mode) (t : Nat) (body : Prog) (tr : List Ev)
    (h : refused (srv (tr ++ [.lock t])) = true) :
    run srv m (.locked t body) tr = (tr ++ [.lock t], some (.rpc (.lock t))) := by
  simp only [run, h, if_true]

/-- Lock granted: trace is the body's trace plus the unlock. -/
theorem run_locked_granted_fst (srv : Server) (m : Mode) (t : Nat) (body : Prog) (tr : List Ev)
    (h : refused (srv (tr ++ [.lock t])) = false) :
    (run srv m (.locked t body) tr).1 = (run srv m body (tr ++ [.lock t])).1 ++ [.unlock t] := by
  simp only [run, h, Bool.false_eq_true, if_false]
  split <;> rfl

theorem run_locked_granted_snd (srv : Server) (m : Mode) (t : Nat) (body : Prog) (tr : List Ev)
    (h : refused (srv (tr ++ [.lock t])) = false)
    (hu : refused (srv ((run srv m body (tr ++ [.lock t])).1 ++ [.unlock t])) = false) :
    (run srv m (.locked t body) tr).2 = (run srv m body (tr ++ [.lock t])).2 := by
  simp only [run, h, Bool.false_eq_true, if_false, hu]

/-- A run only ever appends to the trace. -/
theorem run_extends (srv : Server) (m : Mode) (p : Prog) : ∀ tr : List Ev, ∃ d, (run srv m p tr).1 = tr ++ d := by
  induction p with
  | skip => intro tr; exact ⟨[], by simp only [run, List.append_nil]⟩
  | req n => intro tr; exact ⟨[.req n], by simp only [run]⟩
  | raise e => intro tr; exact ⟨[], by simp only [run, List.append_nil]⟩
  | seq a b iha ihb =>
    intro tr
    obtain ⟨d₁, h₁⟩ := iha tr
    cases hr : run srv m a tr with
    | mk tr' x =>
      rw [hr] at h₁
      simp only at h₁
      cases x with
      | some x => exact ⟨d₁, by rw [run_seq_some srv m a b tr tr' x hr]; exact h₁⟩
      | none =>
        obtain ⟨d₂, h₂⟩ := ihb tr'
        refine ⟨d₁ ++ d₂, ?_⟩
        rw [run_seq_none srv m a b tr tr' hr, h₂, h₁, List.append_assoc]
  | locked t body ih =>
    intro tr
    cases h : refused (srv (tr ++ [.lock t])) with
    | true => exact ⟨[.lock t], by rw [run_locked_refused srv m t body tr h]⟩
    | false =>
      obtain ⟨d, hd⟩ := ih (tr ++ [.lock t])
      refine ⟨.lock t :: d ++ [.unlock t], ?_⟩
      rw [run_locked_granted_fst srv m t body tr h, hd]
      simp only [List.append_assoc, List.cons_append, List.nil_append]

end NcVerif.LockP
