/-
  Helper lemmas about the 1.0 half of Model/Framing (scan look-back, `parse10` invariant).
-/
import NcVerif.Model.Framing
import NcVerif.Spec.Framing
namespace NcVerif.Framing10
open NcVerif NcVerif.Framing NcVerif.FramingSpec

/-! ### `hasSub` / `findSub` -/

section Sub
variable {α : Type} [BEq α] [LawfulBEq α]

omit [LawfulBEq α] in
theorem isPrefixOf_append_of_le (d a r : List α) (h : d.length ≤ a.length) :
    d.isPrefixOf (a ++ r) = d.isPrefixOf a := by
  induction d generalizing a with
  | nil => simp
  | cons x d ih =>
    cases a with
    | nil => simp at h
    | cons y a =>
      simp only [List.cons_append, List.isPrefixOf]
      rw [ih a (by simpa using h)]

theorem hasSub_eq_isSome (d s : List α) : hasSub d s = (findSub d s).isSome := by
  induction s with
  | nil => simp only [hasSub, findSub]; split <;> simp_all
  | cons x xs ih =>
    simp only [hasSub, findSub]
    split
    · simp_all
    · simp_all

theorem findSub_none_of_hasSub_false {d s : List α} (h : hasSub d s = false) : findSub d s = none := by
  rw [hasSub_eq_isSome] at h; simpa using h

theorem hasSub_false_of_findSub_none {d s : List α} (h : findSub d s = none) : hasSub d s = false := by
  rw [hasSub_eq_isSome, h]; rfl

/-- `Frameable`-style first occurrence is stable under appending anything after the delimiter. -/
theorem findSub_append_rest (d p rest : List α) (h : findSub d (p ++ d) = some p.length) :
    findSub d (p ++ d ++ rest) = some p.length := by
  induction p with
  | nil =>
    cases d with
    | nil => cases rest <;> simp [findSub]
    | cons y d => simp [findSub]
  | cons x p ih =>
    simp only [List.cons_append, findSub] at h ⊢
    split at h
    · simp at h
    · rename_i hn
      have hlen : d.length ≤ (x :: (p ++ d)).length := by simp; omega
      have := isPrefixOf_append_of_le d (x :: (p ++ d)) rest hlen
      simp only [List.cons_append] at this
      rw [List.append_assoc] at this
      simp only [List.append_assoc]
      rw [this]
      simp only [hn]
      simp only [Option.map_eq_some_iff] at h
      obtain ⟨a, ha, hal⟩ := h
      have : a = p.length := by simpa using hal
      subst this
      have := ih ha
      simp only [List.append_assoc] at this
      simp [this]

/-- A found index splits the list at the first occurrence. -/
theorem findSub_some_split (d s : List α) (i : Nat) (h : findSub d s = some i) :
    ∃ p rest, s = p ++ d ++ rest ∧ p.length = i ∧ findSub d (p ++ d) = some p.length := by
  induction s generalizing i with
  | nil =>
    simp only [findSub] at h
    split at h
    · rename_i hd
      have : d = [] := by simpa using hd
      subst this
      exact ⟨[], [], by simp, by simpa using h, by simp [findSub]⟩
    · simp at h
  | cons x xs ih =>
    simp only [findSub] at h
    split at h
    · rename_i hp
      have hi : i = 0 := by simpa using h.symm
      subst hi
      obtain ⟨r, hr⟩ := List.isPrefixOf_iff_prefix.mp hp
      refine ⟨[], r, by simpa using hr.symm, rfl, ?_⟩
      cases d with
      | nil => simp [findSub]
      | cons y d => simp [findSub]
    · rename_i hn
      simp only [Option.map_eq_some_iff] at h
      obtain ⟨j, hj, rfl⟩ := h
      obtain ⟨p, rest, hs, hl, hf⟩ := ih j hj
      refine ⟨x :: p, rest, by simp [hs], by simp [hl], ?_⟩
      simp only [List.cons_append, findSub]
      have hlen : d.length ≤ (x :: (p ++ d)).length := by simp; omega
      have := isPrefixOf_append_of_le d (x :: (p ++ d)) rest hlen
      rw [hs] at hn
      simp only [List.cons_append, List.append_assoc] at this hn
      rw [this] at hn
      simp [hn, hf]

theorem hasSub_append_mid (d a b : List α) : hasSub d (a ++ d ++ b) = true := by
  induction a with
  | nil =>
    cases d with
    | nil => cases b <;> simp [hasSub]
    | cons y d => simp [hasSub]
  | cons x a ih => simp only [List.cons_append, hasSub, ih, Bool.or_true]

theorem hasSub_false_append {d a b : List α} (h : hasSub d (a ++ b) = false) :
    hasSub d a = false ∧ hasSub d b = false := by
  constructor
  · cases ha : hasSub d a with
    | false => rfl
    | true =>
      rw [hasSub_eq_isSome] at ha
      obtain ⟨i, hi⟩ := Option.isSome_iff_exists.mp ha
      obtain ⟨p, r, hs, _, _⟩ := findSub_some_split d a i hi
      have := hasSub_append_mid d p (r ++ b)
      rw [hs] at h
      simp only [List.append_assoc] at h this
      rw [h] at this; cases this
  · cases hb : hasSub d b with
    | false => rfl
    | true =>
      rw [hasSub_eq_isSome] at hb
      obtain ⟨i, hi⟩ := Option.isSome_iff_exists.mp hb
      obtain ⟨p, r, hs, _, _⟩ := findSub_some_split d b i hi
      have := hasSub_append_mid d (a ++ p) r
      rw [hs] at h
      simp only [List.append_assoc] at h this
      rw [h] at this; cases this

theorem hasSub_drop_le (d s : List α) (k : Nat) (h : hasSub d (s.drop k) = true) : hasSub d s = true := by
  cases hs : hasSub d s with
  | true => rfl
  | false =>
    have : s = s.take k ++ s.drop k := (List.take_append_drop k s).symm
    rw [this] at hs
    have := (hasSub_false_append hs).2
    rw [this] at h; cases h

/-- Look-back soundness: a new occurrence after appending must end beyond the old buffer. -/
theorem hasSub_lookback (d b x : List α) (hb : hasSub d b = false) :
    hasSub d ((b ++ x).drop (b.length - d.length)) = hasSub d (b ++ x) := by
  cases hbx : hasSub d (b ++ x) with
  | false =>
    cases h : hasSub d ((b ++ x).drop (b.length - d.length)) with
    | false => rfl
    | true => rw [hasSub_drop_le _ _ _ h] at hbx; cases hbx
  | true =>
    induction b with
    | nil => simpa using hbx
    | cons y b ih =>
      simp only [hasSub, Bool.or_eq_false_iff] at hb
      by_cases hle : b.length + 1 ≤ d.length
      · have : (y :: b).length - d.length = 0 := by simp; omega
        rw [this]; simpa using hbx
      · have hlen : d.length ≤ (y :: b).length := by simp; omega
        have hp := isPrefixOf_append_of_le d (y :: b) x hlen
        simp only [List.cons_append, hasSub, Bool.or_eq_true] at hbx
        simp only [List.cons_append] at hp
        rw [hp, hb.1] at hbx
        have hbx' : hasSub d (b ++ x) = true := by simpa using hbx
        have := ih hb.2 hbx'
        have e : (y :: b).length - d.length = (b.length - d.length) + 1 := by simp; omega
        rw [e]
        simpa using this

end Sub

/-! ### ASCII blanks -/

def AllBlank (ws : Bytes) : Prop := ∀ b ∈ ws, isBlankByte b = true

theorem allBlank_nil : AllBlank [] := by intro b hb; cases hb

theorem isBlankByte_cases {w : UInt8} (h : isBlankByte w = true) :
    w = 0x20 ∨ w = 0x09 ∨ w = 0x0a ∨ w = 0x0d ∨ w = 0x0b ∨ w = 0x0c := by
  simpa [isBlankByte, or_assoc] using h

theorem delim_not_prefix_blank {w : UInt8} (h : isBlankByte w = true) (s : Bytes) :
    delim10.isPrefixOf (w :: s) = false := by
  rcases isBlankByte_cases h with rfl | rfl | rfl | rfl | rfl | rfl <;>
    simp [delim10, List.isPrefixOf]

theorem findSub_blank_append (ws b : Bytes) (hws : AllBlank ws) :
    findSub delim10 (ws ++ b) = (findSub delim10 b).map (· + ws.length) := by
  induction ws with
  | nil => simp
  | cons w ws ih =>
    have hw : isBlankByte w = true := hws w (by simp)
    have hws' : AllBlank ws := fun b hb => hws b (by simp [hb])
    simp only [List.cons_append, findSub, delim_not_prefix_blank hw, ih hws']
    cases findSub delim10 b <;> simp; omega

theorem findSub_blank (ws : Bytes) (hws : AllBlank ws) : findSub delim10 ws = none := by
  have := findSub_blank_append ws [] hws
  simpa [findSub, delim10] using this

theorem dropWhile_eq_nil {α} (p : α → Bool) (l : List α) (h : l.dropWhile p = []) :
    ∀ x ∈ l, p x = true := by
  induction l with
  | nil => simp
  | cons a l ih =>
    simp only [List.dropWhile] at h
    split at h
    · rename_i hp
      intro x hx
      rcases List.mem_cons.mp hx with rfl | hx
      · exact hp
      · exact ih h x hx
    · cases h

theorem allBlank_of_strip {r : Bytes} (h : ¬ (stripBy isBlankByte r).length > 0) : AllBlank r := by
  have h0 : stripBy isBlankByte r = [] := by
    cases hs : stripBy isBlankByte r with
    | nil => rfl
    | cons a l => rw [hs] at h; simp at h
  simp only [stripBy, rstripBy, lstripBy, List.reverse_eq_nil_iff] at h0
  have h0' := dropWhile_eq_nil _ _ h0
  have h1 : List.dropWhile isBlankByte r = [] := by
    cases hd : List.dropWhile isBlankByte r with
    | nil => rfl
    | cons a l =>
      have hna := List.head_dropWhile_not isBlankByte (l := r) (by rw [hd]; simp)
      simp only [hd, List.head_cons] at hna
      have := h0' a (by simp [hd])
      rw [this] at hna; cases hna
  exact dropWhile_eq_nil _ _ h1

/-! ### `Split10` -/

theorem frameable_findSub {p : Bytes} (h : Frameable10 p) (rest : Bytes) :
    findSub delim10 (p ++ delim10 ++ rest) = some p.length :=
  findSub_append_rest delim10 p rest h

theorem split10_of_none {s : Bytes} {ps : List Bytes} {t : Bytes}
    (hn : findSub delim10 s = none) (h : Split10 s ps t) : ps = [] ∧ t = s := by
  cases h with
  | tail _ _ => exact ⟨rfl, rfl⟩
  | cons p rest ps t hf hr => rw [frameable_findSub hf] at hn; cases hn

theorem split10_of_some {s : Bytes} {ps : List Bytes} {t : Bytes} {i : Nat}
    (hs : findSub delim10 s = some i) (h : Split10 s ps t) :
    ∃ ps', ps = s.take i :: ps' ∧ Split10 (s.drop (i + 6)) ps' t := by
  cases h with
  | tail _ ht => rw [findSub_none_of_hasSub_false ht] at hs; cases hs
  | cons p rest ps t hf hr =>
    rw [frameable_findSub hf] at hs
    have : i = p.length := by simpa using hs.symm
    subst this
    refine ⟨ps, ?_, ?_⟩
    · simp [List.append_assoc]
    · have : (p ++ delim10 ++ rest).drop (p.length + 6) = rest := by
        have : p.length + 6 = (p ++ delim10).length := by simp [delim10]
        rw [this, List.drop_left]
      rw [this]; exact hr

theorem split10_total (stream : Bytes) : ∃ ps t, Split10 stream ps t := by
  generalize hn : stream.length = n
  induction n using Nat.strongRecOn generalizing stream with
  | _ n ih =>
    cases hf : findSub delim10 stream with
    | none => exact ⟨[], stream, Split10.tail _ (hasSub_false_of_findSub_none hf)⟩
    | some i =>
      obtain ⟨p, rest, hs, _, hfr⟩ := findSub_some_split delim10 stream i hf
      obtain ⟨ps, t, h⟩ := ih rest.length (by rw [← hn, hs]; simp [delim10]; omega) rest rfl
      exact ⟨p :: ps, t, hs ▸ Split10.cons p rest ps t hfr h⟩

theorem split10_functional (stream : Bytes) (ps ps' : List Bytes) (t t' : Bytes)
    (h : Split10 stream ps t) (h' : Split10 stream ps' t') : ps = ps' ∧ t = t' := by
  induction h generalizing ps' t' with
  | tail t ht =>
    obtain ⟨rfl, rfl⟩ := split10_of_none (findSub_none_of_hasSub_false ht) h'
    exact ⟨rfl, rfl⟩
  | cons p rest ps t hf hr ih =>
    obtain ⟨ps'', rfl, h''⟩ := split10_of_some (frameable_findSub hf rest) h'
    have e : (p ++ delim10 ++ rest).drop (p.length + 6) = rest := by
      have : p.length + 6 = (p ++ delim10).length := by simp [delim10]
      rw [this, List.drop_left]
    rw [e] at h''
    obtain ⟨rfl, rfl⟩ := ih _ _ h''
    simp [List.append_assoc]

/-- Splits compose: the tail of the first part continues with what follows. -/
theorem split10_append {a c : Bytes} {ps1 ps2 : List Bytes} {t1 t2 : Bytes}
    (h1 : Split10 a ps1 t1) (h2 : Split10 (t1 ++ c) ps2 t2) : Split10 (a ++ c) (ps1 ++ ps2) t2 := by
  induction h1 with
  | tail t ht => simpa using h2
  | cons p rest ps t hf hr ih =>
    have := Split10.cons p (rest ++ c) (ps ++ ps2) t2 hf (ih h2)
    simpa [List.append_assoc] using this

theorem split10_append_inv {a c : Bytes} {ps1 ps : List Bytes} {t1 t : Bytes}
    (h1 : Split10 a ps1 t1) (h : Split10 (a ++ c) ps t) :
    ∃ ps2, ps = ps1 ++ ps2 ∧ Split10 (t1 ++ c) ps2 t := by
  obtain ⟨ps2, t2, h2⟩ := split10_total (t1 ++ c)
  obtain ⟨rfl, rfl⟩ := split10_functional _ _ _ _ _ h (split10_append h1 h2)
  exact ⟨ps2, rfl, h2⟩

theorem split10_enc {s : Bytes} {ps : List Bytes} {t : Bytes} (h : Split10 s ps t) :
    s = enc10 ps ++ t ∧ ∀ p ∈ ps, Frameable10 p := by
  induction h with
  | tail t ht => simp [enc10]
  | cons p rest ps t hf hr ih =>
    refine ⟨?_, ?_⟩
    · rw [ih.1]; simp [enc10]
    · intro q hq
      rcases List.mem_cons.mp hq with rfl | hq
      · exact hf
      · exact ih.2 q hq

theorem split10_of_enc (ms : List Bytes) (trail : Bytes)
    (hf : ∀ m ∈ ms, Frameable10 m) (ht : hasSub delim10 trail = false) :
    Split10 (enc10 ms ++ trail) ms trail := by
  induction ms with
  | nil => simpa [enc10] using Split10.tail trail ht
  | cons m ms ih =>
    have := Split10.cons m (enc10 ms ++ trail) ms trail (hf m (by simp))
      (ih (fun m' hm' => hf m' (by simp [hm'])))
    simpa [enc10, List.append_assoc] using this

/-! ### Leading blanks do not change what is presented -/

theorem blank_lt {w : UInt8} (h : isBlankByte w = true) : w < 0x80 := by
  rcases isBlankByte_cases h with rfl | rfl | rfl | rfl | rfl | rfl <;> decide

theorem blank_isPyWs {w : UInt8} (h : isBlankByte w = true) : isPyWs (Char.ofNat w.toNat) = true := by
  rcases isBlankByte_cases h with rfl | rfl | rfl | rfl | rfl | rfl <;> decide

theorem pyStrip_cons_ws {c : Char} (cs : Str) (h : isPyWs c = true) : pyStrip (c :: cs) = pyStrip cs := by
  simp [pyStrip, stripBy, lstripBy, List.dropWhile, h]

theorem decode_cons_lt {b0 : UInt8} (rest : Bytes) (h : b0 < 0x80) :
    Utf8.decode (b0 :: rest) = (Utf8.decode rest).map (Char.ofNat b0.toNat :: ·) := by
  rw [Utf8.decode.eq_def]; simp [h]

theorem present10_cons_blank {w : UInt8} (p : Bytes) (h : isBlankByte w = true) :
    present10 (w :: p) = present10 p := by
  simp only [present10, decode_cons_lt p (blank_lt h)]
  cases Utf8.decode p with
  | none => rfl
  | some cs => simp [pyStrip_cons_ws cs (blank_isPyWs h)]

theorem present10_blank_append (ws p : Bytes) (hws : AllBlank ws) :
    present10 (ws ++ p) = present10 p := by
  induction ws with
  | nil => rfl
  | cons w ws ih =>
    rw [List.cons_append, present10_cons_blank _ (hws w (by simp))]
    exact ih (fun b hb => hws b (by simp [hb]))

/-! ### `outcomes` -/

theorem outcomes_cons_none {present : Bytes → Option Str} {p : Bytes} (ps : List Bytes)
    (h : present p = none) : outcomes present (p :: ps) = [.raise .decode] := by
  simp [outcomes, h]

theorem outcomes_cons_some {present : Bytes → Option Str} {p : Bytes} {t : Str} (ps : List Bytes)
    (h : present p = some t) : outcomes present (p :: ps) = .deliver t :: outcomes present ps := by
  simp [outcomes, h]

theorem hasRaise_deliver_cons (t : Str) (outs : List Out) :
    hasRaise (Out.deliver t :: outs) = hasRaise outs := by
  simp [hasRaise]

theorem outcomes_append (present : Bytes → Option Str) (ps1 ps2 : List Bytes) :
    outcomes present (ps1 ++ ps2) =
      if hasRaise (outcomes present ps1) then outcomes present ps1
      else outcomes present ps1 ++ outcomes present ps2 := by
  induction ps1 with
  | nil => simp [outcomes, hasRaise]
  | cons p ps ih =>
    rw [List.cons_append]
    cases hp : present p with
    | none => simp [outcomes_cons_none _ hp, hasRaise]
    | some t =>
      rw [outcomes_cons_some _ hp, outcomes_cons_some _ hp, hasRaise_deliver_cons, ih]
      split <;> simp

theorem delivers_outcomes_length (present : Bytes → Option Str) (ps : List Bytes) :
    (delivers (outcomes present ps)).length ≤ ps.length := by
  induction ps with
  | nil => simp [outcomes, delivers]
  | cons p ps ih =>
    cases hp : present p with
    | none => simp [outcomes_cons_none _ hp, delivers]
    | some t =>
      rw [outcomes_cons_some _ hp]
      simp only [delivers, List.filterMap_cons, List.length_cons] at ih ⊢; omega

/-! ### The parser -/

/-- State invariant between feeds, relative to the undelimited tail `t` of the stream so far. -/
structure Good (s : PState) (t : Bytes) : Prop where
  noDelim : hasSub delim10 s.buf = false
  pos : s.pos10 = s.buf.length - 6
  tail : ∃ ws, AllBlank ws ∧ t = ws ++ s.buf

@[simp] theorem delim10_length : delim10.length = 6 := rfl

theorem parse10_no {fuel : Nat} {s : PState} (h : hasSub delim10 (s.buf.drop s.pos10) = false) :
    parse10 (fuel + 1) s = ({ s with pos10 := s.buf.length - 6 }, []) := by
  simp [parse10, h]

theorem parse10_decode_err {fuel : Nat} {s : PState} {i : Nat}
    (h : hasSub delim10 (s.buf.drop s.pos10) = true) (hf : findSub delim10 s.buf = some i)
    (hd : Utf8.decode (s.buf.take i) = none) :
    parse10 (fuel + 1) s = (s, [.raise .decode]) := by
  simp [parse10, partition, h, hf, hd]

theorem parse10_more {fuel : Nat} {s : PState} {i : Nat} {text : Str}
    (h : hasSub delim10 (s.buf.drop s.pos10) = true) (hf : findSub delim10 s.buf = some i)
    (hd : Utf8.decode (s.buf.take i) = some text)
    (hstrip : (stripBy isBlankByte (s.buf.drop (i + 6))).length > 0) :
    parse10 (fuel + 1) s =
      ((parse10 fuel { s with buf := s.buf.drop (i + 6), pos10 := 0 }).1,
       .deliver (pyStrip text) :: (parse10 fuel { s with buf := s.buf.drop (i + 6), pos10 := 0 }).2) := by
  simp [parse10, partition, h, hf, hd, hstrip]

theorem parse10_done {fuel : Nat} {s : PState} {i : Nat} {text : Str}
    (h : hasSub delim10 (s.buf.drop s.pos10) = true) (hf : findSub delim10 s.buf = some i)
    (hd : Utf8.decode (s.buf.take i) = some text)
    (hstrip : ¬ (stripBy isBlankByte (s.buf.drop (i + 6))).length > 0) :
    parse10 (fuel + 1) s = ({ s with buf := [], pos10 := 0 }, [.deliver (pyStrip text)]) := by
  simp [parse10, partition, h, hf, hd, hstrip]

theorem parse10_spec (fuel : Nat) (s : PState) (ws : Bytes) (ps : List Bytes) (t : Bytes)
    (hfuel : s.buf.length < fuel) (hws : AllBlank ws)
    (hpos : hasSub delim10 (s.buf.drop s.pos10) = hasSub delim10 s.buf)
    (h : Split10 (ws ++ s.buf) ps t) :
    (parse10 fuel s).2 = outcomes present10 ps ∧
      (hasRaise (parse10 fuel s).2 = false → Good (parse10 fuel s).1 t) := by
  induction fuel generalizing s ws ps t with
  | zero => omega
  | succ fuel ih =>
    cases hf : findSub delim10 s.buf with
    | none =>
      have hns : hasSub delim10 s.buf = false := hasSub_false_of_findSub_none hf
      have hfw : findSub delim10 (ws ++ s.buf) = none := by rw [findSub_blank_append _ _ hws, hf]; rfl
      obtain ⟨rfl, rfl⟩ := split10_of_none hfw h
      rw [parse10_no (hpos.trans hns)]
      refine ⟨rfl, fun _ => ⟨hns, rfl, ws, hws, rfl⟩⟩
    | some i =>
      have hs : hasSub delim10 s.buf = true := by rw [hasSub_eq_isSome, hf]; rfl
      have hfw : findSub delim10 (ws ++ s.buf) = some (i + ws.length) := by
        rw [findSub_blank_append _ _ hws, hf]; rfl
      obtain ⟨p, rest, hb, hpl, _⟩ := findSub_some_split delim10 s.buf i hf
      obtain ⟨ps', rfl, h'⟩ := split10_of_some hfw h
      have htake : s.buf.take i = p := by rw [hb, ← hpl]; simp [List.append_assoc]
      have hdrop : s.buf.drop (i + 6) = rest := by
        have : i + 6 = (p ++ delim10).length := by simp [hpl]
        rw [hb, this, List.drop_left]
      have e1 : (ws ++ s.buf).take (i + ws.length) = ws ++ p := by
        rw [Nat.add_comm]; simp [List.take_append, htake, List.take_of_length_le]
      have e2 : (ws ++ s.buf).drop (i + ws.length + 6) = rest := by
        have : i + ws.length + 6 = ws.length + (i + 6) := by omega
        rw [this]; simp [List.drop_append, hdrop]
      rw [e2] at h'
      rw [e1]
      have hlen : rest.length < fuel := by
        have : s.buf.length = p.length + 6 + rest.length := by rw [hb]; simp; omega
        omega
      cases hd : Utf8.decode p with
      | none =>
        rw [parse10_decode_err (hpos.trans hs) hf (htake ▸ hd)]
        rw [outcomes_cons_none _ (by rw [present10_blank_append _ _ hws, present10, hd]; rfl)]
        exact ⟨rfl, fun hr => by simp [hasRaise] at hr⟩
      | some text =>
        have hpres : present10 (ws ++ p) = some (pyStrip text) := by
          rw [present10_blank_append _ _ hws, present10, hd]; rfl
        rw [outcomes_cons_some _ hpres]
        by_cases hstrip : (stripBy isBlankByte (s.buf.drop (i + 6))).length > 0
        · rw [parse10_more (hpos.trans hs) hf (htake ▸ hd) hstrip, hdrop]
          have := ih { s with buf := rest, pos10 := 0 } [] ps' t hlen allBlank_nil (by simp)
            (by simpa using h')
          refine ⟨by rw [this.1], ?_⟩
          intro hr
          apply this.2
          simpa [hasRaise] using hr
        · rw [parse10_done (hpos.trans hs) hf (htake ▸ hd) hstrip]
          rw [hdrop] at hstrip
          have hrb : AllBlank rest := allBlank_of_strip hstrip
          obtain ⟨rfl, rfl⟩ := split10_of_none (findSub_blank rest hrb) h'
          refine ⟨by simp [outcomes], ?_⟩
          intro _
          exact ⟨by simp [hasSub, delim10], by simp, t, hrb, by simp⟩

/-! ### `feedAll` -/

theorem feedAll_cons_raise {b : Bool} {s : PState} {seg : Bytes} (segs : List Bytes)
    (h : hasRaise (feed b s seg).2 = true) : feedAll b s (seg :: segs) = feed b s seg := by
  simp [feedAll, h]

theorem feedAll_cons_ok {b : Bool} {s : PState} {seg : Bytes} (segs : List Bytes)
    (h : hasRaise (feed b s seg).2 = false) :
    (feedAll b s (seg :: segs)).2 = (feed b s seg).2 ++ (feedAll b (feed b s seg).1 segs).2 := by
  simp [feedAll, h]

theorem good_noDelim_tail {s : PState} {t : Bytes} (g : Good s t) : findSub delim10 t = none := by
  obtain ⟨ws, hws, rfl⟩ := g.tail
  rw [findSub_blank_append _ _ hws, findSub_none_of_hasSub_false g.noDelim]; rfl

theorem good_init : Good init [] :=
  ⟨by simp [init, hasSub, delim10], rfl, [], allBlank_nil, rfl⟩

/-- One feed, against the split of the stream fed so far. -/
theorem feed_spec (s : PState) (t0 seg : Bytes) (ps : List Bytes) (t : Bytes)
    (g : Good s t0) (h : Split10 (t0 ++ seg) ps t) :
    (feed false s seg).2 = outcomes present10 ps ∧
      (hasRaise (feed false s seg).2 = false → Good (feed false s seg).1 t) := by
  by_cases he : seg = []
  · subst he
    rw [List.append_nil] at h
    obtain ⟨rfl, rfl⟩ := split10_of_none (good_noDelim_tail g) h
    simp only [feed, List.isEmpty_nil, if_true]
    exact ⟨rfl, fun _ => g⟩
  · have hfe : feed false s seg =
        parse10 ((s.buf ++ seg).length + 1) { s with buf := s.buf ++ seg } := by
      simp [feed, he]
    rw [hfe]
    obtain ⟨ws, hws, rfl⟩ := g.tail
    apply parse10_spec _ _ ws ps t (Nat.lt_succ_self _) hws
    · show hasSub delim10 ((s.buf ++ seg).drop s.pos10) = hasSub delim10 (s.buf ++ seg)
      rw [g.pos]
      exact hasSub_lookback delim10 s.buf seg g.noDelim
    · simpa [List.append_assoc] using h

theorem feedAll_spec (segs : List Bytes) (s : PState) (t0 : Bytes) (ps : List Bytes) (t : Bytes)
    (g : Good s t0) (h : Split10 (t0 ++ segs.flatten) ps t) :
    (feedAll false s segs).2 = outcomes present10 ps := by
  induction segs generalizing s t0 ps with
  | nil =>
    simp only [List.flatten_nil, List.append_nil] at h
    obtain ⟨rfl, rfl⟩ := split10_of_none (good_noDelim_tail g) h
    rfl
  | cons seg segs ih =>
    obtain ⟨ps1, t1, h1⟩ := split10_total (t0 ++ seg)
    have h' : Split10 ((t0 ++ seg) ++ segs.flatten) ps t := by
      simpa [List.append_assoc] using h
    obtain ⟨ps2, rfl, h2⟩ := split10_append_inv h1 h'
    obtain ⟨ho, hg⟩ := feed_spec s t0 seg ps1 t1 g h1
    rw [outcomes_append]
    cases hr : hasRaise (feed false s seg).2 with
    | true =>
      rw [feedAll_cons_raise _ hr, ← ho, hr]; rfl
    | false =>
      rw [feedAll_cons_ok _ hr, ih _ _ _ (hg hr) h2, ← ho, hr]; rfl

/-! ### The property theorems (statements as in `Props/C01.lean`, `Props/C14.lean`) -/

theorem spec10 (segs : List Bytes) (ps : List Bytes) (t : Bytes)
    (h : Split10 segs.flatten ps t) :
    obs (feedAll false init segs) = outcomes present10 ps :=
  feedAll_spec segs init [] ps t good_init (by simpa using h)

theorem seg_indep10 (segs₁ segs₂ : List Bytes) (h : segs₁.flatten = segs₂.flatten) :
    obs (feedAll false init segs₁) = obs (feedAll false init segs₂) := by
  obtain ⟨ps, t, hs⟩ := split10_total segs₁.flatten
  rw [spec10 segs₁ ps t hs, spec10 segs₂ ps t (h ▸ hs)]

theorem decode_encode10 (ms : List Bytes) (segs : List Bytes) (trail : Bytes)
    (hf : ∀ m ∈ ms, Frameable10 m) (ht : hasSub delim10 trail = false)
    (h : segs.flatten = enc10 ms ++ trail) :
    obs (feedAll false init segs) = outcomes present10 ms :=
  spec10 segs ms trail (h ▸ split10_of_enc ms trail hf ht)

theorem no_early10 (ms : List Bytes) (q : Bytes) (segs : List Bytes)
    (hf : ∀ m ∈ ms, Frameable10 m) (hq : hasSub delim10 q = false)
    (h : segs.flatten = enc10 ms ++ q) :
    (delivers (obs (feedAll false init segs))).length ≤ ms.length := by
  rw [decode_encode10 ms segs q hf hq h]
  exact delivers_outcomes_length _ _

theorem enc10_append (a b : List Bytes) : enc10 (a ++ b) = enc10 a ++ enc10 b := by
  simp [enc10]

/-- The payloads up to the first undecodable one. -/
theorem outcomes_shape (present : Bytes → Option Str) (ps : List Bytes) :
    ∃ (qs : List Bytes) (texts : List Str), qs <+: ps ∧ qs.map present = texts.map some ∧
      (outcomes present ps = texts.map .deliver ∨
        outcomes present ps = texts.map .deliver ++ [.raise .decode]) := by
  induction ps with
  | nil => exact ⟨[], [], List.prefix_refl _, rfl, Or.inl rfl⟩
  | cons p ps ih =>
    cases hp : present p with
    | none =>
      exact ⟨[], [], List.nil_prefix, rfl, Or.inr (by rw [outcomes_cons_none _ hp]; rfl)⟩
    | some tx =>
      obtain ⟨qs, texts, hpre, hmap, hout⟩ := ih
      refine ⟨p :: qs, tx :: texts, ?_, by simp [hp, hmap], ?_⟩
      · obtain ⟨r, rfl⟩ := hpre
        exact ⟨r, rfl⟩
      · rw [outcomes_cons_some _ hp]
        rcases hout with e | e
        · exact Or.inl (by rw [e]; rfl)
        · exact Or.inr (by rw [e]; rfl)

theorem delivered_sound10 (segs : List Bytes) :
    ∃ ps : List Bytes, (∀ p ∈ ps, Frameable10 p) ∧ enc10 ps <+: segs.flatten ∧
      ∃ texts : List Str, ps.map present10 = texts.map some ∧
        (obs (feedAll false init segs) = texts.map .deliver ∨
          ∃ k, obs (feedAll false init segs) = texts.map .deliver ++ [.raise k]) := by
  obtain ⟨ps, t, hs⟩ := split10_total segs.flatten
  obtain ⟨henc, hfr⟩ := split10_enc hs
  obtain ⟨qs, texts, ⟨r, hr⟩, hmap, hout⟩ := outcomes_shape present10 ps
  refine ⟨qs, ?_, ?_, texts, hmap, ?_⟩
  · intro p hp
    exact hfr p (by rw [← hr]; simp [hp])
  · refine ⟨enc10 r ++ t, ?_⟩
    rw [henc, ← hr, enc10_append, List.append_assoc]
  · rw [spec10 segs ps t hs]
    rcases hout with e | e
    · exact Or.inl e
    · exact Or.inr ⟨_, e⟩

end NcVerif.Framing10
