/- Parameter elements of the base-namespace builders (Model/Builders) other than edit-config: only those the protocol
   defines for the call, each at most once, in RFC 6241 order. -/
import NcVerif.Proofs.Builders
import NcVerif.Proofs.Retrieve
namespace NcVerif.BuildersOrderP
open NcVerif NcVerif.XmlDoc NcVerif.XmlText NcVerif.Builders NcVerif.BuildersP NcVerif.RetrieveP

theorem leaf_name (name : String) (t : Str) (x : XNode) (h : leaf name t = .ok x) : nameOf x = some (nc name) := by
  unfold leaf at h
  split at h
  · injection h with h; subst h; rfl
  · cases h

theorem optLeaf_names (name : String) (o : Option Str) (l : List XNode) (h : optLeaf name o = .ok l) :
    (names l).Sublist [nc name] := by
  unfold optLeaf at h
  cases o with
  | none => injection h with h; subst h; simp [names]
  | some t =>
    obtain ⟨x, hl, h⟩ := bind_ok h
    injection h with h; subst h
    rw [names_cons_of _ (leaf_name name t x hl)]
    simp [names]

theorem confirmedPart_names (has : Str → Bool) (c : Bool) (tm p : Option Str) (l : List XNode) (h : confirmedPart has c tm p = .ok l) :
    (names l).Sublist [nc "confirmed", nc "confirm-timeout", nc "persist"] := by
  unfold confirmedPart at h
  split at h
  · obtain ⟨_, _, h⟩ := bind_ok h
    obtain ⟨tl, htl, h⟩ := bind_ok h
    obtain ⟨pl, hpl, h⟩ := bind_ok h
    injection h with h; subst h
    rw [names_append, names_append]
    have h1 : names [el "confirmed" []] = [nc "confirmed"] := by simp [names, nameOf, el]
    rw [h1]
    have := List.Sublist.append (List.Sublist.append (List.Sublist.refl [nc "confirmed"]) (optLeaf_names "confirm-timeout" tm tl htl))
      (optLeaf_names "persist" p pl hpl)
    simpa using this
  · injection h with h; subst h; simp [names]

/-- The parameter elements RFC 6241 defines for each call, in its order. -/
def rfcOrder : Builders.Call → List Str
  | .edit _ _ _ _ _ => [nc "target", nc "default-operation", nc "test-option", nc "error-option", nc "config", s "config", nc "config-text", nc "url"]
  | .lock _ => [nc "target"]
  | .unlock _ => [nc "target"]
  | .getConfig _ => [nc "source"]
  | .delete _ => [nc "target"]
  | .copy _ _ => [nc "target", nc "source"]
  | .validate _ => [nc "source"]
  | .commit _ _ _ _ => [nc "confirmed", nc "confirm-timeout", nc "persist", nc "persist-id"]
  | .cancel _ => [nc "persist-id"]
  | .discard => []
  | .kill _ => [nc "session-id"]
  | .close => []

theorem parameter_order (has : Str → Bool) (call : Builders.Call) (t : XNode)
    (hcfg : ∀ c tg d to e, call = .edit (.xml c) tg d to e → Good c) (h : Builders.build has call = .ok t) :
    (paramNames t).Sublist (rfcOrder call) := by
  cases call with
  | edit c tg d to e =>
    have h' := editConfig_ok has c tg d to e t (by intro c' hc'; subst hc'; exact hcfg c' tg d to e rfl) h
    simpa [rfcOrder] using h'.2.2.2.2.2.2
  | lock tg =>
    unfold Builders.build lockOp at h
    obtain ⟨d, hd, h⟩ := bind_ok h
    injection h with h; subst h
    simp [el, paramNames_elem, names, nameOf, rfcOrder]
  | unlock tg =>
    unfold Builders.build lockOp at h
    obtain ⟨d, hd, h⟩ := bind_ok h
    injection h with h; subst h
    simp [el, paramNames_elem, names, nameOf, rfcOrder]
  | getConfig src =>
    unfold Builders.build Builders.getConfig at h
    obtain ⟨x, hx, h⟩ := bind_ok h
    injection h with h; subst h
    simp only [el, paramNames_elem, rfcOrder]
    rw [names_cons_of _ (ds_name _ _ _ _ hx)]; simp [names]
  | delete tg =>
    unfold Builders.build deleteConfig at h
    obtain ⟨x, hx, h⟩ := bind_ok h
    injection h with h; subst h
    simp only [el, paramNames_elem, rfcOrder]
    rw [names_cons_of _ (ds_name _ _ _ _ hx)]; simp [names]
  | copy src tg =>
    unfold Builders.build copyConfig at h
    obtain ⟨x, hx, h⟩ := bind_ok h
    obtain ⟨y, hy, h⟩ := bind_ok h
    injection h with h; subst h
    simp only [el, paramNames_elem, rfcOrder]
    rw [names_cons_of _ (ds_name _ _ _ _ hx), names_cons_of _ (ds_name _ _ _ _ hy)]; simp [names]
  | validate src =>
    unfold Builders.build Builders.validate at h
    obtain ⟨_, _, h⟩ := bind_ok h
    obtain ⟨x, hx, h⟩ := bind_ok h
    injection h with h; subst h
    simp only [el, paramNames_elem, rfcOrder]
    rw [names_cons_of _ (ds_name _ _ _ _ hx)]; simp [names]
  | commit c tm p pid =>
    unfold Builders.build Builders.commit at h
    obtain ⟨_, _, h⟩ := bind_ok h
    obtain ⟨_, _, h⟩ := bind_ok h
    obtain ⟨conf, hconf, h⟩ := bind_ok h
    obtain ⟨pl, hpl, h⟩ := bind_ok h
    injection h with h; subst h
    simp only [el, paramNames_elem, names_append, rfcOrder]
    have hp : (names pl).Sublist [nc "persist-id"] := by
      split at hpl
      · exact optLeaf_names "persist-id" pid pl hpl
      · injection hpl with hpl; subst hpl; simp [names]
    have := List.Sublist.append (confirmedPart_names has c tm p conf hconf) hp
    simpa using this
  | cancel pid =>
    unfold Builders.build cancelCommit at h
    obtain ⟨_, _, h⟩ := bind_ok h
    obtain ⟨_, _, h⟩ := bind_ok h
    obtain ⟨pl, hpl, h⟩ := bind_ok h
    injection h with h; subst h
    simp only [el, paramNames_elem, rfcOrder]
    exact optLeaf_names "persist-id" pid pl hpl
  | discard =>
    unfold Builders.build discardChanges at h
    obtain ⟨_, _, h⟩ := bind_ok h
    injection h with h; subst h
    simp [el, paramNames_elem, names, rfcOrder]
  | kill sid =>
    unfold Builders.build killSession at h
    obtain ⟨x, hx, h⟩ := bind_ok h
    injection h with h; subst h
    simp only [el, paramNames_elem, rfcOrder]
    rw [names_cons_of _ (leaf_name _ _ _ hx)]; simp [names]
  | close =>
    unfold Builders.build closeSession at h
    injection h with h; subst h
    simp [el, paramNames_elem, names, rfcOrder]

end NcVerif.BuildersOrderP
