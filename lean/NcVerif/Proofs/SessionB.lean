/-
  Helper lemmas and invariants about Model/Session used by C02, C05, C12 (queue / wire / frames,
  hello exchange, close and worker termination).
-/
import NcVerif.Model.Session
import NcVerif.Spec.Session
import NcVerif.Spec.Framing
import NcVerif.Proofs.Framing10
import NcVerif.Proofs.Framing11
import NcVerif.Proofs.Caps
namespace NcVerif.SessionB
open NcVerif NcVerif.Session NcVerif.SessionSpec NcVerif.Framing NcVerif.FramingSpec

/-! ## Generic: lifting step invariants to histories -/

theorem run_nil (env : Env) (w : World) : run env w [] = w := rfl
theorem run_cons (env : Env) (w : World) (op : Op) (ops : List Op) :
    run env w (op :: ops) = run env (step env w op) ops := rfl
theorem run_append (env : Env) (w : World) (a b : List Op) :
    run env w (a ++ b) = run env (run env w a) b := by simp [run, List.foldl_append]
theorem run_snoc (env : Env) (w : World) (a : List Op) (op : Op) :
    run env w (a ++ [op]) = step env (run env w a) op := by simp [run, List.foldl_append]

theorem run_inv {P : World → Prop} (env : Env) (hstep : ∀ w op, P w → P (step env w op))
    (w : World) (ops : List Op) (h : P w) : P (run env w ops) := by
  induction ops generalizing w with
  | nil => exact h
  | cons op ops ih => exact ih _ (hstep w op h)

/-! ## What `_dispatch_error` / `_dispatch_message` leave alone -/

/-- The fields `dispatchError` / `dispatchMessage` never touch. -/
structure SameCore (w w' : World) : Prop where
  base11 : w'.base11 = w.base11
  connected : w'.connected = w.connected
  closing : w'.closing = w.closing
  socketClosed : w'.socketClosed = w.socketClosed
  pc : w'.pc = w.pc
  q : w'.q = w.q
  hasNotif : w'.hasNotif = w.hasNotif
  hasHello : w'.hasHello = w.hasHello
  hasReplyL : w'.hasReplyL = w.hasReplyL
  wire : w'.wire = w.wire
  frames : w'.frames = w.frames
  puts : w'.puts = w.puts
  dequeued : w'.dequeued = w.dequeued
  errbackDone : w'.errbackDone = w.errbackDone
  parser : w'.parser = w.parser
  taken : w'.taken = w.taken
  conn : w'.conn = w.conn
  connWaitExpired : w'.connWaitExpired = w.connWaitExpired

theorem SameCore.refl (w : World) : SameCore w w := by constructor <;> rfl

theorem SameCore.trans {a b c : World} (h1 : SameCore a b) (h2 : SameCore b c) : SameCore a c := by
  constructor
  all_goals first
    | exact h2.base11.trans h1.base11 | exact h2.connected.trans h1.connected | exact h2.closing.trans h1.closing
    | exact h2.socketClosed.trans h1.socketClosed | exact h2.pc.trans h1.pc | exact h2.q.trans h1.q
    | exact h2.hasNotif.trans h1.hasNotif | exact h2.hasHello.trans h1.hasHello | exact h2.hasReplyL.trans h1.hasReplyL
    | exact h2.wire.trans h1.wire | exact h2.frames.trans h1.frames | exact h2.puts.trans h1.puts
    | exact h2.dequeued.trans h1.dequeued | exact h2.errbackDone.trans h1.errbackDone | exact h2.parser.trans h1.parser
    | exact h2.taken.trans h1.taken | exact h2.conn.trans h1.conn | exact h2.connWaitExpired.trans h1.connWaitExpired

theorem dispatchError_core (w : World) (e : ErrK) : SameCore w (dispatchError w e) := by
  unfold dispatchError
  dsimp only
  split <;> split <;> constructor <;> rfl

theorem dispatchMessage_core (env : Env) (w : World) (raw : Str) : SameCore w (dispatchMessage env w raw).1 := by
  unfold dispatchMessage
  dsimp only
  repeat' split
  all_goals first | (constructor <;> rfl) | exact SameCore.trans (by constructor <;> rfl) (dispatchError_core _ _)

theorem step_wDispatch_deliver (env : Env) (w : World) (raw : Str) (rest : List Out)
    (h : w.pc = .dispatching (.deliver raw :: rest)) :
    step env w .wDispatch = { (dispatchMessage env w raw).1 with
      pc := match (dispatchMessage env w raw).2 with
        | some e => .failing e
        | none => if rest.isEmpty then .top else .dispatching rest } := by
  simp only [step, h]
  split <;> simp_all

/-! ## The queue / frames / wire invariant -/

def wireRel (pc : WPc) (wire fl : Bytes) : Prop :=
  match pc with
  | .writing data => wire ++ data = fl
  | .failing _ | .closingSelf | .stopped => wire <+: fl
  | _ => wire = fl

theorem wireRel_prefix {pc : WPc} {wire fl : Bytes} (h : wireRel pc wire fl) : wire <+: fl := by
  unfold wireRel at h
  split at h
  · exact ⟨_, h⟩
  · exact h
  · exact h
  · exact h
  · exact h ▸ List.prefix_refl _

structure InvQ (w : World) : Prop where
  fifo : w.dequeued.map Prod.fst ++ w.q = w.puts
  frames : w.frames = w.dequeued.map fun p => frame (p.2 && !p.1.isHello) p.1.data
  wire : wireRel w.pc w.wire w.frames.flatten

theorem invQ_step (env : Env) (w : World) (op : Op) (h : InvQ w) : InvQ (step env w op) := by
  obtain ⟨h1, h2, h3⟩ := h
  cases op with
  | cNew id => exact ⟨h1, h2, h3⟩
  | cSend data =>
    simp only [step]
    split
    · exact ⟨by simp [← h1], h2, h3⟩
    · exact ⟨h1, h2, h3⟩
  | cTake =>
    simp only [step]
    split <;> exact ⟨h1, h2, h3⟩
  | cCloseBegin => exact ⟨h1, h2, h3⟩
  | cCloseEnd =>
    simp only [step]
    split <;> exact ⟨h1, h2, h3⟩
  | kAddListeners =>
    simp only [step]
    split <;> exact ⟨h1, h2, h3⟩
  | kSendHello data =>
    simp only [step]
    split
    · split
      · exact ⟨by simp [← h1], h2, h3⟩
      · exact ⟨h1, h2, h3⟩
    · exact ⟨h1, h2, h3⟩
  | kStart =>
    simp only [step]
    split
    · rename_i hc
      simp only [Bool.and_eq_true, decide_eq_true_eq] at hc
      refine ⟨h1, h2, ?_⟩
      rw [hc.2] at h3
      exact h3
    · exact ⟨h1, h2, h3⟩
  | kWaitExpire =>
    simp only [step]
    split <;> exact ⟨h1, h2, h3⟩
  | kFinish =>
    simp only [step]
    split
    · split <;> exact ⟨h1, h2, h3⟩
    · exact ⟨h1, h2, h3⟩
  | wTop ready =>
    simp only [step]
    split
    · rename_i hpc
      rw [hpc] at h3
      split
      · rename_i item rest hq
        split
        · refine ⟨?_, ?_, ?_⟩
          · simp [← h1, hq]
          · simp [h2]
          · simp only [wireRel] at h3 ⊢
            simp [h3]
        · exact ⟨h1, h2, h3⟩
      · exact ⟨h1, h2, h3⟩
    · exact ⟨h1, h2, h3⟩
  | wWrite n =>
    simp only [step]
    split
    · rename_i data hpc
      rw [hpc] at h3
      split
      · exact ⟨h1, h2, ⟨data, h3⟩⟩
      · refine ⟨h1, h2, ?_⟩
        simp only [wireRel] at h3
        split
        · rename_i hemp
          simp only [List.isEmpty_iff] at hemp
          show _ = _
          rw [← h3]
          conv => rhs; rw [← List.take_append_drop n.toNat data, hemp]
          simp
        · show _ ++ _ = _
          rw [← h3]; simp
    · exact ⟨h1, h2, h3⟩
  | wWriteErr =>
    simp only [step]
    split
    · rename_i data hpc
      rw [hpc] at h3
      exact ⟨h1, h2, ⟨data, h3⟩⟩
    · exact ⟨h1, h2, h3⟩
  | wSelect ev =>
    simp only [step]
    split
    · rename_i hpc
      rw [hpc] at h3
      split
      · exact ⟨h1, h2, h3⟩
      · split <;> exact ⟨h1, h2, h3⟩
    · exact ⟨h1, h2, h3⟩
  | wRead r =>
    simp only [step]
    split
    · rename_i hpc
      rw [hpc] at h3
      have h3' : w.wire <+: w.frames.flatten := h3 ▸ List.prefix_refl _
      split
      · split
        · split
          · exact ⟨h1, h2, h3⟩
          · exact ⟨h1, h2, h3'⟩
        · refine ⟨h1, h2, ?_⟩
          dsimp only
          split <;> exact h3
      · split
        · exact ⟨h1, h2, h3⟩
        · exact ⟨h1, h2, h3'⟩
      · exact ⟨h1, h2, h3'⟩
    · exact ⟨h1, h2, h3⟩
  | wDispatch =>
    cases hpc : w.pc with
    | dispatching todo =>
      rw [hpc] at h3
      have h3' : w.wire <+: w.frames.flatten := h3 ▸ List.prefix_refl _
      cases todo with
      | nil => simp only [step, hpc]; exact ⟨h1, h2, h3⟩
      | cons o rest =>
        cases o with
        | raise k => cases k <;> (simp only [step, hpc]; exact ⟨h1, h2, h3'⟩)
        | deliver raw =>
          rw [step_wDispatch_deliver env w raw rest hpc]
          have hc := dispatchMessage_core env w raw
          refine ⟨?_, ?_, ?_⟩
          · show List.map Prod.fst (dispatchMessage env w raw).1.dequeued ++ (dispatchMessage env w raw).1.q = (dispatchMessage env w raw).1.puts
            rw [hc.dequeued, hc.q, hc.puts]; exact h1
          · show (dispatchMessage env w raw).1.frames = List.map _ (dispatchMessage env w raw).1.dequeued
            rw [hc.dequeued, hc.frames]; exact h2
          · show wireRel _ (dispatchMessage env w raw).1.wire (dispatchMessage env w raw).1.frames.flatten
            rw [hc.wire, hc.frames]
            split
            · exact h3'
            · split <;> exact h3
    | _ => simp only [step, hpc]; exact ⟨h1, h2, h3⟩
  | wErrback =>
    cases hpc : w.pc with
    | failing e =>
      rw [hpc] at h3
      have hc := dispatchError_core w e
      simp only [step, hpc]
      refine ⟨?_, ?_, ?_⟩
      · show List.map Prod.fst (dispatchError w e).dequeued ++ (dispatchError w e).q = (dispatchError w e).puts
        rw [hc.dequeued, hc.q, hc.puts]; exact h1
      · show (dispatchError w e).frames = List.map _ (dispatchError w e).dequeued
        rw [hc.dequeued, hc.frames]; exact h2
      · show wireRel _ (dispatchError w e).wire (dispatchError w e).frames.flatten
        rw [hc.wire, hc.frames]; exact h3
    | _ => simp only [step, hpc]; exact ⟨h1, h2, h3⟩
  | wCloseSelf =>
    simp only [step]
    split
    · rename_i hpc
      rw [hpc] at h3
      exact ⟨h1, h2, h3⟩
    · exact ⟨h1, h2, h3⟩
  | wExit =>
    simp only [step]
    split
    · rename_i hpc
      rw [hpc] at h3
      have hc := dispatchError_core w .transport
      refine ⟨?_, ?_, ?_⟩
      · show List.map Prod.fst (dispatchError w _).dequeued ++ (dispatchError w _).q = (dispatchError w _).puts
        rw [hc.dequeued, hc.q, hc.puts]; exact h1
      · show (dispatchError w _).frames = List.map _ (dispatchError w _).dequeued
        rw [hc.dequeued, hc.frames]; exact h2
      · show wireRel _ (dispatchError w _).wire (dispatchError w _).frames.flatten
        rw [hc.wire, hc.frames]; exact h3 ▸ List.prefix_refl _
    · exact ⟨h1, h2, h3⟩

/-! ## C02: queue, frames, wire -/

theorem invQ_init : InvQ Session.init := ⟨rfl, rfl, rfl⟩

theorem invQ_run (env : Env) (ops : List Op) : InvQ (run env Session.init ops) :=
  run_inv env (invQ_step env) _ ops invQ_init

theorem wire_writing (env : Env) (ops : List Op) (data : Bytes)
    (h : (run env Session.init ops).pc = .writing data) :
    (run env Session.init ops).wire ++ data = (run env Session.init ops).frames.flatten := by
  have := (invQ_run env ops).wire
  rw [h] at this
  exact this

theorem wire_complete (env : Env) (ops : List Op)
    (h : (run env Session.init ops).pc = .top ∨ (run env Session.init ops).pc = .select ∨
      (run env Session.init ops).pc = .read ∨
      (∃ t, (run env Session.init ops).pc = .dispatching t) ∨ (run env Session.init ops).pc = .exiting) :
    (run env Session.init ops).wire = (run env Session.init ops).frames.flatten := by
  have := (invQ_run env ops).wire
  rcases h with h | h | h | ⟨t, h⟩ | h <;> (rw [h] at this; exact this)

theorem run_wWrite_select (env : Env) (w : World) (ns : List Int) (h : w.pc = .select) :
    run env w (ns.map .wWrite) = w := by
  induction ns with
  | nil => rfl
  | cons n ns ih =>
    simp only [List.map_cons, run_cons]
    have : step env w (.wWrite n) = w := by simp only [step, h]
    rw [this]; exact ih

theorem short_writes_total (env : Env) (w : World) (data : Bytes) (ns : List Int)
    (hpc : w.pc = .writing data) (hne : data ≠ []) (hpos : ∀ n ∈ ns, 1 ≤ n)
    (hsum : data.length ≤ (ns.map Int.toNat).sum) :
    (run env w (ns.map .wWrite)).wire = w.wire ++ data ∧ (run env w (ns.map .wWrite)).pc = .select := by
  induction ns generalizing w data with
  | nil =>
    simp at hsum
    exact absurd hsum hne
  | cons n ns ih =>
    have hn : 1 ≤ n := hpos n (by simp)
    have hn' : ¬ n ≤ 0 := by omega
    simp only [List.map_cons, run_cons]
    by_cases hemp : data.drop n.toNat = []
    · have hstep : step env w (.wWrite n) = { w with wire := w.wire ++ data.take n.toNat, pc := .select } := by
        simp only [step, hpc, hn', if_false, hemp, List.isEmpty_nil, if_true]
      rw [run_wWrite_select env _ ns (by rw [hstep])]
      rw [hstep]
      refine ⟨?_, rfl⟩
      show w.wire ++ data.take n.toNat = w.wire ++ data
      conv => rhs; rw [← List.take_append_drop n.toNat data, hemp]
      simp
    · have hstep : step env w (.wWrite n) =
          { w with wire := w.wire ++ data.take n.toNat, pc := .writing (data.drop n.toNat) } := by
        have : (data.drop n.toNat).isEmpty = false := by
          cases h : data.drop n.toNat with
          | nil => exact absurd h hemp
          | cons _ _ => rfl
        simp [step, hpc, hn', this]
      have := ih (step env w (.wWrite n)) (data.drop n.toNat) (by rw [hstep]) hemp
        (fun m hm => hpos m (by simp [hm])) (by
          simp only [List.map_cons, List.sum_cons] at hsum
          simp only [List.length_drop]; omega)
      rw [this.1, this.2, hstep]
      refine ⟨?_, rfl⟩
      show w.wire ++ data.take n.toNat ++ data.drop n.toNat = w.wire ++ data
      rw [List.append_assoc, List.take_append_drop]

theorem write_failure_is_error (env : Env) (w : World) (data : Bytes) (n : Int)
    (hpc : w.pc = .writing data) (hn : n ≤ 0) :
    (step env w (.wWrite n)).pc = .failing .sessionClose ∧ (step env w (.wWrite n)).wire = w.wire := by
  simp only [step, hpc, hn, if_true, and_self]

theorem frame11_header (data : Bytes) :
    frame true data = [0x0a, 0x23] ++ natDigits data.length ++ [0x0a] ++ data ++ endDelim11 := by
  simp only [frame, if_true]

theorem frame_true_eq (d : Bytes) : frame true d = enc11msg [d] := by
  simp [frame, enc11msg, chunk11]

theorem frames_roundtrip11 (ds : List Bytes) (segs : List Bytes) (h : ∀ d ∈ ds, d ≠ [])
    (hs : segs.flatten = (ds.map (frame true)).flatten) :
    obs (feedAll true Framing.init segs) = outcomes present11 ds := by
  have henc : (ds.map (frame true)).flatten = enc11 (ds.map fun d => [d]) := by
    simp only [enc11, List.map_map]
    congr 1
    apply List.map_congr_left
    intro d _
    exact frame_true_eq d
  have hw : WF (ds.map fun d => [d]) := by
    intro cs hcs
    simp only [List.mem_map] at hcs
    obtain ⟨d, hd, rfl⟩ := hcs
    exact ⟨by simp, by simpa using h d hd⟩
  have := Framing11.decode_encode11 (ds.map fun d => [d]) segs hw (hs.trans henc)
  rw [this]
  congr 1
  simp [List.map_map, Function.comp_def]

theorem frames_roundtrip10 (ds : List Bytes) (segs : List Bytes) (h : ∀ d ∈ ds, Frameable10 d)
    (hs : segs.flatten = (ds.map (frame false)).flatten) :
    obs (feedAll false Framing.init segs) = outcomes present10 ds := by
  apply Framing10.decode_encode10 ds segs [] h (by decide)
  have hf : frame false = (· ++ delim10) := funext fun d => by simp [frame]
  rw [hs, List.append_nil, hf, enc10]


/-! ## C12: close and worker termination -/

theorem close_disconnects (env : Env) (w : World) (hc : w.closing = true)
    (hj : env.joins = false ∨ w.pc = .stopped ∨ w.pc = .notStarted) :
    (step env w .cCloseEnd).connected = false := by
  simp only [step]
  rw [if_pos]
  simp only [hc, Bool.true_and, Bool.or_eq_true, Bool.not_eq_true', decide_eq_true_eq]
  rcases hj with h | h | h
  · exact Or.inl (Or.inl h)
  · exact Or.inl (Or.inr h)
  · exact Or.inr h

theorem idle_tick_exits (env : Env) (w : World) (hc : w.closing = true) (hp : w.pc = .select) :
    (step env w (.wSelect false)).pc = .exiting := by
  simp [step, hc, hp]

theorem no_callback_after_stop (env : Env) (w : World) (op : Op) (h : w.pc = .stopped)
    (hw : isWorkerOp op = true) : step env w op = w := by
  cases op <;> simp [isWorkerOp] at hw <;> simp [step, h]

theorem closed_refuses (env : Env) (w : World) (d : Bytes) (h : w.connected = false) :
    step env w (.cSend d) = w := by
  simp [step, h]

/-- `closing` and `connected = false` are never undone. -/
theorem step_closing (env : Env) (w : World) (op : Op) (h : w.closing = true) :
    (step env w op).closing = true := by
  cases op with
  | wDispatch =>
    cases hpc : w.pc with
    | dispatching todo =>
      cases todo with
      | nil => simp only [step, hpc]; exact h
      | cons o rest =>
        cases o with
        | raise k => cases k <;> (simp only [step, hpc]; exact h)
        | deliver raw =>
          rw [step_wDispatch_deliver env w raw rest hpc]
          exact (dispatchMessage_core env w raw).closing.trans h
    | _ => simp only [step, hpc]; exact h
  | wErrback =>
    cases hpc : w.pc with
    | failing e => simp only [step, hpc]; exact (dispatchError_core w e).closing.trans h
    | _ => simp only [step, hpc]; exact h
  | wExit =>
    simp only [step]
    split
    · exact (dispatchError_core w _).closing.trans h
    · exact h
  | _ =>
    simp only [step]
    repeat' split
    all_goals first | exact h | rfl

theorem step_connected (env : Env) (w : World) (op : Op) (h : w.connected = false) :
    (step env w op).connected = false := by
  cases op with
  | wDispatch =>
    cases hpc : w.pc with
    | dispatching todo =>
      cases todo with
      | nil => simp only [step, hpc]; exact h
      | cons o rest =>
        cases o with
        | raise k => cases k <;> (simp only [step, hpc]; exact h)
        | deliver raw =>
          rw [step_wDispatch_deliver env w raw rest hpc]
          exact (dispatchMessage_core env w raw).connected.trans h
    | _ => simp only [step, hpc]; exact h
  | wErrback =>
    cases hpc : w.pc with
    | failing e => simp only [step, hpc]; exact (dispatchError_core w e).connected.trans h
    | _ => simp only [step, hpc]; exact h
  | wExit =>
    simp only [step]
    split
    · exact (dispatchError_core w _).connected.trans h
    · exact h
  | _ =>
    simp only [step]
    repeat' split
    all_goals first | exact h | rfl | simp_all

theorem closed_is_stable (env : Env) (w : World) (ops : List Op) :
    (w.closing = true → (run env w ops).closing = true) ∧
    (w.connected = false → (run env w ops).connected = false) :=
  ⟨fun h => run_inv (P := fun w => w.closing = true) env (step_closing env) w ops h,
   fun h => run_inv (P := fun w => w.connected = false) env (step_connected env) w ops h⟩

/-! ### worker termination after a local close -/

def rankPc : WPc → Nat
  | .notStarted => 0
  | .stopped => 0
  | .closingSelf => 1
  | .exiting => 1
  | .failing _ => 2
  | .read => 2
  | .select => 3
  | .writing _ => 3
  | .top => 4
  | .dispatching t => 5 + t.length

def rank (w : World) : Nat := rankPc w.pc

theorem rank_le (w : World) : rank w ≤ todoLen w + 5 := by
  unfold rank todoLen
  cases w.pc <;> simp [rankPc] <;> omega

/-- One closed-environment worker step: stays closing, stays started, and strictly decreases the
    rank unless the worker has already stopped. -/
theorem closed_step (env : Env) (w : World) (c : Bool) (hc : w.closing = true) (hs : w.pc ≠ .notStarted) :
    (step env w (workerOpClosed w c)).closing = true ∧
    (step env w (workerOpClosed w c)).pc ≠ .notStarted ∧
    (w.pc = .stopped → (step env w (workerOpClosed w c)).pc = .stopped) ∧
    (w.pc ≠ .stopped → rank (step env w (workerOpClosed w c)) < rank w) := by
  refine ⟨step_closing env w _ hc, ?_⟩
  unfold rank
  cases hpc : w.pc with
  | notStarted => exact absurd hpc hs
  | top =>
    simp only [workerOpClosed, hpc, step, if_true]
    split
    · split <;> simp [rankPc]
    · simp [rankPc]
  | writing data => simp [workerOpClosed, hpc, step, rankPc]
  | select =>
    simp only [workerOpClosed, hpc, step, hc]
    cases c <;> simp [rankPc]
  | read => simp [workerOpClosed, hpc, step, rankPc, hc]
  | dispatching todo =>
    simp only [workerOpClosed, hpc]
    cases todo with
    | nil => simp [step, hpc, rankPc]
    | cons o rest =>
      cases o with
      | raise k => cases k <;> simp [step, hpc, rankPc] <;> omega
      | deliver raw =>
        rw [step_wDispatch_deliver env w raw rest hpc]
        cases (dispatchMessage env w raw).2 with
        | some e => simp [rankPc]; omega
        | none =>
          cases rest with
          | nil => simp [rankPc]
          | cons o' rest' => simp [rankPc]
  | failing e => simp [workerOpClosed, hpc, step, rankPc]
  | closingSelf => simp [workerOpClosed, hpc, step, rankPc]
  | exiting => simp [workerOpClosed, hpc, step, rankPc]
  | stopped => simp [workerOpClosed, hpc, step]

theorem runClosed_nil (env : Env) (w : World) : runClosed env w [] = w := rfl
theorem runClosed_cons (env : Env) (w : World) (c : Bool) (cs : List Bool) :
    runClosed env w (c :: cs) = runClosed env (step env w (workerOpClosed w c)) cs := rfl

theorem worker_terminates_rank (env : Env) (w : World) (cs : List Bool)
    (hc : w.closing = true) (hs : w.pc ≠ .notStarted) (hn : cs.length ≥ rank w) :
    (runClosed env w cs).pc = .stopped ∧ (runClosed env w cs).closing = true := by
  induction cs generalizing w with
  | nil =>
    simp only [List.length_nil, ge_iff_le, Nat.le_zero_eq] at hn
    refine ⟨?_, hc⟩
    show w.pc = .stopped
    unfold rank at hn
    cases hpc : w.pc <;> rw [hpc] at hn <;> simp [rankPc] at hn <;> first | rfl | exact absurd hpc hs
  | cons c cs ih =>
    obtain ⟨h1, h2, h3, h4⟩ := closed_step env w c hc hs
    rw [runClosed_cons]
    apply ih _ h1 h2
    by_cases hst : w.pc = .stopped
    · have := h3 hst
      simp [rank, this, rankPc]
    · have := h4 hst
      simp only [List.length_cons] at hn
      omega

theorem worker_terminates (env : Env) (w : World) (cs : List Bool)
    (hc : w.closing = true) (hs : w.pc ≠ .notStarted) (hn : cs.length ≥ todoLen w + 5) :
    (runClosed env w cs).pc = .stopped :=
  (worker_terminates_rank env w cs hc hs (Nat.le_trans (rank_le w) hn)).1

/-! ### every request is failed once the worker has run its final errback -/

def RpcOk (hasReplyL : Bool) (rpcs : List Rpc) (ids : List Nat) (done : Bool) : Prop :=
  (rpcs ≠ [] → hasReplyL = true) ∧
  (∀ r ∈ rpcs, r.event = true ∨ r.id ∈ ids ∨ r.lateBorn = true) ∧
  (done = true → ∀ r ∈ rpcs, r.event = true ∨ r.lateBorn = true)

structure InvR (w : World) : Prop where
  rpc : RpcOk w.hasReplyL w.rpcs w.id2rpc w.errbackDone
  stopped : w.pc = .closingSelf ∨ w.pc = .stopped → w.errbackDone = true

theorem dispatchError_rpcs (w : World) (e : ErrK) :
    (dispatchError w e).rpcs = (if w.hasReplyL then failAll w.rpcs w.id2rpc e else w.rpcs) ∧
    (dispatchError w e).id2rpc = (if w.hasReplyL then [] else w.id2rpc) := by
  unfold dispatchError
  dsimp only
  split <;> split <;> simp_all

/-- After `_dispatch_error` every request has its event set (or was born late), whatever `done`. -/
theorem dispatchError_rpcOk (w : World) (e : ErrK) (d : Bool)
    (h : RpcOk w.hasReplyL w.rpcs w.id2rpc w.errbackDone) :
    RpcOk (dispatchError w e).hasReplyL (dispatchError w e).rpcs (dispatchError w e).id2rpc d := by
  obtain ⟨h1, h2, h3⟩ := h
  obtain ⟨e1, e2⟩ := dispatchError_rpcs w e
  rw [(dispatchError_core w e).hasReplyL, e1, e2]
  cases hl : w.hasReplyL with
  | false =>
    have : w.rpcs = [] := by
      cases hr : w.rpcs with
      | nil => rfl
      | cons a b => have := h1 (by simp [hr]); simp [hl] at this
    simp [RpcOk, this]
  | true =>
    have key : ∀ r ∈ failAll w.rpcs w.id2rpc e, r.event = true ∨ r.lateBorn = true := by
      intro r hr
      simp only [failAll, List.mem_map] at hr
      obtain ⟨r0, hr0, rfl⟩ := hr
      split
      · exact Or.inl rfl
      · rename_i hid
        rcases h2 r0 hr0 with h | h | h
        · exact Or.inl h
        · exact absurd h hid
        · exact Or.inr h
    refine ⟨fun _ => rfl, fun r hr => ?_, fun _ => key⟩
    rcases key r hr with h | h
    · exact Or.inl h
    · exact Or.inr (Or.inr h)

theorem dispatchMessage_rpcOk (env : Env) (w : World) (raw : Str)
    (h : RpcOk w.hasReplyL w.rpcs w.id2rpc w.errbackDone) :
    RpcOk (dispatchMessage env w raw).1.hasReplyL (dispatchMessage env w raw).1.rpcs
      (dispatchMessage env w raw).1.id2rpc (dispatchMessage env w raw).1.errbackDone := by
  unfold dispatchMessage
  dsimp only
  repeat' split
  all_goals try exact h
  · rw [(dispatchError_core _ _).errbackDone]
    exact dispatchError_rpcOk _ _ _ h
  · rename_i id _ hid
    obtain ⟨h1, h2, h3⟩ := h
    dsimp only
    have hmem : ∀ r ∈ updRpc w.rpcs id (fun rpc => { rpc with reply := some raw, event := true, deliveries := rpc.deliveries + 1 }),
        ∃ r0 ∈ w.rpcs, (r0.id = id ∧ r.event = true) ∨ (r0.id ≠ id ∧ r = r0) := by
      intro r hr
      simp only [updRpc, List.mem_map] at hr
      obtain ⟨r0, hr0, rfl⟩ := hr
      refine ⟨r0, hr0, ?_⟩
      by_cases hid : r0.id = id
      · exact Or.inl ⟨hid, by simp [hid]⟩
      · exact Or.inr ⟨hid, by simp [hid]⟩
    refine ⟨?_, ?_, ?_⟩
    · intro hne
      apply h1
      intro hnil
      simp [updRpc, hnil] at hne
    · intro r hr
      obtain ⟨r0, hr0, hcase⟩ := hmem r hr
      rcases hcase with ⟨_, hev⟩ | ⟨hne, rfl⟩
      · exact Or.inl hev
      · rcases h2 r hr0 with h | h | h
        · exact Or.inl h
        · exact Or.inr (Or.inl ((List.mem_erase_of_ne hne).mpr h))
        · exact Or.inr (Or.inr h)
    · intro hd r hr
      obtain ⟨r0, hr0, hcase⟩ := hmem r hr
      rcases hcase with ⟨_, hev⟩ | ⟨hne, rfl⟩
      · exact Or.inl hev
      · exact h3 hd r hr0

theorem invR_init : InvR Session.init := by
  refine ⟨⟨?_, ?_, ?_⟩, ?_⟩ <;> simp [Session.init]

theorem invR_step (env : Env) (w : World) (op : Op) (h : InvR w) : InvR (step env w op) := by
  obtain ⟨hr, hs⟩ := h
  cases op with
  | cNew id =>
    refine ⟨?_, hs⟩
    obtain ⟨h1, h2, h3⟩ := hr
    simp only [step]
    refine ⟨fun _ => rfl, ?_, ?_⟩
    · intro r hr
      have hmono : ∀ i, i ∈ w.id2rpc → i ∈ (if id ∈ w.id2rpc then w.id2rpc else w.id2rpc ++ [id]) := by
        intro i hi; split <;> simp [hi]
      have hid : id ∈ (if id ∈ w.id2rpc then w.id2rpc else w.id2rpc ++ [id]) := by
        split <;> simp_all
      split at hr
      · rcases h2 r hr with h | h | h
        · exact Or.inl h
        · exact Or.inr (Or.inl (hmono _ h))
        · exact Or.inr (Or.inr h)
      · simp only [List.mem_append, List.mem_singleton] at hr
        rcases hr with hr | rfl
        · rcases h2 r hr with h | h | h
          · exact Or.inl h
          · exact Or.inr (Or.inl (hmono _ h))
          · exact Or.inr (Or.inr h)
        · exact Or.inr (Or.inl hid)
    · intro hd r hr
      split at hr
      · exact h3 hd r hr
      · simp only [List.mem_append, List.mem_singleton] at hr
        rcases hr with hr | rfl
        · exact h3 hd r hr
        · exact Or.inr hd
  | wDispatch =>
    cases hpc : w.pc with
    | dispatching todo =>
      rw [hpc] at hs
      cases todo with
      | nil => simp only [step, hpc]; exact ⟨hr, by simp⟩
      | cons o rest =>
        cases o with
        | raise k => cases k <;> (simp only [step, hpc]; exact ⟨hr, by simp⟩)
        | deliver raw =>
          rw [step_wDispatch_deliver env w raw rest hpc]
          refine ⟨dispatchMessage_rpcOk env w raw hr, ?_⟩
          dsimp only
          cases (dispatchMessage env w raw).2 with
          | some e => simp
          | none => cases rest <;> simp
    | _ => simp only [step, hpc]; exact ⟨hr, hs⟩
  | wErrback =>
    cases hpc : w.pc with
    | failing e =>
      simp only [step, hpc]
      exact ⟨dispatchError_rpcOk w e true hr, fun _ => rfl⟩
    | _ => simp only [step, hpc]; exact ⟨hr, hs⟩
  | wExit =>
    simp only [step]
    split
    · exact ⟨dispatchError_rpcOk w _ true hr, fun _ => rfl⟩
    · exact ⟨hr, hs⟩
  | wCloseSelf =>
    simp only [step]
    split
    · rename_i hpc
      exact ⟨hr, fun _ => hs (Or.inl hpc)⟩
    · exact ⟨hr, hs⟩
  | _ =>
    simp only [step]
    repeat' split
    all_goals first | exact ⟨hr, hs⟩ | (refine ⟨hr, ?_⟩; simp_all)

theorem invR_runClosed (env : Env) (w : World) (cs : List Bool) (h : InvR w) : InvR (runClosed env w cs) := by
  induction cs generalizing w with
  | nil => exact h
  | cons c cs ih => exact ih _ (invR_step env w _ h)

theorem step_cCloseEnd_pc (env : Env) (w : World) : (step env w .cCloseEnd).pc = w.pc := by
  simp only [step]
  split <;> rfl

theorem close_releases (env : Env) (ops : List Op) (cs : List Bool)
    (hs : (run env Session.init ops).pc ≠ .notStarted)
    (hn : cs.length ≥ todoLen (step env (run env Session.init ops) .cCloseBegin) + 5) :
    let w := step env (runClosed env (step env (run env Session.init ops) .cCloseBegin) cs) .cCloseEnd
    w.connected = false ∧ w.pc = .stopped ∧ ∀ r ∈ w.rpcs, r.event = true ∨ r.lateBorn = true := by
  intro w
  have hinv : InvR w :=
    invR_step env _ _ (invR_runClosed env _ cs (invR_step env _ _ (run_inv env (invR_step env) _ ops invR_init)))
  have hterm := worker_terminates_rank env (step env (run env Session.init ops) .cCloseBegin) cs rfl hs
    (Nat.le_trans (rank_le _) hn)
  have hpc : w.pc = .stopped := by
    show (step env _ .cCloseEnd).pc = .stopped
    rw [step_cCloseEnd_pc]; exact hterm.1
  refine ⟨close_disconnects env _ hterm.2 (Or.inr (Or.inl hterm.1)), hpc, ?_⟩
  exact hinv.rpc.2.2 (hinv.stopped (Or.inr hpc))

/-! ## C05: hello exchange and negotiation -/

/-! ### the client hello is the first and only marked item; `base11` is fixed by `kFinish` -/

structure InvH (w : World) : Prop where
  early : w.conn = .idle ∨ w.conn = .listenersAdded → w.puts = []
  queued : w.conn = .helloQueued ∨ w.conn = .started ∨ w.conn = .done true → w.puts ≠ []
  head : ∀ it, w.puts.head? = some it → it.isHello = true
  pre : w.conn ≠ .done true → w.base11 = false ∧ ∀ it ∈ w.puts, it.isHello = true
  deq : ∀ p ∈ w.dequeued, p.1.isHello = false → p.2 = w.base11

theorem invH_init : InvH Session.init := by
  constructor <;> simp [Session.init]

theorem invH_congr {w w' : World} (e1 : w'.conn = w.conn) (e2 : w'.puts = w.puts) (e3 : w'.base11 = w.base11)
    (e4 : w'.dequeued = w.dequeued) (h : InvH w) : InvH w' := by
  obtain ⟨h1, h2, h3, h4, h5⟩ := h
  constructor
  · rw [e1, e2]; exact h1
  · rw [e1, e2]; exact h2
  · rw [e2]; exact h3
  · rw [e1, e2, e3]; exact h4
  · rw [e4, e3]; exact h5

theorem invH_same {w w' : World} (hc : SameCore w w') (h : InvH w) : InvH w' :=
  invH_congr hc.conn hc.puts hc.base11 hc.dequeued h

theorem invH_step (env : Env) (w : World) (op : Op) (hq : InvQ w) (h : InvH w)
    (hsend : ∀ d, op = .cSend d → w.conn = .done true) : InvH (step env w op) := by
  have h0 := h
  obtain ⟨h1, h2, h3, h4, h5⟩ := h
  cases op with
  | cSend data =>
    have hconn := hsend data rfl
    have hne := h2 (Or.inr (Or.inr hconn))
    simp only [step]
    split
    · constructor
      · simp [hconn]
      · simp
      · intro it hit
        apply h3
        cases hp : w.puts with
        | nil => exact absurd hp hne
        | cons a b => simpa [hp] using hit
      · intro hc; exact absurd hconn hc
      · exact h5
    · exact h0
  | kAddListeners =>
    simp only [step]
    split
    · rename_i hc
      have hp := h1 (Or.inl hc)
      constructor
      · intro _; exact hp
      · simp
      · exact h3
      · intro _; exact h4 (by simp [hc])
      · exact h5
    · exact h0
  | kSendHello data =>
    simp only [step]
    split
    · rename_i hc
      have hp := h1 (Or.inr hc)
      have hb := (h4 (by simp [hc])).1
      split
      · constructor
        · simp
        · simp
        · simp [hp]
        · intro _; exact ⟨hb, by simp [hp]⟩
        · exact h5
      · constructor
        · simp
        · simp
        · exact h3
        · intro _; exact ⟨hb, by simp [hp]⟩
        · exact h5
    · exact h0
  | kStart =>
    simp only [step]
    split
    · rename_i hc
      simp only [Bool.and_eq_true, decide_eq_true_eq] at hc
      constructor
      · simp
      · intro _; exact h2 (Or.inl hc.1)
      · exact h3
      · intro _; exact h4 (by simp [hc.1])
      · exact h5
    · exact h0
  | kWaitExpire =>
    simp only [step]
    split
    · rename_i hc
      simp only [Bool.and_eq_true, decide_eq_true_eq] at hc
      constructor
      · simp
      · simp
      · exact h3
      · intro _; exact h4 (by simp [hc.1])
      · exact h5
    · exact h0
  | kFinish =>
    simp only [step]
    split
    · rename_i hc
      simp only [Bool.and_eq_true, decide_eq_true_eq] at hc
      have hpre := h4 (by simp [hc.1])
      have hne := h2 (Or.inr (Or.inl hc.1))
      have hdeq : ∀ p ∈ w.dequeued, p.1.isHello = true := by
        intro p hp
        apply hpre.2
        rw [← hq.fifo]
        exact List.mem_append_left _ (List.mem_map_of_mem hp)
      split
      · constructor
        · simp
        · simp
        · exact h3
        · intro _; exact hpre
        · exact h5
      · constructor
        · simp
        · intro _; exact hne
        · exact h3
        · simp
        · intro p hp hf
          have := hdeq p hp
          simp [hf] at this
    · exact h0
  | wTop ready =>
    simp only [step]
    split
    · split
      · split
        · constructor
          · exact h1
          · exact h2
          · exact h3
          · exact h4
          · intro p hp
            simp only [List.mem_append, List.mem_singleton] at hp
            rcases hp with hp | rfl
            · exact h5 p hp
            · intro _; rfl
        · exact invH_congr (w := w) rfl rfl rfl rfl h0
      · exact invH_congr (w := w) rfl rfl rfl rfl h0
    · exact h0
  | wDispatch =>
    cases hpc : w.pc with
    | dispatching todo =>
      cases todo with
      | nil => simp only [step, hpc]; exact invH_congr (w := w) rfl rfl rfl rfl h0
      | cons o rest =>
        cases o with
        | raise k => cases k <;> (simp only [step, hpc]; exact invH_congr (w := w) rfl rfl rfl rfl h0)
        | deliver raw =>
          rw [step_wDispatch_deliver env w raw rest hpc]
          have hc := dispatchMessage_core env w raw
          exact invH_congr hc.conn hc.puts hc.base11 hc.dequeued h0
    | _ => simp only [step, hpc]; exact h0
  | wErrback =>
    cases hpc : w.pc with
    | failing e =>
      simp only [step, hpc]
      have hc := dispatchError_core w e
      exact invH_congr hc.conn hc.puts hc.base11 hc.dequeued h0
    | _ => simp only [step, hpc]; exact h0
  | wExit =>
    simp only [step]
    split
    · have hc := dispatchError_core w .transport
      exact invH_congr hc.conn hc.puts hc.base11 hc.dequeued h0
    · exact h0
  | _ =>
    simp only [step]
    repeat' split
    all_goals first | exact h0 | exact invH_congr (w := w) rfl rfl rfl rfl h0

theorem invH_run_aux (env : Env) (ops pre : List Op) (h : UserAfterConnect env (pre ++ ops))
    (hpre : InvH (run env Session.init pre)) : InvH (run env Session.init (pre ++ ops)) := by
  induction ops generalizing pre with
  | nil => simpa using hpre
  | cons op rest ih =>
    have e : pre ++ op :: rest = (pre ++ [op]) ++ rest := by simp
    rw [e]
    apply ih
    · rw [← e]; exact h
    · rw [run_snoc]
      exact invH_step env _ op (invQ_run env pre) hpre
        (fun d hd => h pre op rest rfl (Or.inr ⟨d, hd⟩))

theorem invH_run (env : Env) (ops : List Op) (h : UserAfterConnect env ops) : InvH (run env Session.init ops) :=
  invH_run_aux env ops [] h invH_init

theorem hello_first (env : Env) (ops : List Op) (h : UserAfterConnect env ops) :
    ∀ f fs, (run env Session.init ops).frames = f :: fs →
      ∃ d, f = frame false d ∧ (run env Session.init ops).puts.head? = some ⟨d, true⟩ := by
  intro f fs hf
  have hq := invQ_run env ops
  have hh := invH_run env ops h
  generalize run env Session.init ops = w at *
  rw [hq.frames] at hf
  cases hd : w.dequeued with
  | nil => simp [hd] at hf
  | cons p ps =>
    have hfifo := hq.fifo
    rw [hd] at hf hfifo
    simp only [List.map_cons, List.cons.injEq] at hf
    simp only [List.map_cons, List.cons_append] at hfifo
    have hhead : w.puts.head? = some p.1 := by rw [← hfifo]; rfl
    have hello := hh.head _ hhead
    refine ⟨p.1.data, ?_, ?_⟩
    · rw [← hf.1, hello]; simp
    · rw [hhead, ← hello]

theorem post_hello_framing (env : Env) (ops : List Op) (h : UserAfterConnect env ops) :
    ∀ p ∈ (run env Session.init ops).dequeued, p.1.isHello = false → p.2 = (run env Session.init ops).base11 :=
  (invH_run env ops h).deq

/-! ### negotiation -/

theorem base11Uri_not_abbrev (ns : Str) : base11Uri ∉ Caps.abbreviate ns := by
  intro h
  rw [mem_abbreviate_iff] at h
  obtain ⟨p, _, r, _, l, hl, hk⟩ := h
  have := (mem_abbrevParts_iff r base11Uri).mp ⟨l, hl, hk⟩
  have hu : ∃ t, base11Uri = 'u' :: t := ⟨_, rfl⟩
  obtain ⟨t, ht⟩ := hu
  rw [ht] at this
  rcases this with ⟨name, ver, rest, _, _, _, _, hk | hk⟩ | ⟨ver, rest, _, _, _, hk | hk⟩
  · simp at hk
  · simp at hk
  · simp [Caps.sColonBase] at hk
  · simp [Caps.sColonBase] at hk

theorem contains_mk_base11 (l : List Str) : Caps.contains (Caps.mk l) base11Uri = true ↔ base11Uri ∈ l := by
  unfold Caps.contains Caps.getItem
  rw [dictGet_mk]
  by_cases h : base11Uri ∈ l
  · simp [h]
  · simp only [h, if_false, iff_false]
    have : List.find? (fun c => decide (base11Uri ∈ Caps.abbreviate c.ns)) ((Caps.mk l).map Prod.snd) = none := by
      rw [List.find?_eq_none]
      intro c _
      simp [base11Uri_not_abbrev]
    rw [this]
    simp

theorem dispatchError_hello (w : World) (e : ErrK) :
    (dispatchError w e).serverCaps = w.serverCaps ∧ (dispatchError w e).sessionId = w.sessionId ∧
    (dispatchError w e).received = w.received ∧
    (dispatchError w e).initEvent = (w.hasHello || w.initEvent) ∧
    (dispatchError w e).helloErr = (if w.hasHello then some e else w.helloErr) := by
  unfold dispatchError
  dsimp only
  split <;> split <;> simp_all

theorem dispatchMessage_hello (env : Env) (w : World) (raw : Str) :
    (dispatchMessage env w raw).1.received = w.received ++ [raw] ∧
    (((dispatchMessage env w raw).1.serverCaps = w.serverCaps ∧
        (dispatchMessage env w raw).1.sessionId = w.sessionId) ∨
      (w.hasHello = true ∧ ∃ sid caps, env.helloParse raw = some (sid, caps) ∧
        (dispatchMessage env w raw).1.serverCaps = some caps ∧
        (dispatchMessage env w raw).1.sessionId = some sid)) ∧
    (w.initEvent = true → (dispatchMessage env w raw).1.initEvent = true) ∧
    (w.helloErr.isSome = true → (dispatchMessage env w raw).1.helloErr.isSome = true) := by
  unfold dispatchMessage
  dsimp only
  repeat' split
  all_goals try (refine ⟨rfl, Or.inl ⟨rfl, rfl⟩, fun h => ?_, fun h => ?_⟩ <;> first | exact h | rfl)
  · obtain ⟨h1, h2, h3, h4, h5⟩ := dispatchError_hello
      { w with received := w.received ++ [raw] } .rawDispatch
    refine ⟨h3, Or.inl ⟨h1, h2⟩, fun h => ?_, fun h => ?_⟩
    · rw [h4]; simp [h]
    · rw [h5]; dsimp only; split <;> simp_all
  · rename_i hh _ sid caps hp
    exact ⟨rfl, Or.inr ⟨hh, sid, caps, hp, rfl, rfl⟩, fun _ => rfl, fun h => h⟩

/-! ### session id / capabilities come from a received hello -/

def InvS (env : Env) (w : World) : Prop :=
  ∀ sc, w.serverCaps = some sc →
    ∃ raw ∈ w.received, ∃ sid, env.helloParse raw = some (sid, sc) ∧ w.sessionId = some sid

theorem invS_step (env : Env) (w : World) (op : Op) (h : InvS env w) : InvS env (step env w op) := by
  have hE : ∀ e, InvS env (dispatchError w e) := by
    intro e
    obtain ⟨h1, h2, h3, -, -⟩ := dispatchError_hello w e
    unfold InvS
    rw [h1, h2, h3]; exact h
  cases op with
  | wDispatch =>
    cases hpc : w.pc with
    | dispatching todo =>
      cases todo with
      | nil => simp only [step, hpc]; exact h
      | cons o rest =>
        cases o with
        | raise k => cases k <;> (simp only [step, hpc]; exact h)
        | deliver raw =>
          rw [step_wDispatch_deliver env w raw rest hpc]
          obtain ⟨h1, h2, -, -⟩ := dispatchMessage_hello env w raw
          show InvS env (dispatchMessage env w raw).1
          unfold InvS
          rw [h1]
          rcases h2 with ⟨e1, e2⟩ | ⟨-, sid, caps, hp, e1, e2⟩
          · rw [e1, e2]
            intro sc hsc
            obtain ⟨r, hr, s, hs⟩ := h sc hsc
            exact ⟨r, by simp [hr], s, hs⟩
          · rw [e1, e2]
            intro sc hsc
            cases hsc
            exact ⟨raw, by simp, sid, hp, rfl⟩
    | _ => simp only [step, hpc]; exact h
  | wErrback =>
    cases hpc : w.pc with
    | failing e => simp only [step, hpc]; exact hE e
    | _ => simp only [step, hpc]; exact h
  | wExit =>
    simp only [step]
    split
    · exact hE _
    · exact h
  | _ =>
    simp only [step]
    repeat' split
    all_goals exact h

theorem session_id_caps_from_hello (env : Env) (ops : List Op) :
    ∀ sc, (run env Session.init ops).serverCaps = some sc →
      ∃ raw ∈ (run env Session.init ops).received, ∃ sid, env.helloParse raw = some (sid, sc) ∧
        (run env Session.init ops).sessionId = some sid :=
  run_inv (P := InvS env) env (invS_step env) _ ops (by intro sc h; cases h)

/-! ### `base11` after a successful connect -/

def Negotiated (env : Env) (w : World) : Prop :=
  w.base11 = true ↔ ∃ sc, w.serverCaps = some sc ∧ base11Uri ∈ sc ∧ base11Uri ∈ env.clientCaps

structure InvN (env : Env) (w : World) : Prop where
  base : w.conn ≠ .done true → w.base11 = false
  neg : w.conn = .done true → w.hasHello = false ∧ Negotiated env w

theorem invN_congr {env : Env} {w w' : World} (e1 : w'.conn = w.conn) (e2 : w'.base11 = w.base11)
    (e3 : w'.hasHello = w.hasHello) (e4 : w.hasHello = false → w'.serverCaps = w.serverCaps)
    (h : InvN env w) : InvN env w' := by
  obtain ⟨h1, h2⟩ := h
  constructor
  · rw [e1, e2]; exact h1
  · rw [e1, e3]
    intro hc
    obtain ⟨hh, hn⟩ := h2 hc
    refine ⟨hh, ?_⟩
    unfold Negotiated at hn ⊢
    rw [e2, e4 hh]; exact hn

theorem invN_step (env : Env) (w : World) (op : Op) (h : InvN env w) : InvN env (step env w op) := by
  have h0 := h
  obtain ⟨h1, h2⟩ := h
  have hE : ∀ e, InvN env (dispatchError w e) := by
    intro e
    have hc := dispatchError_core w e
    exact invN_congr hc.conn hc.base11 hc.hasHello (fun _ => (dispatchError_hello w e).1) h0
  cases op with
  | kAddListeners =>
    simp only [step]
    split
    · rename_i hc
      exact ⟨fun _ => h1 (by simp [hc]), by simp⟩
    · exact h0
  | kSendHello data =>
    simp only [step]
    split
    · rename_i hc
      have := h1 (by simp [hc])
      split
      · exact ⟨fun _ => this, by simp⟩
      · exact ⟨fun _ => this, by simp⟩
    · exact h0
  | kStart =>
    simp only [step]
    split
    · rename_i hc
      simp only [Bool.and_eq_true, decide_eq_true_eq] at hc
      exact ⟨fun _ => h1 (by simp [hc.1]), by simp⟩
    · exact h0
  | kWaitExpire =>
    simp only [step]
    split
    · rename_i hc
      simp only [Bool.and_eq_true, decide_eq_true_eq] at hc
      exact ⟨fun _ => h1 (by simp [hc.1]), by simp⟩
    · exact h0
  | kFinish =>
    simp only [step]
    split
    · rename_i hc
      simp only [Bool.and_eq_true, decide_eq_true_eq] at hc
      have hb := h1 (by simp [hc.1])
      split
      · exact ⟨fun _ => hb, by simp⟩
      · refine ⟨by simp, fun _ => ⟨rfl, ?_⟩⟩
        unfold Negotiated
        dsimp only
        rw [hb]
        cases hsc : w.serverCaps with
        | none => simp
        | some sc => simp [contains_mk_base11]
    · exact h0
  | wDispatch =>
    cases hpc : w.pc with
    | dispatching todo =>
      cases todo with
      | nil => simp only [step, hpc]; exact invN_congr (w := w) rfl rfl rfl (fun _ => rfl) h0
      | cons o rest =>
        cases o with
        | raise k => cases k <;> (simp only [step, hpc]; exact invN_congr (w := w) rfl rfl rfl (fun _ => rfl) h0)
        | deliver raw =>
          rw [step_wDispatch_deliver env w raw rest hpc]
          have hc := dispatchMessage_core env w raw
          refine invN_congr (w := w) hc.conn hc.base11 hc.hasHello (fun hh => ?_) h0
          rcases (dispatchMessage_hello env w raw).2.1 with ⟨e1, -⟩ | ⟨hh', -⟩
          · exact e1
          · rw [hh] at hh'; cases hh'
    | _ => simp only [step, hpc]; exact h0
  | wErrback =>
    cases hpc : w.pc with
    | failing e =>
      simp only [step, hpc]
      exact invN_congr (w := dispatchError w e) rfl rfl rfl (fun _ => rfl) (hE e)
    | _ => simp only [step, hpc]; exact h0
  | wExit =>
    simp only [step]
    split
    · exact invN_congr (w := dispatchError w .transport) rfl rfl rfl (fun _ => rfl) (hE _)
    · exact h0
  | _ =>
    simp only [step]
    repeat' split
    all_goals first | exact h0 | exact invN_congr (w := w) rfl rfl rfl (fun _ => rfl) h0

theorem negotiated_iff (env : Env) (ops : List Op) (h : (run env Session.init ops).conn = .done true) :
    (run env Session.init ops).base11 = true ↔
      ∃ sc, (run env Session.init ops).serverCaps = some sc ∧ base11Uri ∈ sc ∧ base11Uri ∈ env.clientCaps :=
  ((run_inv (P := InvN env) env (invN_step env) _ ops ⟨fun _ => rfl, by simp [Session.init]⟩).neg h).2

/-! ### a dying session wakes the waiting connect -/

structure InvD (w : World) : Prop where
  early : w.conn = .idle ∨ w.conn = .listenersAdded ∨ w.conn = .helloQueued → w.pc = .notStarted
  noErr : w.pc = .notStarted → w.errbackDone = false
  hello : w.conn = .listenersAdded ∨ w.conn = .helloQueued ∨ w.conn = .started → w.hasHello = true
  woken : w.errbackDone = true → w.hasHello = true → w.initEvent = true ∧ w.helloErr.isSome = true

theorem invD_of {w w' : World} (e1 : w'.conn = w.conn) (e2 : w'.hasHello = w.hasHello)
    (e3 : w'.errbackDone = w.errbackDone) (hpc : w'.pc = .notStarted ↔ w.pc = .notStarted)
    (hi : w.initEvent = true → w'.initEvent = true)
    (he : w.helloErr.isSome = true → w'.helloErr.isSome = true) (h : InvD w) : InvD w' := by
  obtain ⟨h1, h2, h3, h4⟩ := h
  constructor
  · rw [e1, hpc]; exact h1
  · rw [e3, hpc]; exact h2
  · rw [e1, e2]; exact h3
  · rw [e2, e3]
    intro a b
    exact ⟨hi (h4 a b).1, he (h4 a b).2⟩

/-- a worker step that only moves the program counter between started states -/
theorem invD_pc {w w' : World} (e1 : w'.conn = w.conn) (e2 : w'.hasHello = w.hasHello)
    (e3 : w'.errbackDone = w.errbackDone) (e4 : w'.initEvent = w.initEvent) (e5 : w'.helloErr = w.helloErr)
    (hpc : w.pc ≠ .notStarted) (hpc' : w'.pc ≠ .notStarted) (h : InvD w) : InvD w' :=
  invD_of e1 e2 e3 ⟨fun a => absurd a hpc', fun a => absurd a hpc⟩ (by rw [e4]; exact id) (by rw [e5]; exact id) h

theorem invD_errback {w : World} (e : ErrK) (pc' : WPc) (hpc : w.pc ≠ .notStarted) (hpc' : pc' ≠ .notStarted)
    (h : InvD w) : InvD { dispatchError w e with pc := pc', errbackDone := true } := by
  obtain ⟨h1, h2, h3, h4⟩ := h
  have hc := dispatchError_core w e
  obtain ⟨-, -, -, hi, he⟩ := dispatchError_hello w e
  constructor
  · intro hconn
    exact absurd (h1 (by rw [← hc.conn]; exact hconn)) hpc
  · intro hp; exact absurd hp hpc'
  · intro hconn
    exact hc.hasHello.trans (h3 (by rw [← hc.conn]; exact hconn))
  · intro _ hh
    have hh' : w.hasHello = true := hc.hasHello.symm.trans hh
    show (dispatchError w e).initEvent = true ∧ (dispatchError w e).helloErr.isSome = true
    rw [hi, he, hh']; simp

theorem invD_step (env : Env) (w : World) (op : Op) (h : InvD w) : InvD (step env w op) := by
  have h0 := h
  obtain ⟨h1, h2, h3, h4⟩ := h
  cases op with
  | kAddListeners =>
    simp only [step]
    split
    · rename_i hc
      have hp := h1 (Or.inl hc)
      refine ⟨fun _ => hp, h2, fun _ => rfl, fun a => ?_⟩
      rw [h2 hp] at a; cases a
    · exact h0
  | kSendHello data =>
    simp only [step]
    split
    · rename_i hc
      have hp := h1 (Or.inr (Or.inl hc))
      have hh := h3 (Or.inl hc)
      split
      · exact ⟨fun _ => hp, h2, fun _ => hh, h4⟩
      · exact ⟨by simp, h2, by simp, h4⟩
    · exact h0
  | kStart =>
    simp only [step]
    split
    · rename_i hc
      simp only [Bool.and_eq_true, decide_eq_true_eq] at hc
      have hh := h3 (Or.inr (Or.inl hc.1))
      refine ⟨by simp, by simp, fun _ => hh, h4⟩
    · exact h0
  | kWaitExpire =>
    simp only [step]
    split
    · exact ⟨by simp, h2, by simp, h4⟩
    · exact h0
  | kFinish =>
    simp only [step]
    split
    · split
      · exact ⟨by simp, h2, by simp, by simp⟩
      · exact ⟨by simp, h2, by simp, by simp⟩
    · exact h0
  | wTop ready =>
    simp only [step]
    split
    · rename_i hpc
      have hn : w.pc ≠ .notStarted := by simp [hpc]
      repeat' split
      all_goals exact invD_pc (w := w) rfl rfl rfl rfl rfl hn (by simp) h0
    · exact h0
  | wWrite n =>
    cases hpc : w.pc with
    | writing data =>
      have hn : w.pc ≠ .notStarted := by simp [hpc]
      simp only [step, hpc]
      repeat' split
      all_goals exact invD_pc (w := w) rfl rfl rfl rfl rfl hn (by simp) h0
    | _ => simp only [step, hpc]; exact h0
  | wWriteErr =>
    cases hpc : w.pc with
    | writing data =>
      have hn : w.pc ≠ .notStarted := by simp [hpc]
      simp only [step, hpc]
      exact invD_pc (w := w) rfl rfl rfl rfl rfl hn (by simp) h0
    | _ => simp only [step, hpc]; exact h0
  | wSelect ev =>
    simp only [step]
    split
    · rename_i hpc
      have hn : w.pc ≠ .notStarted := by simp [hpc]
      repeat' split
      all_goals exact invD_pc (w := w) rfl rfl rfl rfl rfl hn (by simp) h0
    · exact h0
  | wRead r =>
    simp only [step]
    split
    · rename_i hpc
      have hn : w.pc ≠ .notStarted := by simp [hpc]
      repeat' split
      all_goals first
        | exact invD_pc (w := w) rfl rfl rfl rfl rfl hn (by simp) h0
        | exact invD_pc (w := w) rfl rfl rfl rfl rfl hn (by dsimp only; split <;> simp) h0
    · exact h0
  | wDispatch =>
    cases hpc : w.pc with
    | dispatching todo =>
      have hn : w.pc ≠ .notStarted := by simp [hpc]
      cases todo with
      | nil => simp only [step, hpc]; exact invD_pc (w := w) rfl rfl rfl rfl rfl hn (by simp) h0
      | cons o rest =>
        cases o with
        | raise k =>
          cases k <;> (simp only [step, hpc]; exact invD_pc (w := w) rfl rfl rfl rfl rfl hn (by simp) h0)
        | deliver raw =>
          rw [step_wDispatch_deliver env w raw rest hpc]
          have hc := dispatchMessage_core env w raw
          obtain ⟨-, -, hi, he⟩ := dispatchMessage_hello env w raw
          refine invD_of (w := w) hc.conn hc.hasHello hc.errbackDone ⟨fun a => ?_, fun a => absurd a hn⟩ hi he h0
          exfalso
          revert a
          dsimp only
          cases (dispatchMessage env w raw).2 with
          | some e => simp
          | none => cases rest <;> simp
    | _ => simp only [step, hpc]; exact h0
  | wErrback =>
    cases hpc : w.pc with
    | failing e =>
      simp only [step, hpc]
      exact invD_errback e _ (by simp [hpc]) (by simp) h0
    | _ => simp only [step, hpc]; exact h0
  | wCloseSelf =>
    simp only [step]
    split
    · rename_i hpc
      exact invD_pc (w := w) rfl rfl rfl rfl rfl (by simp [hpc]) (by simp) h0
    · exact h0
  | wExit =>
    simp only [step]
    split
    · rename_i hpc
      exact invD_errback _ _ (by simp [hpc]) (by simp) h0
    · exact h0
  | _ =>
    simp only [step]
    repeat' split
    all_goals first | exact h0 | exact invD_of (w := w) rfl rfl rfl Iff.rfl id id h0

theorem invD_init : InvD Session.init := by
  constructor <;> simp [Session.init]

theorem invD_run (env : Env) (ops : List Op) : InvD (run env Session.init ops) :=
  run_inv env (invD_step env) _ ops invD_init

theorem connect_fails_not_hangs (env : Env) (w : World) (h : w.conn = .started) :
    (w.initEvent = true → ∃ ok, (step env w .kFinish).conn = .done ok) ∧
    (w.initEvent = false → (step env w .kWaitExpire).conn = .done false) := by
  constructor
  · intro hi
    simp only [step, h, hi]
    cases w.helloErr with
    | some e => exact ⟨false, by simp⟩
    | none => exact ⟨true, by simp⟩
  · intro hi
    simp [step, h, hi]

theorem kFinish_fails (env : Env) (w : World) (h : w.conn = .started) (hi : w.initEvent = true)
    (he : w.helloErr.isSome = true) : (step env w .kFinish).conn = .done false := by
  simp only [step, h, hi]
  cases hh : w.helloErr with
  | some e => simp
  | none => simp [hh] at he

theorem dead_session_wakes_connect (env : Env) (ops : List Op)
    (h : (run env Session.init ops).conn = .started)
    (hd : (run env Session.init ops).errbackDone = true) :
    (run env Session.init ops).initEvent = true ∧
      (step env (run env Session.init ops) .kFinish).conn = .done false := by
  have hinv := invD_run env ops
  obtain ⟨hi, he⟩ := hinv.woken hd (hinv.hello (Or.inr (Or.inr h)))
  exact ⟨hi, kFinish_fails env _ h hi he⟩


end NcVerif.SessionB
