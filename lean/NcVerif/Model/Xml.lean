/-
  NcVerif.Model.Xml — element trees and the tree-level logic of ncclient/xml_.py and of the reply
  transforms (devices/junos.py XSLT, devices/alu.py remove_namespaces, devices/sros.py passthrough).

  A document is a `Node` (mixed content as a list of child nodes, so lxml's text/tail are the text
  nodes between elements).  Namespaces are resolved: a name is (namespace URI or none, local name);
  prefixes are a serialisation matter.  Parsing / serialising themselves are the XML library's
  (environment, see Model/XmlText.lean for the character-data part).
-/
import NcVerif.Model.Basic
namespace NcVerif.Xml
open NcVerif

structure QName where
  ns : Option Str
  name : Str
deriving DecidableEq, Repr

inductive Node
  | elem (tag : QName) (attrs : List (QName × Str)) (children : List Node)
  | text (s : Str)
  | comment (s : Str)
  | pi (target : Str) (s : Str)
deriving Repr

/-! ### replace_namespace(root, old_ns, new_ns) -/

def renameQ (old new : Option Str) (q : QName) : QName := if q.ns = old then { q with ns := new } else q

/-- Attributes of one element: those in `old` are popped and re-inserted under the new name
    (dict semantics: re-insertion goes to the end, an existing attribute of that name is overwritten). -/
def replaceAttrs (old new : Option Str) (attrs : List (QName × Str)) : List (QName × Str) :=
  let moved := attrs.filter (fun a => a.1.ns = old)
  let kept := attrs.filter (fun a => a.1.ns ≠ old)
  moved.foldl (fun acc a =>
    let q := renameQ old new a.1
    if acc.any (fun b => b.1 = q) then acc.map (fun b => if b.1 = q then (q, a.2) else b) else acc ++ [(q, a.2)]) kept

mutual
  def replaceNs (old new : Option Str) : Node → Node
    | .elem tag attrs children => .elem (renameQ old new tag) (replaceAttrs old new attrs) (replaceNsList old new children)
    | n => n
  def replaceNsList (old new : Option Str) : List Node → List Node
    | [] => []
    | n :: ns => replaceNs old new n :: replaceNsList old new ns
end

/-! ### validated_element(x, tags, attrs) on the parsed root -/

/-- `tags`: allowed qualified tags (empty = no restriction); `attrs`: each requirement is a list of
    alternatives, one of which must be present. -/
def validated (tags : List QName) (reqs : List (List QName)) : Node → Bool
  | .elem tag attrs _ =>
    (tags.isEmpty || tags.contains tag) &&
    reqs.all fun alts => alts.any fun a => attrs.any fun p => p.1 = a
  | _ => false

/-! ### to_xml's declaration logic -/

def declPrefix : Str := "<?xml".toList
/-- `xml.decode() if xml.startswith(b'<?xml') else '<?xml version="1.0" encoding="%s"?>%s' % (encoding, xml)` -/
def addDecl (decl serialized : Str) : Str := if declPrefix.isPrefixOf serialized then serialized else decl ++ serialized

/-! ### Reply transforms -/

def stripQ (q : QName) : QName := { ns := none, name := q.name }

def isBlank (s : Str) : Bool := s.all isAsciiWs

mutual
  /-- The Junos XSLT (`transform_reply`) applied with a `remove_blank_text` parser: every element and
      attribute is re-created under its local name, comments and PIs are copied, text is copied,
      whitespace-only text nodes are dropped. -/
  def stripNs : Node → List Node
    | .elem tag attrs children => [.elem (stripQ tag) (attrs.map fun a => (stripQ a.1, a.2)) (stripNsList children)]
    | .text s => if isBlank s then [] else [.text s]
    | n => [n]
  def stripNsList : List Node → List Node
    | [] => []
    | n :: ns => stripNs n ++ stripNsList ns
end

mutual
  /-- ALU `remove_namespaces`: element names lose their namespace; attributes, text, comments and
      processing instructions are left alone. -/
  def stripElemNs : Node → Node
    | .elem tag attrs children => .elem (stripQ tag) attrs (stripElemNsList children)
    | n => n
  def stripElemNsList : List Node → List Node
    | [] => []
    | n :: ns => stripElemNs n :: stripElemNsList ns
end

/-- SR OS `passthrough`. -/
def passthrough (n : Node) : Node := n

mutual
  /-- What the property compares: the tree with namespaces forgotten and whitespace-only text dropped. -/
  def shape : Node → List Node
    | .elem tag attrs children => [.elem (stripQ tag) (attrs.map fun a => (stripQ a.1, a.2)) (shapeList children)]
    | .text s => if isBlank s then [] else [.text s]
    | n => [n]
  def shapeList : List Node → List Node
    | [] => []
    | n :: ns => shape n ++ shapeList ns
end

mutual
  def hasNs : Node → Bool
    | .elem tag attrs children => tag.ns.isSome || attrs.any (fun a => a.1.ns.isSome) || hasNsList children
    | _ => false
  def hasNsList : List Node → Bool
    | [] => false
    | n :: ns => hasNs n || hasNsList ns
end

/-- `root.find(qualify("data"))`: the first child element with that qualified name. -/
def findChild (q : QName) : Node → Option Node
  | .elem _ _ children => children.find? fun c => match c with | .elem t _ _ => t = q | _ => false
  | _ => none

end NcVerif.Xml
