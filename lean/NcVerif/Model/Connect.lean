/-
  NcVerif.Model.Connect — order of events in `SSHSession.connect` / `_auth` (transport/ssh.py) and in
  `TLSSession.connect` (transport/tls.py).  Cryptographic verdicts (does the server key equal the
  pinned / a known key, does a credential authenticate, does the certificate chain verify) are the
  environment's answers in `Cfg`; the model fixes WHEN each is asked and what follows.
-/
import NcVerif.Model.Basic
namespace NcVerif.Connect
open NcVerif

inductive Known | absent | underHost | underHostPort | differentKey
deriving DecidableEq, Repr
inductive Pin | absent | matching | different
deriving DecidableEq, Repr

structure Cfg where
  verify : Bool                      -- hostkey_verify
  known : Known                      -- what known_hosts holds for this server
  pinned : Pin                       -- hostkey_b64
  cbAccepts : Bool                   -- verdict of the effective unknown_host_cb (profile overrides included)
  negotiates : Bool                  -- start_client succeeds
  auths : List Bool                  -- the authentication attempts `_auth` will make, in order, and whether each succeeds
  subsystems : List Bool             -- for each subsystem candidate: does the server accept it
deriving DecidableEq, Repr

inductive Ev
  | startClient
  | keyCheck (known : Bool)          -- comparison of the server key with pinned key / known_hosts
  | callback (accepted : Bool)       -- unknown_host_cb consulted
  | auth (i : Nat) (ok : Bool)       -- i-th credential offered
  | openSession
  | subsystem (i : Nat) (ok : Bool)
  | hello                            -- `_post_connect`: client <hello> queued, NETCONF traffic starts
deriving DecidableEq, Repr

inductive Res | connected | negotiationFailed | unknownHost | authenticationError | noSubsystem
deriving DecidableEq, Repr

/-- `is_known_host`: with a pinned key only the pinned key counts; otherwise known_hosts under the
    host name or under `[host]:port`. -/
def isKnown (c : Cfg) : Bool :=
  match c.pinned with
  | .matching => true
  | .different => false
  | .absent => c.known = .underHost || c.known = .underHostPort

/-- `_auth`: credentials are offered in turn until one succeeds. -/
def authTrace : Nat → List Bool → List Ev × Bool
  | _, [] => ([], false)
  | i, ok :: rest =>
    if ok then ([.auth i true], true)
    else let (evs, r) := authTrace (i + 1) rest; (.auth i false :: evs, r)

/-- The subsystem loop: open a channel per candidate until one is accepted; then `_post_connect`. -/
def subsystemTrace : Nat → List Bool → List Ev × Bool
  | _, [] => ([], false)
  | i, ok :: rest =>
    if ok then ([.openSession, .subsystem i true, .hello], true)
    else let (evs, r) := subsystemTrace (i + 1) rest; (.openSession :: .subsystem i false :: evs, r)

/-- `SSHSession.connect` after the socket is up. -/
def sshTrace (c : Cfg) : List Ev × Res :=
  if !c.negotiates then ([.startClient], .negotiationFailed) else
  let pre : List Ev := [.startClient]
  let (chk, accepted) : List Ev × Bool :=
    if c.verify then
      let k := isKnown c
      if k then ([.keyCheck true], true)
      else ([.keyCheck false, .callback c.cbAccepts], c.cbAccepts)
    else ([], true)
  if !accepted then (pre ++ chk, .unknownHost) else
  let (au, ok) := authTrace 0 c.auths
  if !ok then (pre ++ chk ++ au, .authenticationError) else
  let (su, ok2) := subsystemTrace 0 c.subsystems
  (pre ++ chk ++ au ++ su, if ok2 then .connected else .noSubsystem)

/-! ### TLS -/

structure TlsCfg where
  hasHost : Bool
  hasCert : Bool
  hasProtocol : Bool
  tcpConnects : Bool
  handshakeOk : Bool        -- OpenSSL: chain to the given CA (+ host name when checking is on)
deriving DecidableEq, Repr

inductive TlsEv | context (certRequired : Bool) | tcp | handshake (ok : Bool) | hello
deriving DecidableEq, Repr
inductive TlsRes | connected | tlsError
deriving DecidableEq, Repr

/-- `TLSSession.connect`. -/
def tlsTrace (c : TlsCfg) : List TlsEv × TlsRes :=
  if !(c.hasHost && c.hasCert && c.hasProtocol) then ([], .tlsError) else
  if !c.tcpConnects then ([.context true, .tcp], .tlsError) else
  if !c.handshakeOk then ([.context true, .tcp, .handshake false], .tlsError)
  else ([.context true, .tcp, .handshake true, .hello], .connected)

end NcVerif.Connect
