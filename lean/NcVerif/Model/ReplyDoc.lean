/-
  NcVerif.Model.ReplyDoc — from the reply DOCUMENT to what `RPCReply.parse` and `RPCError.__init__`
  extract from it (operations/rpc.py):

    ok   = root.find(qualify("ok"))                       -- a direct child
    errs = root.getiterator(qualify("rpc-error"))         -- the root itself and all descendants, document order
    per rpc-error: for subele in raw: attr = tag_to_attr.get(subele.tag); setattr(attr, subele.text | to_xml(subele))
                                                          -- direct children, a later one overwrites an earlier one

  Trees are `XmlDoc.XNode`; the harness hands over the parsed reply with base-namespace elements under
  their local names and everything else under `{ns}local`, so that a name comparison here is the
  qualified-name comparison of the code.
-/
import NcVerif.Model.XmlDoc
import NcVerif.Model.RpcError
namespace NcVerif.ReplyDoc
open NcVerif NcVerif.XmlDoc NcVerif.RpcError

def nameOf : XNode → Str
  | .elem n _ _ => n
  | .text _ => []

def kids : XNode → List XNode
  | .elem _ _ cs => cs
  | .text _ => []

def isElem : XNode → Bool
  | .elem _ _ _ => true
  | .text _ => false

mutual
  /-- The element itself and all its descendant elements, in document order (`getiterator`). -/
  def desc : XNode → List XNode
    | .elem n a cs => .elem n a cs :: descList cs
    | .text _ => []
  def descList : List XNode → List XNode
    | [] => []
    | x :: xs => desc x ++ descList xs
end

/-- lxml's `.text`: the character data before the first child element, `None` if there is none. -/
def leadText : XNode → Option Str
  | .elem _ _ (.text s :: _) => some s
  | _ => none

def named (f : String) (x : XNode) : Bool := isElem x && nameOf x = f.toList

/-- The LAST direct child called `f` (a later `setattr` overwrites an earlier one). -/
def lastChild (e : XNode) (f : String) : Option XNode := ((kids e).filter (named f)).getLast?

def textField (e : XNode) (f : String) : Option Str := (lastChild e f).bind leadText

/-- `RPCError.__init__` for one `rpc-error` element. -/
def errOf (e : XNode) : Err :=
  { type := textField e "error-type", tag := textField e "error-tag", severity := textField e "error-severity",
    appTag := textField e "error-app-tag", path := textField e "error-path", message := textField e "error-message",
    hasInfo := (lastChild e "error-info").isSome }

def errorElems (root : XNode) : List XNode := (desc root).filter (named "rpc-error")

/-- `RPCReply.parse`. -/
def ofDoc (root : XNode) : Reply :=
  { hasOk := (kids root).any (named "ok"), errs := (errorElems root).map errOf }

end NcVerif.ReplyDoc
