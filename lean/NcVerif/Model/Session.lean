/-
  NcVerif.Model.Session — small-step model of the concurrent core of ncclient:

    transport/session.py   Session.run / send / _dispatch_message / _dispatch_error / _post_connect /
                           take_notification, HelloHandler, NotificationHandler
    operations/rpc.py      RPC.__init__ (register), _request (send / wait / raise), deliver_reply,
                           deliver_error, RPCReplyListener.callback / errback
    transport/{ssh,tls,unixSocket}.py   close()

  One `Op` = one atomic action at synchronisation-point granularity (DESIGN.md Appendix A): a step
  either holds the lock named in its comment or touches at most one shared word.  Worker steps are
  indexed by the worker's program counter `WPc`; the answers of the transport primitives
  (`_send_ready`, `_transport_write`, `select`, `_transport_read`) are parameters of the step, i.e.
  chosen by the environment.  Everything the environment's XML library decides about a message
  (`parse_root`, `Notification(raw)`, `HelloHandler.parse`) is the `Env` parameter.

  A history is a `List Op`; every interleaving of client threads, the worker and the network at this
  granularity is some history, and the theorems quantify over all of them.
-/
import NcVerif.Model.Basic
import NcVerif.Model.Framing
import NcVerif.Model.Caps
namespace NcVerif.Session
open NcVerif NcVerif.Framing

/-- How the listeners classify the root tag handed to them by `parse_root`. -/
inductive Tag
  | rpcReplyBase      -- `{urn:ietf:params:xml:ns:netconf:base:1.0}rpc-reply`
  | rpcReplyOther     -- local name `rpc-reply`, other / no namespace
  | notification      -- `{urn:ietf:params:xml:ns:netconf:notification:1.0}notification`
  | hello             -- `{base}hello` or `hello`
  | other
deriving DecidableEq, Repr

structure Root where
  tag : Tag
  mid : Option Nat          -- the `message-id` attribute, if present (ids are abstract naturals)
deriving DecidableEq, Repr

/-- Outcome of the first half of `_dispatch_message` (parse_root / handle_raw_dispatch). -/
inductive Class
  | root (r : Root)     -- parse_root succeeded (possibly on the device-handled text)
  | drop                -- unparsable, device handler returned False: logged and dropped
  | rawErr              -- device handler returned an Exception: `_dispatch_error(exc)`, session continues
  | fatal               -- device handler returned text that does not parse: exception in the worker
deriving DecidableEq, Repr

inductive ErrK
  | sessionClose      -- SessionCloseError (a TransportError)
  | transport         -- another TransportError / OSError from the transport, `TransportError('Session closed')`
  | framing           -- NetconfFramingError (a TransportError)
  | decode            -- UnicodeDecodeError
  | operation         -- OperationError raised by RPCReplyListener.callback
  | xml               -- XMLSyntaxError from `Notification(raw)` / fatal dispatch
  | rawDispatch       -- the exception object returned by handle_raw_dispatch
deriving DecidableEq, Repr

/-- Environment: the XML library's verdicts and the device profile's switches. -/
structure Env where
  classify : Str → Class
  qualify : Bool                              -- device_handler.perform_qualify_check()
  notifOk : Str → Bool                        -- `Notification(raw)` (full parse) succeeds
  helloParse : Str → Option (Str × List Str)  -- HelloHandler.parse: (session-id, capability URIs) or exception
  clientCaps : List Str                       -- session._client_capabilities
  joins : Bool                                -- close() joins the worker (SSH) or not (TLS / Unix)

/-- One RPC object: what `deliver_reply` / `deliver_error` wrote and whether its event is set. -/
structure Rpc where
  id : Nat
  reply : Option Str := none
  error : Option ErrK := none
  event : Bool := false
  deliveries : Nat := 0          -- history variable: number of `deliver_reply` calls
  lateBorn : Bool := false       -- history variable: created after the worker had delivered its final error
deriving DecidableEq, Repr

/-- An entry of `_q`: the text and whether it is the marked client `<hello>`. -/
structure QItem where
  data : Bytes
  isHello : Bool
deriving DecidableEq, Repr

inductive WPc
  | notStarted
  | top                              -- evaluating `not q.empty() and self._send_ready()`
  | writing (data : Bytes)           -- in `while data:` before `_transport_write(data)`
  | select                           -- before `s.select(timeout=TICK)`
  | read                             -- before `_transport_read()`
  | dispatching (todo : List Out)    -- inside `parser.parse`: outputs not yet dispatched
  | failing (e : ErrK)               -- in `except Exception`: before `_dispatch_error(e)`
  | closingSelf                      -- after `_dispatch_error(e)`, before `self.close()`
  | exiting                          -- left the loop by `break`: before `_dispatch_error(TransportError)`
  | stopped
deriving DecidableEq, Repr

inductive ConnPc
  | idle | listenersAdded | helloQueued | started | done (ok : Bool)
deriving DecidableEq, Repr

structure World where
  base11 : Bool := false
  connected : Bool := true            -- set by the transport's connect() before _post_connect
  closing : Bool := false
  socketClosed : Bool := false
  pc : WPc := .notStarted
  q : List QItem := []
  notifQ : List Str := []
  hasNotif : Bool := false            -- NotificationHandler registered
  hasHello : Bool := false            -- HelloHandler registered
  hasReplyL : Bool := false           -- RPCReplyListener registered
  id2rpc : List Nat := []             -- keys of `_id2rpc` (insertion order)
  rpcs : List Rpc := []               -- every RPC object ever created
  wire : Bytes := []                  -- bytes accepted by the transport so far
  frames : List Bytes := []           -- history variable: frames the worker started to write
  puts : List QItem := []             -- history variable: everything ever put on `_q`, in `Queue.put` order
  dequeued : List (QItem × Bool) := [] -- history variable: items taken off `_q` with the `_base` read at that moment
  errbackDone : Bool := false         -- history variable: the worker has run its final `_dispatch_error`
  parser : PState := {}
  received : List Str := []           -- history variable: messages handed to `_dispatch_message`
  taken : List Str := []              -- history variable: notifications returned by take_notification
  initEvent : Bool := false
  helloErr : Option ErrK := none
  sessionId : Option Str := none
  serverCaps : Option (List Str) := none
  conn : ConnPc := .idle
  connWaitExpired : Bool := false
deriving Repr

def init : World := {}

inductive ReadRes
  | data (d : Bytes)
  | eof
  | err
deriving DecidableEq, Repr

inductive Op
  -- client threads
  | cNew (id : Nat)                       -- RPC.__init__: RPCReplyListener(session) [creation_lock, Session._lock]; register [listener._lock]
  | cSend (data : Bytes)                  -- Session.send: reads `connected`; Queue.put
  | cTake                                 -- take_notification(block=False) / a blocking one that returns
  | cCloseBegin                           -- close(): `_closing.set()`, close socket / transport
  | cCloseEnd                             -- close(): (SSH: after join) `_connected = False`
  -- the connecting thread, `_post_connect`
  | kAddListeners
  | kSendHello (data : Bytes)
  | kStart
  | kWaitExpire                           -- init_event.wait(timeout) timed out
  | kFinish                               -- after the wait: remove HelloHandler; raise or select base
  -- the worker, one step per program point; parameters are the environment's answers
  | wTop (ready : Bool)
  | wWrite (n : Int)
  | wWriteErr                             -- `_transport_write` raised (e.g. socket closed locally)
  | wSelect (ev : Bool)
  | wRead (r : ReadRes)
  | wDispatch
  | wErrback
  | wCloseSelf
  | wExit
deriving DecidableEq, Repr

def updRpc (rpcs : List Rpc) (id : Nat) (f : Rpc → Rpc) : List Rpc :=
  rpcs.map fun r => if r.id = id then f r else r

/-- `rpc.deliver_error(err)` for every id in `ids`. -/
def failAll (rpcs : List Rpc) (ids : List Nat) (e : ErrK) : List Rpc :=
  rpcs.map fun r => if r.id ∈ ids then { r with error := some e, event := true } else r

/-- `_dispatch_error(e)`: HelloHandler.errback stores the error and sets the event;
    NotificationHandler.errback does nothing; RPCReplyListener.errback takes a snapshot of the
    table and clears it under `listener._lock`, then delivers the error to each request. -/
def dispatchError (w : World) (e : ErrK) : World :=
  let w1 := if w.hasHello then { w with helloErr := some e, initEvent := true } else w
  if w1.hasReplyL then { w1 with rpcs := failAll w1.rpcs w1.id2rpc e, id2rpc := [] } else w1

/-- Does RPCReplyListener.callback look at this root at all? (`perform_qualify_check` / local name) -/
def replyAccepts (env : Env) (t : Tag) : Bool :=
  match t with
  | .rpcReplyBase => true
  | .rpcReplyOther => !env.qualify
  | _ => false

def base11Uri : Str := "urn:ietf:params:netconf:base:1.1".toList

/-- `_dispatch_message(raw)`: returns the new world and the exception escaping to `run`, if any. -/
def dispatchMessage (env : Env) (w : World) (raw : Str) : World × Option ErrK :=
  let w := { w with received := w.received ++ [raw] }
  match env.classify raw with
  | .drop => (w, none)
  | .rawErr => (dispatchError w .rawDispatch, none)
  | .fatal => (w, some .xml)
  | .root r =>
    match r.tag with
    | .hello =>
      if w.hasHello then
        match env.helloParse raw with
        | some (sid, caps) => ({ w with sessionId := some sid, serverCaps := some caps, initEvent := true }, none)
        | none => ({ w with helloErr := some .xml, initEvent := true }, none)
      else (w, none)
    | .notification =>
      if w.hasNotif then
        if env.notifOk raw then ({ w with notifQ := w.notifQ ++ [raw] }, none)
        else (w, some .xml)
      else (w, none)
    | t =>
      if w.hasReplyL && replyAccepts env t then
        match r.mid with
        | none => (w, some .operation)
        | some id =>
          if id ∈ w.id2rpc then
            ({ w with
                rpcs := updRpc w.rpcs id fun rpc => { rpc with reply := some raw, event := true, deliveries := rpc.deliveries + 1 },
                id2rpc := w.id2rpc.erase id }, none)
          else (w, some .operation)
      else (w, none)

/-- The transition function.  Steps that are not enabled in the current state leave it unchanged. -/
def step (env : Env) (w : World) : Op → World
  | .cNew id =>
    { w with hasReplyL := true,
             id2rpc := if id ∈ w.id2rpc then w.id2rpc else w.id2rpc ++ [id],
             rpcs := if w.rpcs.any (·.id = id) then w.rpcs else w.rpcs ++ [{ id := id, lateBorn := w.errbackDone }] }
  | .cSend data =>
    if w.connected then { w with q := w.q ++ [⟨data, false⟩], puts := w.puts ++ [⟨data, false⟩] } else w
  | .cTake =>
    match w.notifQ with
    | [] => w
    | n :: rest => { w with notifQ := rest, taken := w.taken ++ [n] }
  | .cCloseBegin => { w with closing := true, socketClosed := true }
  | .cCloseEnd =>
    if w.closing && (!env.joins || w.pc = .stopped || w.pc = .notStarted) then { w with connected := false } else w
  | .kAddListeners =>
    if w.conn = .idle then { w with hasNotif := true, hasHello := true, conn := .listenersAdded } else w
  | .kSendHello data =>
    if w.conn = .listenersAdded then
      if w.connected then { w with q := w.q ++ [⟨data, true⟩], puts := w.puts ++ [⟨data, true⟩], conn := .helloQueued }
      else { w with conn := .done false }
    else w
  | .kStart =>
    if w.conn = .helloQueued && w.pc = .notStarted then { w with pc := .top, conn := .started } else w
  | .kWaitExpire =>
    if w.conn = .started && !w.initEvent then { w with connWaitExpired := true, conn := .done false } else w
  | .kFinish =>
    if w.conn = .started && w.initEvent then
      let w1 := { w with hasHello := false }
      match w1.helloErr with
      | some _ => { w1 with conn := .done false }
      | none =>
        let both := match w1.serverCaps with
          | some sc => Caps.contains (Caps.mk sc) base11Uri && Caps.contains (Caps.mk env.clientCaps) base11Uri
          | none => false
        { w1 with base11 := w1.base11 || both, conn := .done true }
    else w
  | .wTop ready =>
    if w.pc = .top then
      match w.q with
      | item :: rest =>
        if ready then
          let data := frame (w.base11 && !item.isHello) item.data
          { w with q := rest, frames := w.frames ++ [data], dequeued := w.dequeued ++ [(item, w.base11)], pc := .writing data }
        else { w with pc := .select }
      | [] => { w with pc := .select }
    else w
  | .wWrite n =>
    match w.pc with
    | .writing data =>
      if n ≤ 0 then { w with pc := .failing .sessionClose }
      else
        let k := n.toNat
        let rest := data.drop k
        { w with wire := w.wire ++ data.take k, pc := if rest.isEmpty then .select else .writing rest }
    | _ => w
  | .wWriteErr =>
    match w.pc with
    | .writing _ => { w with pc := .failing .transport }
    | _ => w
  | .wSelect ev =>
    if w.pc = .select then
      if ev then { w with pc := .read }
      else if w.closing then { w with pc := .exiting }
      else { w with pc := .top }
    else w
  | .wRead r =>
    if w.pc = .read then
      match r with
      | .data d =>
        if d.isEmpty then
          if w.closing then { w with pc := .exiting } else { w with pc := .failing .sessionClose }
        else
          let (p', outs) := feed w.base11 w.parser d
          { w with parser := p', pc := if outs.isEmpty then .top else .dispatching outs }
      | .eof => if w.closing then { w with pc := .exiting } else { w with pc := .failing .sessionClose }
      | .err => { w with pc := .failing .transport }
    else w
  | .wDispatch =>
    match w.pc with
    | .dispatching (o :: rest) =>
      match o with
      | .raise .framing => { w with pc := .failing .framing }
      | .raise .decode => { w with pc := .failing .decode }
      | .deliver raw =>
        match dispatchMessage env w raw with
        | (w', some e) => { w' with pc := .failing e }
        | (w', none) => { w' with pc := if rest.isEmpty then .top else .dispatching rest }
    | .dispatching [] => { w with pc := .top }
    | _ => w
  | .wErrback =>
    match w.pc with
    | .failing e => { dispatchError w e with pc := .closingSelf, errbackDone := true }
    | _ => w
  | .wCloseSelf =>
    if w.pc = .closingSelf then { w with closing := true, socketClosed := true, connected := false, pc := .stopped } else w
  | .wExit =>
    if w.pc = .exiting then { dispatchError w .transport with pc := .stopped, errbackDone := true } else w

def run (env : Env) (w : World) (ops : List Op) : World := ops.foldl (step env) w

/-- What `_request` does once it stops waiting on request `id`. -/
inductive Outcome
  | reply (raw : Str)
  | raised (e : ErrK)
  | timedOut
deriving DecidableEq, Repr

def outcome (w : World) (id : Nat) : Option Outcome :=
  (w.rpcs.find? (·.id = id)).map fun r =>
    if r.event then
      match r.error with
      | some e => .raised e          -- the stored error wins over a reply
      | none => match r.reply with
        | some raw => .reply raw
        | none => .timedOut
    else .timedOut

end NcVerif.Session
