/-
  NcVerif.Model.Framing — mirrors ncclient/transport/parser.py `DefaultXMLParser.parse/_parse10/_parse11`
  (inbound) and the frame construction in `Session.run` (outbound), session.py.

  Conventions (DESIGN.md §4): the tail recursion of `_parse10/_parse11` and the `while` loop become
  fuel-indexed structural recursion with fuel = buffer length + 1 (`fuel_suffices_*` lemmas);
  the two regular expressions become the token recogniser `token`, whose outcomes
  `chunk/endMsg/need/bad` keep "wait for more" and "can never match" apart; exceptions are explicit
  outputs.  After an output `raise _` the worker leaves its loop (`Session.run`), so `feedAll` stops.
-/
import NcVerif.Model.Basic
import NcVerif.Model.Utf8
namespace NcVerif.Framing
open NcVerif

/-- `MSG_DELIM_BYTES = b"]]>]]>"` -/
def delim10 : Bytes := [0x5d, 0x5d, 0x3e, 0x5d, 0x5d, 0x3e]
/-- `END_DELIM = b"\n##\n"` -/
def endDelim11 : Bytes := [0x0a, 0x23, 0x23, 0x0a]

inductive ErrKind
  | framing      -- NetconfFramingError
  | decode       -- UnicodeDecodeError
deriving DecidableEq, Repr

inductive Out
  | deliver (msg : Str)     -- `_dispatch_message(msg)`
  | raise (k : ErrKind)
deriving DecidableEq, Repr

/-- Parser state kept on the session: `_buffer`, `_parsing_pos10`, `_message_list`. -/
structure PState where
  buf : Bytes := []
  pos10 : Nat := 0
  chunks : List Bytes := []
deriving DecidableEq, Repr

def init : PState := {}

/-- `bytes.strip()`'s whitespace set. -/
def isBlankByte (b : UInt8) : Bool :=
  b = 0x20 || b = 0x09 || b = 0x0a || b = 0x0d || b = 0x0b || b = 0x0c

/-- `bytes.partition(sep)`: `(before, after)` of the first occurrence, if any. -/
def partition (sep : Bytes) (s : Bytes) : Option (Bytes × Bytes) :=
  (findSub sep s).map fun i => (s.take i, s.drop (i + sep.length))

/-! ### 1.0 (RFC 4742) -/

/-- `_parse10` (after `parse` appended the new data). -/
def parse10 : Nat → PState → PState × List Out
  | 0, s => (s, [])
  | fuel + 1, s =>
    -- buf.seek(self._parsing_pos10); if MSG_DELIM_BYTES in buf.read():
    if hasSub delim10 (s.buf.drop s.pos10) then
      match partition delim10 s.buf with
      | none => (s, [])                                     -- unreachable (see `partition_of_hasSub`)
      | some (msg, remaining) =>
        match Utf8.decode msg with
        | none => (s, [.raise .decode])                      -- msg.decode('UTF-8') raises
        | some text =>
          let out := Out.deliver (pyStrip text)
          let s' : PState := { s with buf := [], pos10 := 0 }
          if (stripBy isBlankByte remaining).length > 0 then
            let (s'', outs) := parse10 fuel { s' with buf := remaining }
            (s'', out :: outs)
          else (s', [out])
    else
      -- self._parsing_pos10 = buf.tell() - MSG_DELIM_LEN, clamped at 0
      ({ s with pos10 := s.buf.length - delim10.length }, [])

/-! ### 1.1 (RFC 6242) -/

inductive Tok
  | chunk (size : Nat) (used : Nat)   -- `\n#<size>\n`, `used` = length of the header
  | endMsg                            -- `\n##\n`
  | need                              -- a proper prefix of a delimiter (RE_NC11_DELIM_PARTIAL)
  | bad                               -- can never become a delimiter
deriving DecidableEq, Repr

def isDigit (b : UInt8) : Bool := 0x30 ≤ b && b ≤ 0x39
def isDigit19 (b : UInt8) : Bool := 0x31 ≤ b && b ≤ 0x39

/-- `int(digits)` for an ASCII digit string. -/
def digitsVal (ds : Bytes) : Nat := ds.foldl (fun acc d => acc * 10 + (d.toNat - 0x30)) 0

/-- `RE_NC11_DELIM.match(data)` followed, on failure, by `RE_NC11_DELIM_PARTIAL.fullmatch(data)`. -/
def token : Bytes → Tok
  | [] => .need                      -- (the loop is not entered on empty data)
  | [0x0a] => .need
  | [0x0a, 0x23] => .need
  | 0x0a :: 0x23 :: c :: rest =>
    if c = 0x23 then
      match rest with
      | [] => .need
      | d :: _ => if d = 0x0a then .endMsg else .bad
    else if isDigit19 c then
      let ds := c :: rest.takeWhile isDigit
      match rest.dropWhile isDigit with
      | [] => .need
      | d :: _ => if d = 0x0a then .chunk (digitsVal ds) (ds.length + 3) else .bad
    else .bad
  | _ => .bad

/-- The `while` loop of `_parse11` together with its tail call, as one machine over
    `(rest of the buffer, _message_list)`. -/
def run11 : Nat → Bytes → List Bytes → PState × List Out
  | 0, rest, chunks => ({ buf := rest, chunks := chunks }, [])
  | fuel + 1, rest, chunks =>
    if rest.isEmpty then ({ buf := [], chunks := chunks }, []) else
    match token rest with
    | .need => ({ buf := rest, chunks := chunks }, [])
    | .bad => ({ buf := rest, chunks := chunks }, [.raise .framing])
    | .chunk size used =>
      if rest.length ≥ used + size then
        run11 fuel (rest.drop (used + size)) (chunks ++ [(rest.drop used).take size])
      else ({ buf := rest, chunks := chunks }, [])
    | .endMsg =>
      if chunks.isEmpty then ({ buf := rest, chunks := chunks }, [.raise .framing])
      else
        match Utf8.decode chunks.flatten with
        | none => ({ buf := rest, chunks := [] }, [.raise .decode])
        | some text =>
          let (s', outs) := run11 fuel (rest.drop 4) []
          (s', .deliver text :: outs)

def parse11 (s : PState) : PState × List Out :=
  let (s', outs) := run11 (s.buf.length + 1) s.buf s.chunks
  ({ s' with pos10 := s.pos10 }, outs)

/-- `DefaultXMLParser.parse(data)` for `_base` = 1.1 (`base11 = true`) or 1.0. -/
def feed (base11 : Bool) (s : PState) (data : Bytes) : PState × List Out :=
  if data.isEmpty then (s, []) else
  let s1 := { s with buf := s.buf ++ data }
  if base11 then parse11 s1 else parse10 (s1.buf.length + 1) s1

def hasRaise (outs : List Out) : Bool := outs.any fun o => match o with | .raise _ => true | _ => false

/-- The worker feeds each transport read to the parser until one raises. -/
def feedAll (base11 : Bool) : PState → List Bytes → PState × List Out
  | s, [] => (s, [])
  | s, seg :: segs =>
    let (s1, o1) := feed base11 s seg
    if hasRaise o1 then (s1, o1) else
    let (s2, o2) := feedAll base11 s1 segs
    (s2, o1 ++ o2)

/-- What the session (and the property) can see of a run: the messages dispatched, in order, and
    the error that ended it, if any.  The residual buffer is deliberately not part of it. -/
def obs (r : PState × List Out) : List Out := r.2

/-! ### Outbound (Session.run send branch) -/

/-- ASCII decimal of a natural number (`b"%i" % n`). -/
def natDigits (n : Nat) : Bytes := (Nat.toDigits 10 n).map fun c => UInt8.ofNat c.toNat

/-- `start_delim(len(data)) + data + END_DELIM` / `data + MSG_DELIM`. -/
def frame (base11 : Bool) (data : Bytes) : Bytes :=
  if base11 then [0x0a, 0x23] ++ natDigits data.length ++ [0x0a] ++ data ++ endDelim11
  else data ++ delim10

/-- Stream a server would send for messages cut into chunks (1.1) / whole messages (1.0). -/
def chunk11 (c : Bytes) : Bytes := [0x0a, 0x23] ++ natDigits c.length ++ [0x0a] ++ c
def enc11msg (cs : List Bytes) : Bytes := (cs.map chunk11).flatten ++ endDelim11
def enc11 (mss : List (List Bytes)) : Bytes := (mss.map enc11msg).flatten
def enc10 (ms : List Bytes) : Bytes := (ms.map (· ++ delim10)).flatten

/-- The `while data:` write loop: `script` lists what successive `_transport_write` calls return
    (clamped by Python slicing when larger than what is left).  Result: bytes on the wire and
    whether the loop ended normally (`true`) or raised SessionCloseError (`false`);
    `none` = the script ran out (the loop is still writing). -/
def writeLoop : List Int → Bytes → Bytes → Option (Bytes × Bool)
  | _, [], wire => some (wire, true)
  | [], _ :: _, _ => none
  | n :: script, data@(_ :: _), wire =>
    if n ≤ 0 then some (wire, false)
    else writeLoop script (data.drop n.toNat) (wire ++ data.take n.toNat)

end NcVerif.Framing
