/-
  NcVerif.Model.RpcError — mirrors operations/rpc.py (`RPCError.__init__` for one and for several
  errors, `RPCReply.parse/ok/errors`, the raise block of `RPC._request`) and devices/default.py
  (`__init__` sorting the exempt patterns, `is_rpc_error_exempt`).
  Text fields are `Option Str` (absent element = `None`); `error-info` is kept only as presence.
-/
import NcVerif.Model.Basic
namespace NcVerif.RpcError
open NcVerif

structure Err where
  type : Option Str := none
  tag : Option Str := none
  severity : Option Str := none
  appTag : Option Str := none
  path : Option Str := none
  message : Option Str := none
  hasInfo : Bool := false
deriving DecidableEq, Repr

/-- What `RPCReply.parse` sees: is there an `<ok/>` child, and the `rpc-error` elements in document order. -/
structure Reply where
  hasOk : Bool
  errs : List Err
deriving DecidableEq, Repr

/-- `RPCReply.errors` -/
def errors (r : Reply) : List Err := if r.hasOk then [] else r.errs
/-- `RPCReply.ok` -/
def ok (r : Reply) : Bool := (errors r).isEmpty

/-- The four tables built by `DefaultDeviceHandler.__init__` from `_EXEMPT_ERRORS` / `ignore_errors`. -/
structure Patterns where
  exact : List Str := []
  startWild : List Str := []     -- pattern began with '*': text must END with it
  endWild : List Str := []       -- pattern ended with '*': text must START with it
  fullWild : List Str := []
deriving DecidableEq, Repr

def dropLast {α} (l : List α) : List α := l.take (l.length - 1)

def addPattern (p : Patterns) (raw : Str) : Patterns :=
  let e := lowerAscii raw
  if e.head? = some '*' then
    if e.getLast? = some '*' then { p with fullWild := p.fullWild ++ [dropLast (e.drop 1)] }   -- e[1:-1]
    else { p with startWild := p.startWild ++ [e.drop 1] }
  else if e.getLast? = some '*' then { p with endWild := p.endWild ++ [dropLast e] }
  else { p with exact := p.exact ++ [e] }

def mkPatterns (raws : List Str) : Patterns := raws.foldl addPattern {}

def noErrorGiven : Str := "no error given".toList

/-- `is_rpc_error_exempt(error_text)` -/
def isExempt (p : Patterns) (msg : Option Str) : Bool :=
  let text := match msg with
    | some m => pyStrip (lowerAscii m)
    | none => noErrorGiven
  p.exact.any (fun ex => decide (text = ex)) ||
  p.startWild.any (fun ex => ex.isSuffixOf text) ||
  p.endWild.any (fun ex => ex.isPrefixOf text) ||
  p.fullWild.any (fun ex => hasSub ex text)

inductive Mode | none | errors | all
deriving DecidableEq, Repr

def sevError : Str := "error".toList
def sevWarning : Str := "warning".toList

/-- What is raised: the single error itself, or an aggregate carrying all errors. -/
inductive Raised
  | single (e : Err)
  | aggregate (errs : List Err) (severity : Str)
deriving DecidableEq, Repr

/-- `RPCError(raw, errs=errors)`: severity of the aggregate. -/
def aggregateSeverity (errs : List Err) : Str :=
  if errs.any (fun e => decide (e.severity = some sevError)) then sevError else sevWarning

/-- The raise block of `_request` (after `self._reply.parse()`). -/
def raises (mode : Mode) (p : Patterns) (r : Reply) : Option Raised :=
  let es := errors r
  let relevant := es.filter fun e => !isExempt p e.message
  if !relevant.isEmpty &&
     (mode = .all || (mode = .errors && relevant.any (fun e => decide (e.severity = some sevError)))) then
    match es with
    | [e] => some (.single e)
    | _ => some (.aggregate es (aggregateSeverity es))
  else none

end NcVerif.RpcError
