/-
  NcVerif.Model.Ops — the capability gate (`RPC._assert`, `RPC.__init__` DEPENDS loop) and the
  with-defaults mode validation of operations/retrieve.py, over the capability model of Model/Caps.
-/
import NcVerif.Model.Caps
namespace NcVerif.Ops
open NcVerif NcVerif.Caps

inductive Refusal | missingCapability (c : Str) | withDefaults
deriving DecidableEq, Repr

/-- `_assert(c)` for each required capability in turn: the first one missing raises. -/
def gate (caps : Caps) : List Str → Option Refusal
  | [] => none
  | c :: rest => if contains caps c then gate caps rest else some (.missingCapability c)

def kWithDefaults : Str := ":with-defaults".toList
def kBasicMode : Str := "basic-mode".toList
def kAlsoSupported : Str := "also-supported".toList

/-- `_get_valid_with_defaults_modes(capabilities)` -/
def validModes (caps : Caps) : Option (List Str) :=
  match getItem caps kWithDefaults with
  | .error _ => none                                   -- (the caller asserted :with-defaults first)
  | .ok cap =>
    match dictGet cap.params kBasicMode with
    | none => none                                      -- WithDefaultsError: missing basic-mode
    | some b =>
      match dictGet cap.params kAlsoSupported with
      | none => some [b]
      | some a => some (b :: splitOn ',' a)

/-- `self._assert(":with-defaults"); _validate_with_defaults_mode(mode, capabilities)` -/
def withDefaultsGate (caps : Caps) (mode : Str) : Option Refusal :=
  if !contains caps kWithDefaults then some (.missingCapability kWithDefaults)
  else match validModes caps with
    | none => some .withDefaults
    | some modes => if lowerAscii (pyStrip mode) ∈ modes then none else some .withDefaults

end NcVerif.Ops
