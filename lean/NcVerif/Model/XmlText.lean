/-
  NcVerif.Model.XmlText — the character-data discipline of the XML library as ncclient relies on it:
  how lxml/libxml2 serialises text nodes and attribute values (`escapeText`, `escapeAttr`) and how an
  XML 1.0 parser reads them back (`readText`, `readAttr`: entity / character references, line-end
  normalisation §2.11, attribute-value normalisation §3.3.3).  Compared with lxml (serialising) and
  with expat / xml.etree (reading) on every correspondence run.
-/
import NcVerif.Model.Basic
namespace NcVerif.XmlText
open NcVerif

def amp : Str := "&amp;".toList
def lt : Str := "&lt;".toList
def gt : Str := "&gt;".toList
def quot : Str := "&quot;".toList
def cr : Str := "&#13;".toList
def lf : Str := "&#10;".toList
def tab : Str := "&#9;".toList

/-- libxml2 `xmlEscapeContent` as used for text nodes. -/
def escTextChar (c : Char) : Str :=
  if c = '&' then amp else if c = '<' then lt else if c = '>' then gt else if c = '\r' then cr else [c]
def escapeText (s : Str) : Str := s.flatMap escTextChar

/-- libxml2 `xmlAttrSerializeTxtContent`. -/
def escAttrChar (c : Char) : Str :=
  if c = '&' then amp else if c = '<' then lt else if c = '>' then gt else if c = '"' then quot
  else if c = '\n' then lf else if c = '\r' then cr else if c = '\t' then tab else [c]
def escapeAttr (s : Str) : Str := s.flatMap escAttrChar

/-- One entity or character reference at the head of the input (after the `&`): the decoded
    character and the rest.  Only the predefined entities and decimal references are modelled. -/
def readRef : Str → Option (Char × Str)
  | 'a' :: 'm' :: 'p' :: ';' :: r => some ('&', r)
  | 'l' :: 't' :: ';' :: r => some ('<', r)
  | 'g' :: 't' :: ';' :: r => some ('>', r)
  | 'q' :: 'u' :: 'o' :: 't' :: ';' :: r => some ('"', r)
  | 'a' :: 'p' :: 'o' :: 's' :: ';' :: r => some ('\'', r)
  | '#' :: '1' :: '3' :: ';' :: r => some ('\r', r)
  | '#' :: '1' :: '0' :: ';' :: r => some ('\n', r)
  | '#' :: '9' :: ';' :: r => some ('\t', r)
  | _ => none

/-- Read character data of an element up to its end: `none` if markup (`<`) or a malformed
    reference is met — i.e. if the data would NOT be read as one text node. -/
def readText : Nat → Str → Option Str
  | 0, _ => none
  | _ + 1, [] => some []
  | fuel + 1, c :: r =>
    if c = '<' then none
    else if c = '&' then
      match readRef r with
      | some (d, r') => (readText fuel r').map (d :: ·)
      | none => none
    else if c = '\r' then
      match r with
      | '\n' :: r' => (readText fuel r').map ('\n' :: ·)      -- CRLF → LF
      | _ => (readText fuel r).map ('\n' :: ·)                -- CR → LF
    else (readText fuel r).map (c :: ·)

/-- Read a double-quoted attribute value (content between the quotes). -/
def readAttr : Nat → Str → Option Str
  | 0, _ => none
  | _ + 1, [] => some []
  | fuel + 1, c :: r =>
    if c = '<' || c = '"' then none
    else if c = '&' then
      match readRef r with
      | some (d, r') => (readAttr fuel r').map (d :: ·)
      | none => none
    else if c = '\r' then
      match r with
      | '\n' :: r' => (readAttr fuel r').map (' ' :: ·)
      | _ => (readAttr fuel r).map (' ' :: ·)
    else if c = '\n' || c = '\t' then (readAttr fuel r).map (' ' :: ·)
    else (readAttr fuel r).map (c :: ·)

def parseText (s : Str) : Option Str := readText (s.length + 1) s
def parseAttr (s : Str) : Option Str := readAttr (s.length + 1) s

/-- XML 1.0 `Char` production: what lxml accepts in text and attribute values. -/
def isXmlChar (c : Char) : Bool :=
  let n := c.toNat
  n = 0x9 || n = 0xA || n = 0xD || (0x20 ≤ n && n ≤ 0xD7FF) || (0xE000 ≤ n && n ≤ 0xFFFD) || (0x10000 ≤ n && n ≤ 0x10FFFF)

end NcVerif.XmlText
