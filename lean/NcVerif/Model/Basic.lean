/-
  NcVerif.Model.Basic — Python-flavoured list/string primitives used by every model.

  Strings are `List Char` (Python `str` = sequence of code points), byte strings are
  `List UInt8`.  Nothing here uses the `String` API; no imports beyond core.
-/
namespace NcVerif

abbrev Str := List Char
abbrev Bytes := List UInt8

/-- Python `s.split(c)` for a one-character separator: every occurrence splits,
    the result is never empty (`"".split(":") == [""]`). -/
def splitOn {α} [DecidableEq α] (c : α) : List α → List (List α)
  | [] => [[]]
  | x :: xs =>
    if x = c then [] :: splitOn c xs
    else match splitOn c xs with
      | [] => [[x]]
      | h :: t => (x :: h) :: t

/-- Python `sep.join(parts)` for a one-character separator. -/
def joinWith {α} (c : α) : List (List α) → List α
  | [] => []
  | [p] => p
  | p :: q :: rest => p ++ c :: joinWith c (q :: rest)

/-- Python `p in s` for sequences (sub-list test). -/
def hasSub {α} [BEq α] (p : List α) : List α → Bool
  | [] => p.isEmpty
  | x :: xs => p.isPrefixOf (x :: xs) || hasSub p xs

/-- Index of the first occurrence of `p` in `s` (Python `s.find(p)`), if any. -/
def findSub {α} [BEq α] (p : List α) : List α → Option Nat
  | [] => if p.isEmpty then some 0 else none
  | x :: xs =>
    if p.isPrefixOf (x :: xs) then some 0
    else (findSub p xs).map (· + 1)

/-- Python list indexing with a non-negative literal index: `IndexError` is `none`. -/
def idx? {α} (l : List α) (i : Nat) : Option α := l[i]?

/-- ASCII whitespace as used by `bytes.strip()` / XML: space, \t, \n, \r, \v, \f. -/
def isAsciiWs (c : Char) : Bool :=
  c = ' ' || c = '\t' || c = '\n' || c = '\r' || c = '\x0b' || c = '\x0c'

/-- Python `str.isspace()` on one code point (the full Unicode table CPython uses:
    White_Space property plus bidirectional types WS/B/S). -/
def isPyWs (c : Char) : Bool :=
  let n := c.toNat
  (9 ≤ n && n ≤ 13) || (28 ≤ n && n ≤ 32) || n = 0x85 || n = 0xA0 || n = 0x1680 ||
  (0x2000 ≤ n && n ≤ 0x200A) || n = 0x2028 || n = 0x2029 || n = 0x202F || n = 0x205F || n = 0x3000

def lstripBy {α} (p : α → Bool) : List α → List α := List.dropWhile p
def rstripBy {α} (p : α → Bool) (l : List α) : List α := (l.reverse.dropWhile p).reverse
def stripBy {α} (p : α → Bool) (l : List α) : List α := rstripBy p (lstripBy p l)

/-- Python `str.strip()`. -/
def pyStrip (s : Str) : Str := stripBy isPyWs s

/-- ASCII lower-casing (`str.lower()` restricted to ASCII letters; see trusted base). -/
def asciiLower (c : Char) : Char :=
  if 'A' ≤ c ∧ c ≤ 'Z' then Char.ofNat (c.toNat + 32) else c
def lowerAscii (s : Str) : Str := s.map asciiLower

/-- Python slice `l[:n]` / `l[n:]`. -/
def sliceTo {α} (l : List α) (n : Nat) : List α := l.take n
def sliceFrom {α} (l : List α) (n : Nat) : List α := l.drop n

end NcVerif
