/-
  NcVerif.Model.Builders — the request builders of the RFC 6241 operations whose parameters live in the
  NETCONF base namespace, as functions from the caller's arguments to the operation element (an
  `XmlDoc.XNode`; default profile, so base-namespace names carry the `nc:` prefix) or a local refusal:

    operations/util.py     datastore_or_url, validate_args
    operations/edit.py     EditConfig / DeleteConfig / CopyConfig / Validate / Commit / CancelCommit / DiscardChanges .request
    operations/lock.py     Lock / Unlock .request
    operations/retrieve.py GetConfig.request (source only)
    operations/session.py  KillSession / CloseSession .request
    operations/rpc.py      RPC.__init__ (DEPENDS), RPC._assert

  Arguments are arbitrary strings (`Str`), not drawn from a catalogue.  The order of checks is the code's
  order (it decides WHICH refusal the caller sees).  An empty string given for an element's text yields
  an element without a text node (lxml writes `<x></x>` for it: the one place where `serialize` is not
  byte-identical; the correspondence generator uses non-empty strings).
-/
import NcVerif.Model.XmlDoc
import NcVerif.Model.XmlText
namespace NcVerif.Builders
open NcVerif NcVerif.XmlDoc NcVerif.XmlText

inductive Refusal
  | operationError                 -- OperationError: argument outside its enumeration / inconsistent combination / invalid URL
  | missingCapability (cap : Str)  -- MissingCapabilityError from RPC._assert
  | valueError                     -- lxml refuses the string as a tag name or as text (not XML-compatible)
  | xmlError                       -- XMLError from validated_element: the configuration / filter is not rooted in `config` / `filter`
  | withDefaultsError              -- WithDefaultsError: mode not among those the server's with-defaults capability lists
deriving DecidableEq, Repr

abbrev Res := Except Refusal XNode

def s (x : String) : Str := x.toList
def nc (x : String) : Str := s "nc:" ++ s x

/-- An element in the base namespace with the given children. -/
def el (name : String) (children : List XNode) : XNode := .elem (nc name) [] children

/-- lxml accepts a string as character data iff every character is an XML `Char`. -/
def xmlCompatible (t : Str) : Bool := t.all isXmlChar

/-- `sub_ele(node, name).text = t` -/
def leaf (name : String) (t : Str) : Res :=
  if xmlCompatible t then .ok (.elem (nc name) [] (if t.isEmpty then [] else [.text t])) else .error .valueError

/-- `RPC._assert(cap)` against the server's capabilities (membership as C08 defines it). -/
def assertCap (has : Str → Bool) (cap : String) : Except Refusal Unit :=
  if has (s cap) then .ok () else .error (.missingCapability (s cap))

/-- `sub_ele(parent, name)` with a caller-supplied NAME: lxml insists on an XML name without a colon
    (ASCII names are modelled; the generators of the correspondence stay within them). -/
def named (name : Str) : Res :=
  if validName name && !name.contains ':' then .ok (.elem (s "nc:" ++ name) [] []) else .error .valueError

/-- `util.datastore_or_url(wha, loc, self._assert)` -/
def datastoreOrUrl (has : Str → Bool) (wha : String) (loc : Str) : Res :=
  if hasSub (s "://") loc then do
    let _ ← assertCap has ":url"
    let u ← leaf "url" loc
    pure (el wha [u])
  else do
    let d ← named loc
    pure (el wha [d])

/-- `util.validate_args`: membership in the enumeration, else OperationError. -/
def validateArg (v : Str) (allowed : List String) : Except Refusal Unit :=
  if allowed.any (fun a => s a = v) then .ok () else .error .operationError

/-- What `edit_config` is given as configuration. -/
inductive Config
  | xml (cfg : XNode)          -- format='xml': an element rooted in `config` (validated_element checks the root name)
  | text (t : Str)             -- format='text'
  | url (u : Str) (urlOk : Bool)   -- format='url'; `urlOk` = util.url_validator(u) (urllib.parse: scheme and host present)

def rootIsConfig : XNode → Bool
  | .elem n _ _ => n = nc "config" || n = s "config"
  | .text _ => false

/-- `if default_operation is not None and validate_args(…): sub_ele(node, "default-operation").text = …` -/
def defaultOpPart (defaultOp : Option Str) : Except Refusal (List XNode) :=
  match defaultOp with
  | some d => do
    let _ ← validateArg d ["merge", "replace", "none"]
    let l ← leaf "default-operation" d
    pure [l]
  | none => pure []

def assertIf (has : Str → Bool) (c : Bool) (cap : String) : Except Refusal Unit := if c then assertCap has cap else pure ()

def testOptPart (has : Str → Bool) (testOpt : Option Str) : Except Refusal (List XNode) :=
  match testOpt with
  | some t => do
    let _ ← validateArg t ["test-then-set", "set", "test-only"]
    let _ ← assertCap has ":validate"
    let _ ← assertIf has (t = s "test-only") ":validate:1.1"
    let l ← leaf "test-option" t
    pure [l]
  | none => pure []

def errorOptPart (has : Str → Bool) (errorOpt : Option Str) : Except Refusal (List XNode) :=
  match errorOpt with
  | some e => do
    let _ ← validateArg e ["stop-on-error", "continue-on-error", "rollback-on-error"]
    let _ ← assertIf has (e = s "rollback-on-error") ":rollback-on-error"
    let l ← leaf "error-option" e
    pure [l]
  | none => pure []

def configPart (has : Str → Bool) (config : Config) : Except Refusal (List XNode) :=
  match config with
  | .xml c => if rootIsConfig c then pure [c] else .error .xmlError
  | .text t => do
    let l ← leaf "configuration-text" t
    pure [el "config-text" [l]]
  | .url u ok => if ok then do
      let _ ← assertCap has ":url"
      let l ← leaf "url" u
      pure [l]
    else .error .operationError

/-- `EditConfig.request` -/
def editConfig (has : Str → Bool) (config : Config) (target : Str) (defaultOp testOpt errorOpt : Option Str) : Res := do
  let tgt ← datastoreOrUrl has "target" target
  let dop ← defaultOpPart defaultOp
  let top ← testOptPart has testOpt
  let eop ← errorOptPart has errorOpt
  let cfg ← configPart has config
  pure (el "edit-config" ([tgt] ++ dop ++ top ++ eop ++ cfg))

/-- `Lock.request` / `Unlock.request`: the target is used as an element NAME, never as a URL. -/
def lockOp (name : String) (target : Str) : Res := do
  let d ← named target
  pure (el name [el "target" [d]])

def getConfig (has : Str → Bool) (source : Str) : Res := do
  let src ← datastoreOrUrl has "source" source
  pure (el "get-config" [src])

def deleteConfig (has : Str → Bool) (target : Str) : Res := do
  let t ← datastoreOrUrl has "target" target
  pure (el "delete-config" [t])

/-- `CopyConfig.request` with datastore names / URLs on both sides. -/
def copyConfig (has : Str → Bool) (source target : Str) : Res := do
  let t ← datastoreOrUrl has "target" target
  let src ← datastoreOrUrl has "source" source
  pure (el "copy-config" [t, src])

/-- `Validate(…)` (DEPENDS = [':validate'], checked at construction) `.request(source)` with a string source. -/
def validate (has : Str → Bool) (source : Str) : Res := do
  let _ ← assertCap has ":validate"
  let src ← datastoreOrUrl has "source" source
  pure (el "validate" [src])

def truthy (o : Option Str) : Bool := match o with | some t => !t.isEmpty | none => false

def optLeaf (name : String) (o : Option Str) : Except Refusal (List XNode) :=
  match o with
  | some t => do let l ← leaf name t; pure [l]
  | none => pure []

def confirmedPart (has : Str → Bool) (confirmed : Bool) (timeout persist : Option Str) : Except Refusal (List XNode) :=
  if confirmed then do
    let _ ← assertCap has ":confirmed-commit"
    let t ← optLeaf "confirm-timeout" timeout
    let p ← optLeaf "persist" persist
    pure ([el "confirmed" []] ++ t ++ p)
  else pure []

/-- `Commit(…)` (DEPENDS = [':candidate']) `.request(confirmed, timeout, persist, persist_id)` -/
def commit (has : Str → Bool) (confirmed : Bool) (timeout persist persistId : Option Str) : Res := do
  let _ ← assertCap has ":candidate"
  let _ ← (if truthy persist && truthy persistId then (.error .operationError : Except Refusal Unit) else pure ())
  let conf ← confirmedPart has confirmed timeout persist
  let pid ← (if truthy persistId then optLeaf "persist-id" persistId else pure [])
  pure (el "commit" (conf ++ pid))

def cancelCommit (has : Str → Bool) (persistId : Option Str) : Res := do
  let _ ← assertCap has ":candidate"
  let _ ← assertCap has ":confirmed-commit"
  let pid ← optLeaf "persist-id" persistId
  pure (el "cancel-commit" pid)

def discardChanges (has : Str → Bool) : Res := do
  let _ ← assertCap has ":candidate"
  pure (el "discard-changes" [])

def killSession (sessionId : Str) : Res := do
  let l ← leaf "session-id" sessionId
  pure (el "kill-session" [l])

def closeSession : Res := pure (el "close-session" [])

/-- Names of the parameter elements of a built operation, in document order. -/
def paramNames : XNode → List Str
  | .elem _ _ cs => cs.filterMap fun c => match c with | .elem n _ _ => some n | .text _ => none
  | .text _ => []

/-- The refusal of a result, if it is one. -/
def refusal : Res → Option Refusal
  | .error e => some e
  | .ok _ => none

/-- The serialised operation element of a result, if something was built. -/
def builtText : Res → Option Str
  | .ok t => some (serialize t)
  | .error _ => none

/-! ### All modelled calls under one roof -/

inductive Call
  | edit (config : Config) (target : Str) (defaultOp testOpt errorOpt : Option Str)
  | lock (target : Str)
  | unlock (target : Str)
  | getConfig (source : Str)
  | delete (target : Str)
  | copy (source target : Str)
  | validate (source : Str)
  | commit (confirmed : Bool) (timeout persist persistId : Option Str)
  | cancel (persistId : Option Str)
  | discard
  | kill (sessionId : Str)
  | close

def build (has : Str → Bool) : Call → Res
  | .edit c t d to e => editConfig has c t d to e
  | .lock t => lockOp "lock" t
  | .unlock t => lockOp "unlock" t
  | .getConfig src => getConfig has src
  | .delete t => deleteConfig has t
  | .copy src t => copyConfig has src t
  | .validate src => validate has src
  | .commit c t p pid => commit has c t p pid
  | .cancel pid => cancelCommit has pid
  | .discard => discardChanges has
  | .kill sid => killSession sid
  | .close => closeSession

def urlCap (loc : Str) : List String := if hasSub (s "://") loc then [":url"] else []

/-- The capabilities a call documentedly depends on (RFC 6241 §8), as a function of its ARGUMENTS. -/
def required : Call → List String
  | .edit c t _ to e =>
    urlCap t ++ (match to with | some x => ":validate" :: (if x = s "test-only" then [":validate:1.1"] else []) | none => []) ++
    (if e = some (s "rollback-on-error") then [":rollback-on-error"] else []) ++
    (match c with | .url _ _ => [":url"] | _ => [])
  | .getConfig src => urlCap src
  | .delete t => urlCap t
  | .copy src t => urlCap t ++ urlCap src
  | .validate src => ":validate" :: urlCap src
  | .commit c _ _ _ => ":candidate" :: (if c then [":confirmed-commit"] else [])
  | .cancel _ => [":candidate", ":confirmed-commit"]
  | .discard => [":candidate"]
  | _ => []

end NcVerif.Builders
