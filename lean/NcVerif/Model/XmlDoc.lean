/-
  NcVerif.Model.XmlDoc — serialisation and parsing of (namespace-free) element trees as text, built on
  the character-data discipline of Model/XmlText: how lxml writes a tree (`serialize`, compared byte
  for byte with `lxml.etree.tostring` on every correspondence run) and how an XML 1.0 parser reads
  such text back (`parseDoc`, compared with expat).  Used to state, at TREE level, that caller strings
  placed in text or attribute positions can never become structure.
-/
import NcVerif.Model.XmlText
namespace NcVerif.XmlDoc
open NcVerif NcVerif.XmlText

inductive XNode
  | elem (name : Str) (attrs : List (Str × Str)) (children : List XNode)
  | text (s : Str)
deriving Repr

def isNameStart (c : Char) : Bool := c.isAlpha || c = '_'
/-- Name characters; `:` is one (XML 1.0 Name), so a prefixed name `nc:rpc` and a declaration `xmlns:nc` are plain names here. -/
def isNameChar (c : Char) : Bool := c.isAlphanum || c = '_' || c = '-' || c = '.' || c = ':'

def serAttrs (attrs : List (Str × Str)) : Str :=
  attrs.flatMap fun a => ' ' :: a.1 ++ '=' :: '"' :: escapeAttr a.2 ++ ['"']

mutual
  /-- `etree.tostring(el, encoding='unicode')` for a tree without namespaces, comments or PIs. -/
  def serialize : XNode → Str
    | .elem n attrs [] => '<' :: n ++ serAttrs attrs ++ ['/', '>']
    | .elem n attrs (c :: cs) => '<' :: n ++ serAttrs attrs ++ '>' :: serializeList (c :: cs) ++ '<' :: '/' :: n ++ ['>']
    | .text s => escapeText s
  def serializeList : List XNode → Str
    | [] => []
    | x :: xs => serialize x ++ serializeList xs
end

/-! ### Reading -/

/-- Longest run of name characters. -/
def takeName (s : Str) : Str × Str := (s.takeWhile isNameChar, s.dropWhile isNameChar)

/-- Character data up to the next `<` (or the end), decoded; `none` on a malformed reference. -/
def readChars : Nat → Str → Option (Str × Str)
  | 0, _ => none
  | _ + 1, [] => some ([], [])
  | fuel + 1, c :: r =>
    if c = '<' then some ([], c :: r)
    else if c = '&' then
      match readRef r with
      | some (d, r') => (readChars fuel r').map fun p => (d :: p.1, p.2)
      | none => none
    else if c = '\r' then
      match r with
      | '\n' :: r' => (readChars fuel r').map fun p => ('\n' :: p.1, p.2)
      | _ => (readChars fuel r).map fun p => ('\n' :: p.1, p.2)
    else (readChars fuel r).map fun p => (c :: p.1, p.2)

/-- A double-quoted attribute value (after the opening quote): decoded value and the rest after the closing quote. -/
def readQuoted : Nat → Str → Option (Str × Str)
  | 0, _ => none
  | _ + 1, [] => none
  | fuel + 1, c :: r =>
    if c = '"' then some ([], r)
    else if c = '<' then none
    else if c = '&' then
      match readRef r with
      | some (d, r') => (readQuoted fuel r').map fun p => (d :: p.1, p.2)
      | none => none
    else if c = '\n' || c = '\t' || c = '\r' then (readQuoted fuel r).map fun p => (' ' :: p.1, p.2)
    else (readQuoted fuel r).map fun p => (c :: p.1, p.2)

/-- ` name="value"`* up to `>` or `/>`: attributes and what follows. -/
def readAttrs : Nat → Str → Option (List (Str × Str) × Str)
  | 0, _ => none
  | fuel + 1, ' ' :: r =>
    let (n, r1) := takeName r
    if n.isEmpty then none else
    match r1 with
    | '=' :: '"' :: r2 =>
      match readQuoted (r2.length + 1) r2 with
      | some (v, r3) => (readAttrs fuel r3).map fun p => ((n, v) :: p.1, p.2)
      | none => none
    | _ => none
  | _ + 1, r => some ([], r)

mutual
  /-- One node at the head of the input. -/
  def parseNode : Nat → Str → Option (XNode × Str)
    | 0, _ => none
    | fuel + 1, '<' :: r =>
      let (n, r1) := takeName r
      if n.isEmpty then none else
      match readAttrs (r1.length + 1) r1 with
      | none => none
      | some (attrs, r2) =>
        match r2 with
        | '/' :: '>' :: r3 => some (.elem n attrs [], r3)
        | '>' :: r3 =>
          match parseNodes fuel r3 with
          | none => none
          | some (children, r4) =>
            -- closing tag
            match r4 with
            | '<' :: '/' :: r5 =>
              let (n', r6) := takeName r5
              if n' = n then (match r6 with | '>' :: r7 => some (.elem n attrs children, r7) | _ => none) else none
            | _ => none
        | _ => none
    | fuel + 1, c :: r =>
      match readChars (r.length + 2) (c :: r) with
      | some (t, rest) => if t.isEmpty then none else some (.text t, rest)
      | none => none
    | _ + 1, [] => none
  /-- Content of an element: nodes until a closing tag or the end of input. -/
  def parseNodes : Nat → Str → Option (List XNode × Str)
    | 0, _ => none
    | _ + 1, [] => some ([], [])
    | fuel + 1, '<' :: '/' :: r => some ([], '<' :: '/' :: r)
    | fuel + 1, s =>
      match parseNode fuel s with
      | none => none
      | some (x, r) => (parseNodes fuel r).map fun p => (x :: p.1, p.2)
end

/-- Parse a whole document: exactly one element and nothing after it. -/
def parseDoc (s : Str) : Option XNode :=
  match parseNode (s.length + 2) s with
  | some (x, []) => some x
  | _ => none

/-- `parse_root(raw)` (xml_.py): name and attributes of the root element, read from its START TAG alone — what
    `iterparse(events=('start',))` reports first; nothing after the start tag is looked at. -/
def parseRoot (s : Str) : Option (Str × List (Str × Str)) :=
  match s with
  | '<' :: r =>
    let (n, r1) := takeName r
    if n.isEmpty then none else
    match readAttrs (r1.length + 1) r1 with
    | none => none
    | some (attrs, r2) =>
      match r2 with
      | '/' :: '>' :: _ => some (n, attrs)
      | '>' :: _ => some (n, attrs)
      | _ => none
  | _ => none

/-- Name and attributes of a node, if it is an element. -/
def rootOf : XNode → Option (Str × List (Str × Str))
  | .elem n a _ => some (n, a)
  | .text _ => none

/-! ### Well-formedness of trees (what lxml lets one build) -/

def validName (n : Str) : Bool :=
  match n with
  | [] => false
  | c :: cs => isNameStart c && cs.all isNameChar

mutual
  /-- Names are XML names, attribute names distinct, text nodes non-empty and never adjacent (an XML
      document cannot distinguish adjacent text nodes). -/
  def wf : XNode → Bool
    | .elem n attrs children => validName n && attrs.all (fun a => validName a.1) && (attrs.map (·.1)).Nodup && wfList children
    | .text s => !s.isEmpty
  def wfList : List XNode → Bool
    | [] => true
    | [x] => wf x
    | x :: y :: rest =>
      wf x && (match x, y with | .text _, .text _ => false | _, _ => true) && wfList (y :: rest)
end

/-! ### The two envelopes ncclient builds itself: `<hello>` (session.py HelloHandler.build) and `<rpc>` (rpc.py RPC._wrap)

`pfx` is `nc:` with the declaration attribute `xmlns:nc` (default, Junos, … profiles) or empty with `xmlns`
(profiles whose `get_xml_base_namespace_dict` maps the default namespace). -/

def baseNs : Str := "urn:ietf:params:xml:ns:netconf:base:1.0".toList

def nsDecl (pfx : Str) : Str × Str :=
  (if pfx.isEmpty then "xmlns".toList else "xmlns:".toList ++ pfx.dropLast, baseNs)

/-- `HelloHandler.build(capabilities, device_handler)`. -/
def helloTree (pfx : Str) (caps : List Str) : XNode :=
  .elem (pfx ++ "hello".toList) [nsDecl pfx]
    [.elem (pfx ++ "capabilities".toList) [] (caps.map fun c => .elem (pfx ++ "capability".toList) [] [.text c])]

/-- Text of an element that has exactly one text child (lxml's `.text` of a leaf). -/
def leafText : XNode → Option Str
  | .elem _ _ [.text s] => some s
  | .elem _ _ [] => some []
  | _ => none

/-- `HelloHandler.parse`: the texts of the `capability` children of the `capabilities` child, in document order. -/
def capsOf (pfx : Str) : XNode → List (Option Str)
  | .elem _ _ children =>
    children.flatMap fun c => match c with
      | .elem n _ cs => if n = pfx ++ "capabilities".toList then
          cs.filterMap fun x => match x with
            | .elem m a k => if m = pfx ++ "capability".toList then some (leafText (.elem m a k)) else none
            | _ => none
        else []
      | _ => []
  | _ => []

/-- `RPC._wrap(op)`: the `<rpc>` envelope with its message-id around one operation element. -/
def rpcTree (pfx : Str) (mid : Str) (op : XNode) : XNode :=
  .elem (pfx ++ "rpc".toList) [nsDecl pfx, ("message-id".toList, mid)] [op]

def attrOf (k : Str) : XNode → Option Str
  | .elem _ attrs _ => (attrs.find? fun a => a.1 = k).map (·.2)
  | _ => none

end NcVerif.XmlDoc
