/-
  NcVerif.Model.Lock — mirrors operations/lock.py `LockContext.__enter__/__exit__` and the Python
  `with` statement, for arbitrary bodies.

  `__enter__`: Lock(raise_mode=ERRORS).request(target)  — raises when the reply carries an rpc-error of
               severity error (C06), or when the request itself fails; then neither the body nor
               `__exit__` runs.
  `__exit__`:  Unlock(raise_mode=ERRORS).request(target); `return False` — runs whether the body returned
               or raised; the body's exception propagates unless the unlock itself raises.
-/
import NcVerif.Model.Basic
namespace NcVerif.Lock
open NcVerif

/-- Bodies: requests, raising, sequencing, nested lock contexts. Datastores and requests are opaque ids. -/
inductive Prog
  | skip
  | req (n : Nat)
  | raise (e : Nat)
  | seq (a b : Prog)
  | locked (target : Nat) (body : Prog)
deriving DecidableEq, Repr

/-- What the server saw. -/
inductive Ev
  | lock (t : Nat)
  | unlock (t : Nat)
  | req (n : Nat)
deriving DecidableEq, Repr

/-- How the server answers one request. `warning` = rpc-error elements of severity warning only. -/
inductive Ans | ok | warning | error
deriving DecidableEq, Repr

/-- Exceptions seen by the caller. -/
inductive Exc
  | body (e : Nat)          -- raised by the body itself
  | rpc (ev : Ev)           -- RPCError for that request
deriving DecidableEq, Repr

/-- The server: its answer may depend on everything it has seen so far (including this request, last). -/
abbrev Server := List Ev → Ans

/-- Under RaiseMode.ERRORS a request raises iff the answer carries an error of severity `error`.
    `<lock>` and `<unlock>` are ALWAYS issued under ERRORS, whatever the manager's own raise mode. -/
def refused (a : Ans) : Bool := a = .error

/-- The manager's raise mode, which governs the body's own requests only. -/
inductive Mode | all | errors | none
deriving DecidableEq, Repr

/-- Whether a request of the body raises, by the manager's mode (C06). -/
def reqRaises : Mode → Ans → Bool
  | .all, a => a != .ok
  | .errors, a => a = .error
  | .none, _ => false

/-- Run a program; `tr` is the server-side trace so far.  Returns the new trace and the exception
    propagating out of the program, if any. -/
def run (srv : Server) (m : Mode) : Prog → List Ev → List Ev × Option Exc
  | .skip, tr => (tr, none)
  | .req n, tr =>
    let tr' := tr ++ [.req n]
    (tr', if reqRaises m (srv tr') then some (.rpc (.req n)) else none)
  | .raise e, tr => (tr, some (.body e))
  | .seq a b, tr =>
    match run srv m a tr with
    | (tr', some x) => (tr', some x)
    | (tr', none) => run srv m b tr'
  | .locked t body, tr =>
    let tr1 := tr ++ [.lock t]                              -- __enter__
    if refused (srv tr1) then (tr1, some (.rpc (.lock t)))   -- body and __exit__ do not run
    else
      let (tr2, x) := run srv m body tr1
      let tr3 := tr2 ++ [.unlock t]                          -- __exit__, always
      if refused (srv tr3) then (tr3, some (.rpc (.unlock t))) else (tr3, x)

end NcVerif.Lock
