/-
  NcVerif.Model.Utf8 — strict UTF-8 decoding as done by CPython's `bytes.decode('UTF-8')`:
  shortest form only, no surrogates (U+D800..U+DFFF), nothing above U+10FFFF.
  `decode b = none` stands for `UnicodeDecodeError`.  Compared with CPython on every
  correspondence run (harness/props/C01.py, `utf8` lines).
-/
import NcVerif.Model.Basic
namespace NcVerif.Utf8
open NcVerif

def isCont (b : UInt8) : Bool := 0x80 ≤ b && b ≤ 0xBF

/-- Strict decoder. -/
def decode : Bytes → Option Str
  | [] => some []
  | b0 :: rest =>
    if b0 < 0x80 then
      (decode rest).map (Char.ofNat b0.toNat :: ·)
    else if 0xC2 ≤ b0 && b0 ≤ 0xDF then
      match rest with
      | b1 :: r =>
        if isCont b1 then
          (decode r).map (Char.ofNat ((b0.toNat - 0xC0) * 64 + (b1.toNat - 0x80)) :: ·)
        else none
      | [] => none
    else if 0xE0 ≤ b0 && b0 ≤ 0xEF then
      match rest with
      | b1 :: b2 :: r =>
        if isCont b1 && isCont b2 &&
           (b0 != 0xE0 || 0xA0 ≤ b1) &&        -- no overlong
           (b0 != 0xED || b1 ≤ 0x9F) then       -- no surrogates
          (decode r).map
            (Char.ofNat ((b0.toNat - 0xE0) * 4096 + (b1.toNat - 0x80) * 64 + (b2.toNat - 0x80)) :: ·)
        else none
      | _ => none
    else if 0xF0 ≤ b0 && b0 ≤ 0xF4 then
      match rest with
      | b1 :: b2 :: b3 :: r =>
        if isCont b1 && isCont b2 && isCont b3 &&
           (b0 != 0xF0 || 0x90 ≤ b1) &&        -- no overlong
           (b0 != 0xF4 || b1 ≤ 0x8F) then       -- ≤ U+10FFFF
          (decode r).map
            (Char.ofNat ((b0.toNat - 0xF0) * 262144 + (b1.toNat - 0x80) * 4096 +
                         (b2.toNat - 0x80) * 64 + (b3.toNat - 0x80)) :: ·)
        else none
      | _ => none
    else none

def valid (b : Bytes) : Bool := (decode b).isSome

/-- UTF-8 encoding of one code point (`str.encode()`), for scalar values. -/
def encodeChar (c : Char) : Bytes :=
  let n := c.toNat
  if n < 0x80 then [UInt8.ofNat n]
  else if n < 0x800 then [UInt8.ofNat (0xC0 + n / 64), UInt8.ofNat (0x80 + n % 64)]
  else if n < 0x10000 then
    [UInt8.ofNat (0xE0 + n / 4096), UInt8.ofNat (0x80 + n / 64 % 64), UInt8.ofNat (0x80 + n % 64)]
  else
    [UInt8.ofNat (0xF0 + n / 262144), UInt8.ofNat (0x80 + n / 4096 % 64),
     UInt8.ofNat (0x80 + n / 64 % 64), UInt8.ofNat (0x80 + n % 64)]

def encode (s : Str) : Bytes := s.flatMap encodeChar

end NcVerif.Utf8
