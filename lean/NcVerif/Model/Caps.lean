/-
  NcVerif.Model.Caps — mirrors ncclient/capabilities.py (`_abbreviate`, `Capability.from_uri`,
  `_parse_parameter_string`, `Capabilities.__init__/add/__getitem__/__contains__/__iter__/__len__`).

  Python dicts are insertion-ordered association lists with overwrite-in-place (`dictSet`).
  Indexing errors are explicit (`Except`), never totalised away.
-/
import NcVerif.Model.Basic
namespace NcVerif.Caps
open NcVerif

/-- Python dict assignment `d[k] = v` (insertion order kept, value replaced in place). -/
def dictSet {κ ν} [DecidableEq κ] (d : List (κ × ν)) (k : κ) (v : ν) : List (κ × ν) :=
  match d with
  | [] => [(k, v)]
  | (k', v') :: rest => if k' = k then (k', v) :: rest else (k', v') :: dictSet rest k v

def dictGet {κ ν} [DecidableEq κ] (d : List (κ × ν)) (k : κ) : Option ν :=
  match d with
  | [] => none
  | (k', v') :: rest => if k' = k then some v' else dictGet rest k

def pfxXml : Str := "urn:ietf:params:xml:ns:netconf:".toList
def pfxNc : Str := "urn:ietf:params:netconf:".toList
def sCapability : Str := "capability".toList
def sBase : Str := "base".toList
def sColonBase : Str := ":base".toList
/-- `_IETF_NETCONF_PREFIXES`, in the order the code tries them. -/
def prefixes : List Str := [pfxXml, pfxNc]

/-- Body of the `for prefix` loop of `_abbreviate` once the prefix matched, on `uri[len(prefix):].split(":")`. -/
def abbrevParts : List Str → Option (List Str)
  | h :: a :: rest =>
    if h = sCapability then
      match rest with
      | b :: _ => some [':' :: a, ':' :: a ++ ':' :: b]
      | [] => none
    else if h = sBase then some [sColonBase, sColonBase ++ ':' :: a]
    else none
  | _ => none

/-- `_abbreviate(uri)`. -/
def abbreviate (uri : Str) : List Str :=
  (prefixes.findSome? fun p =>
    if p.isPrefixOf uri then abbrevParts (splitOn ':' (uri.drop p.length)) else none).getD []

structure Cap where
  ns : Str
  params : List (Str × Str)
deriving DecidableEq, Repr

/-- `_Parameter.from_string` + the dict comprehension of `from_uri`: pieces that do not split into
    exactly two parts at `=` are skipped; a repeated key keeps its first position, last value. -/
def parseParams (s : Str) : List (Str × Str) :=
  (splitOn '&' s).foldl (fun d piece =>
    match splitOn '=' piece with
    | [k, v] => dictSet d k v
    | _ => d) []

/-- `Capability.from_uri`. -/
def fromUri (uri : Str) : Cap :=
  match splitOn '?' uri with
  | [] => ⟨[], []⟩                       -- unreachable: `split` never returns []
  | [nsUri] => ⟨nsUri, []⟩
  | nsUri :: ps :: _ => ⟨nsUri, parseParams ps⟩

abbrev Caps := List (Str × Cap)

/-- `Capabilities.add`. -/
def add (d : Caps) (uri : Str) : Caps := dictSet d uri (fromUri uri)

/-- `Capabilities.__init__`. -/
def mk (uris : List Str) : Caps := uris.foldl add []

inductive Err | keyError
deriving DecidableEq, Repr

/-- `Capabilities.__getitem__`. -/
def getItem (d : Caps) (key : Str) : Except Err Cap :=
  match dictGet d key with
  | some c => .ok c
  | none =>
    match (d.map Prod.snd).find? (fun c => decide (key ∈ abbreviate c.ns)) with
    | some c => .ok c
    | none => .error .keyError

/-- `Capabilities.__contains__`. -/
def contains (d : Caps) (key : Str) : Bool :=
  match getItem d key with
  | .ok _ => true
  | .error _ => false

/-- `list(caps)` / `len(caps)`. -/
def keys (d : Caps) : List Str := d.map Prod.fst

/-- `Capabilities.remove(uri)`: `if uri in self._dict: del self._dict[uri]`. -/
def remove (d : Caps) (uri : Str) : Caps := d.filter (fun p => p.1 != uri)

/-! ### Histories: a capability object that is added to and removed from over its life -/

inductive Op
  | add (uri : Str)
  | remove (uri : Str)
deriving DecidableEq, Repr

def step (d : Caps) : Op → Caps
  | .add u => add d u
  | .remove u => remove d u

def run (d : Caps) (ops : List Op) : Caps := ops.foldl step d

/-- The abstract object the documentation describes: an ordered set of URIs. -/
def absStep (l : List Str) : Op → List Str
  | .add u => if u ∈ l then l else l ++ [u]
  | .remove u => l.filter (fun k => k != u)

/-- The capability object that holds exactly the URIs `l` (each parsed from its own text). -/
def ofKeys (l : List Str) : Caps := l.map fun u => (u, fromUri u)

end NcVerif.Caps
