/-
  NcVerif.Model.Isolation — an object store with per-operation write sets, for C16's isolation clause.
  A state maps cells (named containers: module-level, class-level, or fields of one instance) to
  values; an operation may change only the cells of its write set (`Frame`); what is observed
  through a profile / manager `A` is a function of the cells in `A`'s read set.
-/
import NcVerif.Model.Basic
namespace NcVerif.Isolation
open NcVerif

abbrev Cell := Str
abbrev State (V : Type) := Cell → V

structure Op (V : Type) where
  writes : List Cell
  apply : State V → State V

/-- An operation respects its write set. -/
def Frame {V} (op : Op V) : Prop := ∀ s c, c ∉ op.writes → op.apply s c = s c

def run {V} (ops : List (Op V)) (s : State V) : State V := ops.foldl (fun s op => op.apply s) s

/-- Resolution of a manager attribute (`Manager.__getattr__`): vendor operations take precedence
    over same-named standard ones. -/
def resolve (vendor std : List (Str × Str)) (name : Str) : Option Str :=
  match vendor.lookup name with
  | some c => some c
  | none => std.lookup name

/-- nexus-style subsystem list: the preferred name first, then the known names without it. -/
def subsystemsWithPref (names : List Str) (pref : Option Str) : List Str :=
  match pref with
  | some p => p :: names.filter (· ≠ p)
  | none => names

end NcVerif.Isolation
