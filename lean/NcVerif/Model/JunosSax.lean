/-
  NcVerif.Model.JunosSax — mirrors `SAXParser` (startElement / endElement / characters /
  _write_buffer) of transport/third_party/junos/parser.py: the streaming filter that copies to the
  session buffer only those parts of an <rpc-reply> that lie on the paths of the request's
  `filter_xml`.

  Not modelled (explored by the correspondence run only, see DESIGN.md §9): expat's tokenising, the
  delimiter recovery `_delimiter_check` (difflib heuristics) and the hand-over to the DOM parser.
-/
import NcVerif.Model.Basic
namespace NcVerif.JunosSax
open NcVerif

/-- The filter: a tree of tag names (`etree.fromstring(filter_xml)`). -/
inductive FT
  | node (tag : Str) (children : List FT)
deriving Repr

def FT.tag : FT → Str | .node t _ => t
def FT.children : FT → List FT | .node _ c => c

/-- `cur.find(tag)`: the first child with that tag. -/
def FT.find (f : FT) (tag : Str) : Option FT := f.children.find? (fun c => c.tag = tag)

/-- SAX events as delivered by expat (no namespace processing: tags are qnames as written). -/
inductive Ev
  | start (tag : Str) (attrs : List (Str × Str))
  | stop (tag : Str)
  | chars (s : Str)
deriving Repr

def rpcReplyTags : List Str := ["rpc-reply".toList, "nc:rpc-reply".toList]

/-- `escape(data)`: `&`, `>`, `<`. -/
def escChar (c : Char) : Str :=
  if c = '&' then "&amp;".toList else if c = '>' then "&gt;".toList else if c = '<' then "&lt;".toList else [c]
def escape (s : Str) : Str := s.flatMap escChar

/-- `quoteattr(value)` with the entity table `{'\n': '&#10;', '\r': '&#13;', '\t': '&#9;'}`. -/
def escAttrChar (c : Char) : Str :=
  if c = '\n' then "&#10;".toList else if c = '\r' then "&#13;".toList else if c = '\t' then "&#9;".toList else escChar c
def quoteattr (v : Str) : Str :=
  let d := v.flatMap escAttrChar
  if '"' ∈ d then
    if '\'' ∈ d then '"' :: (d.flatMap fun c => if c = '"' then "&quot;".toList else [c]) ++ ['"']
    else '\'' :: d ++ ['\'']
  else '"' :: d ++ ['"']

def renderAttrs (attrs : List (Str × Str)) : Str :=
  attrs.flatMap fun a => ' ' :: a.1 ++ '=' :: quoteattr a.2

def openTag (tag : Str) (attrs : List (Str × Str)) : Str := '<' :: escape tag ++ renderAttrs attrs ++ ['>']
def openTagNl (tag : Str) : Str := '<' :: escape tag ++ ['>', '\n']
def closeTag (tag : Str) : Str := '<' :: '/' :: escape tag ++ ['>', '\n']

/-- Handler state. `stack` is `_cur` (head) followed by its ancestors (`getparent()`); `[]` stands for
    `_cur = None`. `wrapped`: a wrapper element was put on top of the filter root (`E(tag, self._cur)`). -/
structure H where
  root : Option FT := none
  stack : List FT := []
  wrapped : Bool := false
  ignoretag : Option Str := none
  defaulttags : List Str := []
  currenttag : Option Str := none
  validate : Bool := false
  out : Str := []                      -- bytes written to the session buffer (as text)
  failed : Bool := false               -- an AttributeError (`None.tag`, `None.find`) would have been raised

inductive Lookup
  | filter (f : FT)        -- the request with this message-id has a filter_xml
  | noFilter               -- it has none: SAXFilterXMLNotFoundError
  | unknown                -- no such request: OperationError

inductive Res
  | ok (h : H)
  | noFilter               -- hand over to the DOM parser; nothing was written for this reply
  | unknownId

def curIsRoot (h : H) : Bool := h.stack.length = (if h.wrapped then 2 else 1)

/-- `startElement(tag, attributes)`; `lk` is what the session's reply listener knows about the
    message-id of an `<rpc-reply>` start tag. -/
def startElement (lk : Lookup) (h : H) (tag : Str) (attrs : List (Str × Str)) : Res :=
  let pre : Option H :=
    if tag ∈ rpcReplyTags then
      match lk with
      | .filter f => some { h with root := some f, stack := [f], wrapped := false }
      | .noFilter => none
      | .unknown => none
    else some h
  match pre with
  | none => (match lk with | .unknown => .unknownId | _ => .noFilter)
  | some h =>
    if h.ignoretag.isSome then .ok h else
    match h.stack, h.root with
    | cur :: _, some root =>
      let node : Option FT := if curIsRoot h && cur.tag = tag then some root else cur.find tag
      if h.validate then
        if tag ≠ root.tag then
          .ok { h with out := h.out ++ openTagNl tag, stack := [FT.node tag [cur]], wrapped := true,
                       validate := false, defaulttags := h.defaulttags ++ [tag] }
        else
          .ok { h with out := h.out ++ openTag tag attrs,
                       stack := (match node with | some n => if curIsRoot h && cur.tag = tag then h.stack else n :: h.stack | none => []),
                       currenttag := some tag, validate := false, defaulttags := h.defaulttags ++ [tag] }
      else match node with
        | some n =>
          .ok { h with out := h.out ++ openTag tag attrs,
                       stack := if curIsRoot h && cur.tag = tag then h.stack else n :: h.stack,
                       currenttag := some tag }
        | none =>
          if tag ∈ rpcReplyTags then
            .ok { h with out := h.out ++ openTag tag attrs, defaulttags := h.defaulttags ++ [tag], validate := true }
          else .ok { h with currenttag := none, ignoretag := some tag }
    | _, _ => .ok { h with failed := true }

/-- `endElement(tag)` -/
def endElement (h : H) (tag : Str) : H :=
  let h1 := if h.ignoretag = some tag then { h with ignoretag := none } else h
  let h2 :=
    if tag ∈ h1.defaulttags then { h1 with out := h1.out ++ closeTag tag }
    else match h1.stack with
      | cur :: rest => if cur.tag = tag then { h1 with out := h1.out ++ closeTag tag, stack := rest } else h1
      | [] => { h1 with failed := true }
  { h2 with currenttag := none }

/-- `characters(content)` -/
def characters (h : H) (s : Str) : H :=
  if h.currenttag.isSome then { h with out := h.out ++ escape s } else h

/-- Feed a list of events of ONE reply. -/
def feed (lk : Lookup) : H → List Ev → Res
  | h, [] => .ok h
  | h, .start t a :: rest =>
    match startElement lk h t a with
    | .ok h' => feed lk h' rest
    | r => r
  | h, .stop t :: rest => feed lk (endElement h t) rest
  | h, .chars s :: rest => feed lk (characters h s) rest

/-! ### Reply documents and the projection they should be filtered to -/

/-- Reply documents without mixed content: an element has text (possibly empty) XOR children. -/
inductive RT
  | leaf (tag : Str) (attrs : List (Str × Str)) (text : List Str)     -- text as expat delivers it: in pieces
  | node (tag : Str) (attrs : List (Str × Str)) (children : List RT)
deriving Repr

def RT.tag : RT → Str | .leaf t _ _ => t | .node t _ _ => t

mutual
  def events : RT → List Ev
    | .leaf t a pieces => .start t a :: pieces.map .chars ++ [.stop t]
    | .node t a ch => .start t a :: eventsList ch ++ [.stop t]
  def eventsList : List RT → List Ev
    | [] => []
    | x :: xs => events x ++ eventsList xs
end

mutual
  /-- What the filtered reply should be, as text: the elements lying on the filter's paths, leaf text
      kept, everything else dropped. `f` is the filter node matching this element. -/
  def render (f : FT) : RT → Str
    | .leaf t a pieces => openTag t a ++ escape pieces.flatten ++ closeTag t
    | .node t a ch => openTag t a ++ renderList f ch ++ closeTag t
  def renderList (f : FT) : List RT → Str
    | [] => []
    | x :: xs =>
      (match f.find x.tag with
       | some g => render g x
       | none => []) ++ renderList f xs
end

/-- A whole reply: `<rpc-reply attrs> top </rpc-reply>` with `top.tag` = the filter root's tag. -/
def replyEvents (attrs : List (Str × Str)) (top : RT) : List Ev :=
  .start "rpc-reply".toList attrs :: events top ++ [.stop "rpc-reply".toList]

def expectedOut (f : FT) (attrs : List (Str × Str)) (top : RT) : Str :=
  openTag "rpc-reply".toList attrs ++ render f top ++ closeTag "rpc-reply".toList

end NcVerif.JunosSax
