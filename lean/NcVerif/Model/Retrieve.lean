/-
  NcVerif.Model.Retrieve — the request builders of the retrieval operations and of create-subscription, for ALL
  argument values, over the capability model of Model/Caps (so that the with-defaults modes are read from the
  server's own capability URI):

    operations/util.py       build_filter (tuple / list / element forms)
    operations/retrieve.py   Get.request, GetConfig.request, Dispatch.request, _append_with_defaults_mode
    operations/subscribe.py  CreateSubscription (DEPENDS = [':notification']) .request

  Elements outside the base namespace are written by lxml with a generated prefix: `ns0:` declared on the
  element itself (`xmlns:ns0`), which is what the trees below contain.  The order of checks is the code's.
  Also here, so that EVERY entry of `manager.OPERATIONS` has a model: GetSchema, GenericRPC (`rpc`), the two flowmon
  power operations, Validate / CopyConfig with element arguments.
  Not modelled: the `(ns-map, select)` form of an XPath filter (prefix declarations on `<filter>`).
-/
import NcVerif.Model.Builders
import NcVerif.Model.Ops
namespace NcVerif.Retrieve
open NcVerif NcVerif.XmlDoc NcVerif.XmlText NcVerif.Builders

def wdNs : Str := s "urn:ietf:params:xml:ns:yang:ietf-netconf-with-defaults"
def notifNs : Str := s "urn:ietf:params:xml:ns:netconf:notification:1.0"

/-- What a caller may pass as `filter`. -/
inductive Filter
  | xpath (select : Str)             -- ("xpath", select)
  | subtree (c : XNode)              -- ("subtree", element or XML text)
  | subtrees (cs : List XNode)       -- [criteria, …]
  | other (type : Str)               -- (type, criteria) with any other type
  | element (e : XNode)              -- a ready-made element: must be rooted in `filter`

def rootIsFilter : XNode → Bool
  | .elem n _ _ => n = nc "filter" || n = s "filter"
  | .text _ => false

/-- `util.build_filter(spec)` (no capability check: Get / GetConfig / Dispatch / CreateSubscription pass none). -/
def filterPart : Option Filter → Except Refusal (List XNode)
  | none => pure []
  | some (.xpath sel) =>
    if xmlCompatible sel then pure [.elem (nc "filter") [(s "type", s "xpath"), (s "select", sel)] []] else .error .valueError
  | some (.subtree c) => pure [.elem (nc "filter") [(s "type", s "subtree")] [c]]
  | some (.subtrees cs) => pure [.elem (nc "filter") [(s "type", s "subtree")] cs]
  | some (.other _) => .error .operationError
  | some (.element e) => if rootIsFilter e then pure [e] else .error .xmlError

/-- An element in another namespace, as lxml writes it: generated prefix `ns0`, declared on the element. -/
def nsLeaf (ns : Str) (name : String) (t : Str) : Res :=
  if xmlCompatible t then .ok (.elem (s "ns0:" ++ s name) [(s "xmlns:ns0", ns)] (if t.isEmpty then [] else [.text t]))
  else .error .valueError

/-- `self._assert(":with-defaults"); _append_with_defaults_mode(node, mode, server_capabilities)`: the element carries the
    caller's string as given (the comparison alone strips and lower-cases). -/
def withDefaultsPart (caps : Caps.Caps) : Option Str → Except Refusal (List XNode)
  | none => pure []
  | some mode =>
    match Ops.withDefaultsGate caps mode with
    | some (.missingCapability c) => .error (.missingCapability c)
    | some .withDefaults => .error .withDefaultsError
    | none => do
      let l ← nsLeaf wdNs "with-defaults" mode
      pure [l]

def has (caps : Caps.Caps) : Str → Bool := Caps.contains caps

/-- `Get.request(filter, with_defaults)` -/
def get (caps : Caps.Caps) (filter : Option Filter) (wd : Option Str) : Res := do
  let f ← filterPart filter
  let w ← withDefaultsPart caps wd
  pure (el "get" (f ++ w))

/-- `GetConfig.request(source, filter, with_defaults)` -/
def getConfig (caps : Caps.Caps) (source : Str) (filter : Option Filter) (wd : Option Str) : Res := do
  let src ← datastoreOrUrl (has caps) "source" source
  let f ← filterPart filter
  let w ← withDefaultsPart caps wd
  pure (el "get-config" ([src] ++ f ++ w))

def sourcePart (caps : Caps.Caps) : Option Str → Except Refusal (List XNode)
  | none => pure []
  | some src => do
    let x ← datastoreOrUrl (has caps) "source" src
    pure [x]

/-- `Dispatch.request(rpc_command, source, filter)` with the command given as a string (an element NAME). -/
def dispatch (caps : Caps.Caps) (cmd : Str) (source : Option Str) (filter : Option Filter) : Res := do
  let root ← named cmd
  let src ← sourcePart caps source
  let f ← filterPart filter
  match root with
  | .elem n a _ => pure (.elem n a (src ++ f))
  | .text _ => .error .valueError

def nsOpt (name : String) : Option Str → Except Refusal (List XNode)
  | none => pure []
  | some t => do
    let l ← nsLeaf notifNs name t
    -- children of the subscription element reuse its prefix: no second declaration
    match l with
    | .elem n _ cs => pure [.elem n [] cs]
    | .text _ => pure []

/-- `CreateSubscription(…)` (DEPENDS, checked at construction) `.request(filter, stream_name, start_time, stop_time)` -/
def createSubscription (caps : Caps.Caps) (filter : Option Filter) (stream start stop : Option Str) : Res := do
  let _ ← assertCap (has caps) ":notification"
  let f ← filterPart filter
  let st ← nsOpt "stream" stream
  let t0 ← nsOpt "startTime" start
  let _ ← (if stop.isSome && start.isNone then (.error .valueError : Except Refusal Unit) else pure ())
  let t1 ← nsOpt "stopTime" stop
  pure (.elem (s "ns0:create-subscription") [(s "xmlns:ns0", notifNs)] (f ++ st ++ t0 ++ t1))

def monNs : Str := s "urn:ietf:params:xml:ns:yang:ietf-netconf-monitoring"
def pcNs : Str := s "urn:liberouter:params:xml:ns:netconf:power-control:1.0"

/-- A text element under a prefix that its parent declares. -/
def pfxLeaf (pfx name : String) (t : Str) : Res :=
  if xmlCompatible t then .ok (.elem (s pfx ++ s name) [] (if t.isEmpty then [] else [.text t])) else .error .valueError

def optPfxLeaf (pfx name : String) : Option Str → Except Refusal (List XNode)
  | none => pure []
  | some t => do
    let l ← pfxLeaf pfx name t
    pure [l]

/-- `GetSchema.request(identifier, version, format)`: elements of the monitoring namespace (registered prefix `ncm`). -/
def getSchema (identifier : Str) (version format : Option Str) : Res := do
  let i ← pfxLeaf "ncm:" "identifier" identifier
  let v ← optPfxLeaf "ncm:" "version" version
  let f ← optPfxLeaf "ncm:" "format" format
  pure (.elem (s "ncm:get-schema") [(s "xmlns:ncm", monNs)] ([i] ++ v ++ f))

/-- `validated_element(config, ("config", qualify("config")))` for an optional configuration element. -/
def configElPart : Option XNode → Except Refusal (List XNode)
  | none => pure []
  | some c => if rootIsConfig c then pure [c] else .error .xmlError

def targetPart (caps : Caps.Caps) : Option Str → Except Refusal (List XNode)
  | none => pure []
  | some t => do
    let x ← datastoreOrUrl (has caps) "target" t
    pure [x]

/-- `GenericRPC.request(rpc_command, source, filter, config, target)` with the command given as a string. -/
def genericRpc (caps : Caps.Caps) (cmd : Str) (target source : Option Str) (filter : Option Filter) (config : Option XNode) : Res := do
  let root ← named cmd
  let t ← targetPart caps target
  let src ← sourcePart caps source
  let f ← filterPart filter
  let c ← configElPart config
  match root with
  | .elem n a _ => pure (.elem n a (t ++ src ++ f ++ c))
  | .text _ => .error .valueError

/-- `PoweroffMachine` / `RebootMachine` (flowmon): DEPENDS names the capability by its full URI. -/
def power (caps : Caps.Caps) (name capUri : String) : Res := do
  let _ ← assertCap (has caps) capUri
  pure (.elem (s "ns0:" ++ s name) [(s "xmlns:ns0", pcNs)] [])

def poweroffCap : String := "urn:liberouter:param:netconf:capability:power-control:1.0"
def rebootCap : String := "urn:liberouter:params:netconf:capability:power-control:1.0"

/-- `Validate(…).request(source)` with a `config` ELEMENT as source. -/
def validateEl (caps : Caps.Caps) (cfg : XNode) : Res := do
  let _ ← assertCap (has caps) ":validate"
  if rootIsConfig cfg then pure (el "validate" [el "source" [cfg]]) else .error .xmlError

def rootIsSource : XNode → Bool
  | .elem n _ _ => n = nc "source" || n = s "source"
  | .text _ => false

/-- `CopyConfig.request(source, target)` with a ready-made `<source>` ELEMENT (holding the configuration to copy). -/
def copyConfigEl (caps : Caps.Caps) (target : Str) (src : XNode) : Res := do
  let t ← datastoreOrUrl (has caps) "target" target
  if rootIsSource src then pure (el "copy-config" [t, src]) else .error .valueError

inductive Call
  | getSchema (identifier : Str) (version format : Option Str)
  | rpc (cmd : Str) (target source : Option Str) (filter : Option Filter) (config : Option XNode)
  | poweroff
  | reboot
  | validateEl (cfg : XNode)
  | copyEl (target : Str) (src : XNode)
  | get (filter : Option Filter) (wd : Option Str)
  | getConfig (source : Str) (filter : Option Filter) (wd : Option Str)
  | dispatch (cmd : Str) (source : Option Str) (filter : Option Filter)
  | subscribe (filter : Option Filter) (stream start stop : Option Str)

def build (caps : Caps.Caps) : Call → Res
  | .getSchema i v f => getSchema i v f
  | .rpc c t src f cfg => genericRpc caps c t src f cfg
  | .poweroff => power caps "poweroff-machine" poweroffCap
  | .reboot => power caps "reboot-machine" rebootCap
  | .validateEl cfg => validateEl caps cfg
  | .copyEl t src => copyConfigEl caps t src
  | .get f w => get caps f w
  | .getConfig src f w => getConfig caps src f w
  | .dispatch c src f => dispatch caps c src f
  | .subscribe f a b c => createSubscription caps f a b c

def optUrlCap : Option Str → List String
  | some l => urlCap l
  | none => []

/-- The capabilities a call documentedly depends on, from its ARGUMENTS (RFC 6241 §8.8, RFC 6243, RFC 5277). -/
def required : Call → List String
  | .getSchema _ _ _ => []
  | .rpc _ t src _ _ => optUrlCap t ++ optUrlCap src
  | .poweroff => [poweroffCap]
  | .reboot => [rebootCap]
  | .validateEl _ => [":validate"]
  | .copyEl t _ => urlCap t
  | .get _ w => if w.isSome then [":with-defaults"] else []
  | .getConfig src _ w => urlCap src ++ (if w.isSome then [":with-defaults"] else [])
  | .dispatch _ src _ => optUrlCap src
  | .subscribe _ _ _ _ => [":notification"]

/-- The with-defaults mode of a call, if it carries one. -/
def wdOf : Call → Option Str
  | .get _ w => w
  | .getConfig _ _ w => w
  | _ => none

/-- The filter of a call. -/
def filterOf : Call → Option Filter
  | .rpc _ _ _ f _ => f
  | .getSchema _ _ _ => none
  | .poweroff => none
  | .reboot => none
  | .validateEl _ => none
  | .copyEl _ _ => none
  | .get f _ => f
  | .getConfig _ f _ => f
  | .dispatch _ _ f => f
  | .subscribe f _ _ _ => f

/-- The caller's own element arguments other than the filter. -/
def elemArgs : Call → List XNode
  | .rpc _ _ _ _ (some c) => [c]
  | .validateEl c => [c]
  | .copyEl _ src => [src]
  | _ => []

end NcVerif.Retrieve
