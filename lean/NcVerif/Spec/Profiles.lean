/-
  NcVerif.Spec.Profiles — hand-written expectations about device profiles (from the documentation
  and RFC 6241), against which the regenerated table Gen/Profiles.lean is checked.
-/
import NcVerif.Gen.Profiles
namespace NcVerif.ProfilesSpec
open NcVerif

/-- NETCONF base capability URIs (RFC 6241 §8.1 form, and the XML-namespace form some devices use). -/
def isBaseUri (u : Str) : Bool :=
  u = "urn:ietf:params:netconf:base:1.0".toList || u = "urn:ietf:params:netconf:base:1.1".toList ||
  u = "urn:ietf:params:xml:ns:netconf:base:1.0".toList || u = "urn:ietf:params:xml:ns:netconf:base:1.1".toList

/-- The documented standard client capability list of the default profile. -/
def documentedDefaultCaps : List Str := [
  "urn:ietf:params:netconf:base:1.0".toList,
  "urn:ietf:params:netconf:base:1.1".toList,
  "urn:ietf:params:netconf:capability:writable-running:1.0".toList,
  "urn:ietf:params:netconf:capability:candidate:1.0".toList,
  "urn:ietf:params:netconf:capability:confirmed-commit:1.0".toList,
  "urn:ietf:params:netconf:capability:rollback-on-error:1.0".toList,
  "urn:ietf:params:netconf:capability:startup:1.0".toList,
  "urn:ietf:params:netconf:capability:url:1.0?scheme=http,ftp,file,https,sftp".toList,
  "urn:ietf:params:netconf:capability:validate:1.0".toList,
  "urn:ietf:params:netconf:capability:xpath:1.0".toList,
  "urn:ietf:params:netconf:capability:notification:1.0".toList,
  "urn:ietf:params:netconf:capability:interleave:1.0".toList,
  "urn:ietf:params:netconf:capability:with-defaults:1.0".toList ]

/-- `handler.get_capabilities()` after the user added `extra` (shape recovered by the translator). -/
def clientCaps (p : Gen.Profile) (extra : List Str) : List Str :=
  if p.usesExtra then p.capsPrefix ++ extra ++ p.capsSuffix else p.capsPrefix

/-- The device names the library documents (`ncclient.devices.supported_devices_cfg`). -/
def documentedDevices : List Str :=
  ["alu", "ciena", "csr", "h3c", "hpcomware", "huawei", "huaweiyang", "iosxe", "iosxr", "junos",
   "nexus", "sros", "default"].map String.toList

/-- Handler class a device name must resolve to: `ncclient.devices.<name>.<Name>DeviceHandler`. -/
def expectedClass (name : Str) : Str :=
  "ncclient.devices.".toList ++ name ++ ".".toList ++
    (match name with | [] => [] | c :: cs => c.toUpper :: cs) ++ "DeviceHandler".toList

end NcVerif.ProfilesSpec
