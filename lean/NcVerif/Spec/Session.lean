/-
  NcVerif.Spec.Session — predicates on histories and states used by the session-level properties.
-/
import NcVerif.Model.Session
namespace NcVerif.SessionSpec
open NcVerif NcVerif.Session NcVerif.Framing

/-- The ids handed to `RPC.__init__` (uuid4 in the code) are pairwise distinct. -/
def newIds (ops : List Op) : List Nat := ops.filterMap fun o => match o with | .cNew id => some id | _ => none
def FreshIds (ops : List Op) : Prop := (newIds ops).Nodup

def isClientOp : Op → Bool
  | .cNew _ | .cSend _ | .cTake | .cCloseBegin | .cCloseEnd => true
  | _ => false

def isWorkerOp : Op → Bool
  | .wTop _ | .wWrite _ | .wWriteErr | .wSelect _ | .wRead _ | .wDispatch | .wErrback | .wCloseSelf | .wExit => true
  | _ => false

/-- A user gets hold of the session (through the Manager) only once connect has returned:
    no request is created or sent before `kFinish`. -/
def ClientAfterConnect : List Op → Prop
  | [] => True
  | .kFinish :: _ => True
  | .cNew _ :: _ => False
  | .cSend _ :: _ => False
  | _ :: rest => ClientAfterConnect rest

def isReplyFor (env : Env) (id : Nat) (raw : Str) : Prop :=
  ∃ t, env.classify raw = .root ⟨t, some id⟩ ∧ replyAccepts env t = true

/-- A well-formed notification as the NotificationHandler sees it. -/
def goodNotif (env : Env) (raw : Str) : Bool :=
  match env.classify raw with
  | .root ⟨.notification, _⟩ => env.notifOk raw
  | _ => false

/-- Messages that no listener reacts to / that only the notification queue reacts to. -/
def inertTag (env : Env) (hasHello : Bool) : Tag → Bool
  | .notification => true
  | .other => true
  | .hello => !hasHello
  | .rpcReplyOther => env.qualify
  | .rpcReplyBase => false

/-- The environment after the transport was closed locally: nothing can be read or written any more. -/
def closedAnswer : Op → Bool
  | .wWrite n => n ≤ 0
  | .wRead (.data d) => d.isEmpty
  | _ => true

def pending (w : World) : List Nat := w.id2rpc

end NcVerif.SessionSpec

namespace NcVerif.SessionSpec
open NcVerif NcVerif.Session NcVerif.Framing

/-- A user gets hold of the session (through the Manager) only once connect has returned
    successfully: requests are created and sent only in states where `_post_connect` is done. -/
def UserAfterConnect (env : Env) (ops : List Op) : Prop :=
  ∀ pre op post, ops = pre ++ op :: post →
    ((∃ i, op = .cNew i) ∨ (∃ d, op = .cSend d)) → (run env init pre).conn = .done true

/-- The worker's next step once the transport has been closed locally: nothing can be read
    (EOF) or written (error) any more; `c` is the environment's remaining freedom
    (`_send_ready()` / whether `select` reports the descriptor). -/
def workerOpClosed (w : World) (c : Bool) : Op :=
  match w.pc with
  | .top => .wTop c
  | .writing _ => .wWriteErr
  | .select => .wSelect c
  | .read => .wRead .eof
  | .dispatching _ => .wDispatch
  | .failing _ => .wErrback
  | .closingSelf => .wCloseSelf
  | _ => .wExit

def runClosed (env : Env) (w : World) (cs : List Bool) : World :=
  cs.foldl (fun w c => step env w (workerOpClosed w c)) w

def todoLen (w : World) : Nat := match w.pc with | .dispatching t => t.length | _ => 0

end NcVerif.SessionSpec

namespace NcVerif.C03demo
open NcVerif NcVerif.Session
/-- A tiny concrete environment used by non-vacuity examples. -/
def env : Env where
  classify raw := if raw = "r1".toList then .root ⟨.rpcReplyBase, some 1⟩
                  else if raw = "r2".toList then .root ⟨.rpcReplyBase, some 2⟩
                  else if raw = "n".toList then .root ⟨.notification, none⟩
                  else if raw = "h".toList then .root ⟨.hello, none⟩ else .drop
  qualify := false
  notifOk _ := true
  helloParse raw := if raw = "h".toList then some ("7".toList, ["urn:ietf:params:netconf:base:1.1".toList]) else none
  clientCaps := ["urn:ietf:params:netconf:base:1.0".toList, "urn:ietf:params:netconf:base:1.1".toList]
  joins := false
end NcVerif.C03demo

namespace NcVerif.SessionSpec
open NcVerif NcVerif.Session NcVerif.Framing

/-- Let the worker dispatch everything the parser produced for the last read (no other thread runs). -/
def drain (env : Env) : Nat → World → World
  | 0, w => w
  | fuel + 1, w =>
    match w.pc with
    | .dispatching _ => drain env fuel (step env w .wDispatch)
    | _ => w

/-- One uninterrupted receive iteration of the worker: `select` reports the descriptor, `seg` is read,
    parsed, and every resulting message dispatched. -/
def readSeg (env : Env) (w : World) (seg : Bytes) : World :=
  let w1 := step env (step env w (.wSelect true)) (.wRead (.data seg))
  let w2 := drain env (match w1.pc with | .dispatching t => t.length + 1 | _ => 0) w1
  -- back at the top of the loop with nothing to send: go to select again
  if w2.pc = .top then step env w2 (.wTop false) else w2

def readSegs (env : Env) (w : World) (segs : List Bytes) : World := segs.foldl (readSeg env) w

end NcVerif.SessionSpec
