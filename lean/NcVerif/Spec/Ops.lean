/-
  NcVerif.Spec.Ops — what the protocol documents fix for each operation, written by hand from
  RFC 6241 / 5277 / 6022 / 6243 and the vendors' schemas (never from the code): operation element
  names and namespaces, the parameter order RFC 6241 fixes, and the capability each operation or
  argument depends on.  The regenerated table Gen/OpTable.lean is checked against these.
-/
import NcVerif.Gen.OpTable
namespace NcVerif.OpsSpec
open NcVerif NcVerif.Gen

def s (x : String) : Str := x.toList

def baseNs : Str := s "urn:ietf:params:xml:ns:netconf:base:1.0"
def notifNs : Str := s "urn:ietf:params:xml:ns:netconf:notification:1.0"
def monNs : Str := s "urn:ietf:params:xml:ns:yang:ietf-netconf-monitoring"
def pcNs : Str := s "urn:liberouter:params:xml:ns:netconf:power-control:1.0"

/-- (operation, profile) ↦ namespace and local name of the operation element;
    `none`: the element is supplied by the caller (`rpc`, `dispatch`). -/
def expectedOp (op profile : Str) : Option (Option (Str × Str)) :=
  let std : List (String × Str × String) := [
    ("get", baseNs, "get"), ("get_config", baseNs, "get-config"), ("get_schema", monNs, "get-schema"),
    ("edit_config", baseNs, "edit-config"), ("copy_config", baseNs, "copy-config"),
    ("delete_config", baseNs, "delete-config"), ("validate", baseNs, "validate"),
    ("discard_changes", baseNs, "discard-changes"), ("cancel_commit", baseNs, "cancel-commit"),
    ("lock", baseNs, "lock"), ("unlock", baseNs, "unlock"),
    ("create_subscription", notifNs, "create-subscription"), ("close_session", baseNs, "close-session"),
    ("kill_session", baseNs, "kill-session"), ("poweroff_machine", pcNs, "poweroff-machine"),
    ("reboot_machine", pcNs, "reboot-machine")]
  let vendor : List (String × String × Str × String) := [
    ("commit", "default", baseNs, "commit"), ("commit", "sros", baseNs, "commit"),
    ("commit", "junos", [], "commit-configuration"),
    ("get_configuration", "junos", baseNs, "get-configuration"), ("load_configuration", "junos", baseNs, "load-configuration"),
    ("compare_configuration", "junos", baseNs, "get-configuration"), ("command", "junos", baseNs, "command"),
    ("reboot", "junos", baseNs, "request-reboot"), ("halt", "junos", baseNs, "request-halt"),
    ("rollback", "junos", baseNs, "load-configuration"),
    ("md_cli_raw_command", "sros", s "urn:ietf:params:xml:ns:yang:1", "action"),
    ("exec_command", "nexus", s "http://www.cisco.com/nxos:1.0", "exec-command"),
    ("save_config", "iosxe", s "http://cisco.com/yang/cisco-ia", "save-config"),
    ("action", "h3c", baseNs, "action"), ("action", "hpcomware", baseNs, "action"),
    ("action", "huawei", s "http://www.huawei.com/netconf/capability/base/1.0", "execute-action"),
    ("cli", "h3c", baseNs, "CLI"), ("cli", "huawei", s "http://www.huawei.com/netconf/capability/base/1.0", "execute-cli"),
    ("cli_config", "hpcomware", baseNs, "CLI"), ("cli_display", "hpcomware", baseNs, "CLI"),
    ("rollback", "h3c", baseNs, "rollback"), ("rollback", "hpcomware", baseNs, "rollback"),
    ("save", "h3c", baseNs, "save"), ("save", "hpcomware", baseNs, "save"), ("load", "h3c", baseNs, "load"),
    ("get_bulk", "h3c", baseNs, "get-bulk"), ("get_bulk_config", "h3c", baseNs, "get-bulk-config"),
    ("show_cli", "alu", baseNs, "get"), ("get_configuration", "alu", baseNs, "get-config"),
    ("load_configuration", "alu", baseNs, "edit-config")]
  if op = s "rpc" ∨ op = s "dispatch" then some none
  else match vendor.find? (fun e => s e.1 = op ∧ s e.2.1 = profile) with
    | some e => some (some (e.2.2.1, s e.2.2.2))
    | none => match std.find? (fun e => s e.1 = op) with
      | some e => some (some (e.2.1, s e.2.2))
      | none => none

/-- The order RFC 6241 fixes for the parameters of its own operations (XSD sequences of §7, §8). -/
def rfc6241Order (op : Str) : Option (List Str) :=
  let t : List (String × List String) := [
    ("get", ["filter", "with-defaults"]),
    ("get_config", ["source", "filter", "with-defaults"]),
    ("edit_config", ["target", "default-operation", "test-option", "error-option", "config", "config-text", "url"]),
    ("copy_config", ["target", "source"]), ("delete_config", ["target"]), ("lock", ["target"]), ("unlock", ["target"]),
    ("validate", ["source"]), ("commit", ["confirmed", "confirm-timeout", "persist", "persist-id"]),
    ("cancel_commit", ["persist-id"]), ("discard_changes", []), ("close_session", []), ("kill_session", ["session-id"])]
  (t.find? (fun e => s e.1 = op)).map fun e => e.2.map s

def arg (r : OpRow) (k : String) : Option Str := r.args.lookup (s k)
def argIs (r : OpRow) (k v : String) : Bool := arg r k = some (s v)
def argSet (r : OpRow) (k : String) : Bool := match arg r k with | some v => v ≠ s "None" | none => false

/-- Capabilities an operation call documentedly depends on, as a function of the operation and its arguments. -/
def required (r : OpRow) : List Str :=
  let url (k : String) : List Str := if argIs r k "url" then [s ":url"] else []
  if r.op = s "edit_config" then
    url "target" ++ (if argSet r "to" then [s ":validate"] else []) ++
    (if argIs r "to" "test-only" then [s ":validate:1.1"] else []) ++
    (if argIs r "eo" "rollback-on-error" then [s ":rollback-on-error"] else []) ++ url "format"
  else if r.op = s "get" then (if argSet r "wd" then [s ":with-defaults"] else [])
  else if r.op = s "get_config" then url "source" ++ (if argSet r "wd" then [s ":with-defaults"] else [])
  else if r.op = s "copy_config" then url "target" ++ url "source"
  else if r.op = s "delete_config" then url "target"
  else if r.op = s "validate" then [s ":validate"] ++ url "source"
  else if r.op = s "commit" then [s ":candidate"] ++ (if argIs r "confirmed" "True" then [s ":confirmed-commit"] else [])
  else if r.op = s "cancel_commit" then [s ":candidate", s ":confirmed-commit"]
  else if r.op = s "discard_changes" then [s ":candidate"]
  else if r.op = s "create_subscription" then [s ":notification"]
  else if r.op = s "poweroff_machine" then [s "urn:liberouter:param:netconf:capability:power-control:1.0"]
  else if r.op = s "reboot_machine" then [s "urn:liberouter:params:netconf:capability:power-control:1.0"]
  else if r.op = s "rpc" ∨ r.op = s "dispatch" ∨ r.op = s "get_bulk_config" then url "target" ++ url "source"
  else []

def sameSet (a b : List Str) : Bool := a.all (· ∈ b) && b.all (· ∈ a)

def isSent (r : OpRow) : Bool := r.outcome = s "sent"
def allCaps (r : OpRow) : Bool := r.capsMode = s "all"

/-- C07 shape: one well-formed `<rpc>` in the base namespace with a message-id and exactly one operation
    element, which is the one the protocol defines. -/
def shapeOk (r : OpRow) : Bool :=
  !isSent r ||
  (r.nsent = 1 && r.rootNs = baseNs && r.rootName = s "rpc" && r.hasMsgId && r.nOps = 1 &&
   match expectedOp r.op r.profile with
   | some (some (ns, name)) => r.opNs = ns && r.opName = name
   | some none => true
   | none => false)

/-- C07 order: the parameter elements of an RFC 6241 operation appear in the RFC's order. -/
def orderOk (r : OpRow) : Bool :=
  !isSent r || r.profile ≠ s "default" ||
  match rfc6241Order r.op with
  | some order => r.params.isSublist order
  | none => true

/-- C07 enumerations: a call with an argument outside its documented set (or an inconsistent
    combination) is rejected locally with nothing sent. -/
def outsiderOk (r : OpRow) : Bool := !r.outsider || (r.nsent = 0 && !isSent r)

/-- C07 faithfulness: every caller string occurs exactly once in the request, in a text or attribute
    position — never in a tag position. -/
def sentinelsOk (r : OpRow) : Bool :=
  !isSent r || r.sentinels.all fun t => t.2.1 = 1 && t.2.2.1 && t.2.2.2 = 1

/-- C09 with everything advertised: what the code asserts is what the documentation requires. -/
def gatingOk (r : OpRow) : Bool := !(isSent r && allCaps r) || sameSet r.asserted (required r)

/-- Parameter elements that exist only under a capability (RFC 6241 §8.4 confirmed commit, §8.6 validate,
    RFC 6243 with-defaults): operation, element, capability. -/
def gatedParams : List (String × String × String) :=
  [("commit", "confirmed", ":confirmed-commit"), ("commit", "confirm-timeout", ":confirmed-commit"),
   ("commit", "persist", ":confirmed-commit"), ("edit_config", "test-option", ":validate"),
   ("get", "with-defaults", ":with-defaults"), ("get_config", "with-defaults", ":with-defaults")]

/-- C09 at wire level: a capability-dependent parameter element is on the wire only if that capability
    was asserted — whatever combination of arguments produced it. -/
def gatedParamsOk (r : OpRow) : Bool :=
  !(isSent r && allCaps r) ||
  gatedParams.all fun g => !(r.op = s g.1 && s g.2.1 ∈ r.params) || s g.2.2 ∈ r.asserted

/-- Values of enumerated parameter elements that exist only under a capability (RFC 6241 §8.6.4.1
    `test-only`, §8.5 `rollback-on-error`): operation, element, value, capability. -/
def gatedValues : List (String × String × String × String) :=
  [("edit_config", "test-option", "test-only", ":validate:1.1"),
   ("edit_config", "error-option", "rollback-on-error", ":rollback-on-error")]

/-- C09 at wire level, for values: a capability-dependent VALUE is on the wire only if that capability
    was asserted — however the caller spelled the argument that produced it. -/
def gatedValuesOk (r : OpRow) : Bool :=
  !(isSent r && allCaps r) ||
  gatedValues.all fun g => !(r.op = s g.1 && (s g.2.1, s g.2.2.1) ∈ r.enumLeaves) || s g.2.2.2 ∈ r.asserted

/-- The enumerations RFC 6241 §7.2 / RFC 6243 §3 fix for the enumerated parameter elements. -/
def enumOf (elem : Str) : Option (List Str) :=
  let t : List (String × List String) := [
    ("default-operation", ["merge", "replace", "none"]),
    ("test-option", ["test-then-set", "set", "test-only"]),
    ("error-option", ["stop-on-error", "continue-on-error", "rollback-on-error"]),
    ("with-defaults", ["report-all", "report-all-tagged", "trim", "explicit"])]
  (t.find? (fun e => s e.1 = elem)).map fun e => e.2.map s

/-- C07 at wire level: an enumerated parameter element on the wire carries a member of its enumeration
    (for the standard operations of the default profile). -/
def enumValuesOk (r : OpRow) : Bool :=
  !isSent r || r.profile ≠ s "default" || !(r.op = s "edit_config" || r.op = s "get" || r.op = s "get_config") ||
  r.enumLeaves.all fun kv => match enumOf kv.1 with | some vs => kv.2 ∈ vs | none => true

/-- C09 with one required capability missing: refused locally, nothing on the wire. -/
def refusalOk (r : OpRow) : Bool :=
  allCaps r || ((r.outcome = s "exc:MissingCapabilityError" || r.outcome = s "exc:WithDefaultsError" ||
                 r.outcome = s "exc:OperationError" && r.outsider) && r.nsent = 0)

/-- C09 completeness of the probing: for every sent row, each documented requirement was also probed
    with that capability removed (the row with `capsMode = "minus<c>"` is in the table: `probedMinus`
    is filled by the translator exactly when it appended that row). -/
def probedAll (rows : List OpRow) : Bool :=
  rows.all fun r => !(isSent r && allCaps r) || (required r).all (· ∈ r.probedMinus)

end NcVerif.OpsSpec
