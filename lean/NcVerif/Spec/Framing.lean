/-
  NcVerif.Spec.Framing — what a byte stream MEANS under RFC 4742 (1.0) and RFC 6242 (1.1),
  written from the RFCs and independently of the parser model; the property theorems relate the
  model of parser.py to these.
-/
import NcVerif.Model.Framing
namespace NcVerif.FramingSpec
open NcVerif NcVerif.Framing

/-! ### RFC 4742: messages are separated by `]]>]]>` -/

/-- RFC 4742's own limitation: the end-of-message delimiter that terminates `p` is the first one,
    i.e. no occurrence of `]]>]]>` starts inside `p`. -/
def Frameable10 (p : Bytes) : Prop := findSub delim10 (p ++ delim10) = some p.length

instance (p : Bytes) : Decidable (Frameable10 p) := by unfold Frameable10; infer_instance

/-- `Split10 stream payloads tail`: the stream is `p₁ ]]>]]> p₂ ]]>]]> … pₖ ]]>]]> tail`, each
    delimiter being the first one after the previous, and `tail` containing none. -/
inductive Split10 : Bytes → List Bytes → Bytes → Prop
  | tail (t : Bytes) : hasSub delim10 t = false → Split10 t [] t
  | cons (p rest : Bytes) (ps : List Bytes) (t : Bytes) :
      Frameable10 p → Split10 rest ps t → Split10 (p ++ delim10 ++ rest) (p :: ps) t

/-- What the client shows for a 1.0 payload: the decoded text modulo surrounding whitespace. -/
def present10 (p : Bytes) : Option Str := (Utf8.decode p).map pyStrip
/-- … and for a 1.1 payload: the decoded text. -/
def present11 (p : Bytes) : Option Str := Utf8.decode p

/-- Expected outputs for a list of payloads: each is delivered, in order, once; the first
    undecodable one ends the session with a decode error instead. -/
def outcomes (present : Bytes → Option Str) : List Bytes → List Out
  | [] => []
  | p :: ps =>
    match present p with
    | none => [.raise .decode]
    | some t => .deliver t :: outcomes present ps

/-! ### RFC 6242: chunked framing -/

/-- `chunk-size = 1*DIGIT1 0*DIGIT`, data of exactly that many octets, at least one chunk per message. -/
def WFmsg (cs : List Bytes) : Prop := cs ≠ [] ∧ ∀ c ∈ cs, c ≠ []
def WF (mss : List (List Bytes)) : Prop := ∀ cs ∈ mss, WFmsg cs

instance (cs : List Bytes) : Decidable (WFmsg cs) := by unfold WFmsg; infer_instance
instance (mss : List (List Bytes)) : Decidable (WF mss) := by unfold WF; infer_instance

/-- `q` is a proper prefix of the encoding of one well-formed message. -/
def PartialMsg (q : Bytes) : Prop := ∃ cs, WFmsg cs ∧ q <+: enc11msg cs ∧ q ≠ enc11msg cs

def delivers (outs : List Out) : List Str := outs.filterMap fun o => match o with | .deliver m => some m | _ => none

end NcVerif.FramingSpec
