import NcVerif.Driver.Proto
import NcVerif.Model.RpcError
import NcVerif.Model.ReplyDoc
import NcVerif.Driver.XmlDocD
namespace NcVerif.Driver
open NcVerif NcVerif.Proto NcVerif.RpcError

def optTok (t : String) : Option (Option Str) :=
  if t = "-" then some none else if t = "p" then some (some []) else (tokStr t).map some

def parseErr (t : String) : Option Err :=
  match t.splitOn ";" with
  | [ty, tg, sv, at_, pa, ms, inf] => do
    let ty ← optTok ty; let tg ← optTok tg; let sv ← optTok sv; let at_ ← optTok at_
    let pa ← optTok pa; let ms ← optTok ms
    pure { type := ty, tag := tg, severity := sv, appTag := at_, path := pa, message := ms, hasInfo := inf != "-" }
  | _ => none

/-- `re run <mode> <hasOk> <patterns> <errs>` → `raised <sev|-> <n|->` | `reply <ok> <nerr>`;
    `re exempt <patterns> <msg|->` → 0|1 -/
def rpcErrorCmd (args : List String) : String :=
  match args with
  | ["run", m, okT, patsT, errsT] =>
    match tokStrList patsT, (tokList errsT).mapM parseErr with
    | some pats, some errs =>
      let mode := if m = "0" then Mode.none else if m = "1" then Mode.errors else Mode.all
      let r : Reply := ⟨okT == "1", errs⟩
      match raises mode (mkPatterns pats) r with
      | some (.single e) => s!"raised {match e.severity with | some s => strTok s | none => "-"} -"
      | some (.aggregate es sev) => s!"raised {strTok sev} {es.length}"
      | none => s!"reply {if ok r then 1 else 0} {(errors r).length}"
    | _, _ => "bad-args"
  | "doc" :: m :: patsT :: toks =>
    -- the reply DOCUMENT: extraction of <ok/>, the rpc-error elements and their fields happens in the model (ReplyDoc.ofDoc)
    match tokStrList patsT, xdNode 100000 toks with
    | some pats, some (root, []) =>
      let mode := if m = "0" then Mode.none else if m = "1" then Mode.errors else Mode.all
      let r := ReplyDoc.ofDoc root
      let fields := fun (e : Err) => String.intercalate ";" ([e.type, e.tag, e.severity, e.appTag, e.path, e.message].map fun o =>
        match o with | some s => strTok s | none => "-") ++ (if e.hasInfo then ";p" else ";-")
      let errs := listTok ((errors r).map fields)
      match raises mode (mkPatterns pats) r with
      | some (.single e) => s!"raised {match e.severity with | some s => strTok s | none => "-"} - {errs}"
      | some (.aggregate es sev) => s!"raised {strTok sev} {es.length} {errs}"
      | none => s!"reply {if ok r then 1 else 0} {(errors r).length} {errs}"
    | _, _ => "bad-args"
  | ["exempt", patsT, msgT] =>
    match tokStrList patsT, optTok msgT with
    | some pats, some msg => if isExempt (mkPatterns pats) msg then "1" else "0"
    | _, _ => "bad-args"
  | _ => "bad-op"

end NcVerif.Driver
