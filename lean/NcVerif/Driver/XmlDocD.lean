import NcVerif.Driver.Proto
import NcVerif.Model.XmlDoc
namespace NcVerif.Driver
open NcVerif NcVerif.Proto NcVerif.XmlDoc

def xdAttrs : Nat → List String → Option (List (Str × Str) × List String)
  | 0, rest => some ([], rest)
  | n + 1, name :: v :: rest => do
    let name ← tokStr name; let v ← tokStr v
    let (as, r) ← xdAttrs n rest
    pure ((name, v) :: as, r)
  | _, _ => none

mutual
  /-- Prefix token format: `E <name> <nattrs> (<name> <val>)* <nchildren> child*` | `T <s>` -/
  def xdNode : Nat → List String → Option (XNode × List String)
    | 0, _ => none
    | fuel + 1, "E" :: name :: na :: rest => do
      let name ← tokStr name; let na ← na.toNat?
      let (attrs, r1) ← xdAttrs na rest
      match r1 with
      | nc :: r2 => do
        let nc ← nc.toNat?
        let (ch, r3) ← xdNodes fuel nc r2
        pure (.elem name attrs ch, r3)
      | [] => none
    | _ + 1, "T" :: s :: rest => (tokStr s).map fun s => (.text s, rest)
    | _, _ => none
  def xdNodes : Nat → Nat → List String → Option (List XNode × List String)
    | _, 0, rest => some ([], rest)
    | 0, _, _ => none
    | fuel + 1, n + 1, rest => do
      let (x, r1) ← xdNode fuel rest
      let (xs, r2) ← xdNodes fuel n r1
      pure (x :: xs, r2)
end

mutual
  def xdToks : XNode → List String
    | .elem name attrs children =>
      ["E", strTok name, toString attrs.length] ++
      (attrs.flatMap fun a => [strTok a.1, strTok a.2]) ++ [toString children.length] ++ xdToksList children
    | .text s => ["T", strTok s]
  def xdToksList : List XNode → List String
    | [] => []
    | n :: ns => xdToks n ++ xdToksList ns
end

/-- `xd ser <tree…>` → serialised text | `xd parse <s>` → tree tokens or `none` | `xd wf <tree…>` → 0/1 |
    `xd rt <tree…>` → `<wf> <serialised> <tree tokens of parseDoc (serialize t) | none>` -/
def xmlDocCmd (args : List String) : String :=
  match args with
  | "ser" :: toks => match xdNode 100000 toks with | some (t, []) => strTok (serialize t) | _ => "bad-args"
  | "wf" :: toks => match xdNode 100000 toks with | some (t, []) => (if wf t then "1" else "0") | _ => "bad-args"
  | "rt" :: toks =>
    match xdNode 100000 toks with
    | some (t, []) =>
      let ser := serialize t
      (if wf t then "1 " else "0 ") ++ strTok ser ++ " " ++
        (match parseDoc ser with | some t' => String.intercalate " " (xdToks t') | none => "none")
    | _ => "bad-args"
  | ["hello", pfx, caps] =>
    match tokStr pfx, tokStrList caps with
    | some pfx, some caps =>
      let ser := serialize (helloTree pfx caps)
      strTok ser ++ " " ++ (match parseDoc ser with
        | some t => listTok ((capsOf pfx t).map fun o => match o with | some c => strTok c | none => "-")
        | none => "none")
    | _, _ => "bad-args"
  | "rpc" :: pfx :: mid :: toks =>
    match tokStr pfx, tokStr mid, xdNode 100000 toks with
    | some pfx, some mid, some (op, []) =>
      let ser := serialize (rpcTree pfx mid op)
      strTok ser ++ " " ++ (match parseDoc ser with
        | some t => (match attrOf "message-id".toList t with | some m => strTok m | none => "-")
        | none => "none")
    | _, _, _ => "bad-args"
  | ["root", s] =>
    match tokStr s with
    | some s => match parseRoot s with
      | some (n, attrs) => strTok n ++ " " ++ listTok (attrs.map fun (k, v) => strTok k ++ "=" ++ strTok v)
      | none => "none"
    | none => "bad-args"
  | ["parse", s] =>
    match tokStr s with
    | some s => match parseDoc s with | some t => String.intercalate " " (xdToks t) | none => "none"
    | none => "bad-args"
  | _ => "bad-op"

end NcVerif.Driver
