import NcVerif.Driver.Proto
import NcVerif.Model.Isolation
namespace NcVerif.Driver
open NcVerif NcVerif.Proto NcVerif.Isolation

def tokPairs (t : String) : Option (List (Str × Str)) :=
  (tokList t).mapM fun kv => match kv.splitOn "=" with
    | [k, v] => do pure ((← tokStr k), (← tokStr v))
    | _ => none

/-- `iso resolve <vendor k=v,…> <std k=v,…> <name>` → class | `none`;  `iso subs <names> <pref|->` → list -/
def isoCmd (args : List String) : String :=
  match args with
  | ["resolve", vT, sT, nT] =>
    match tokPairs vT, tokPairs sT, tokStr nT with
    | some v, some s, some n => match resolve v s n with | some c => strTok c | none => "none"
    | _, _, _ => "bad-args"
  | ["subs", namesT, prefT] =>
    match tokStrList namesT with
    | some names =>
      let pref := if prefT = "-" then none else tokStr prefT
      listTok ((subsystemsWithPref names pref).map strTok)
    | none => "bad-args"
  | _ => "bad-op"

end NcVerif.Driver
