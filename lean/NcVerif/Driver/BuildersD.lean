import NcVerif.Driver.Proto
import NcVerif.Driver.XmlDocD
import NcVerif.Model.Builders
import NcVerif.Model.Caps
import NcVerif.Model.Retrieve
namespace NcVerif.Driver
open NcVerif NcVerif.Proto NcVerif.XmlDoc NcVerif.Builders

def optStr (t : String) : Option (Option Str) := if t = "-" then some none else (tokStr t).map some

def outRes (mid : Str) (r : Res) : String :=
  match r with
  | .ok op => "ok " ++ strTok (serialize (rpcTree "nc:".toList mid op)) ++ " " ++ listTok ((paramNames op).map strTok)
  | .error .operationError => "err operation"
  | .error (.missingCapability c) => "err missing " ++ strTok c
  | .error .valueError => "err value"
  | .error .xmlError => "err xml"
  | .error .withDefaultsError => "err withdefaults"

/-- Filter tokens (last on the line): `-` | `xpath <sel>` | `other <type>` | `subtree <tree…>` | `subtrees <n> <tree…>…` | `element <tree…>` -/
def parseFilter (toks : List String) : Option (Option Retrieve.Filter) :=
  match toks with
  | ["-"] => some none
  | ["xpath", sel] => (tokStr sel).map fun v => some (.xpath v)
  | ["other", ty] => (tokStr ty).map fun v => some (.other v)
  | "subtree" :: rest => match xdNode 100000 rest with | some (c, []) => some (some (.subtree c)) | _ => none
  | "element" :: rest => match xdNode 100000 rest with | some (c, []) => some (some (.element c)) | _ => none
  | "subtrees" :: n :: rest =>
    match n.toNat? with
    | some k => match xdNodes 100000 k rest with | some (cs, []) => some (some (.subtrees cs)) | _ => none
    | none => none
  | _ => none

/-- `bd get|getcf|disp|sub <caps> <mid> <scalar args…> <filter tokens…>` (Model/Retrieve) -/
def retrieveCmd (op : String) (uris : List Str) (mid : Str) (rest : List String) : Option String :=
  let caps := Caps.mk uris
  match op, rest with
  | "get", wd :: ft =>
    match optStr wd, parseFilter ft with
    | some wd, some f => some (outRes mid (Retrieve.get caps f wd))
    | _, _ => some "bad-args"
  | "getcf", src :: wd :: ft =>
    match tokStr src, optStr wd, parseFilter ft with
    | some src, some wd, some f => some (outRes mid (Retrieve.getConfig caps src f wd))
    | _, _, _ => some "bad-args"
  | "disp", cmd :: src :: ft =>
    match tokStr cmd, optStr src, parseFilter ft with
    | some cmd, some src, some f => some (outRes mid (Retrieve.dispatch caps cmd src f))
    | _, _, _ => some "bad-args"
  | "sub", a :: b :: c :: ft =>
    match optStr a, optStr b, optStr c, parseFilter ft with
    | some a, some b, some c, some f => some (outRes mid (Retrieve.createSubscription caps f a b c))
    | _, _, _, _ => some "bad-args"
  | "schema", [i, v, f] =>
    match tokStr i, optStr v, optStr f with
    | some i, some v, some f => some (outRes mid (Retrieve.getSchema i v f))
    | _, _, _ => some "bad-args"
  | "poweroff", [] => some (outRes mid (Retrieve.build caps .poweroff))
  | "reboot", [] => some (outRes mid (Retrieve.build caps .reboot))
  | "validateel", toks => match xdNode 100000 toks with
    | some (c, []) => some (outRes mid (Retrieve.validateEl caps c))
    | _ => some "bad-args"
  | "copyel", t :: toks => match tokStr t, xdNode 100000 toks with
    | some t, some (c, []) => some (outRes mid (Retrieve.copyConfigEl caps t c))
    | _, _ => some "bad-args"
  | "rpc", cmd :: t :: src :: "cfg" :: rest =>
    -- `rpc <cmd> <target|-> <source|-> cfg <tree…> flt <filter tokens…>` (configuration element first: its token count is self-delimiting)
    match tokStr cmd, optStr t, optStr src, xdNode 100000 rest with
    | some cmd, some t, some src, some (c, "flt" :: ft) =>
      match parseFilter ft with
      | some f => some (outRes mid (Retrieve.genericRpc caps cmd t src f (some c)))
      | none => some "bad-args"
    | _, _, _, _ => some "bad-args"
  | "rpc", cmd :: t :: src :: "nocfg" :: "flt" :: ft =>
    match tokStr cmd, optStr t, optStr src, parseFilter ft with
    | some cmd, some t, some src, some f => some (outRes mid (Retrieve.genericRpc caps cmd t src f none))
    | _, _, _, _ => some "bad-args"
  | _, _ => none

/-- `bd <op> <server capability URIs> <message-id> <args…>` → `ok <serialised <rpc>> <parameter names>` | `err operation|missing <cap>|value` -/
def buildersCmd (args : List String) : String :=
  match args with
  | op :: capsT :: midT :: rest =>
    match tokStrList capsT, tokStr midT with
    | some uris, some mid =>
      let has : Str → Bool := Caps.contains (Caps.mk uris)
      match retrieveCmd op uris mid rest with
      | some out => out
      | none =>
      match op, rest with
      | "edit", target :: dop :: top :: eop :: kind :: cfg =>
        match tokStr target, optStr dop, optStr top, optStr eop with
        | some target, some dop, some top, some eop =>
          let config : Option Config := match kind, cfg with
            | "text", [t] => (tokStr t).map Config.text
            | "url", [u, ok] => (tokStr u).map fun u => Config.url u (ok == "1")
            | "xml", toks => match xdNode 100000 toks with | some (c, []) => some (Config.xml c) | _ => none
            | _, _ => none
          match config with
          | some c => outRes mid (editConfig has c target dop top eop)
          | none => "bad-args"
        | _, _, _, _ => "bad-args"
      | "lock", [t] => match tokStr t with | some t => outRes mid (lockOp "lock" t) | none => "bad-args"
      | "unlock", [t] => match tokStr t with | some t => outRes mid (lockOp "unlock" t) | none => "bad-args"
      | "getconfig", [t] => match tokStr t with | some t => outRes mid (getConfig has t) | none => "bad-args"
      | "delete", [t] => match tokStr t with | some t => outRes mid (deleteConfig has t) | none => "bad-args"
      | "copy", [a, b] => match tokStr a, tokStr b with | some a, some b => outRes mid (copyConfig has a b) | _, _ => "bad-args"
      | "validate", [t] => match tokStr t with | some t => outRes mid (validate has t) | none => "bad-args"
      | "commit", [c, t, p, pid] =>
        match optStr t, optStr p, optStr pid with
        | some t, some p, some pid => outRes mid (commit has (c == "1") t p pid)
        | _, _, _ => "bad-args"
      | "cancel", [pid] => match optStr pid with | some pid => outRes mid (cancelCommit has pid) | none => "bad-args"
      | "discard", [] => outRes mid (discardChanges has)
      | "kill", [sid] => match tokStr sid with | some sid => outRes mid (killSession sid) | none => "bad-args"
      | "close", [] => outRes mid closeSession
      | _, _ => "bad-op"
    | _, _ => "bad-args"
  | _ => "bad-args"

end NcVerif.Driver
