import NcVerif.Driver.Proto
import NcVerif.Model.Caps
namespace NcVerif.Driver
open NcVerif NcVerif.Proto

/-- `caps get <uris> <key>` → `found <ns> <k=v,…> <len> <keys>` | `keyerror <len> <keys>` -/
def capsCmd (args : List String) : String :=
  match args with
  | ["get", urisT, keyT] =>
    match tokStrList urisT, tokStr keyT with
    | some uris, some key =>
      let d := Caps.mk uris
      let tail := s!"{(Caps.keys d).length} {listTok ((Caps.keys d).map strTok)}"
      match Caps.getItem d key with
      | .ok c => s!"found {strTok c.ns} {listTok (c.params.map fun (k, v) => strTok k ++ "=" ++ strTok v)} {tail}"
      | .error _ => s!"keyerror {tail}"
    | _, _ => "bad-args"
  | ["abbrev", uriT] =>
    match tokStr uriT with
    | some u => listTok ((Caps.abbreviate u).map strTok)
    | none => "bad-args"
  | _ => "bad-op"

end NcVerif.Driver
