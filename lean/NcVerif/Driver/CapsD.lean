import NcVerif.Driver.Proto
import NcVerif.Model.Caps
namespace NcVerif.Driver
open NcVerif NcVerif.Proto

/-- `caps get <uris> <key>` → `found <ns> <k=v,…> <len> <keys>` | `keyerror <len> <keys>` -/
def capsCmd (args : List String) : String :=
  match args with
  | ["get", urisT, keyT] =>
    match tokStrList urisT, tokStr keyT with
    | some uris, some key =>
      let d := Caps.mk uris
      let tail := s!"{(Caps.keys d).length} {listTok ((Caps.keys d).map strTok)}"
      match Caps.getItem d key with
      | .ok c => s!"found {strTok c.ns} {listTok (c.params.map fun (k, v) => strTok k ++ "=" ++ strTok v)} {tail}"
      | .error _ => s!"keyerror {tail}"
    | _, _ => "bad-args"
  | "hist" :: urisT :: opsT =>
    -- `caps hist <uris> (a <uri> | r <uri> | g <key> | k)…` → one result per `g` / `k`, separated by `;`
    match tokStrList urisT with
    | none => "bad-args"
    | some uris =>
      let rec go (fuel : Nat) (d : Caps.Caps) (toks : List String) (acc : List String) : Option (List String) :=
        match fuel, toks with
        | _, [] => some acc.reverse
        | 0, _ => none
        | fuel + 1, "a" :: u :: rest => (tokStr u).bind fun u => go fuel (Caps.add d u) rest acc
        | fuel + 1, "r" :: u :: rest => (tokStr u).bind fun u => go fuel (Caps.remove d u) rest acc
        | fuel + 1, "g" :: k :: rest => (tokStr k).bind fun k =>
            let out := match Caps.getItem d k with
              | .ok c => s!"found {strTok c.ns} {listTok (c.params.map fun (k, v) => strTok k ++ "=" ++ strTok v)}"
              | .error _ => "keyerror"
            go fuel d rest (out :: acc)
        | fuel + 1, "k" :: rest => go fuel d rest (s!"keys {listTok ((Caps.keys d).map strTok)}" :: acc)
        | _, _ => none
      match go 100000 (Caps.mk uris) opsT [] with
      | some outs => String.intercalate " ; " outs
      | none => "bad-args"
  | ["abbrev", uriT] =>
    match tokStr uriT with
    | some u => listTok ((Caps.abbreviate u).map strTok)
    | none => "bad-args"
  | _ => "bad-op"

end NcVerif.Driver
