import NcVerif.Driver.Proto
import NcVerif.Model.Framing
namespace NcVerif.Driver
open NcVerif NcVerif.Proto NcVerif.Framing

def outTok : Out → String
  | .deliver m => "d" ++ strTok m
  | .raise .framing => "rF"
  | .raise .decode => "rD"

/-- feed segments one by one (as the worker does), recording the number of outputs after each. -/
def feedTrace (b11 : Bool) : PState → List Bytes → List Out → List Nat → List Out × List Nat
  | _, [], outs, counts => (outs, counts.reverse)
  | s, seg :: segs, outs, counts =>
    let (s1, o1) := feed b11 s seg
    let outs' := outs ++ o1
    let n := (outs'.filter fun o => match o with | .deliver _ => true | _ => false).length
    if hasRaise o1 then (outs', (n :: counts).reverse) else feedTrace b11 s1 segs outs' (n :: counts)

/-- `fr feed <0|1> <segs>` → `<outs> <counts>`;  `fr utf8 <bytes>` → `s…`|`none`;
    `fr frame <0|1> <bytes>` → bytes;  `fr write <bytes> <ints>` → `<wire> ok|closed|more` -/
def framingCmd (args : List String) : String :=
  match args with
  | ["feed", b, segsT] =>
    match tokBytesList segsT with
    | some segs =>
      let (outs, counts) := feedTrace (b == "1") Framing.init segs [] []
      s!"{listTok (outs.map outTok)} {listTok (counts.map toString)}"
    | none => "bad-args"
  | ["utf8", bT] =>
    match tokBytes bT with
    | some b => match Utf8.decode b with | some s => strTok s | none => "none"
    | none => "bad-args"
  | ["strip", sT] =>
    match tokStr sT with
    | some s => strTok (pyStrip s)
    | none => "bad-args"
  | ["frame", b, dT] =>
    match tokBytes dT with
    | some d => bytesTok (frame (b == "1") d)
    | none => "bad-args"
  | ["write", dT, nsT] =>
    match tokBytes dT, (tokList nsT).mapM String.toInt? with
    | some d, some ns =>
      match writeLoop ns d [] with
      | some (w, true) => s!"{bytesTok w} ok"
      | some (w, false) => s!"{bytesTok w} closed"
      | none => "b more"
    | _, _ => "bad-args"
  | _ => "bad-op"

end NcVerif.Driver
