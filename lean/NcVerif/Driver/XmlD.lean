import NcVerif.Driver.Proto
import NcVerif.Model.Xml
namespace NcVerif.Driver
open NcVerif NcVerif.Proto NcVerif.Xml

def optNs (t : String) : Option (Option Str) := if t = "-" then some none else (tokStr t).map some
def nsTok : Option Str → String | none => "-" | some s => strTok s

def parseAttrs : Nat → List String → Option (List (QName × Str) × List String)
  | 0, rest => some ([], rest)
  | n + 1, ns :: name :: v :: rest => do
    let ns ← optNs ns; let name ← tokStr name; let v ← tokStr v
    let (as, r) ← parseAttrs n rest
    pure ((⟨ns, name⟩, v) :: as, r)
  | _, _ => none

mutual
  /-- Prefix token format: `E <ns> <name> <nattrs> (<ns> <name> <val>)* <nchildren> child*` | `T <s>` | `C <s>` | `P <target> <s>` -/
  def parseNode : Nat → List String → Option (Node × List String)
    | 0, _ => none
    | fuel + 1, "E" :: ns :: name :: na :: rest => do
      let ns ← optNs ns; let name ← tokStr name; let na ← na.toNat?
      let (attrs, r1) ← parseAttrs na rest
      match r1 with
      | nc :: r2 => do
        let nc ← nc.toNat?
        let (ch, r3) ← parseNodes fuel nc r2
        pure (.elem ⟨ns, name⟩ attrs ch, r3)
      | [] => none
    | _ + 1, "T" :: s :: rest => (tokStr s).map fun s => (.text s, rest)
    | _ + 1, "C" :: s :: rest => (tokStr s).map fun s => (.comment s, rest)
    | _ + 1, "P" :: t :: s :: rest => do pure (.pi (← tokStr t) (← tokStr s), rest)
    | _, _ => none
  def parseNodes : Nat → Nat → List String → Option (List Node × List String)
    | _, 0, rest => some ([], rest)
    | 0, _, _ => none
    | fuel + 1, n + 1, rest => do
      let (x, r1) ← parseNode fuel rest
      let (xs, r2) ← parseNodes fuel n r1
      pure (x :: xs, r2)
end

mutual
  def nodeToks : Node → List String
    | .elem tag attrs children =>
      ["E", nsTok tag.ns, strTok tag.name, toString attrs.length] ++
      (attrs.flatMap fun a => [nsTok a.1.ns, strTok a.1.name, strTok a.2]) ++ [toString children.length] ++ nodesToks children
    | .text s => ["T", strTok s]
    | .comment s => ["C", strTok s]
    | .pi t s => ["P", strTok t, strTok s]
  def nodesToks : List Node → List String
    | [] => []
    | n :: ns => nodeToks n ++ nodesToks ns
end

def outNodes (l : List Node) : String := String.intercalate " " (toString l.length :: nodesToks l)

def parseQNames (t : String) : Option (List QName) :=
  (tokList t).mapM fun x => match x.splitOn "|" with
    | [ns, name] => do pure ⟨← optNs ns, ← tokStr name⟩
    | _ => none

/-- `xm replacens <old> <new> <tree…>` | `xm stripns <tree…>` | `xm stripelem <tree…>` | `xm shape <tree…>` |
    `xm validated <tags> <reqs: alts;alts> <tree…>` | `xm adddecl <decl> <s>` | `xm find <ns> <name> <tree…>` -/
def xmlCmd (args : List String) : String :=
  match args with
  | "replacens" :: o :: n :: toks =>
    match optNs o, optNs n, parseNode 100000 toks with
    | some o, some n, some (t, []) => outNodes [replaceNs o n t]
    | _, _, _ => "bad-args"
  | "stripns" :: toks => match parseNode 100000 toks with | some (t, []) => outNodes (stripNs t) | _ => "bad-args"
  | "stripelem" :: toks => match parseNode 100000 toks with | some (t, []) => outNodes [stripElemNs t] | _ => "bad-args"
  | "shape" :: toks => match parseNode 100000 toks with | some (t, []) => outNodes (shape t) | _ => "bad-args"
  | "validated" :: tagsT :: reqsT :: toks =>
    let reqs := if reqsT = "_" then some [] else (reqsT.splitOn ";").mapM parseQNames
    match parseQNames tagsT, reqs, parseNode 100000 toks with
    | some tags, some reqs, some (t, []) => if validated tags reqs t then "1" else "0"
    | _, _, _ => "bad-args"
  | ["adddecl", d, s] => match tokStr d, tokStr s with | some d, some s => strTok (addDecl d s) | _, _ => "bad-args"
  | "find" :: ns :: name :: toks =>
    match optNs ns, tokStr name, parseNode 100000 toks with
    | some ns, some name, some (t, []) => match findChild ⟨ns, name⟩ t with | some d => outNodes [d] | none => "none"
    | _, _, _ => "bad-args"
  | _ => "bad-op"

end NcVerif.Driver
