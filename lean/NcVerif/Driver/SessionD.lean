import NcVerif.Driver.Proto
import NcVerif.Model.Session
namespace NcVerif.Driver
open NcVerif NcVerif.Proto NcVerif.Session NcVerif.Framing

/-- What the harness told us about one message text (verdicts of the real XML library). -/
structure MsgInfo where
  cls : Class
  notifOk : Bool
  hello : Option (Str × List Str)

structure SessD where
  table : List (Str × MsgInfo) := []
  qualify : Bool := true
  joins : Bool := false
  alwaysReady : Bool := true
  clientCaps : List Str := []
  world : World := {}

def SessD.env (d : SessD) : Env where
  classify raw := match d.table.lookup raw with | some i => i.cls | none => .drop
  qualify := d.qualify
  notifOk raw := match d.table.lookup raw with | some i => i.notifOk | none => false
  helloParse raw := match d.table.lookup raw with | some i => i.hello | none => none
  clientCaps := d.clientCaps
  joins := d.joins

/-- Worker steps that involve no transport call: the real worker runs through them before it
    parks again, and no client action of the lock-step harness can fall in between. -/
def advance (env : Env) (alwaysReady : Bool) : Nat → World → World
  | 0, w => w
  | fuel + 1, w =>
    match w.pc with
    | .top =>
      if w.q.isEmpty then advance env alwaysReady fuel (step env w (.wTop false))
      else if alwaysReady then advance env alwaysReady fuel (step env w (.wTop true))
      else w
    | .dispatching _ => advance env alwaysReady fuel (step env w .wDispatch)
    | .failing _ => advance env alwaysReady fuel (step env w .wErrback)
    | .exiting => advance env alwaysReady fuel (step env w .wExit)
    | .closingSelf =>
      -- SSHSession.close() skips transport.close() (the harness' rendezvous point) when the
      -- transport was already closed by a client thread
      if !alwaysReady && w.socketClosed then advance env alwaysReady fuel (step env w .wCloseSelf) else w
    | _ => w

def errTok : ErrK → String
  | .sessionClose => "sessionClose" | .transport => "transport" | .framing => "framing"
  | .decode => "decode" | .operation => "operation" | .xml => "xml" | .rawDispatch => "rawDispatch"

def pcTok : WPc → String
  | .notStarted => "notStarted" | .top => "ready" | .writing _ => "write" | .select => "select"
  | .read => "read" | .dispatching _ => "dispatching" | .failing _ => "failing"
  | .closingSelf => "close" | .exiting => "exiting" | .stopped => "stopped"

def rpcTok (r : Rpc) : String :=
  let st := if r.event then
      match r.error with
      | some e => "E" ++ errTok e
      | none => match r.reply with | some raw => "R" ++ strTok raw | none => "W"
    else "W"
  s!"{r.id}:{st}"

def connTok : ConnPc → String
  | .idle => "idle" | .listenersAdded => "listeners" | .helloQueued => "queued" | .started => "started"
  | .done true => "ok" | .done false => "failed"

def obsLine (w : World) : String :=
  let sid := match w.sessionId with | some s => strTok s | none => "-"
  let caps := match w.serverCaps with | some cs => listTok (cs.map strTok) | none => "-"
  s!"{pcTok w.pc} c{if w.connected then 1 else 0} b{if w.base11 then 1 else 0} {bytesTok w.wire} {listTok (w.rpcs.map rpcTok)} {listTok (w.taken.map strTok)} {connTok w.conn} {sid} {caps}"

def parseClass (t : String) (mid : String) : Option Class :=
  let m : Option Nat := if mid = "-" then none else mid.toNat?
  match t with
  | "replyBase" => some (.root ⟨.rpcReplyBase, m⟩)
  | "replyOther" => some (.root ⟨.rpcReplyOther, m⟩)
  | "notification" => some (.root ⟨.notification, m⟩)
  | "hello" => some (.root ⟨.hello, m⟩)
  | "other" => some (.root ⟨.other, m⟩)
  | "drop" => some .drop
  | "rawErr" => some .rawErr
  | "fatal" => some .fatal
  | _ => none

def parseOp (args : List String) : Option Op :=
  match args with
  | ["cNew", id] => id.toNat?.map .cNew
  | ["cSend", d] => (tokBytes d).map .cSend
  | ["cTake"] => some .cTake
  | ["cCloseBegin"] => some .cCloseBegin
  | ["cCloseEnd"] => some .cCloseEnd
  | ["kAddListeners"] => some .kAddListeners
  | ["kSendHello", d] => (tokBytes d).map .kSendHello
  | ["kStart"] => some .kStart
  | ["kWaitExpire"] => some .kWaitExpire
  | ["kFinish"] => some .kFinish
  | ["wTop", r] => some (.wTop (r == "1"))
  | ["wWrite", n] => n.toInt?.map .wWrite
  | ["wWriteErr"] => some .wWriteErr
  | ["wSelect", e] => some (.wSelect (e == "1"))
  | ["wRead", "eof"] => some (.wRead .eof)
  | ["wRead", "err"] => some (.wRead .err)
  | ["wRead", d] => (tokBytes d).map fun b => .wRead (.data b)
  | ["wCloseSelf"] => some .wCloseSelf
  | _ => none

/-- `ss init <qualify> <joins> <alwaysReady> <clientCaps>` | `ss cls <raw> <class> <mid> <notifOk> <hello: - | sid;cap,cap>` |
    `ss op …` → observation line. -/
def sessionCmd (d : SessD) (args : List String) : SessD × String :=
  match args with
  | ["init", q, j, a, capsT] =>
    match tokStrList capsT with
    | some caps =>
      let d' : SessD := { table := [], qualify := q == "1", joins := j == "1", alwaysReady := a == "1", clientCaps := caps, world := {} }
      (d', obsLine d'.world)
    | none => (d, "bad-args")
  | ["cls", rawT, clsT, midT, nOk, helloT] =>
    match tokStr rawT, parseClass clsT midT with
    | some raw, some cls =>
      let hello : Option (Str × List Str) :=
        if helloT = "-" then none else
        match helloT.splitOn ";" with
        | [sidT, capsT] => match tokStr sidT, tokStrList capsT with
          | some sid, some caps => some (sid, caps)
          | _, _ => none
        | _ => none
      ({ d with table := (raw, ⟨cls, nOk == "1", hello⟩) :: d.table }, "ok")
    | _, _ => (d, "bad-args")
  | "op" :: rest =>
    match parseOp rest with
    | some op =>
      let env := d.env
      let w1 := step env d.world op
      let w2 := advance env d.alwaysReady 100000 w1
      ({ d with world := w2 }, obsLine w2)
    | none => (d, "bad-op")
  | _ => (d, "bad-op")

end NcVerif.Driver
