/-
  Line-protocol helpers for the correspondence driver (tokens: `s<hex of UTF-8>`, `b<hex>`,
  lists joined by `,`, `_` = empty list).  Not part of any model; uses the `String`/`ByteArray` API.
-/
import NcVerif.Model.Basic
namespace NcVerif.Proto
open NcVerif

def hexVal (c : Char) : Option Nat :=
  if '0' ≤ c ∧ c ≤ '9' then some (c.toNat - '0'.toNat)
  else if 'a' ≤ c ∧ c ≤ 'f' then some (c.toNat - 'a'.toNat + 10)
  else if 'A' ≤ c ∧ c ≤ 'F' then some (c.toNat - 'A'.toNat + 10)
  else none

def unhexAux : List Char → List UInt8 → Option (List UInt8)
  | [], acc => some acc.reverse
  | [_], _ => none
  | a :: b :: rest, acc =>
    match hexVal a, hexVal b with
    | some x, some y => unhexAux rest (UInt8.ofNat (16 * x + y) :: acc)
    | _, _ => none

/-- token `b…`/`s…` → bytes -/
def tokBytes (t : String) : Option Bytes :=
  match t.toList with
  | _ :: rest => unhexAux rest []
  | [] => none

def tokStr (t : String) : Option Str := do
  let b ← tokBytes t
  let s ← String.fromUTF8? (ByteArray.mk b.toArray)
  pure s.toList

def hexDigit (n : Nat) : Char :=
  if n < 10 then Char.ofNat ('0'.toNat + n) else Char.ofNat ('a'.toNat + n - 10)

def hexOfBytes (b : Bytes) : String :=
  String.ofList (b.foldr (fun x acc => hexDigit (x.toNat / 16) :: hexDigit (x.toNat % 16) :: acc) [])

def bytesTok (b : Bytes) : String := "b" ++ hexOfBytes b
def strTok (s : Str) : String := "s" ++ hexOfBytes (String.ofList s).toUTF8.toList

def listTok (ts : List String) : String :=
  if ts.isEmpty then "_" else String.intercalate "," ts

def tokList (t : String) : List String :=
  if t = "_" then [] else t.splitOn ","

def tokStrList (t : String) : Option (List Str) := (tokList t).mapM tokStr
def tokBytesList (t : String) : Option (List Bytes) := (tokList t).mapM tokBytes

end NcVerif.Proto
