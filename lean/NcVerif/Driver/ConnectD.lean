import NcVerif.Driver.Proto
import NcVerif.Model.Connect
namespace NcVerif.Driver
open NcVerif NcVerif.Proto NcVerif.Connect

def evTokC : Ev → String
  | .startClient => "start" | .keyCheck k => s!"check:{if k then 1 else 0}" | .callback a => s!"callback:{if a then 1 else 0}"
  | .auth i ok => s!"auth:{i}:{if ok then 1 else 0}" | .openSession => "open" | .subsystem i ok => s!"subsystem:{i}:{if ok then 1 else 0}"
  | .hello => "hello"

def resTok : Res → String
  | .connected => "connected" | .negotiationFailed => "negotiationFailed" | .unknownHost => "unknownHost"
  | .authenticationError => "authenticationError" | .noSubsystem => "noSubsystem"

def bits (t : String) : List Bool := if t = "_" then [] else t.toList.map (· == '1')

/-- `cn ssh <verify> <known a|h|p|d> <pinned a|m|d> <cb> <negotiates> <auths bits> <subs bits>` → `<trace> <result>`;
    `cn tls <hasHost> <hasCert> <hasProto> <tcp> <handshake>` -/
def connectCmd (args : List String) : String :=
  match args with
  | ["ssh", v, k, p, cb, neg, au, su] =>
    let known := if k = "h" then Known.underHost else if k = "p" then .underHostPort else if k = "d" then .differentKey else .absent
    let pin := if p = "m" then Pin.matching else if p = "d" then .different else .absent
    let c : Cfg := { verify := v == "1", known := known, pinned := pin, cbAccepts := cb == "1", negotiates := neg == "1",
                     auths := bits au, subsystems := bits su }
    let (tr, r) := sshTrace c
    s!"{listTok (tr.map evTokC)} {resTok r}"
  | ["tls", h, c, p, t, hs] =>
    let cfg : TlsCfg := ⟨h == "1", c == "1", p == "1", t == "1", hs == "1"⟩
    let (tr, r) := tlsTrace cfg
    let tok : TlsEv → String
      | .context b => s!"context:{if b then 1 else 0}" | .tcp => "tcp" | .handshake ok => s!"handshake:{if ok then 1 else 0}" | .hello => "hello"
    s!"{listTok (tr.map tok)} {match r with | .connected => "connected" | .tlsError => "tlsError"}"
  | _ => "bad-op"

end NcVerif.Driver
