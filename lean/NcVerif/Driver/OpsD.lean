import NcVerif.Driver.Proto
import NcVerif.Model.Ops
import NcVerif.Model.XmlText
namespace NcVerif.Driver
open NcVerif NcVerif.Proto NcVerif.Ops NcVerif.XmlText

def refusalTok : Option Refusal → String
  | none => "ok"
  | some (.missingCapability c) => "missing " ++ strTok c
  | some .withDefaults => "withdefaults"

/-- `ops gate <uris> <required>` | `ops wd <uris> <mode>` -/
def opsCmd (args : List String) : String :=
  match args with
  | ["gate", urisT, reqT] =>
    match tokStrList urisT, tokStrList reqT with
    | some uris, some req => refusalTok (gate (Caps.mk uris) req)
    | _, _ => "bad-args"
  | ["wd", urisT, modeT] =>
    match tokStrList urisT, tokStr modeT with
    | some uris, some mode => refusalTok (withDefaultsGate (Caps.mk uris) mode)
    | _, _ => "bad-args"
  | _ => "bad-op"

def optStrTok : Option Str → String
  | some s => strTok s
  | none => "none"

/-- `xt esctext|escattr|readtext|readattr <s>` -/
def xmlTextCmd (args : List String) : String :=
  match args with
  | [op, sT] =>
    match tokStr sT with
    | some s =>
      if op = "esctext" then strTok (escapeText s)
      else if op = "escattr" then strTok (escapeAttr s)
      else if op = "readtext" then optStrTok (parseText s)
      else if op = "readattr" then optStrTok (parseAttr s)
      else "bad-op"
    | none => "bad-args"
  | _ => "bad-op"

end NcVerif.Driver
