import NcVerif.Driver.Proto
import NcVerif.Model.JunosSax
namespace NcVerif.Driver
open NcVerif NcVerif.Proto NcVerif.JunosSax

mutual
  def parseFT : Nat → List String → Option (FT × List String)
    | 0, _ => none
    | fuel + 1, "N" :: tag :: n :: rest => do
      let tag ← tokStr tag; let n ← n.toNat?
      let (ch, r) ← parseFTs fuel n rest
      pure (.node tag ch, r)
    | _, _ => none
  def parseFTs : Nat → Nat → List String → Option (List FT × List String)
    | _, 0, rest => some ([], rest)
    | 0, _, _ => none
    | fuel + 1, n + 1, rest => do
      let (x, r1) ← parseFT fuel rest
      let (xs, r2) ← parseFTs fuel n r1
      pure (x :: xs, r2)
end

def parseKVs : Nat → List String → Option (List (Str × Str) × List String)
  | 0, rest => some ([], rest)
  | n + 1, k :: v :: rest => do
    let k ← tokStr k; let v ← tokStr v
    let (l, r) ← parseKVs n rest
    pure ((k, v) :: l, r)
  | _, _ => none

def parseEvs : Nat → List String → Option (List Ev)
  | _, [] => some []
  | 0, _ => none
  | fuel + 1, "S" :: tag :: n :: rest => do
    let tag ← tokStr tag; let n ← n.toNat?
    let (a, r) ← parseKVs n rest
    let evs ← parseEvs fuel r
    pure (.start tag a :: evs)
  | fuel + 1, "E" :: tag :: rest => do
    let tag ← tokStr tag
    let evs ← parseEvs fuel rest
    pure (.stop tag :: evs)
  | fuel + 1, "C" :: s :: rest => do
    let s ← tokStr s
    let evs ← parseEvs fuel rest
    pure (.chars s :: evs)
  | _, _ => none

/-- `js run <lookup: f|n|u> <filter tokens… (if f)> | <event tokens…>` → `ok <out>` | `nofilter` | `unknown` | `failed <out>` -/
def junosCmd (args : List String) : String :=
  match args with
  | "run" :: lk :: rest =>
    let (ftToks, evToks) := (rest.takeWhile (· ≠ "|"), (rest.dropWhile (· ≠ "|")).drop 1)
    let lookup : Option Lookup :=
      if lk = "f" then match parseFT 100000 ftToks with | some (f, []) => some (.filter f) | _ => none
      else if lk = "n" then some .noFilter else some .unknown
    match lookup, parseEvs 1000000 evToks with
    | some lookup, some evs =>
      match feed lookup {} evs with
      | .ok h => (if h.failed then "failed " else "ok ") ++ strTok h.out
      | .noFilter => "nofilter"
      | .unknownId => "unknown"
    | _, _ => "bad-args"
  | _ => "bad-op"

end NcVerif.Driver
