import NcVerif.Driver.Proto
import NcVerif.Model.Lock
namespace NcVerif.Driver
open NcVerif NcVerif.Proto NcVerif.Lock

/-- Programs in prefix notation: `S` skip, `Q<n>` req, `R<n>` raise, `;` seq a b, `L<t>` locked t body. -/
def parseProg : Nat → List String → Option (Prog × List String)
  | 0, _ => none
  | fuel + 1, tok :: rest =>
    if tok = "S" then some (.skip, rest)
    else if tok = ";" then do
      let (a, r1) ← parseProg fuel rest
      let (b, r2) ← parseProg fuel r1
      pure (.seq a b, r2)
    else match tok.toList with
      | 'Q' :: ds => (String.ofList ds).toNat?.map fun n => (.req n, rest)
      | 'R' :: ds => (String.ofList ds).toNat?.map fun n => (.raise n, rest)
      | 'L' :: ds => do
        let t ← (String.ofList ds).toNat?
        let (b, r1) ← parseProg fuel rest
        pure (.locked t b, r1)
      | _ => none
  | _, [] => none

def evTok : Ev → String
  | .lock t => s!"lock:{t}" | .unlock t => s!"unlock:{t}" | .req n => s!"req:{n}"

def excTok : Option Exc → String
  | none => "-"
  | some (.body e) => s!"body:{e}"
  | some (.rpc ev) => s!"rpc:{evTok ev}"

def parseMode (t : String) : Option Mode :=
  if t = "all" then some .all else if t = "errors" then some .errors else if t = "none" then some .none else none

/-- `lk run <mode: all|errors|none> <answers: o|w|e by arrival index, comma separated, default o> <prog tokens…>` → `<trace> <exc>` -/
def lockCmd (args : List String) : String :=
  match args with
  | "run" :: modeT :: ansT :: progT =>
    match parseMode modeT with
    | none => "bad-args"
    | some m =>
    let answers := (tokList ansT).map fun a => if a = "e" then Ans.error else if a = "w" then Ans.warning else Ans.ok
    let srv : Server := fun tr => answers.getD (tr.length - 1) .ok
    match parseProg 10000 progT with
    | some (p, []) =>
      let (tr, x) := run srv m p []
      s!"{listTok (tr.map evTok)} {excTok x}"
    | _ => "bad-args"
  | _ => "bad-op"

end NcVerif.Driver
