/-
  C14 — malformed or hostile server input cannot corrupt or wedge a session (framing part).

  Property theorems only; all statements are for ARBITRARY byte streams and segmentations.
  (The session-level clauses — pending requests failed, session marked disconnected whenever the
  worker stops — are in the second half of this file, over Model/Session.)
-/
import NcVerif.Proofs.Framing10
import NcVerif.Proofs.Framing11
import NcVerif.Proofs.SessionA
namespace NcVerif.C14
open NcVerif NcVerif.Framing NcVerif.FramingSpec

/-- Shape of every run: some deliveries followed by at most one error, which is last. -/
def RunShape (outs : List Out) (texts : List Str) : Prop :=
  outs = texts.map .deliver ∨ ∃ k, outs = texts.map .deliver ++ [.raise k]

/-- 1.1 soundness: whatever bytes arrive, in whatever reads, the messages dispatched are the decoded
    payloads of correctly framed RFC 6242 messages that form a prefix of the stream, in stream
    order — none invented, merged, duplicated or reordered — followed by at most one error. -/
theorem delivered_sound11 (segs : List Bytes) :
    ∃ mss : List (List Bytes), WF mss ∧ enc11 mss <+: segs.flatten ∧
      ∃ texts, (mss.map List.flatten).map present11 = texts.map some ∧
        RunShape (obs (feedAll true init segs)) texts := by
  exact Framing11.delivered_sound11 segs

/-- 1.0 soundness: the messages dispatched are the decoded, stripped payloads of a prefix of the
    stream's `]]>]]>`-terminated pieces, in order, followed by at most one (decode) error. -/
theorem delivered_sound10 (segs : List Bytes) :
    ∃ ps : List Bytes, (∀ p ∈ ps, Frameable10 p) ∧ enc10 ps <+: segs.flatten ∧
      ∃ texts, ps.map present10 = texts.map some ∧
        RunShape (obs (feedAll false init segs)) texts := by
  exact Framing10.delivered_sound10 segs

/-- No stall, 1.1: a run that has not raised is never wedged — some continuation of the stream makes
    the parser produce one more output (a delivery, or an error: e.g. after `\n##` with no chunk
    every continuation raises).  There is no state in which it silently waits for ever. -/
theorem no_stall11 (segs : List Bytes) (h : hasRaise (obs (feedAll true init segs)) = false) :
    ∃ ext : Bytes, (obs (feedAll true init (segs ++ [ext]))).length >
      (obs (feedAll true init segs)).length := by
  exact Framing11.no_stall11 segs h

/-- Bytes that cannot start a delimiter where one is expected raise a framing error at once. -/
theorem bad_header_raises (mss : List (List Bytes)) (junk : Bytes) (segs : List Bytes)
    (hw : WF mss) (hd : ∀ cs ∈ mss, Utf8.valid cs.flatten = true) (hj : token junk = .bad)
    (h : segs.flatten = enc11 mss ++ junk) :
    obs (feedAll true init segs) = (mss.map fun cs => .deliver ((Utf8.decode cs.flatten).getD [])) ++ [.raise .framing] := by
  exact Framing11.bad_header_raises mss junk segs hw hd hj h

/-! Non-vacuity -/
-- garbage where a chunk header is expected: error, not a wait
example : obs (feedAll true init [[0x0a, 0x23, 0x31, 0x0a, 0x78, 0x78]]) = [.raise .framing] := by decide +kernel
-- chunk-size 0 and leading zeros are not RFC 6242 framing
example : obs (feedAll true init [[0x0a, 0x23, 0x30, 0x0a]]) = [.raise .framing] := by decide +kernel
example : token [0x0a, 0x23, 0x30, 0x31] = .bad := by decide
-- end-of-chunks without a chunk
example : obs (feedAll true init [[0x0a, 0x23, 0x23, 0x0a]]) = [.raise .framing] := by decide +kernel
-- invalid UTF-8 payload: decode error, nothing delivered
example : obs (feedAll true init [[0x0a, 0x23, 0x31, 0x0a, 0xff, 0x0a, 0x23, 0x23, 0x0a]]) = [.raise .decode] := by decide +kernel
example : hasRaise (obs (feedAll true init [[0x0a, 0x23, 0x35, 0x0a, 0x78]])) = false := by decide +kernel

/-! ## Session level (Model/Session): whatever ends the worker, the session is released -/

section SessionLevel
open NcVerif.Session NcVerif.SessionSpec

/-- A framing or decoding error found by the parser puts the worker on its error path: the message
    is not dispatched, nothing after it is. -/
theorem parser_error_fails_session (env : Env) (w : World) (k : ErrKind) (rest : List Out)
    (h : w.pc = .dispatching (.raise k :: rest)) :
    ∃ e, (step env w .wDispatch).pc = .failing e ∧ (step env w .wDispatch).received = w.received ∧
         (step env w .wDispatch).rpcs = w.rpcs ∧ (step env w .wDispatch).notifQ = w.notifQ := by
  exact SessionA.parser_error_fails_session env w k rest h

/-- A payload the XML library cannot parse (and the device handler does not rescue) is dropped:
    it reaches no request and no queue, and the session goes on. -/
theorem bad_payload_not_delivered (env : Env) (w : World) (raw : Str) (h : env.classify raw = .drop) :
    (dispatchMessage env w raw).1.rpcs = w.rpcs ∧ (dispatchMessage env w raw).1.notifQ = w.notifQ ∧
    (dispatchMessage env w raw).1.id2rpc = w.id2rpc ∧ (dispatchMessage env w raw).2 = none := by
  exact SessionA.bad_payload_not_delivered env w raw h

/-- The worker can stop in two ways only: after its error path, or after a local close. -/
theorem stop_paths (env : Env) (w : World) (op : Op) (h : w.pc ≠ .stopped)
    (h' : (step env w op).pc = .stopped) :
    (op = .wCloseSelf ∧ w.pc = .closingSelf) ∨ (op = .wExit ∧ w.pc = .exiting) := by
  exact SessionA.stop_paths env w op h h'

/-- Whenever the worker has stopped — for ANY reason, in any history — the session is closing, the
    final error has been delivered, every request that existed then has been failed or answered,
    and the session is (or, for a close still in progress in a client thread, is about to be)
    marked disconnected. -/
theorem worker_stop_invariant (env : Env) (ops : List Op) :
    (run env init ops).pc = .stopped →
      (run env init ops).closing = true ∧ (run env init ops).errbackDone = true ∧
      (∀ r ∈ (run env init ops).rpcs, r.event = true ∨ r.lateBorn = true) ∧
      (step env (run env init ops) .cCloseEnd).connected = false := by
  exact SessionA.worker_stop_invariant env ops

/-- …and a stopped worker dispatches nothing any more. -/
theorem stopped_is_final (env : Env) (w : World) (op : Op) (h : w.pc = .stopped) (hw : isWorkerOp op = true) :
    step env w op = w := by
  exact SessionA.stopped_is_final env w op h hw

end SessionLevel

end NcVerif.C14
