/-
  C14 — malformed or hostile server input cannot corrupt or wedge a session (framing part).

  Property theorems only; all statements are for ARBITRARY byte streams and segmentations.
  (The session-level clauses — pending requests failed, session marked disconnected whenever the
  worker stops — are in the second half of this file, over Model/Session.)
-/
import NcVerif.Proofs.Framing10
import NcVerif.Proofs.Framing11
namespace NcVerif.C14
open NcVerif NcVerif.Framing NcVerif.FramingSpec

/-- Shape of every run: some deliveries followed by at most one error, which is last. -/
def RunShape (outs : List Out) (texts : List Str) : Prop :=
  outs = texts.map .deliver ∨ ∃ k, outs = texts.map .deliver ++ [.raise k]

/-- 1.1 soundness: whatever bytes arrive, in whatever reads, the messages dispatched are the decoded
    payloads of correctly framed RFC 6242 messages that form a prefix of the stream, in stream
    order — none invented, merged, duplicated or reordered — followed by at most one error. -/
theorem delivered_sound11 (segs : List Bytes) :
    ∃ mss : List (List Bytes), WF mss ∧ enc11 mss <+: segs.flatten ∧
      ∃ texts, (mss.map List.flatten).map present11 = texts.map some ∧
        RunShape (obs (feedAll true init segs)) texts := by
  exact Framing11.delivered_sound11 segs

/-- 1.0 soundness: the messages dispatched are the decoded, stripped payloads of a prefix of the
    stream's `]]>]]>`-terminated pieces, in order, followed by at most one (decode) error. -/
theorem delivered_sound10 (segs : List Bytes) :
    ∃ ps : List Bytes, (∀ p ∈ ps, Frameable10 p) ∧ enc10 ps <+: segs.flatten ∧
      ∃ texts, ps.map present10 = texts.map some ∧
        RunShape (obs (feedAll false init segs)) texts := by
  exact Framing10.delivered_sound10 segs

/-- No stall, 1.1: a run that has not raised can always still complete a message — the bytes
    buffered so far are a proper prefix of well-formed framing.  Contrapositive: a stream that
    breaks chunk framing (cannot be continued to complete a frame) HAS raised. -/
theorem no_stall11 (segs : List Bytes) (h : hasRaise (obs (feedAll true init segs)) = false) :
    ∃ ext : Bytes, (obs (feedAll true init (segs ++ [ext]))).length >
      (obs (feedAll true init segs)).length := by
  exact Framing11.no_stall11 segs h

/-- Bytes that cannot start a delimiter where one is expected raise a framing error at once. -/
theorem bad_header_raises (mss : List (List Bytes)) (junk : Bytes) (segs : List Bytes)
    (hw : WF mss) (hd : ∀ cs ∈ mss, Utf8.valid cs.flatten = true) (hj : token junk = .bad)
    (h : segs.flatten = enc11 mss ++ junk) :
    obs (feedAll true init segs) = (mss.map fun cs => .deliver ((Utf8.decode cs.flatten).getD [])) ++ [.raise .framing] := by
  exact Framing11.bad_header_raises mss junk segs hw hd hj h

/-! Non-vacuity -/
-- garbage where a chunk header is expected: error, not a wait
example : obs (feedAll true init [[0x0a, 0x23, 0x31, 0x0a, 0x78, 0x78]]) = [.raise .framing] := by decide +kernel
-- chunk-size 0 and leading zeros are not RFC 6242 framing
example : obs (feedAll true init [[0x0a, 0x23, 0x30, 0x0a]]) = [.raise .framing] := by decide +kernel
example : token [0x0a, 0x23, 0x30, 0x31] = .bad := by decide
-- end-of-chunks without a chunk
example : obs (feedAll true init [[0x0a, 0x23, 0x23, 0x0a]]) = [.raise .framing] := by decide +kernel
-- invalid UTF-8 payload: decode error, nothing delivered
example : obs (feedAll true init [[0x0a, 0x23, 0x31, 0x0a, 0xff, 0x0a, 0x23, 0x23, 0x0a]]) = [.raise .decode] := by decide +kernel
example : hasRaise (obs (feedAll true init [[0x0a, 0x23, 0x35, 0x0a, 0x78]])) = false := by decide +kernel

end NcVerif.C14
