/-
  C12 — closing a session releases it completely on every transport.
  Property theorems only, over Model/Session.  `env.joins` distinguishes the SSH close (joins the
  worker) from the TLS / Unix-socket close.  What epoll / paramiko do with a locally closed
  descriptor is the environment assumption spelled out in `workerOpClosed` (Spec/Session.lean):
  no more data can be read or written; `select` may or may not report the descriptor.  The
  real-socket correspondence run measures exactly that on all three transports.
-/
import NcVerif.Proofs.SessionB
namespace NcVerif.C12
open NcVerif NcVerif.Session NcVerif.SessionSpec NcVerif.Framing

/-- close() ends with the session marked disconnected (for SSH: once the worker has been joined). -/
theorem close_disconnects (env : Env) (w : World) (hc : w.closing = true)
    (hj : env.joins = false ∨ w.pc = .stopped ∨ w.pc = .notStarted) :
    (step env w .cCloseEnd).connected = false := by
  exact SessionB.close_disconnects env w hc hj

/-- After a local close the worker terminates within a bounded number of its own steps, whatever
    it was doing and whatever the environment still answers (no event / EOF / write error):
    at most `todoLen w + 5` steps. -/
theorem worker_terminates (env : Env) (w : World) (cs : List Bool)
    (hc : w.closing = true) (hs : w.pc ≠ .notStarted) (hn : cs.length ≥ todoLen w + 5) :
    (runClosed env w cs).pc = .stopped := by
  exact SessionB.worker_terminates env w cs hc hs hn

/-- Once closing is set it stays set, and the worker never blocks for ever in a state from which
    only a read event could release it: on an idle tick it leaves the loop. -/
theorem idle_tick_exits (env : Env) (w : World) (hc : w.closing = true) (hp : w.pc = .select) :
    (step env w (.wSelect false)).pc = .exiting := by
  exact SessionB.idle_tick_exits env w hc hp

/-- A stopped worker invokes no listener any more. -/
theorem no_callback_after_stop (env : Env) (w : World) (op : Op) (h : w.pc = .stopped) (hw : isWorkerOp op = true) :
    step env w op = w := by
  exact SessionB.no_callback_after_stop env w op h hw

/-- A closed session refuses further requests with a transport error. -/
theorem closed_refuses (env : Env) (w : World) (d : Bytes) (h : w.connected = false) :
    step env w (.cSend d) = w := by
  exact SessionB.closed_refuses env w d h

/-- Disconnected stays disconnected; closing stays closing (no resurrection in any history). -/
theorem closed_is_stable (env : Env) (w : World) (ops : List Op)
    (hk : ∀ o ∈ ops, o ≠ .kStart) :
    (w.closing = true → (run env w ops).closing = true) ∧
    (w.connected = false → (run env w ops).connected = false) := by
  have _ := hk  -- not needed: no step ever resets `closing` or sets `connected`
  exact SessionB.closed_is_stable env w ops

/-- Whole close path, any transport, requests possibly in flight: after close() has begun, the
    worker has run its (bounded) course and close() has finished, the session is disconnected,
    the worker stopped, and every request that was in flight has been failed. -/
theorem close_releases (env : Env) (ops : List Op) (cs : List Bool)
    (hs : (run env init ops).pc ≠ .notStarted)
    (hn : cs.length ≥ todoLen (step env (run env init ops) .cCloseBegin) + 5) :
    let w := step env (runClosed env (step env (run env init ops) .cCloseBegin) cs) .cCloseEnd
    w.connected = false ∧ w.pc = .stopped ∧ ∀ r ∈ w.rpcs, r.event = true ∨ r.lateBorn = true := by
  exact SessionB.close_releases env ops cs hs hn

/-! Non-vacuity: TLS/Unix close with a request in flight; the worker sees nothing more (idle tick). -/
def closeOps : List Op :=
  [.kAddListeners, .kSendHello [0x48], .kStart, .wTop true, .wWrite 100, .cNew 1, .cSend [0x61]]
example :
    let w := step C03demo.env (runClosed C03demo.env (step C03demo.env (run C03demo.env init closeOps) .cCloseBegin) [false, false, false, false, false]) .cCloseEnd
    w.connected = false ∧ w.pc = .stopped ∧ outcome w 1 = some (.raised .transport) := by
  decide +kernel

end NcVerif.C12
