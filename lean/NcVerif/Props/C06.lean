/-
  C06 — rpc-error surfacing follows raise mode, severity and exemptions.
  Decision logic stated outright, for all replies (any number of rpc-errors, any field values),
  all three raise modes and all exempt pattern lists (strings of any length).
-/
import NcVerif.Proofs.RpcError
import NcVerif.Model.ReplyDoc
namespace NcVerif.C06
open NcVerif NcVerif.RpcError

/-- PARTIAL (full statement: for ANY reply). `ok` iff the reply carries no rpc-error — for a reply without an `<ok/>` child.
    With one the statement is FALSE of model and code alike (witness below; replayed on the implementation on every run and
    listed as known finding `C06:ok-element-hides-rpc-errors`). -/
theorem ok_iff (errs : List Err) : ok ⟨false, errs⟩ = true ↔ errs = [] := by
  cases errs <;> simp [ok, errors]

/-- The excluded point: a reply with `<ok/>` AND an rpc-error counts as ok, its error list is empty. -/
example : ∃ r : Reply, r.errs ≠ [] ∧ ok r = true ∧ errors r = [] :=
  ⟨⟨true, [{ severity := some "error".toList }]⟩, by decide, by decide, by decide⟩

/-- The error list mirrors the rpc-error elements, in order. -/
theorem errors_mirror (errs : List Err) : errors ⟨false, errs⟩ = errs := by
  simp [errors]

/-- Specification of one exempt pattern (documentation of `_EXEMPT_ERRORS`): case-insensitive,
    `*` at either end. `text` is the lower-cased, stripped message. -/
def Matches (pat : Str) (text : Str) : Prop :=
  let p := lowerAscii pat
  if p.head? = some '*' ∧ p.getLast? = some '*' then ∃ a b, text = a ++ dropLast (p.drop 1) ++ b
  else if p.head? = some '*' then ∃ a, text = a ++ p.drop 1
  else if p.getLast? = some '*' then ∃ b, text = dropLast p ++ b
  else text = p

def textOf (msg : Option Str) : Str := match msg with | some m => pyStrip (lowerAscii m) | none => noErrorGiven

/-- The exemption test is exactly "some pattern matches". -/
theorem exempt_spec (pats : List Str) (msg : Option Str) :
    isExempt (mkPatterns pats) msg = true ↔ ∃ p ∈ pats, Matches p (textOf msg) := by
  exact RpcErrorP.exempt_spec pats msg

/-- Raise decision: an RPCError is raised iff, among the errors whose message is not exempt, there
    is one at all under ALL, or one of severity `error` under ERRORS. -/
theorem raise_iff (mode : Mode) (pats : List Str) (errs : List Err) :
    (raises mode (mkPatterns pats) ⟨false, errs⟩).isSome = true ↔
      ∃ e ∈ errs, isExempt (mkPatterns pats) e.message = false ∧
        (mode = .all ∨ (mode = .errors ∧ ∃ e' ∈ errs, isExempt (mkPatterns pats) e'.message = false ∧ e'.severity = some sevError)) := by
  exact RpcErrorP.raises_isSome mode (mkPatterns pats) errs

/-- With no exempt message: ALL ∧ there is an error, or ERRORS ∧ some error has severity `error`. -/
theorem raise_iff_no_exempt (mode : Mode) (pats : List Str) (errs : List Err)
    (h : ∀ e ∈ errs, isExempt (mkPatterns pats) e.message = false) :
    (raises mode (mkPatterns pats) ⟨false, errs⟩).isSome = true ↔
      (mode = .all ∧ errs ≠ []) ∨ (mode = .errors ∧ ∃ e ∈ errs, e.severity = some sevError) := by
  exact RpcErrorP.raises_isSome_no_exempt mode (mkPatterns pats) errs h

/-- If every message is exempt nothing is raised, whatever the mode. -/
theorem all_exempt_never (mode : Mode) (pats : List Str) (errs : List Err)
    (h : ∀ e ∈ errs, isExempt (mkPatterns pats) e.message = true) :
    raises mode (mkPatterns pats) ⟨false, errs⟩ = none := by
  exact RpcErrorP.raises_all_exempt mode (mkPatterns pats) errs h

/-- Never under NONE. -/
theorem never_NONE (p : Patterns) (r : Reply) : raises .none p r = none := by
  exact RpcErrorP.raises_none_mode p r

/-- What is raised: a single error as it is; several as an aggregate carrying ALL of them, whose
    severity is `error` iff at least one constituent's is (else `warning`). -/
theorem raised_single (mode : Mode) (p : Patterns) (e : Err) (x : Raised)
    (h : raises mode p ⟨false, [e]⟩ = some x) : x = .single e := by
  exact RpcErrorP.raises_single mode p e x h

theorem aggregate_all (mode : Mode) (p : Patterns) (errs : List Err) (x : Raised)
    (hl : errs.length ≥ 2) (h : raises mode p ⟨false, errs⟩ = some x) :
    ∃ sev, x = .aggregate errs sev ∧ (sev = sevError ↔ ∃ e ∈ errs, e.severity = some sevError) ∧
      (sev = sevError ∨ sev = sevWarning) := by
  exact RpcErrorP.raises_aggregate mode p errs x hl h

/-! Non-vacuity -/
def w1 : Err := { severity := some sevWarning, message := some "w1".toList }
def e2 : Err := { severity := some sevError, message := some "VLAN with the same name exists (x)".toList }
example : (raises .errors (mkPatterns []) ⟨false, [w1, e2]⟩).isSome = true := by decide
example : raises .all (mkPatterns []) ⟨false, [w1, w1]⟩ = some (.aggregate [w1, w1] sevWarning) := by decide
example : raises .all (mkPatterns ["*vlan with the same name exists*".toList]) ⟨false, [e2]⟩ = none := by decide
example : Matches "*VLAN with the same name exists*".toList (textOf e2.message) := by
  refine ⟨[], " (x)".toList, ?_⟩; decide

/-! ## From the reply DOCUMENT (Model/ReplyDoc: what `RPCReply.parse` / `RPCError.__init__` extract from the tree) -/

section Doc
open NcVerif.XmlDoc NcVerif.ReplyDoc

/-- For every reply document without an `<ok/>` child: `ok` iff NO element of the document — the root
    itself or any descendant, at any depth — is an `rpc-error`. -/
theorem doc_ok_iff_no_rpc_error (root : XNode) (hno : (kids root).any (named "ok") = false) :
    ok (ofDoc root) = true ↔ ∀ d ∈ desc root, named "rpc-error" d = false := by
  unfold ok errors ofDoc
  simp only [hno, Bool.false_eq_true, if_false, List.isEmpty_iff, List.map_eq_nil_iff]
  unfold errorElems
  rw [List.filter_eq_nil_iff]
  constructor
  · intro h d hd; simpa using h d hd
  · intro h d hd; simpa using h d hd

/-- The error list has one entry per `rpc-error` element, in document order, each built from that
    element's own children. -/
theorem doc_errors_mirror (root : XNode) (hno : (kids root).any (named "ok") = false) :
    errors (ofDoc root) = (errorElems root).map errOf ∧ (errorElems root).Sublist (desc root) := by
  refine ⟨?_, List.filter_sublist⟩
  unfold errors ofDoc; simp [hno]

/-- A field that occurs once in an `rpc-error` is reported with exactly that child's text. -/
theorem doc_field_mirrors_child (e c : XNode) (f : String) (h : (kids e).filter (named f) = [c]) :
    textField e f = leadText c := by
  unfold textField lastChild; rw [h]; rfl

/-- The decision on the document is the decision on the extracted list (composition with `raise_iff`). -/
theorem doc_raise_iff (mode : Mode) (pats : List Str) (root : XNode) (hno : (kids root).any (named "ok") = false) :
    (raises mode (mkPatterns pats) (ofDoc root)).isSome = true ↔
      ∃ e ∈ (errorElems root).map errOf, isExempt (mkPatterns pats) e.message = false ∧
        (mode = .all ∨ (mode = .errors ∧ ∃ e' ∈ (errorElems root).map errOf,
          isExempt (mkPatterns pats) e'.message = false ∧ e'.severity = some sevError)) := by
  have hr : ofDoc root = ⟨false, (errorElems root).map errOf⟩ := by unfold ofDoc; rw [hno]
  rw [hr]; exact raise_iff mode pats ((errorElems root).map errOf)

example : (errors (ofDoc (.elem "rpc-reply".toList [] [.elem "data".toList [] [.elem "rpc-error".toList []
    [.elem "error-severity".toList [] [.text "warning".toList], .elem "error-message".toList [] [.text "m1".toList],
     .elem "error-message".toList [] [.text "m2".toList]]]]))).map (·.message) = [some "m2".toList] := by decide +kernel
end Doc

end NcVerif.C06
