/-
  C16 — device profiles are complete, consistent and isolated.
  Finite part over the tables regenerated from the source on every run (Gen/Profiles.lean: the 14
  handler modules probed through their own methods; Gen/Isolation.lean: shared-state write sets
  measured by snapshot diff); unbounded part: subsystem preference for every name, non-interference
  for every history.
-/
import NcVerif.Spec.Profiles
import NcVerif.Gen.Isolation
import NcVerif.Model.Isolation
namespace NcVerif.C16
open NcVerif NcVerif.Gen NcVerif.ProfilesSpec NcVerif.Isolation

/-- Every advertised device name has its profile, implemented by the class of that name, and the
    advertised names are the documented ones. -/
theorem advertised_resolve :
    (∀ n ∈ advertisedNames, ∃ p ∈ profiles, p.name = n ∧ p.advertised = true ∧ p.cls = expectedClass n) ∧
    (∀ n ∈ documentedDevices, n ∈ advertisedNames) ∧ (∀ n ∈ advertisedNames, n ∈ documentedDevices) := by
  decide +kernel

/-- Every shipped profile module (14) loads as the handler class of its name. -/
theorem all_profiles_load : profiles.length = 14 ∧ ∀ p ∈ profiles, p.cls = expectedClass p.name := by
  decide +kernel

/-- Through every profile, every standard operation name and every vendor operation name resolves,
    vendor classes taking precedence over same-named standard ones. -/
theorem operations_resolve :
    ∀ p ∈ profiles, (∀ kv ∈ standardOps, (resolve p.vendorOps standardOps kv.1).isSome = true) ∧
      (∀ kv ∈ p.vendorOps, resolve p.vendorOps standardOps kv.1 = some kv.2) := by
  decide +kernel

theorem vendor_precedence (vendor std : List (Str × Str)) (name cls : Str)
    (h : vendor.lookup name = some cls) : resolve vendor std name = some cls := by
  simp [resolve, h]

theorem standard_still_there (vendor std : List (Str × Str)) (name : Str)
    (h : vendor.lookup name = none) : resolve vendor std name = std.lookup name := by
  simp [resolve, h]

/-- Every profile's client capability list contains a NETCONF base URI, whatever the user adds. -/
theorem base_uri_always (extra : List Str) : ∀ p ∈ profiles, ∃ u ∈ clientCaps p extra, isBaseUri u = true := by
  have h : ∀ p ∈ Gen.profiles, ∃ u ∈ p.capsPrefix ++ p.capsSuffix, isBaseUri u = true ∧
      (p.usesExtra = false → u ∈ p.capsPrefix) := by decide +kernel
  intro p hp
  obtain ⟨u, hu, hb, hfix⟩ := h p hp
  refine ⟨u, ?_, hb⟩
  unfold clientCaps
  split
  · rcases List.mem_append.mp hu with h1 | h2
    · exact List.mem_append_left _ (List.mem_append_left _ h1)
    · exact List.mem_append_right _ h2
  · rename_i hne
    exact hfix (by simpa using hne)

/-- SSH subsystem candidates are duplicate-free: by default, with a new preferred name, and with a
    preferred name that is already in the list. -/
theorem subsystems_nodup :
    ∀ p ∈ profiles, p.subsystems.Nodup ∧ p.subsystemsNewPref.Nodup ∧ p.subsystemsExistingPref.Nodup := by
  decide +kernel

/-- Profiles that react to `ssh_subsystem_name` put the preferred name first and follow the
    nexus rule exactly (probed with a new and with an existing name). -/
theorem preference_rule :
    ∀ p ∈ profiles, p.subsystemsNewPref ≠ p.subsystems →
      p.subsystemsNewPref = subsystemsWithPref p.subsystems (some newPref) ∧
      p.subsystemsExistingPref = subsystemsWithPref p.subsystems (some p.existingPref) := by
  decide +kernel

/-- Every profile whose documentation promises the `ssh_subsystem_name` preference honours it. -/
theorem documented_preference_honoured :
    ∀ p ∈ profiles, p.docPref = true →
      p.subsystemsNewPref = subsystemsWithPref p.subsystems (some newPref) ∧
      p.subsystemsExistingPref = subsystemsWithPref p.subsystems (some p.existingPref) := by
  decide +kernel

/-- …and that rule yields, for EVERY preferred name, a duplicate-free list with it first. -/
theorem preference_first (names : List Str) (pref : Str) (h : names.Nodup) :
    (subsystemsWithPref names (some pref)).Nodup ∧ (subsystemsWithPref names (some pref)).head? = some pref := by
  simp only [subsystemsWithPref, List.head?_cons, and_true]
  refine List.nodup_cons.mpr ⟨?_, h.filter _⟩
  simp

/-- No probed call writes a module-level or class-level container of the package, and none failed. -/
theorem no_shared_writes : ∀ o ∈ isoOps, o.sharedWrites = [] ∧ o.failed = false := by decide +kernel

/-- Non-interference: along ANY history of operations whose write sets avoid what is observed through
    `A` (its instance fields and every shared container), what is observed through `A` does not change. -/
theorem noninterference {V} (ops : List (Op V)) (reads : List Cell) (s : State V)
    (hf : ∀ op ∈ ops, Frame op) (hd : ∀ op ∈ ops, ∀ c ∈ reads, c ∉ op.writes) :
    ∀ c ∈ reads, run ops s c = s c := by
  induction ops generalizing s with
  | nil => intro c _; rfl
  | cons op rest ih =>
    intro c hc
    have h1 := ih (op.apply s) (fun o ho => hf o (List.mem_cons_of_mem _ ho))
      (fun o ho => hd o (List.mem_cons_of_mem _ ho)) c hc
    have h2 := hf op List.mem_cons_self s c (hd op List.mem_cons_self c hc)
    simp only [run, List.foldl_cons] at h1 ⊢
    rw [h1, h2]

/-! Non-vacuity -/
example : ∃ p ∈ profiles, p.name = "nexus".toList ∧ p.subsystemsNewPref.head? = some newPref := by decide +kernel
example : (profiles.filter (·.docPref)).length = 4 := by decide +kernel
example : subsystemsWithPref ["netconf".toList, "xmlagent".toList] (some "xmlagent".toList) = ["xmlagent".toList, "netconf".toList] := by decide
example : ∃ p ∈ profiles, p.name = "junos".toList ∧ resolve p.vendorOps standardOps "commit".toList ≠ standardOps.lookup "commit".toList := by
  decide +kernel

end NcVerif.C16
