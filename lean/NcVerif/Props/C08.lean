/-
  C08 — capability lookup semantics and totality.

  Property theorems only (helper lemmas live in Proofs/Caps.lean).  All statements are for
  arbitrary URI lists and arbitrary keys (strings of any length over all code points).
-/
import NcVerif.Proofs.Caps
namespace NcVerif.C08
open NcVerif NcVerif.Caps

/-- The part of a URI in front of its first `?` (what the parameters are stripped from). -/
def nsPart (uri : Str) : Str := uri.takeWhile (· ≠ '?')

/-- Grammar specification of the shorthand forms, written from RFC 6241 §10.x URN shapes and
    independently of the code: `key` is a shorthand of namespace URI `ns`. -/
inductive Shorthand : Str → Str → Prop
  | capName (p name ver rest : Str) : p ∈ prefixes → ':' ∉ name → ':' ∉ ver →
      (rest = [] ∨ ∃ r, rest = ':' :: r) →
      Shorthand (':' :: name) (p ++ (sCapability ++ ':' :: (name ++ ':' :: (ver ++ rest))))
  | capNameVer (p name ver rest : Str) : p ∈ prefixes → ':' ∉ name → ':' ∉ ver →
      (rest = [] ∨ ∃ r, rest = ':' :: r) →
      Shorthand (':' :: name ++ ':' :: ver) (p ++ (sCapability ++ ':' :: (name ++ ':' :: (ver ++ rest))))
  | base (p ver rest : Str) : p ∈ prefixes → ':' ∉ ver → (rest = [] ∨ ∃ r, rest = ':' :: r) →
      Shorthand sColonBase (p ++ (sBase ++ ':' :: (ver ++ rest)))
  | baseVer (p ver rest : Str) : p ∈ prefixes → ':' ∉ ver → (rest = [] ∨ ∃ r, rest = ':' :: r) →
      Shorthand (sColonBase ++ ':' :: ver) (p ++ (sBase ++ ':' :: (ver ++ rest)))

/-- `_abbreviate` computes exactly the grammar's shorthands. -/
theorem abbreviate_spec (key ns : Str) : key ∈ abbreviate ns ↔ Shorthand key ns := by
  rw [mem_abbreviate_iff]
  constructor
  · rintro ⟨p, hp, r, rfl, hl⟩
    rcases (mem_abbrevParts_iff r key).mp hl with
      ⟨name, ver, rest, hn, hv, hr, rfl, rfl | rfl⟩ | ⟨ver, rest, hv, hr, rfl, rfl | rfl⟩
    · exact .capName p name ver rest hp hn hv hr
    · exact .capNameVer p name ver rest hp hn hv hr
    · exact .base p ver rest hp hv hr
    · exact .baseVer p ver rest hp hv hr
  · intro h
    cases h with
    | capName p name ver rest hp hn hv hr =>
      exact ⟨p, hp, _, rfl, (mem_abbrevParts_iff _ _).mpr
        (Or.inl ⟨name, ver, rest, hn, hv, hr, rfl, Or.inl rfl⟩)⟩
    | capNameVer p name ver rest hp hn hv hr =>
      exact ⟨p, hp, _, rfl, (mem_abbrevParts_iff _ _).mpr
        (Or.inl ⟨name, ver, rest, hn, hv, hr, rfl, Or.inr rfl⟩)⟩
    | base p ver rest hp hv hr =>
      exact ⟨p, hp, _, rfl, (mem_abbrevParts_iff _ _).mpr
        (Or.inr ⟨ver, rest, hv, hr, rfl, Or.inl rfl⟩)⟩
    | baseVer p ver rest hp hv hr =>
      exact ⟨p, hp, _, rfl, (mem_abbrevParts_iff _ _).mpr
        (Or.inr ⟨ver, rest, hv, hr, rfl, Or.inr rfl⟩)⟩

/-- `from_uri` strips the parameters at the first `?`. -/
theorem fromUri_ns (uri : Str) : (fromUri uri).ns = nsPart uri :=
  fromUri_ns_takeWhile uri

/-- A full URI that was advertised is found, and the result is that URI's capability. -/
theorem full_uri (uris : List Str) (u : Str) (h : u ∈ uris) :
    getItem (mk uris) u = .ok (fromUri u) := by
  simp [getItem, dictGet_mk, h]

/-- Shorthand membership: for a key that is not itself an advertised URI, lookup succeeds iff
    some advertised URI has it as one of its two grammar shorthands. -/
theorem shorthand_iff (uris : List Str) (key : Str) (h : key ∉ uris) :
    contains (mk uris) key = true ↔ ∃ u ∈ uris, Shorthand key (nsPart u) := by
  constructor
  · intro hc
    unfold contains at hc
    split at hc
    · rename_i c hget
      obtain ⟨u, hu, -, hk⟩ := getItem_mk_shorthand uris key c h hget
      exact ⟨u, hu, by rw [← fromUri_ns, ← abbreviate_spec]; exact hk⟩
    · cases hc
  · rintro ⟨u, hu, hs⟩
    rw [← fromUri_ns, ← abbreviate_spec] at hs
    obtain ⟨c, hc⟩ := getItem_mk_of_abbrev uris key u hu hs
    simp [contains, hc]

/-- …and what a successful shorthand lookup returns is the capability of such a URI. -/
theorem shorthand_result (uris : List Str) (key : Str) (c : Cap) (h : key ∉ uris)
    (hc : getItem (mk uris) key = .ok c) : ∃ u ∈ uris, c = fromUri u ∧ Shorthand key (nsPart u) := by
  obtain ⟨u, hu, hcu, hk⟩ := getItem_mk_shorthand uris key c h hc
  exact ⟨u, hu, hcu, by rw [← fromUri_ns, ← abbreviate_spec]; exact hk⟩

/-- Totality: lookup is `ok` or the documented `KeyError`, for every URI list and key
    (the model has no other outcome because the code's indexing is guarded by length tests;
    that the code really has none is what the correspondence run checks). -/
theorem total (uris : List Str) (key : Str) :
    (∃ c, getItem (mk uris) key = .ok c) ∨ getItem (mk uris) key = .error .keyError := by
  cases h : getItem (mk uris) key with
  | ok c => exact Or.inl ⟨c, rfl⟩
  | error e => cases e; exact Or.inr rfl

/-- `in` agrees with lookup. -/
theorem contains_iff (uris : List Str) (key : Str) :
    contains (mk uris) key = true ↔ ∃ c, getItem (mk uris) key = .ok c := by
  unfold contains
  cases getItem (mk uris) key <;> simp

/-- The well-formed `k=v` pieces of a parameter string, in order. -/
def wellFormedPairs (s : Str) : List (Str × Str) :=
  (splitOn '&' s).filterMap fun piece =>
    match splitOn '=' piece with
    | [k, v] => some (k, v)
    | _ => none

/-- Parameters: exactly the well-formed pairs are exposed; a repeated key has its last value. -/
theorem params_spec (s : Str) (k : Str) :
    dictGet (parseParams s) k = ((wellFormedPairs s).reverse.find? (fun p => p.1 = k)).map Prod.snd := by
  unfold parseParams wellFormedPairs
  rw [dictGet_foldl_pairs (fun piece => match splitOn '=' piece with
      | [k, v] => some (k, v)
      | _ => none) _ (fun d piece => by split <;> simp_all)]
  simp [dictGet]

/-- Iteration yields exactly the advertised URIs. -/
theorem keys_spec (uris : List Str) (u : Str) : u ∈ keys (mk uris) ↔ u ∈ uris :=
  mem_keys_mk uris u

/-! ## Histories: a capability object that is added to and removed from behaves like the ordered SET of URIs the
documentation describes — whatever was looked up, added or removed before (no memory of past contents). -/

/-- After ANY sequence of `add` / `remove`, the object is the one holding exactly the URIs of the abstract ordered set —
    so every lookup (full URI, shorthand, parameters, `in`, iteration, length) answers as a freshly built object would. -/
theorem history_is_fresh_object (uris : List Str) (ops : List Op) :
    run (mk uris) ops = ofKeys (ops.foldl absStep (keys (mk uris))) := by
  have h := canon_eq_ofKeys (run (mk uris) ops) (canon_run _ ops (canon_mk uris))
  rw [keys_run] at h
  exact h

/-- Iteration and length after any history: the URIs added and not removed, each once, in the order in which they (last) entered. -/
theorem iteration_after_history (uris : List Str) (ops : List Op) :
    keys (run (mk uris) ops) = ops.foldl absStep (keys (mk uris)) :=
  keys_run (mk uris) ops

/-- Corollary for lookups. -/
theorem lookup_after_history (uris : List Str) (ops : List Op) (key : Str) :
    getItem (run (mk uris) ops) key = getItem (ofKeys (ops.foldl absStep (keys (mk uris)))) key := by
  rw [history_is_fresh_object]

/-- The abstract set: `add` makes a URI present (at the end if new), `remove` makes it absent, neither touches the others. -/
theorem abs_add_mem (l : List Str) (u : Str) : u ∈ absStep l (.add u) := by
  simp only [absStep]
  by_cases h : u ∈ l <;> simp [h]
theorem abs_remove_not_mem (l : List Str) (u : Str) : u ∉ absStep l (.remove u) := by
  simp [absStep]
theorem abs_other_unchanged (l : List Str) (op : Op) (v : Str) (h : op ≠ .add v ∧ op ≠ .remove v) : v ∈ absStep l op ↔ v ∈ l := by
  cases op with
  | add u =>
    have hne : u ≠ v := fun e => h.1 (by rw [e])
    simp only [absStep]
    by_cases hu : u ∈ l
    · simp [hu]
    · simp only [hu, if_false, List.mem_append, List.mem_singleton]
      constructor
      · rintro (hm | hm)
        · exact hm
        · exact absurd hm.symm hne
      · intro hm; exact Or.inl hm
  | remove u =>
    have hne : u ≠ v := fun e => h.2 (by rw [e])
    simp only [absStep, List.mem_filter, bne_iff_ne, ne_eq]
    exact ⟨fun hm => hm.1, fun hm => ⟨hm, fun e => hne e.symm⟩⟩

/-- A removed capability is gone for the shorthand forms too (unless another advertised URI still has that shorthand). -/
theorem removed_is_gone (uris : List Str) (ops : List Op) (u : Str) :
    dictGet (run (mk uris) (ops ++ [.remove u])) u = none := by
  rw [dictGet_none_iff]
  have := keys_run (mk uris) (ops ++ [.remove u])
  simp only [keys] at this
  rw [this, List.foldl_append]
  exact abs_remove_not_mem _ u

example : contains (run (mk ["urn:ietf:params:netconf:capability:url:1.0?scheme=ftp".toList]) [.remove "urn:ietf:params:netconf:capability:url:1.0?scheme=ftp".toList]) ":url".toList = false := by
  decide +kernel
example : keys (run (mk ["a".toList, "b".toList]) [.add "c".toList, .remove "a".toList, .add "b".toList, .add "a".toList]) = ["b".toList, "c".toList, "a".toList] := by
  decide +kernel

/-! Non-vacuity: concrete instances of the hypotheses / both directions. -/

example : Shorthand ":candidate".toList "urn:ietf:params:netconf:capability:candidate:1.0".toList :=
  Shorthand.capName pfxNc "candidate".toList "1.0".toList [] (by decide) (by decide) (by decide) (Or.inl rfl)

example : contains (mk ["urn:ietf:params:xml:ns:netconf:base:1.0".toList]) ":base:1.0".toList = true := by decide
example : contains (mk ["urn:ietf:params:netconf:capability:candidate".toList]) ":candidate".toList = false := by decide
example : contains (mk ["urn:ietf:params:foo:netconf:capability:a:b".toList]) ":capability".toList = false := by decide
example : (fromUri "urn:x?a=1&b&a=2".toList).params = [("a".toList, "2".toList)] := by decide

end NcVerif.C08
