/-
  C01 — inbound framing is independent of stream segmentation and chunking.

  Property theorems only.  `segs` is any way of cutting a byte stream into transport reads
  (`segs.flatten` is the stream); all statements are for arbitrary byte lists of any length.
  The read-size bound (`BUF_SIZE`) is immaterial because the statements hold for every cut.
-/
import NcVerif.Proofs.Framing10
import NcVerif.Proofs.Framing11
import NcVerif.Proofs.SessionC
namespace NcVerif.C01
open NcVerif NcVerif.Framing NcVerif.FramingSpec

/-! ## 1.0 -/

/-- Every byte stream has exactly one RFC 4742 reading (so `spec10` below is not vacuous). -/
theorem split10_total (stream : Bytes) : ∃ ps t, Split10 stream ps t := by
  exact Framing10.split10_total stream

theorem split10_functional (stream : Bytes) (ps ps' : List Bytes) (t t' : Bytes)
    (h : Split10 stream ps t) (h' : Split10 stream ps' t') : ps = ps' ∧ t = t' := by
  exact Framing10.split10_functional stream ps ps' t t' h h'

/-- Main 1.0 theorem, for ALL byte streams and ALL segmentations: what is dispatched is exactly
    the stream's payloads, each once, in order, decoded and stripped; a payload that is not
    UTF-8 ends the run with a decode error.  Nothing is dispatched for the undelimited tail. -/
theorem spec10 (segs : List Bytes) (ps : List Bytes) (t : Bytes)
    (h : Split10 segs.flatten ps t) :
    obs (feedAll false init segs) = outcomes present10 ps := by
  exact Framing10.spec10 segs ps t h

/-- Segmentation independence, 1.0. -/
theorem seg_indep10 (segs₁ segs₂ : List Bytes) (h : segs₁.flatten = segs₂.flatten) :
    obs (feedAll false init segs₁) = obs (feedAll false init segs₂) := by
  exact Framing10.seg_indep10 segs₁ segs₂ h

/-- Round trip, 1.0: whatever the cuts, the messages a server sent arrive once each, in order
    (modulo surrounding whitespace); trailing blanks after the last delimiter change nothing. -/
theorem decode_encode10 (ms : List Bytes) (segs : List Bytes) (trail : Bytes)
    (hf : ∀ m ∈ ms, Frameable10 m) (ht : hasSub delim10 trail = false)
    (h : segs.flatten = enc10 ms ++ trail) :
    obs (feedAll false init segs) = outcomes present10 ms := by
  exact Framing10.decode_encode10 ms segs trail hf ht h

/-- No early delivery, 1.0 (instance of the above with `trail` = an unterminated message). -/
theorem no_early10 (ms : List Bytes) (q : Bytes) (segs : List Bytes)
    (hf : ∀ m ∈ ms, Frameable10 m) (hq : hasSub delim10 q = false)
    (h : segs.flatten = enc10 ms ++ q) :
    (delivers (obs (feedAll false init segs))).length ≤ ms.length := by
  exact Framing10.no_early10 ms q segs hf hq h

/-! ## 1.1 -/

/-- Segmentation independence, 1.1, for ALL byte streams (valid or not). -/
theorem seg_indep11 (segs₁ segs₂ : List Bytes) (h : segs₁.flatten = segs₂.flatten) :
    obs (feedAll true init segs₁) = obs (feedAll true init segs₂) := by
  exact Framing11.seg_indep11 segs₁ segs₂ h

/-- Round trip, 1.1: every chunking at octet granularity (chunk borders inside a multi-byte
    character included) and every segmentation into reads. -/
theorem decode_encode11 (mss : List (List Bytes)) (segs : List Bytes)
    (hw : WF mss) (h : segs.flatten = enc11 mss) :
    obs (feedAll true init segs) = outcomes present11 (mss.map List.flatten) := by
  exact Framing11.decode_encode11 mss segs hw h

/-- No early delivery and no spurious error, 1.1: while the next message is incomplete exactly the
    complete ones have been dispatched. -/
theorem no_early11 (mss : List (List Bytes)) (q : Bytes) (segs : List Bytes)
    (hw : WF mss) (hq : PartialMsg q) (h : segs.flatten = enc11 mss ++ q) :
    obs (feedAll true init segs) = outcomes present11 (mss.map List.flatten) := by
  exact Framing11.no_early11 mss q segs hw hq h

/-! ## Session level: what listeners are handed is what the framing layer produced -/

section SessionLevel
open NcVerif.Session NcVerif.SessionSpec

/-- The worker hands to `_dispatch_message` exactly the messages the parser delivers for the bytes
    read, in order — whatever the segmentation — as long as no listener failed on the way (the
    receive iterations all end back in the loop).  Together with `spec10` / `seg_indep11` /
    `decode_encode*`: registered listeners see exactly the stream's messages, once each, in order. -/
theorem received_is_framing (env : Env) (w : World) (segs : List Bytes)
    (hs : w.pc = .select) (hne : ∀ s ∈ segs, s ≠ [])
    (hok : (readSegs env w segs).pc = .select) :
    (readSegs env w segs).received =
      w.received ++ delivers (obs (feedAll w.base11 w.parser segs)) ∧
    hasRaise (obs (feedAll w.base11 w.parser segs)) = false := by
  exact SessionC.received_is_framing env segs w hs hne hok

/-- …hence independent of how the same bytes were cut into reads. -/
theorem received_seg_indep (env : Env) (w : World) (segs₁ segs₂ : List Bytes)
    (hs : w.pc = .select) (hp : w.parser = Framing.init)
    (hne₁ : ∀ s ∈ segs₁, s ≠ []) (hne₂ : ∀ s ∈ segs₂, s ≠ []) (hf : segs₁.flatten = segs₂.flatten)
    (hok₁ : (readSegs env w segs₁).pc = .select) (hok₂ : (readSegs env w segs₂).pc = .select) :
    (readSegs env w segs₁).received = (readSegs env w segs₂).received := by
  exact SessionC.received_seg_indep env w segs₁ segs₂ hs hp hne₁ hne₂ hf hok₁ hok₂

end SessionLevel

/-! ## Non-vacuity -/

-- a two-message non-ASCII 1.0 stream cut inside `é` (c3|a9) and inside the delimiter
example : obs (feedAll false init [[0x3c, 0x61, 0x3e, 0xc3], [0xa9, 0x5d, 0x5d, 0x3e, 0x5d], [0x5d, 0x3e, 0x20, 0x62, 0x5d, 0x5d, 0x3e, 0x5d, 0x5d, 0x3e]])
    = [.deliver "<a>é".toList, .deliver "b".toList] := by decide +kernel
-- the same bytes in one read
example : obs (feedAll false init [[0x3c, 0x61, 0x3e, 0xc3, 0xa9, 0x5d, 0x5d, 0x3e, 0x5d, 0x5d, 0x3e, 0x20, 0x62, 0x5d, 0x5d, 0x3e, 0x5d, 0x5d, 0x3e]])
    = [.deliver "<a>é".toList, .deliver "b".toList] := by decide +kernel
-- 1.1: "é" sent as two one-octet chunks, read cut inside a chunk header
example : obs (feedAll true init [[0x0a, 0x23, 0x31], [0x0a, 0xc3, 0x0a, 0x23, 0x31, 0x0a, 0xa9, 0x0a, 0x23], [0x23, 0x0a]])
    = [.deliver "é".toList] := by decide +kernel
example : Frameable10 [0x3c, 0x61, 0x3e] := by decide
example : ¬ Frameable10 [0x5d, 0x5d, 0x3e] := by decide
example : WF [[[0xc3], [0xa9]]] := by decide

-- session level: a started 1.0 session (its hello written) at `select`; the stream "n]]>]]>r1]]>]]>" cut inside the delimiter
-- comes back to `select` with both messages received, in order
example :
    let w := Session.run C03demo.env Session.init [.kAddListeners, .kSendHello [0x68], .kStart, .wTop true, .wWrite 2, .wWrite 1, .wWrite 10, .wTop false]
    w.pc = .select ∧
    (NcVerif.SessionSpec.readSegs C03demo.env w [[0x6e, 0x5d, 0x5d], [0x3e, 0x5d, 0x5d, 0x3e, 0x72, 0x31, 0x5d], [0x5d, 0x3e, 0x5d, 0x5d, 0x3e]]).pc = .select ∧
    (NcVerif.SessionSpec.readSegs C03demo.env w [[0x6e, 0x5d, 0x5d], [0x3e, 0x5d, 0x5d, 0x3e, 0x72, 0x31, 0x5d], [0x5d, 0x3e, 0x5d, 0x5d, 0x3e]]).received
      = ["n".toList, "r1".toList] := by decide +kernel

end NcVerif.C01
