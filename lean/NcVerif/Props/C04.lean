/-
  C04 — transport loss fails every outstanding request; no call outlives its timeout.
  Property theorems only, over all histories and environments of Model/Session.
  (Time is abstract: `Event.wait(timeout)` is a trusted primitive; `outcome` is what `_request`
  does when it stops waiting.)
-/
import NcVerif.Proofs.SessionA
import NcVerif.Props.C03
namespace NcVerif.C04
open NcVerif NcVerif.Session NcVerif.SessionSpec NcVerif.Framing

/-- Nothing pending is ever forgotten: a request whose event is not set is still registered
    (so the next reply or error can reach it). -/
theorem pending_registered (env : Env) (ops : List Op) :
    ∀ r ∈ (run env init ops).rpcs, r.event = false → r.id ∈ (run env init ops).id2rpc := by
  exact SessionA.pending_registered env ops

/-- Loss of the connection, at any point of the stream, puts the worker on its error path. -/
theorem eof_is_loss (env : Env) (w : World) (h : w.pc = .read) (hc : w.closing = false) :
    (step env w (.wRead .eof)).pc = .failing .sessionClose ∧
    (step env w (.wRead (.data []))).pc = .failing .sessionClose := by
  exact SessionA.eof_is_loss env w h hc
theorem read_error_is_loss (env : Env) (w : World) (h : w.pc = .read) :
    (step env w (.wRead .err)).pc = .failing .transport := by
  exact SessionA.read_error_is_loss env w h
theorem failed_write_is_loss (env : Env) (w : World) (data : Bytes) (n : Int) (h : w.pc = .writing data) (hn : n ≤ 0) :
    (step env w (.wWrite n)).pc = .failing .sessionClose ∧ (step env w .wWriteErr).pc = .failing .transport := by
  exact SessionA.failed_write_is_loss env w data n h hn

/-- On the error path every registered request is failed with the error that ended the session
    (SessionCloseError for a close by the peer) — whatever else was delivered before. -/
theorem loss_error_kind (env : Env) (ops : List Op) (e : ErrK) :
    (run env init ops).pc = .failing e →
    ∀ id ∈ (run env init ops).id2rpc, outcome (step env (run env init ops) .wErrback) id = some (.raised e) := by
  exact SessionA.loss_error_kind env ops e

/-- Once the worker has delivered its final error, every request created before that moment has
    its event set (it returns or raises at once); only requests created afterwards can still wait. -/
theorem loss_fails_pending (env : Env) (ops : List Op) :
    (run env init ops).errbackDone = true →
    ∀ r ∈ (run env init ops).rpcs, r.event = true ∨ r.lateBorn = true := by
  exact SessionA.loss_fails_pending env ops

/-- The error path ends with the session marked disconnected and the worker stopped. -/
theorem error_path_closes (env : Env) (w : World) (e : ErrK) (h : w.pc = .failing e) :
    (run env w [.wErrback, .wCloseSelf]).connected = false ∧ (run env w [.wErrback, .wCloseSelf]).pc = .stopped := by
  exact SessionA.error_path_closes env w e h

/-- A disconnected session refuses new requests (TransportError) and queues nothing. -/
theorem later_refused (env : Env) (w : World) (d : Bytes) (h : w.connected = false) :
    step env w (.cSend d) = w := by
  exact SessionA.later_refused env w d h

/-- `_request`: a stored transport error wins over a reply that may also be present, so no partial
    or foreign reply is returned after a loss. -/
theorem error_wins (w : World) (r : Rpc) (e : ErrK) (hr : w.rpcs.find? (·.id = r.id) = some r)
    (he : r.error = some e) (hev : r.event = true) : outcome w r.id = some (.raised e) := by
  exact SessionA.error_wins w r e hr he hev

/-- Every call ends: a synchronous request returns its reply, raises, or times out. -/
theorem bounded_wait (w : World) (r : Rpc) (hr : w.rpcs.find? (·.id = r.id) = some r) :
    ∃ o, outcome w r.id = some o := by
  exact SessionA.bounded_wait w r hr

/-! Non-vacuity: EOF with two requests outstanding. -/
def lossOps : List Op :=
  [.kAddListeners, .kSendHello [0x68], .kStart, .cNew 1, .cSend [0x61], .cNew 2, .cSend [0x62],
   .wTop false, .wSelect true, .wRead .eof, .wErrback, .wCloseSelf]
example : outcome (run C03.demoEnv init lossOps) 1 = some (.raised .sessionClose) ∧
          outcome (run C03.demoEnv init lossOps) 2 = some (.raised .sessionClose) ∧
          (run C03.demoEnv init lossOps).connected = false ∧ (run C03.demoEnv init lossOps).pc = .stopped := by
  decide +kernel

end NcVerif.C04
