/-
  C07 — requests are well-formed and carry caller data faithfully.
  (i) finite part over the regenerated table Gen/OpTable.lean: every standard and vendor operation x
  argument shape x profile envelope, executed on the real code by the translator and parsed off the
  wire with an independent XML parser; (ii) unbounded part: the escaping discipline, for ALL strings.
  PARTIAL: lxml's serialiser is modelled (Model/XmlText.lean) and tied to the library by the
  correspondence run, not verified.
-/
import NcVerif.Spec.Ops
import NcVerif.Proofs.XmlText
import NcVerif.Proofs.XmlDoc
namespace NcVerif.C07
open NcVerif NcVerif.Gen NcVerif.OpsSpec NcVerif.XmlText NcVerif.XmlDoc

/-- Every call that sends something sends exactly one `<rpc>` in the base namespace, with a message-id
    and exactly one operation element, the one the protocol (or the vendor's schema) defines. -/
theorem one_wellformed_rpc : ∀ r ∈ opRows, shapeOk r = true := by decide +kernel

/-- The parameter elements of RFC 6241's own operations appear in the order the RFC fixes. -/
theorem rfc6241_order : ∀ r ∈ opRows, orderOk r = true := by decide +kernel

/-- Arguments outside their documented enumeration (default-operation, test-option, error-option,
    filter type, with-defaults mode, inconsistent combinations) are rejected locally, nothing is sent. -/
theorem enumerations_enforced : ∀ r ∈ opRows, outsiderOk r = true := by decide +kernel

/-- At wire level: an enumerated parameter element that is sent carries a member of its enumeration. -/
theorem enumerated_values_on_wire : ∀ r ∈ opRows, enumValuesOk r = true := by decide +kernel

/-- Every caller-supplied string lands exactly once in the request, in a text or attribute-value
    position, never as a tag. -/
theorem caller_strings_once : ∀ r ∈ opRows, sentinelsOk r = true := by decide +kernel

/-- All operations of the manager's table and every vendor operation of every profile were probed. -/
theorem table_covers_operations :
    (opRows.map (fun r => (r.op, r.profile))).eraseDups.length ≥ 45 := by decide +kernel

/-! ## Escaping discipline (unbounded: every string of XML characters) -/

/-- Text round trip: what the serialiser writes for a text node is read back, by any XML parser, as
    exactly the same string (CR included: it is written as `&#13;`). -/
theorem text_roundtrip (s : Str) : parseText (escapeText s) = some s := by
  exact XmlTextP.parseText_escapeText s

/-- Attribute round trip (TAB / LF / CR survive attribute-value normalisation as references). -/
theorem attr_roundtrip (s : Str) : parseAttr (escapeAttr s) = some s := by
  exact XmlTextP.parseAttr_escapeAttr s

/-- No injection: escaped text contains no `<`, and every `&` in it starts one of the references the
    serialiser itself wrote — caller text can never become structure. -/
theorem text_no_markup (s : Str) : '<' ∉ escapeText s := by
  exact XmlTextP.lt_not_mem_escapeText s

theorem attr_no_markup (s : Str) : '<' ∉ escapeAttr s ∧ '"' ∉ escapeAttr s := by
  exact ⟨XmlTextP.lt_not_mem_escapeAttr s, XmlTextP.quot_not_mem_escapeAttr s⟩

/-- Escaping is a homomorphism: text assembled from pieces escapes piecewise (no context sensitivity). -/
theorem escape_append (a b : Str) : escapeText (a ++ b) = escapeText a ++ escapeText b ∧
    escapeAttr (a ++ b) = escapeAttr a ++ escapeAttr b := by
  exact ⟨XmlTextP.escapeText_append a b, XmlTextP.escapeAttr_append a b⟩

/-- The round trip does not depend on the reader's fuel (any fuel beyond the escaped length). -/
theorem text_then_markup (s _rest : Str) (fuel : Nat) (h : fuel ≥ (escapeText s).length + 1) :
    readText fuel (escapeText s) = some s := by
  exact XmlTextP.readText_escapeText s fuel h

/-! ## No injection at TREE level (unbounded: every well-formed element tree)

`XmlDoc.serialize` is how the XML library writes an element tree (compared byte for byte with
`lxml.etree.tostring` / `to_xml` on every run), `XmlDoc.parseDoc` how an XML 1.0 reader reads such text
(compared with expat).  Whatever strings the caller put into text and attribute-value positions, and
however deep the tree, reading the serialisation yields exactly that tree: no caller string can add,
remove or re-parent an element. -/

/-- Document round trip for every well-formed tree (names are XML names, attribute names distinct,
    text nodes non-empty and not adjacent — what the tree API can build). -/
theorem doc_roundtrip (n : Str) (attrs : List (Str × Str)) (cs : List XNode)
    (hw : wf (.elem n attrs cs) = true) :
    parseDoc (serialize (.elem n attrs cs)) = some (.elem n attrs cs) :=
  XmlDocP.parseDoc_serialize n attrs cs hw

/-- A caller string as the only text of an operation parameter, any markup in it notwithstanding,
    comes back as that one text node under that one element. -/
theorem caller_text_is_one_node (op param : Str) (x : Str) (hop : validName op = true) (hparam : validName param = true)
    (hx : x ≠ []) :
    parseDoc (serialize (.elem op [] [.elem param [] [.text x]])) = some (.elem op [] [.elem param [] [.text x]]) := by
  apply XmlDocP.parseDoc_serialize
  have hx' : x.isEmpty = false := by cases x with | nil => exact absurd rfl hx | cons _ _ => rfl
  simp [wf, wfList, hop, hparam, hx']

/-- The same for an attribute value (e.g. the `select` attribute of an XPath filter). -/
theorem caller_attr_is_one_value (op param a : Str) (x : Str) (hop : validName op = true) (hparam : validName param = true)
    (ha : validName a = true) :
    parseDoc (serialize (.elem op [] [.elem param [(a, x)] []])) = some (.elem op [] [.elem param [(a, x)] []]) := by
  apply XmlDocP.parseDoc_serialize
  simp [wf, wfList, hop, hparam, ha]

/-- The `<rpc>` envelope (`RPC._wrap`): a peer reads back the operation element as it was built and the
    message-id as it was generated — for every well-formed operation tree and every id string, under
    both namespace spellings of the profiles. -/
theorem rpc_envelope_roundtrip (pfx mid n : Str) (attrs : List (Str × Str)) (cs : List XNode)
    (hp : XmlDocP.StdPfx pfx) (hop : wf (.elem n attrs cs) = true) :
    parseDoc (serialize (rpcTree pfx mid (.elem n attrs cs))) = some (rpcTree pfx mid (.elem n attrs cs)) ∧
    attrOf "message-id".toList (rpcTree pfx mid (.elem n attrs cs)) = some mid :=
  XmlDocP.rpc_roundtrip pfx mid n attrs cs hp hop

/-! Non-vacuity -/
example : serialize (.elem "g".toList [] [.elem "f".toList [("s".toList, "a\"<".toList)] [.text "</f><k/>".toList]])
    = "<g><f s=\"a&quot;&lt;\">&lt;/f&gt;&lt;k/&gt;</f></g>".toList := by decide +kernel
example : (parseDoc "<g><f s=\"a&quot;&lt;\">&lt;/f&gt;&lt;k/&gt;</f></g>".toList).map serialize
    = some "<g><f s=\"a&quot;&lt;\">&lt;/f&gt;&lt;k/&gt;</f></g>".toList := by decide +kernel
/-- Un-escaped, the same caller text WOULD be structure: the reader is not trivially permissive. -/
example : (parseDoc "<g><f></f><k/></g>".toList).map serialize = some "<g><f/><k/></g>".toList := by decide +kernel
example : (parseDoc "<g><f>".toList).map serialize = none := by decide +kernel
example : wf (.elem "a".toList [("k".toList, "v".toList)] [.text "t".toList, .elem "b".toList [] [], .text "u".toList]) = true := by decide +kernel
example : escapeText "a<b>&\r\n".toList = "a&lt;b&gt;&amp;&#13;\n".toList := by decide
example : parseText "a&lt;b&gt;&amp;&#13;\n".toList = some "a<b>&\r\n".toList := by decide
example : escapeAttr "x\"y\tz".toList = "x&quot;y&#9;z".toList := by decide
example : ∃ r ∈ opRows, isSent r = true ∧ r.op = s "edit_config" ∧ r.params = [s "target", s "default-operation", s "test-option", s "error-option", s "config"] := by
  decide +kernel

end NcVerif.C07
