/-
  C07 — requests are well-formed and carry caller data faithfully.
  (i) finite part over the regenerated table Gen/OpTable.lean: every standard and vendor operation x
  argument shape x profile envelope, executed on the real code by the translator and parsed off the
  wire with an independent XML parser; (ii) unbounded part: the escaping discipline, for ALL strings.
  PARTIAL: lxml's serialiser is modelled (Model/XmlText.lean) and tied to the library by the
  correspondence run, not verified.
-/
import NcVerif.Spec.Ops
import NcVerif.Proofs.XmlText
import NcVerif.Proofs.XmlDoc
import NcVerif.Proofs.Builders
import NcVerif.Proofs.Retrieve
import NcVerif.Proofs.BuildersOrder
namespace NcVerif.C07
open NcVerif NcVerif.Gen NcVerif.OpsSpec NcVerif.XmlText NcVerif.XmlDoc

/-- Every call that sends something sends exactly one `<rpc>` in the base namespace, with a message-id
    and exactly one operation element, the one the protocol (or the vendor's schema) defines. -/
theorem one_wellformed_rpc : ∀ r ∈ opRows, shapeOk r = true := by decide +kernel

/-- The parameter elements of RFC 6241's own operations appear in the order the RFC fixes. -/
theorem rfc6241_order : ∀ r ∈ opRows, orderOk r = true := by decide +kernel

/-- Arguments outside their documented enumeration (default-operation, test-option, error-option,
    filter type, with-defaults mode, inconsistent combinations) are rejected locally, nothing is sent. -/
theorem enumerations_enforced : ∀ r ∈ opRows, outsiderOk r = true := by decide +kernel

/-- At wire level: an enumerated parameter element that is sent carries a member of its enumeration. -/
theorem enumerated_values_on_wire : ∀ r ∈ opRows, enumValuesOk r = true := by decide +kernel

/-- Every caller-supplied string lands exactly once in the request, in a text or attribute-value
    position, never as a tag. -/
theorem caller_strings_once : ∀ r ∈ opRows, sentinelsOk r = true := by decide +kernel

/-- All operations of the manager's table and every vendor operation of every profile were probed. -/
theorem table_covers_operations :
    (opRows.map (fun r => (r.op, r.profile))).eraseDups.length ≥ 45 := by decide +kernel

/-! ## Escaping discipline (unbounded: every string of XML characters) -/

/-- Text round trip: what the serialiser writes for a text node is read back, by any XML parser, as
    exactly the same string (CR included: it is written as `&#13;`). -/
theorem text_roundtrip (s : Str) : parseText (escapeText s) = some s := by
  exact XmlTextP.parseText_escapeText s

/-- Attribute round trip (TAB / LF / CR survive attribute-value normalisation as references). -/
theorem attr_roundtrip (s : Str) : parseAttr (escapeAttr s) = some s := by
  exact XmlTextP.parseAttr_escapeAttr s

/-- No injection: escaped text contains no `<`, and every `&` in it starts one of the references the
    serialiser itself wrote — caller text can never become structure. -/
theorem text_no_markup (s : Str) : '<' ∉ escapeText s := by
  exact XmlTextP.lt_not_mem_escapeText s

theorem attr_no_markup (s : Str) : '<' ∉ escapeAttr s ∧ '"' ∉ escapeAttr s := by
  exact ⟨XmlTextP.lt_not_mem_escapeAttr s, XmlTextP.quot_not_mem_escapeAttr s⟩

/-- Escaping is a homomorphism: text assembled from pieces escapes piecewise (no context sensitivity). -/
theorem escape_append (a b : Str) : escapeText (a ++ b) = escapeText a ++ escapeText b ∧
    escapeAttr (a ++ b) = escapeAttr a ++ escapeAttr b := by
  exact ⟨XmlTextP.escapeText_append a b, XmlTextP.escapeAttr_append a b⟩

/-- The round trip does not depend on the reader's fuel (any fuel beyond the escaped length). -/
theorem text_then_markup (s _rest : Str) (fuel : Nat) (h : fuel ≥ (escapeText s).length + 1) :
    readText fuel (escapeText s) = some s := by
  exact XmlTextP.readText_escapeText s fuel h

/-! ## No injection at TREE level (unbounded: every well-formed element tree)

`XmlDoc.serialize` is how the XML library writes an element tree (compared byte for byte with
`lxml.etree.tostring` / `to_xml` on every run), `XmlDoc.parseDoc` how an XML 1.0 reader reads such text
(compared with expat).  Whatever strings the caller put into text and attribute-value positions, and
however deep the tree, reading the serialisation yields exactly that tree: no caller string can add,
remove or re-parent an element. -/

/-- Document round trip for every well-formed tree (names are XML names, attribute names distinct,
    text nodes non-empty and not adjacent — what the tree API can build). -/
theorem doc_roundtrip (n : Str) (attrs : List (Str × Str)) (cs : List XNode)
    (hw : wf (.elem n attrs cs) = true) :
    parseDoc (serialize (.elem n attrs cs)) = some (.elem n attrs cs) :=
  XmlDocP.parseDoc_serialize n attrs cs hw

/-- A caller string as the only text of an operation parameter, any markup in it notwithstanding,
    comes back as that one text node under that one element. -/
theorem caller_text_is_one_node (op param : Str) (x : Str) (hop : validName op = true) (hparam : validName param = true)
    (hx : x ≠ []) :
    parseDoc (serialize (.elem op [] [.elem param [] [.text x]])) = some (.elem op [] [.elem param [] [.text x]]) := by
  apply XmlDocP.parseDoc_serialize
  have hx' : x.isEmpty = false := by cases x with | nil => exact absurd rfl hx | cons _ _ => rfl
  simp [wf, wfList, hop, hparam, hx']

/-- The same for an attribute value (e.g. the `select` attribute of an XPath filter). -/
theorem caller_attr_is_one_value (op param a : Str) (x : Str) (hop : validName op = true) (hparam : validName param = true)
    (ha : validName a = true) :
    parseDoc (serialize (.elem op [] [.elem param [(a, x)] []])) = some (.elem op [] [.elem param [(a, x)] []]) := by
  apply XmlDocP.parseDoc_serialize
  simp [wf, wfList, hop, hparam, ha]

/-- The `<rpc>` envelope (`RPC._wrap`): a peer reads back the operation element as it was built and the
    message-id as it was generated — for every well-formed operation tree and every id string, under
    both namespace spellings of the profiles. -/
theorem rpc_envelope_roundtrip (pfx mid n : Str) (attrs : List (Str × Str)) (cs : List XNode)
    (hp : XmlDocP.StdPfx pfx) (hop : wf (.elem n attrs cs) = true) :
    parseDoc (serialize (rpcTree pfx mid (.elem n attrs cs))) = some (rpcTree pfx mid (.elem n attrs cs)) ∧
    attrOf "message-id".toList (rpcTree pfx mid (.elem n attrs cs)) = some mid :=
  XmlDocP.rpc_roundtrip pfx mid n attrs cs hp hop

/-! ## The request builders themselves, for ALL argument values (Model/Builders: edit-config, lock, unlock,
get-config, delete-config, copy-config, validate, commit, cancel-commit, discard-changes, kill-session,
close-session of the default profile; compared with the real Manager byte for byte on random arguments) -/

section Builders
open NcVerif.Builders NcVerif.BuildersP

/-- Whatever strings the caller passes: a request that is built is ONE well-formed `<rpc>` whose operation
    element the peer reads back exactly as it was built — datastore names, URLs, option values, texts and
    the configuration fragment included — together with its message-id. -/
theorem built_request_roundtrip (has : Str → Bool) (call : Call) (t : XNode) (mid : Str)
    (hcfg : ∀ c tg d to e, call = .edit (.xml c) tg d to e → Good c) (h : build has call = .ok t) :
    parseDoc (serialize (rpcTree "nc:".toList mid t)) = some (rpcTree "nc:".toList mid t) ∧
    attrOf "message-id".toList (rpcTree "nc:".toList mid t) = some mid := by
  obtain ⟨⟨hw, hnt⟩, _⟩ := build_ok has call t hcfg h
  cases t with
  | text _ => simp [XmlDocP.isText] at hnt
  | elem n a cs => exact XmlDocP.rpc_roundtrip "nc:".toList mid n a cs (Or.inl rfl) hw

/-- `edit_config`: an option value outside its RFC 6241 enumeration never yields a request; the parameter
    elements come in the order RFC 6241 §7.2 fixes. -/
theorem edit_config_enumerations_and_order (has : Str → Bool) (config : Config) (target : Str) (dop top eop : Option Str) (t : XNode)
    (hcfg : ∀ c, config = .xml c → Good c) (h : editConfig has config target dop top eop = .ok t) :
    (∀ d, dop = some d → ∃ a ∈ enumDo, Builders.s a = d) ∧ (∀ x, top = some x → ∃ a ∈ enumTo, Builders.s a = x) ∧
    (∀ e, eop = some e → ∃ a ∈ enumEo, Builders.s a = e) ∧
    (paramNames t).Sublist ([nc "target"] ++ [nc "default-operation"] ++ [nc "test-option"] ++ [nc "error-option"] ++
      [nc "config", Builders.s "config", nc "config-text", nc "url"]) := by
  have h' := editConfig_ok has config target dop top eop t hcfg h
  exact ⟨h'.2.2.1, fun x hx => (h'.2.2.2.1 x hx).1, fun e he => (h'.2.2.2.2.1 e he).1, h'.2.2.2.2.2.2⟩

/-- EVERY base-namespace call (edit-config, lock, unlock, get-config, delete-config, copy-config, validate, commit, cancel-commit,
    discard-changes, kill-session, close-session), for all arguments: what is built carries only the parameter elements RFC 6241
    defines for that call, each at most once, in the RFC's order (`BuildersOrderP.rfcOrder`). -/
theorem base_parameter_order (has : Str → Bool) (call : Call) (t : XNode)
    (hcfg : ∀ c tg d to e, call = .edit (.xml c) tg d to e → Good c) (h : build has call = .ok t) :
    (paramNames t).Sublist (BuildersOrderP.rfcOrder call) :=
  BuildersOrderP.parameter_order has call t hcfg h

/-- A datastore argument lands on the wire as the caller gave it: a URL as the text of `<url>`, a name as the
    (only) child element of `<source>` / `<target>`. -/
theorem datastore_argument_faithful (has : Str → Bool) (wha : String) (loc : Str) (x : XNode)
    (hn : validName (nc wha) = true) (h : datastoreOrUrl has wha loc = .ok x) :
    (hasSub (Builders.s "://") loc = true → x = el wha [.elem (nc "url") [] (if loc.isEmpty then [] else [.text loc])]) ∧
    (hasSub (Builders.s "://") loc = false → x = el wha [.elem (Builders.s "nc:" ++ loc) [] []]) := by
  obtain ⟨_, hu, hn'⟩ := datastoreOrUrl_good has wha loc x hn h
  exact ⟨fun hh => (hu hh).2, hn'⟩

example : builtText (build (fun _ => true) (.edit (.text "set <x>".toList) "running".toList none (some "set".toList) none))
    = some "<nc:edit-config><nc:target><nc:running/></nc:target><nc:test-option>set</nc:test-option><nc:config-text><nc:configuration-text>set &lt;x&gt;</nc:configuration-text></nc:config-text></nc:edit-config>".toList := by
  decide +kernel
example : refusal (build (fun _ => true) (.edit (.text "x".toList) "running".toList (some "Merge".toList) none none)) = some .operationError := by
  decide +kernel
example : refusal (build (fun _ => true) (.lock "bad name".toList)) = some .valueError := by decide +kernel
end Builders

/-! ## The retrieval builders (Model/Retrieve: get, get-config with filter / with-defaults, dispatch, create-subscription) -/

section Retrieve
open NcVerif.Builders NcVerif.BuildersP NcVerif.Retrieve NcVerif.RetrieveP

/-- A retrieval request that is built is ONE well-formed `<rpc>` which the peer reads back exactly as built — the XPath
    expression (an attribute value), the caller's subtree filter, the with-defaults mode, stream name and times included. -/
theorem retrieval_request_roundtrip (caps : Caps.Caps) (call : Retrieve.Call) (t : XNode) (mid : Str)
    (hf : FilterGood (filterOf call)) (he : ∀ e ∈ elemArgs call, Good e) (h : Retrieve.build caps call = .ok t) :
    parseDoc (serialize (rpcTree "nc:".toList mid t)) = some (rpcTree "nc:".toList mid t) ∧
    attrOf "message-id".toList (rpcTree "nc:".toList mid t) = some mid := by
  obtain ⟨⟨hw, hnt⟩, _⟩ := RetrieveP.build_ok caps call t hf he h
  cases t with
  | text _ => simp [XmlDocP.isText] at hnt
  | elem n a cs => exact XmlDocP.rpc_roundtrip "nc:".toList mid n a cs (Or.inl rfl) hw

/-- An XPath filter is ONE empty `<filter type="xpath">` whose `select` attribute is the caller's expression, unaltered;
    a filter type other than xpath / subtree never yields a request. -/
theorem xpath_filter_faithful (sel : Str) (l : List XNode) (h : filterPart (some (.xpath sel)) = .ok l) :
    l = [.elem (nc "filter") [(Builders.s "type", Builders.s "xpath"), (Builders.s "select", sel)] []] := by
  simp only [filterPart] at h
  split at h
  · simp only [pure, Except.pure] at h; injection h with h; exact h.symm
  · cases h

theorem unknown_filter_type_refused (ty : Str) : filterPart (some (.other ty)) = .error .operationError := rfl

/-- get / get-config / get-schema / dispatch / rpc / create-subscription / validate and copy-config with element arguments / the
    power operations, for ALL arguments: what is built carries only parameter elements the protocol defines for that call —
    `target`, `source`, `filter`, `with-defaults`, `config`, `stream`, `startTime`, `stopTime`, `identifier`, `version`, `format` —
    each at most once and in the protocol's order (`RetrieveP.rfcOrder`). -/
theorem retrieval_parameter_order (caps : Caps.Caps) (call : Retrieve.Call) (t : XNode) (h : Retrieve.build caps call = .ok t) :
    (paramNames t).Sublist (RetrieveP.rfcOrder call) :=
  RetrieveP.parameter_order caps call t h

example : (builtText (Retrieve.build (Caps.mk ["urn:ietf:params:netconf:capability:url:1.0?scheme=ftp".toList])
      (.rpc "cmd".toList (some "running".toList) (some "ftp://h/f".toList) (some (.xpath "/a".toList)) none)))
    = some "<nc:cmd><nc:target><nc:running/></nc:target><nc:source><nc:url>ftp://h/f</nc:url></nc:source><nc:filter type=\"xpath\" select=\"/a\"/></nc:cmd>".toList := by
  decide +kernel

example : builtText (Retrieve.build (Caps.mk ["urn:ietf:params:netconf:capability:with-defaults:1.0?basic-mode=explicit&also-supported=report-all,trim".toList])
      (.get (some (.xpath "/a[b=\"x\"]".toList)) (some "trim".toList)))
    = some "<nc:get><nc:filter type=\"xpath\" select=\"/a[b=&quot;x&quot;]\"/><ns0:with-defaults xmlns:ns0=\"urn:ietf:params:xml:ns:yang:ietf-netconf-with-defaults\">trim</ns0:with-defaults></nc:get>".toList := by
  decide +kernel
example : builtText (Retrieve.build (Caps.mk []) (.getSchema "mod".toList (some "1.0".toList) none))
    = some "<ncm:get-schema xmlns:ncm=\"urn:ietf:params:xml:ns:yang:ietf-netconf-monitoring\"><ncm:identifier>mod</ncm:identifier><ncm:version>1.0</ncm:version></ncm:get-schema>".toList := by
  decide +kernel
example : builtText (Retrieve.build (Caps.mk ["urn:ietf:params:netconf:capability:notification:1.0".toList])
      (.subscribe none (some "NETCONF".toList) (some "t0".toList) (some "t1".toList)))
    = some "<ns0:create-subscription xmlns:ns0=\"urn:ietf:params:xml:ns:netconf:notification:1.0\"><ns0:stream>NETCONF</ns0:stream><ns0:startTime>t0</ns0:startTime><ns0:stopTime>t1</ns0:stopTime></ns0:create-subscription>".toList := by
  decide +kernel
end Retrieve

/-! Non-vacuity -/
example : serialize (.elem "g".toList [] [.elem "f".toList [("s".toList, "a\"<".toList)] [.text "</f><k/>".toList]])
    = "<g><f s=\"a&quot;&lt;\">&lt;/f&gt;&lt;k/&gt;</f></g>".toList := by decide +kernel
example : (parseDoc "<g><f s=\"a&quot;&lt;\">&lt;/f&gt;&lt;k/&gt;</f></g>".toList).map serialize
    = some "<g><f s=\"a&quot;&lt;\">&lt;/f&gt;&lt;k/&gt;</f></g>".toList := by decide +kernel
/-- Un-escaped, the same caller text WOULD be structure: the reader is not trivially permissive. -/
example : (parseDoc "<g><f></f><k/></g>".toList).map serialize = some "<g><f/><k/></g>".toList := by decide +kernel
example : (parseDoc "<g><f>".toList).map serialize = none := by decide +kernel
example : wf (.elem "a".toList [("k".toList, "v".toList)] [.text "t".toList, .elem "b".toList [] [], .text "u".toList]) = true := by decide +kernel
example : escapeText "a<b>&\r\n".toList = "a&lt;b&gt;&amp;&#13;\n".toList := by decide
example : parseText "a&lt;b&gt;&amp;&#13;\n".toList = some "a<b>&\r\n".toList := by decide
example : escapeAttr "x\"y\tz".toList = "x&quot;y&#9;z".toList := by decide
example : ∃ r ∈ opRows, isSent r = true ∧ r.op = s "edit_config" ∧ r.params = [s "target", s "default-operation", s "test-option", s "error-option", s "config"] := by
  decide +kernel

end NcVerif.C07
