/-
  C05 — hello exchange and framing-version negotiation.
  Property theorems only, over all histories (orderings of "server hello received" vs "client hello
  written", transport readiness patterns, hello segmentation) and environments (server capability
  lists, device profile) of Model/Session.  The per-profile client capability tables are in
  Gen/Profiles (regenerated from /repo) and checked at the end of this file.
-/
import NcVerif.Proofs.SessionB
import NcVerif.Spec.Profiles
import NcVerif.Proofs.XmlDoc
namespace NcVerif.C05
open NcVerif NcVerif.Session NcVerif.SessionSpec NcVerif.Framing NcVerif.FramingSpec NcVerif.ProfilesSpec

/-- The first frame on the wire is the client `<hello>`, in end-of-message framing, whatever the
    arrival time of the server's hello and the readiness of the transport. -/
theorem hello_first (env : Env) (ops : List Op) (h : UserAfterConnect env ops) :
    ∀ f fs, (run env init ops).frames = f :: fs →
      ∃ d, f = frame false d ∧ (run env init ops).puts.head? = some ⟨d, true⟩ := by
  exact SessionB.hello_first env ops h

/-- Everything after it is framed in the version the session ended up with: chunked iff `base11`. -/
theorem post_hello_framing (env : Env) (ops : List Op) (h : UserAfterConnect env ops) :
    ∀ p ∈ (run env init ops).dequeued, p.1.isHello = false → p.2 = (run env init ops).base11 := by
  exact SessionB.post_hello_framing env ops h

/-- `base11` holds iff both peers advertised exactly `urn:ietf:params:netconf:base:1.1`
    (after a successful connect). -/
theorem negotiated_iff (env : Env) (ops : List Op) (h : (run env init ops).conn = .done true) :
    (run env init ops).base11 = true ↔
      ∃ sc, (run env init ops).serverCaps = some sc ∧ base11Uri ∈ sc ∧ base11Uri ∈ env.clientCaps := by
  exact SessionB.negotiated_iff env ops h

/-- The session id and server capabilities reported to the user are those of a `<hello>` that was
    received. -/
theorem session_id_caps_from_hello (env : Env) (ops : List Op) :
    ∀ sc, (run env init ops).serverCaps = some sc →
      ∃ raw ∈ (run env init ops).received, ∃ sid, env.helloParse raw = some (sid, sc) ∧
        (run env init ops).sessionId = some sid := by
  exact SessionB.session_id_caps_from_hello env ops

/-- Connect never hangs: while it waits, either the event is set and it finishes (ok or error), or
    the timeout expires and it fails. -/
theorem connect_fails_not_hangs (env : Env) (ops : List Op) (h : (run env init ops).conn = .started) :
    ((run env init ops).initEvent = true → ∃ ok, (step env (run env init ops) .kFinish).conn = .done ok) ∧
    ((run env init ops).initEvent = false → (step env (run env init ops) .kWaitExpire).conn = .done false) := by
  exact SessionB.connect_fails_not_hangs env _ h

/-- If the session dies first, the waiting connect is woken (it does not sit out its timeout),
    and it fails. -/
theorem dead_session_wakes_connect (env : Env) (ops : List Op) (h : (run env init ops).conn = .started)
    (hd : (run env init ops).errbackDone = true) :
    (run env init ops).initEvent = true ∧ (step env (run env init ops) .kFinish).conn = .done false := by
  exact SessionB.dead_session_wakes_connect env ops h hd

/-! ## Client capability tables of the 14 profiles (regenerated from the source on every run) -/

/-- Every profile's client capability list contains a NETCONF base URI, whatever extra
    capabilities the user adds (shape `prefix ++ extra ++ suffix`, or a fixed list, recovered by the
    translator by probing each handler). -/
theorem every_profile_has_base (extra : List Str) :
    ∀ p ∈ Gen.profiles, ∃ u ∈ clientCaps p extra, isBaseUri u = true := by
  have h : ∀ p ∈ Gen.profiles, ∃ u ∈ p.capsPrefix ++ p.capsSuffix, isBaseUri u = true ∧
      (p.usesExtra = false → u ∈ p.capsPrefix) := by decide +kernel
  intro p hp
  obtain ⟨u, hu, hb, hfix⟩ := h p hp
  refine ⟨u, ?_, hb⟩
  unfold clientCaps
  split
  · rcases List.mem_append.mp hu with h1 | h2
    · exact List.mem_append_left _ (List.mem_append_left _ h1)
    · exact List.mem_append_right _ h2
  · rename_i hne
    exact hfix (by simpa using hne)

/-- The default profile advertises the documented standard list followed by the user's additions. -/
theorem default_caps (extra : List Str) :
    ∀ p ∈ Gen.profiles, p.name = "default".toList →
      clientCaps p extra = documentedDefaultCaps ++ extra := by
  have h : ∀ p ∈ Gen.profiles, p.name = "default".toList →
      p.usesExtra = true ∧ p.capsPrefix = documentedDefaultCaps ∧ p.capsSuffix = [] := by decide +kernel
  intro p hp hn
  obtain ⟨h1, h2, h3⟩ := h p hp hn
  simp [clientCaps, h1, h2, h3]

/-- All 14 shipped profiles are in the table, and there is a default one. -/
theorem table_complete : Gen.profiles.length = 14 ∧ ∃ p ∈ Gen.profiles, p.name = "default".toList := by
  decide +kernel

/-! Non-vacuity: server hello processed BEFORE the client hello could be written (transport not
    ready); the hello still goes out in 1.0 framing and the next message is chunked. -/
def lateReadyOps : List Op :=
  [.kAddListeners, .kSendHello [0x48], .kStart, .wTop false, .wSelect true,
   .wRead (.data [0x68, 0x5d, 0x5d, 0x3e, 0x5d, 0x5d, 0x3e]), .wDispatch, .kFinish,
   .wTop true, .wWrite 100, .cNew 1, .cSend [0x61], .wSelect false, .wTop true, .wWrite 100]
example : (run C03demo.env init lateReadyOps).base11 = true ∧
    (run C03demo.env init lateReadyOps).wire =
      [0x48, 0x5d, 0x5d, 0x3e, 0x5d, 0x5d, 0x3e] ++ [0x0a, 0x23, 0x31, 0x0a, 0x61, 0x0a, 0x23, 0x23, 0x0a] := by
  decide +kernel

/-! ## The `<hello>` document itself (Model/XmlDoc: serialiser and reader modelled, compared with
`HelloHandler.build` byte for byte and with an independent reader on every run) -/

/-- A peer that reads the `<hello>` ncclient builds gets exactly the capability list the manager
    reports — every URI, in order, unaltered (query strings with `&`, `<` … included) — under both
    namespace spellings the device profiles use (`nc:` prefix, default namespace). -/
theorem hello_lists_exactly_the_capabilities (pfx : Str) (caps : List Str)
    (hp : XmlDocP.StdPfx pfx) (hc : ∀ c ∈ caps, c ≠ []) :
    (XmlDoc.parseDoc (XmlDoc.serialize (XmlDoc.helloTree pfx caps))).map (XmlDoc.capsOf pfx) = some (caps.map some) :=
  XmlDocP.hello_roundtrip pfx caps hp hc

example : XmlDoc.serialize (XmlDoc.helloTree "nc:".toList ["urn:x?a=1&b=<2>".toList])
    = "<nc:hello xmlns:nc=\"urn:ietf:params:xml:ns:netconf:base:1.0\"><nc:capabilities><nc:capability>urn:x?a=1&amp;b=&lt;2&gt;</nc:capability></nc:capabilities></nc:hello>".toList := by
  decide +kernel

end NcVerif.C05
