/-
  C10 — reply content reaches the caller unaltered.
  PARTIAL: proved are (i) that a request's raw reply is the payload of a correctly framed message
  carrying its message-id (composition of C01/C14 and C03), (ii) the tree-level behaviour of the reply
  transforms (Junos XSLT, ALU remove_namespaces, SR OS pass-through) by induction over all trees, and
  (iii) `data` = the reply's <data> child.  libxml2 / libxslt (parsing, the XSLT engine, the huge-tree
  limits) are the environment: the real transforms run on generated documents in the correspondence.
-/
import NcVerif.Proofs.Xml
import NcVerif.Proofs.SessionA
import NcVerif.Proofs.SessionC
namespace NcVerif.C10
open NcVerif NcVerif.Xml

/-- Junos: the transformed tree has the same element structure, order, non-blank text, comments,
    PIs and attribute values as the reply — only namespaces and whitespace-only text are gone. -/
theorem stripNs_shape (t : Node) : shapeList (stripNs t) = shape t := by
  exact XmlP.shapeList_stripNs t

/-- …and really no namespace is left. -/
theorem stripNs_no_ns (t : Node) : hasNsList (stripNs t) = false := by
  exact XmlP.hasNsList_stripNs t

/-- ALU: element names lose their namespace, nothing else changes. -/
theorem stripElemNs_shape (t : Node) : shape (stripElemNs t) = shape t := by
  exact XmlP.shape_stripElemNs t

/-- SR OS: pass-through. -/
theorem passthrough_id (t : Node) : passthrough t = t := rfl

/-- The transforms never reorder, drop or duplicate elements: the sequence of local names is unchanged. -/
theorem stripNs_local_names (t : Node) :
    (shapeList (stripNs t)) = shape t ∧ (shape (stripElemNs t)) = shape t := by
  exact ⟨XmlP.shapeList_stripNs t, XmlP.shape_stripElemNs t⟩

/-- `data_ele`: the first child of the reply root named `{base}data`, which is a child of the root. -/
theorem data_is_child (q : QName) (tag : QName) (attrs : List (QName × Str)) (children : List Node) (d : Node)
    (h : findChild q (.elem tag attrs children) = some d) :
    d ∈ children ∧ ∃ a c, d = .elem q a c := by
  exact XmlP.findChild_some q tag attrs children d h

/-- The raw XML held by a request is a message that was received and carries that request's
    message-id (from C03; with C01/C14: received messages are exact payloads of framed messages). -/
theorem raw_is_own_payload (env : Session.Env) (ops : List Session.Op) :
    ∀ r ∈ (Session.run env Session.init ops).rpcs, ∀ raw, r.reply = some raw →
      SessionSpec.isReplyFor env r.id raw := by
  exact SessionA.own_reply env ops

/-- …and it is one of the messages the framing layer handed over (so, by C01 / C14, the exact payload of a
    correctly framed message of the server's stream). -/
theorem reply_was_received (env : Session.Env) (ops : List Session.Op) :
    ∀ r ∈ (Session.run env Session.init ops).rpcs, ∀ raw, r.reply = some raw →
      raw ∈ (Session.run env Session.init ops).received := by
  exact SessionC.reply_was_received env ops

/-! Non-vacuity -/
def q (n : String) (l : String) : QName := ⟨if n = "" then none else some n.toList, l.toList⟩
def reply : Node := .elem (q "urn:b" "rpc-reply") [(q "" "message-id", "1".toList)]
  [.text "\n  ".toList, .elem (q "urn:b" "data") [] [.elem (q "urn:a" "x") [(q "urn:p" "k", "v".toList)] [.text "é".toList], .comment "c".toList]]
example : stripNs reply = [.elem (q "" "rpc-reply") [(q "" "message-id", "1".toList)]
  [.elem (q "" "data") [] [.elem (q "" "x") [(q "" "k", "v".toList)] [.text "é".toList], .comment "c".toList]]] := by rfl
example : (findChild (q "urn:b" "data") reply).isSome = true := by rfl

end NcVerif.C10
