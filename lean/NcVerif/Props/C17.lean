/-
  C17 — XML helper round-trips (ncclient/xml_.py).
  PARTIAL: proved here are the helpers' own logic on trees (namespace replacement, root validation,
  declaration handling), the escaping discipline for all strings, and the tree-level round trip
  `parseDoc (serialize t) = some t` for every well-formed namespace-free tree, where `serialize` /
  `parseDoc` (Model/XmlDoc.lean) MODEL lxml's serialiser and an XML 1.0 reader and are compared with
  `to_xml` byte for byte and with expat on every run.  Namespace prefixes, comments, PIs, CDATA, DTDs
  and `parse_root` vs full parse stay correspondence results on generated documents.
-/
import NcVerif.Proofs.Xml
import NcVerif.Proofs.XmlText
import NcVerif.Proofs.XmlDoc
namespace NcVerif.C17
open NcVerif NcVerif.Xml NcVerif.XmlText

mutual
  /-- Element names in document order. -/
  def tagsOf : Node → List QName
    | .elem tag _ children => tag :: tagsOfList children
    | _ => []
  def tagsOfList : List Node → List QName
    | [] => []
    | n :: ns => tagsOf n ++ tagsOfList ns
end

mutual
  /-- Everything that is not an element name or an attribute: text, comments, PIs, and the nesting
      skeleton, in document order. -/
  def skeleton : Node → Node
    | .elem _ _ children => .elem ⟨none, []⟩ [] (skeletonList children)
    | n => n
  def skeletonList : List Node → List Node
    | [] => []
    | n :: ns => skeleton n :: skeletonList ns
end

mutual
  def attrsOf : Node → List (List (QName × Str))
    | .elem _ attrs children => attrs :: attrsOfList children
    | _ => []
  def attrsOfList : List Node → List (List (QName × Str))
    | [] => []
    | n :: ns => attrsOf n ++ attrsOfList ns
end

mutual
  private theorem tagsOf_replaceNs (old new : Option Str) : ∀ n : Node,
      tagsOf (replaceNs old new n) = (tagsOf n).map (renameQ old new)
    | .elem tag attrs children => by
      rw [replaceNs, tagsOf, tagsOf, List.map_cons, tagsOfList_replaceNsList old new children]
    | .text s => by rw [replaceNs]; all_goals simp [tagsOf]
    | .comment s => by rw [replaceNs]; all_goals simp [tagsOf]
    | .pi t s => by rw [replaceNs]; all_goals simp [tagsOf]
  private theorem tagsOfList_replaceNsList (old new : Option Str) : ∀ l : List Node,
      tagsOfList (replaceNsList old new l) = (tagsOfList l).map (renameQ old new)
    | [] => by simp [replaceNsList, tagsOfList]
    | n :: ns => by
      rw [replaceNsList, tagsOfList, tagsOfList, List.map_append, tagsOf_replaceNs old new n,
        tagsOfList_replaceNsList old new ns]
end

mutual
  private theorem skeleton_replaceNs (old new : Option Str) : ∀ n : Node,
      skeleton (replaceNs old new n) = skeleton n
    | .elem tag attrs children => by
      rw [replaceNs, skeleton, skeleton, skeletonList_replaceNsList old new children]
    | .text s => by rw [replaceNs]; all_goals simp
    | .comment s => by rw [replaceNs]; all_goals simp
    | .pi t s => by rw [replaceNs]; all_goals simp
  private theorem skeletonList_replaceNsList (old new : Option Str) : ∀ l : List Node,
      skeletonList (replaceNsList old new l) = skeletonList l
    | [] => by rw [replaceNsList]
    | n :: ns => by
      rw [replaceNsList, skeletonList, skeletonList, skeleton_replaceNs old new n,
        skeletonList_replaceNsList old new ns]
end

mutual
  private theorem attrsOf_replaceNs (old new : Option Str) : ∀ n : Node,
      attrsOf (replaceNs old new n) = (attrsOf n).map (replaceAttrs old new)
    | .elem tag attrs children => by
      rw [replaceNs, attrsOf, attrsOf, List.map_cons, attrsOfList_replaceNsList old new children]
    | .text s => by rw [replaceNs]; all_goals simp [attrsOf]
    | .comment s => by rw [replaceNs]; all_goals simp [attrsOf]
    | .pi t s => by rw [replaceNs]; all_goals simp [attrsOf]
  private theorem attrsOfList_replaceNsList (old new : Option Str) : ∀ l : List Node,
      attrsOfList (replaceNsList old new l) = (attrsOfList l).map (replaceAttrs old new)
    | [] => by simp [replaceNsList, attrsOfList]
    | n :: ns => by
      rw [replaceNsList, attrsOfList, attrsOfList, List.map_append, attrsOf_replaceNs old new n,
        attrsOfList_replaceNsList old new ns]
end

/-- Namespace replacement renames exactly the ELEMENTS of the old namespace: same elements, same
    order, same local names; an element is moved iff its namespace was `old`. -/
theorem replaceNs_tags (old new : Option Str) (t : Node) :
    tagsOf (replaceNs old new t) = (tagsOf t).map (renameQ old new) := by
  exact tagsOf_replaceNs old new t

/-- …and leaves text, tails, comments, processing instructions and the nesting untouched. -/
theorem replaceNs_skeleton (old new : Option Str) (t : Node) :
    skeleton (replaceNs old new t) = skeleton t := by
  exact skeleton_replaceNs old new t

/-- …and renames exactly the ATTRIBUTES of the old namespace, keeping every value — for each
    element whose attributes do not collide after renaming (two attributes `{old}a` and `{new}a` on
    one element cannot both survive; such inputs are run on the real code as a class of their own). -/
theorem replaceAttrs_exact (old new : Option Str) (attrs : List (QName × Str))
    (hn : (attrs.map (·.1)).Nodup) (hc : (attrs.map (fun a => renameQ old new a.1)).Nodup) (q : QName) (v : Str) :
    (q, v) ∈ replaceAttrs old new attrs ↔ ∃ q0, (q0, v) ∈ attrs ∧ q = renameQ old new q0 := by
  have _ := hn
  exact XmlP.mem_replaceAttrs old new attrs hc q v

theorem replaceNs_attrs (old new : Option Str) (t : Node) :
    attrsOf (replaceNs old new t) = (attrsOf t).map (replaceAttrs old new) := by
  exact attrsOf_replaceNs old new t

/-- A name is renamed iff it was in the old namespace; its local name never changes. -/
theorem renameQ_spec (old new : Option Str) (q : QName) :
    (renameQ old new q).name = q.name ∧ (q.ns = old → (renameQ old new q).ns = new) ∧ (q.ns ≠ old → renameQ old new q = q) := by
  exact ⟨XmlP.renameQ_name old new q, XmlP.renameQ_of_ns old new q, XmlP.renameQ_of_not_ns old new q⟩

/-- Root validation accepts exactly the documents whose root is an element with an allowed tag
    (any tag if none is given) and, for every requirement, at least one of the alternative attributes. -/
theorem validated_iff (tags : List QName) (reqs : List (List QName)) (tag : QName) (attrs : List (QName × Str)) (ch : List Node) :
    validated tags reqs (.elem tag attrs ch) = true ↔
      (tags = [] ∨ tag ∈ tags) ∧ ∀ alts ∈ reqs, ∃ a ∈ alts, ∃ v, (a, v) ∈ attrs := by
  exact XmlP.validated_elem_iff tags reqs tag attrs ch

theorem validated_non_element (tags : List QName) (reqs : List (List QName)) (s : Str) :
    validated tags reqs (.text s) = false ∧ validated tags reqs (.comment s) = false := by
  exact ⟨rfl, rfl⟩

/-- The serialised form carries exactly one XML declaration: one is added iff there is none, and
    applying the rule twice adds nothing. -/
theorem one_declaration (decl s : Str) (hd : declPrefix.isPrefixOf decl = true) :
    declPrefix.isPrefixOf (addDecl decl s) = true ∧ addDecl decl (addDecl decl s) = addDecl decl s ∧
    (declPrefix.isPrefixOf s = true → addDecl decl s = s) ∧ (declPrefix.isPrefixOf s = false → addDecl decl s = decl ++ s) := by
  exact XmlP.addDecl_spec decl s hd

/-- Tree-level round trip (names, attributes in order, text, tail, child order): reading what the
    serialiser wrote gives back exactly the tree — for every well-formed namespace-free tree, whatever
    strings sit in its text and attribute positions. -/
theorem tree_roundtrip (n : Str) (attrs : List (Str × Str)) (cs : List XmlDoc.XNode)
    (hw : XmlDoc.wf (.elem n attrs cs) = true) :
    XmlDoc.parseDoc (XmlDoc.serialize (.elem n attrs cs)) = some (.elem n attrs cs) :=
  XmlDocP.parseDoc_serialize n attrs cs hw

/-- Serialise, parse, serialise again: the second serialisation equals the first (what `to_xml ∘ to_ele ∘ to_xml` gives). -/
theorem serialise_idempotent (n : Str) (attrs : List (Str × Str)) (cs : List XmlDoc.XNode)
    (hw : XmlDoc.wf (.elem n attrs cs) = true) :
    (XmlDoc.parseDoc (XmlDoc.serialize (.elem n attrs cs))).map XmlDoc.serialize = some (XmlDoc.serialize (.elem n attrs cs)) := by
  rw [XmlDocP.parseDoc_serialize n attrs cs hw]; rfl

/-- The root-only parse (`parse_root`, which looks at the start tag alone) agrees with the full parse on the root's name and
    attributes — for EVERY document text the full parse accepts, not only for serialisations. -/
theorem root_only_agrees_with_full_parse (s : Str) (t : XmlDoc.XNode) (h : XmlDoc.parseDoc s = some t) (hs : s.head? = some '<') :
    XmlDoc.parseRoot s = XmlDoc.rootOf t :=
  XmlDocP.parseRoot_agrees s t h hs

/-- In particular on whatever the serialiser wrote: name and attributes (in order, values unescaped) of the tree's root. -/
theorem root_of_serialisation (n : Str) (attrs : List (Str × Str)) (cs : List XmlDoc.XNode)
    (hw : XmlDoc.wf (.elem n attrs cs) = true) :
    XmlDoc.parseRoot (XmlDoc.serialize (.elem n attrs cs)) = some (n, attrs) := by
  have h := XmlDocP.parseDoc_serialize n attrs cs hw
  have hs : (XmlDoc.serialize (.elem n attrs cs)).head? = some '<' := by
    cases cs <;> simp [XmlDoc.serialize]
  rw [XmlDocP.parseRoot_agrees _ _ h hs]; rfl

example : XmlDoc.parseRoot "<rpc-reply message-id=\"a&lt;1\" x=\"2\"><ok/><never closed".toList
    = some ("rpc-reply".toList, [("message-id".toList, "a<1".toList), ("x".toList, "2".toList)]) := by decide +kernel

/-- Character data written by the serialiser is read back unaltered by any XML parser (from C07). -/
theorem chardata_roundtrip (s : Str) : parseText (escapeText s) = some s ∧ parseAttr (escapeAttr s) = some s :=
  ⟨XmlTextP.parseText_escapeText s, XmlTextP.parseAttr_escapeAttr s⟩

/-! Non-vacuity -/
def q (n : String) (l : String) : QName := ⟨if n = "" then none else some n.toList, l.toList⟩
def doc : Node := .elem (q "urn:old" "a") [(q "urn:old" "k", "v".toList), (q "" "m", "w".toList)]
  [.text "t".toList, .elem (q "urn:other" "b") [] [], .comment "c".toList, .elem (q "urn:old" "c") [] []]
example : replaceNs (some "urn:old".toList) (some "urn:new".toList) doc =
    .elem (q "urn:new" "a") [(q "" "m", "w".toList), (q "urn:new" "k", "v".toList)]
      [.text "t".toList, .elem (q "urn:other" "b") [] [], .comment "c".toList, .elem (q "urn:new" "c") [] []] := by rfl
example : validated [q "urn:x" "config", q "" "config"] [[q "" "type", q "" "kind"]] (.elem (q "" "config") [(q "" "kind", [])] []) = true := by decide

example : XmlDoc.wf (.elem "a".toList [("k".toList, "<&\"".toList)] [.text "x\r".toList, .elem "b".toList [] [], .text "]]>".toList]) = true := by decide +kernel
example : XmlDoc.serialize (.elem "a".toList [("k".toList, "<&\"".toList)] [.text "x\r".toList, .elem "b".toList [] [], .text "]]>".toList])
    = "<a k=\"&lt;&amp;&quot;\">x&#13;<b/>]]&gt;</a>".toList := by decide +kernel

end NcVerif.C17
