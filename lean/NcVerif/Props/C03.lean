/-
  C03 — each request receives exactly its own reply.
  Property theorems only, over ALL histories (`ops : List Op`) of Model/Session, i.e. every
  interleaving of any number of client threads, the worker and the network at
  synchronisation-point granularity, and every environment (`env`: XML library verdicts, profile).
-/
import NcVerif.Proofs.SessionA
namespace NcVerif.C03
open NcVerif NcVerif.Session NcVerif.SessionSpec NcVerif.Framing

/-- A request that holds a reply holds a reply carrying its own message-id. -/
theorem own_reply (env : Env) (ops : List Op) :
    ∀ r ∈ (run env init ops).rpcs, ∀ raw, r.reply = some raw → isReplyFor env r.id raw := by
  exact SessionA.own_reply env ops

/-- …and it was handed a reply at most once (ids are unique: uuid4, trusted). -/
theorem at_most_once (env : Env) (ops : List Op) (h : FreshIds ops) :
    ∀ r ∈ (run env init ops).rpcs, r.deliveries ≤ 1 := by
  exact SessionA.at_most_once env ops h

/-- There is one RPC object per id, and a registered id always has its object. -/
theorem table_wellformed (env : Env) (ops : List Op) :
    ((run env init ops).rpcs.map (·.id)).Nodup ∧ (run env init ops).id2rpc.Nodup ∧
    ∀ id ∈ (run env init ops).id2rpc, ∃ r ∈ (run env init ops).rpcs, r.id = id := by
  exact SessionA.table_wellformed env ops

/-- A reply for a registered request (in particular one whose caller already timed out: a timeout
    changes no state) is delivered to that request only: the session stays up, every other
    request, the other registrations and the notification queue are untouched. -/
theorem late_reply_harmless (env : Env) (w : World) (raw : Str) (rest : List Out) (t : Tag) (id : Nat)
    (hpc : w.pc = .dispatching (.deliver raw :: rest)) (hc : env.classify raw = .root ⟨t, some id⟩)
    (ha : replyAccepts env t = true) (hL : w.hasReplyL = true) (hid : id ∈ w.id2rpc) :
    let w' := step env w .wDispatch
    w'.connected = w.connected ∧ w'.closing = w.closing ∧ w'.notifQ = w.notifQ ∧
    (∀ r ∈ w.rpcs, r.id ≠ id → r ∈ w'.rpcs) ∧ (∀ e, w'.pc ≠ .failing e) ∧
    (∀ j, j ≠ id → (j ∈ w'.id2rpc ↔ j ∈ w.id2rpc)) := by
  exact SessionA.late_reply_harmless env w raw rest t id hpc hc ha hL hid

/-- Notifications and other non-reply messages (for EVERY profile, with or without the reply
    namespace check) change no request, no registration, and do not fail the session. -/
theorem non_reply_inert (env : Env) (w : World) (raw : Str) (rest : List Out) (r : Root)
    (hpc : w.pc = .dispatching (.deliver raw :: rest)) (hc : env.classify raw = .root r)
    (ht : inertTag env w.hasHello r.tag = true) (hn : r.tag = .notification → env.notifOk raw = true) :
    let w' := step env w .wDispatch
    w'.rpcs = w.rpcs ∧ w'.id2rpc = w.id2rpc ∧ w'.connected = w.connected ∧ (∀ e, w'.pc ≠ .failing e) := by
  exact SessionA.non_reply_inert env w raw rest r hpc hc ht hn

/-! Non-vacuity: a concrete history in which two requests get their replies in reverse order. -/
def demoEnv : Env where
  classify raw := if raw = "r1".toList then .root ⟨.rpcReplyBase, some 1⟩
                  else if raw = "r2".toList then .root ⟨.rpcReplyBase, some 2⟩
                  else if raw = "n".toList then .root ⟨.notification, none⟩ else .drop
  qualify := false
  notifOk _ := true
  helloParse _ := none
  clientCaps := []
  joins := false

def demoOps : List Op :=
  [.kAddListeners, .kSendHello [0x68], .kStart, .cNew 1, .cSend [0x61], .cNew 2, .cSend [0x62],
   .wTop false, .wSelect true,
   .wRead (.data ("r2]]>]]>n]]>]]>r1]]>]]>".toList.map fun c => UInt8.ofNat c.toNat)),
   .wDispatch, .wDispatch, .wDispatch]

example : outcome (run demoEnv init demoOps) 1 = some (.reply "r1".toList) ∧
          outcome (run demoEnv init demoOps) 2 = some (.reply "r2".toList) ∧
          (run demoEnv init demoOps).notifQ = ["n".toList] ∧ (run demoEnv init demoOps).connected = true := by
  decide +kernel
example : FreshIds demoOps := by unfold FreshIds; decide

end NcVerif.C03
