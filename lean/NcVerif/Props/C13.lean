/-
  C13 — the lock context manager pairs lock and unlock.
  Property theorems only: for ALL bodies (`Prog`: requests, raise, sequencing, nested lock contexts
  to any depth), all datastore names and ALL servers (`Server`: any history-dependent answers).
-/
import NcVerif.Proofs.Lock
namespace NcVerif.C13
open NcVerif NcVerif.Lock

/-- A run only ever appends to what the server has seen. -/
theorem trace_extends (srv : Server) (m : Mode) (p : Prog) (tr : List Ev) : ∃ d, (run srv m p tr).1 = tr ++ d :=
  LockP.run_extends srv m p tr

/-- Lock granted: the server sees `lock t`, then exactly the body's own requests, then `unlock t`,
    once — whether the body returns or raises. -/
theorem bracket (srv : Server) (m : Mode) (t : Nat) (body : Prog) (tr : List Ev)
    (h : refused (srv (tr ++ [.lock t])) = false) :
    (run srv m (.locked t body) tr).1 = (run srv m body (tr ++ [.lock t])).1 ++ [.unlock t] :=
  LockP.run_locked_granted_fst srv m t body tr h

/-- …and the body's exception (or normal return) propagates, unless the unlock itself is refused. -/
theorem body_exception_propagates (srv : Server) (m : Mode) (t : Nat) (body : Prog) (tr : List Ev)
    (h : refused (srv (tr ++ [.lock t])) = false)
    (hu : refused (srv ((run srv m body (tr ++ [.lock t])).1 ++ [.unlock t])) = false) :
    (run srv m (.locked t body) tr).2 = (run srv m body (tr ++ [.lock t])).2 :=
  LockP.run_locked_granted_snd srv m t body tr h hu

/-- Lock refused: the body does not run and no unlock is sent; the caller sees the lock's error. -/
theorem lock_refused (srv : Server) (m : Mode) (t : Nat) (body : Prog) (tr : List Ev)
    (h : refused (srv (tr ++ [.lock t])) = true) :
    run srv m (.locked t body) tr = (tr ++ [.lock t], some (.rpc (.lock t))) :=
  LockP.run_locked_refused srv m t body tr h

/-- A warning-only answer to `lock` is not a refusal: the body runs under the lock. -/
theorem warning_is_not_refusal : refused .warning = false ∧ refused .ok = false ∧ refused .error = true := by
  decide

/-- The manager's own raise mode does not reach `<lock>`/`<unlock>`: under `RaiseMode.ALL` a
    warning-only answer to `<lock>` still runs the body under the lock and releases it, and under
    `RaiseMode.NONE` a refused `<lock>` still raises with the body not run. -/
theorem manager_mode_does_not_reach_lock (srv : Server) (t : Nat) (body : Prog) (tr : List Ev) :
    (srv (tr ++ [.lock t]) = .warning →
      (run srv .all (.locked t body) tr).1 = (run srv .all body (tr ++ [.lock t])).1 ++ [.unlock t]) ∧
    (srv (tr ++ [.lock t]) = .error →
      run srv .none (.locked t body) tr = (tr ++ [.lock t], some (.rpc (.lock t)))) := by
  constructor
  · intro h; exact LockP.run_locked_granted_fst srv .all t body tr (by rw [h]; rfl)
  · intro h; exact LockP.run_locked_refused srv .none t body tr (by rw [h]; rfl)

/-- Well-bracketedness of what the server sees: `Balanced srv tr d` — `d` is appended to `tr` and its
    granted locks and unlocks nest properly, each unlock naming the datastore of the matching lock;
    a refused lock stands alone. -/
inductive Balanced (srv : Server) : List Ev → List Ev → Prop
  | nil (tr) : Balanced srv tr []
  | req (tr n d) : Balanced srv (tr ++ [.req n]) d → Balanced srv tr (.req n :: d)
  | refusedLock (tr t d) : refused (srv (tr ++ [.lock t])) = true →
      Balanced srv (tr ++ [.lock t]) d → Balanced srv tr (.lock t :: d)
  | granted (tr t inner d) : refused (srv (tr ++ [.lock t])) = false →
      Balanced srv (tr ++ [.lock t]) inner →
      Balanced srv (tr ++ [.lock t] ++ inner ++ [.unlock t]) d →
      Balanced srv tr (.lock t :: inner ++ .unlock t :: d)

/-- Balanced extensions compose. -/
private theorem Balanced.append {srv : Server} {tr d₁ : List Ev} (h₁ : Balanced srv tr d₁) :
    ∀ d₂, Balanced srv (tr ++ d₁) d₂ → Balanced srv tr (d₁ ++ d₂) := by
  induction h₁ with
  | nil tr => intro d₂ h₂; simpa only [List.append_nil, List.nil_append] using h₂
  | req tr n d _ ih =>
    intro d₂ h₂
    rw [List.cons_append]
    refine Balanced.req tr n (d ++ d₂) (ih d₂ ?_)
    simpa only [List.append_assoc, List.cons_append, List.nil_append] using h₂
  | refusedLock tr t d hr _ ih =>
    intro d₂ h₂
    rw [List.cons_append]
    refine Balanced.refusedLock tr t (d ++ d₂) hr (ih d₂ ?_)
    simpa only [List.append_assoc, List.cons_append, List.nil_append] using h₂
  | granted tr t inner d hg hin _ _ ihd =>
    intro d₂ h₂
    have e : (Ev.lock t :: inner ++ Ev.unlock t :: d) ++ d₂
        = Ev.lock t :: inner ++ Ev.unlock t :: (d ++ d₂) := by
      simp only [List.append_assoc, List.cons_append]
    rw [e]
    refine Balanced.granted tr t inner (d ++ d₂) hg hin (ihd d₂ ?_)
    simpa only [List.append_assoc, List.cons_append, List.nil_append] using h₂

/-- Every program, against every server: the lock/unlock events it produces are well-bracketed. -/
theorem well_bracketed (srv : Server) (m : Mode) (p : Prog) (tr : List Ev) :
    ∃ d, (run srv m p tr).1 = tr ++ d ∧ Balanced srv tr d := by
  induction p generalizing tr with
  | skip => exact ⟨[], by simp only [run, List.append_nil], Balanced.nil tr⟩
  | req n => exact ⟨[.req n], by simp only [run], Balanced.req tr n [] (Balanced.nil _)⟩
  | raise e => exact ⟨[], by simp only [run, List.append_nil], Balanced.nil tr⟩
  | seq a b iha ihb =>
    obtain ⟨d₁, h₁, b₁⟩ := iha tr
    cases hr : run srv m a tr with
    | mk tr' x =>
      rw [hr] at h₁
      simp only at h₁
      cases x with
      | some x => exact ⟨d₁, by rw [LockP.run_seq_some srv m a b tr tr' x hr]; exact h₁, b₁⟩
      | none =>
        obtain ⟨d₂, h₂, b₂⟩ := ihb tr'
        refine ⟨d₁ ++ d₂, ?_, b₁.append d₂ (h₁ ▸ b₂)⟩
        rw [LockP.run_seq_none srv m a b tr tr' hr, h₂, h₁, List.append_assoc]
  | locked t body ih =>
    cases h : refused (srv (tr ++ [.lock t])) with
    | true =>
      exact ⟨[.lock t], by rw [LockP.run_locked_refused srv m t body tr h],
        Balanced.refusedLock tr t [] h (Balanced.nil _)⟩
    | false =>
      obtain ⟨d, hd, bd⟩ := ih (tr ++ [.lock t])
      refine ⟨.lock t :: d ++ .unlock t :: [], ?_, Balanced.granted tr t d [] h bd (Balanced.nil _)⟩
      rw [LockP.run_locked_granted_fst srv m t body tr h, hd]
      simp only [List.append_assoc, List.cons_append, List.nil_append]

/-- Exactly one unlock per granted lock, none for a refused one (counting form, any datastore). -/
theorem unlock_count (srv : Server) (m : Mode) (t : Nat) (body : Prog) (tr : List Ev) :
    let r := run srv m (.locked t body) tr
    let bodyUnlocks := ((run srv m body (tr ++ [.lock t])).1.drop (tr.length + 1)).count (.unlock t)
    (r.1.drop tr.length).count (.unlock t) =
      if refused (srv (tr ++ [.lock t])) then 0 else bodyUnlocks + 1 := by
  intro r bodyUnlocks
  cases h : refused (srv (tr ++ [.lock t])) with
  | true =>
    have hr : r = (tr ++ [.lock t], some (.rpc (.lock t))) :=
      LockP.run_locked_refused srv m t body tr h
    rw [hr]
    simp only [List.drop_left, if_true]
    simp
  | false =>
    obtain ⟨d, hd⟩ := LockP.run_extends srv m body (tr ++ [.lock t])
    have hr : r.1 = tr ++ (.lock t :: d ++ [.unlock t]) := by
      show (run srv m (.locked t body) tr).1 = _
      rw [LockP.run_locked_granted_fst srv m t body tr h, hd]
      simp only [List.append_assoc, List.cons_append, List.nil_append]
    have hb : bodyUnlocks = d.count (.unlock t) := by
      show ((run srv m body (tr ++ [.lock t])).1.drop (tr.length + 1)).count (.unlock t) = _
      rw [hd]
      have hl : tr.length + 1 = (tr ++ [Ev.lock t]).length := by
        simp only [List.length_append, List.length_cons, List.length_nil]
      rw [hl, List.drop_left]
    rw [hr, hb, List.drop_left]
    simp only [List.cons_append, List.count_append, List.count_cons, List.count_nil,
      Bool.false_eq_true, if_false]
    simp

/-! Non-vacuity: body raises inside a nested lock on another datastore; server answers everything ok. -/
def okSrv : Server := fun _ => .ok
example : run okSrv .errors (.locked 1 (.seq (.req 7) (.locked 2 (.seq (.req 8) (.raise 5))))) [] =
    ([.lock 1, .req 7, .lock 2, .req 8, .unlock 2, .unlock 1], some (.body 5)) := by decide
-- a server that refuses the second lock: no unlock for it, outer lock still released
def refuse2 : Server := fun tr => if tr.getLast? = some (.lock 2) then .error else .ok
example : run refuse2 .all (.locked 1 (.seq (.locked 2 (.req 8)) (.req 9))) [] =
    ([.lock 1, .lock 2, .unlock 1], some (.rpc (.lock 2))) := by decide

-- manager mode ALL: a warning answer to a body request raises there, the unlock still goes out; a warning answer to the lock does not
def warnAll : Server := fun _ => .warning
example : run warnAll .all (.locked 1 (.seq (.req 7) (.req 8))) [] =
    ([.lock 1, .req 7, .unlock 1], some (.rpc (.req 7))) := by decide

end NcVerif.C13
