/-
  C09 — capability-gated operations are refused locally when the capability is absent.
  (i) finite part, re-checked against the regenerated table Gen/OpTable.lean (every gated operation x
  argument shape x profile override, probed with everything advertised and with each required
  capability removed); (ii) unbounded part: the gate itself, for every server capability list.
-/
import NcVerif.Spec.Ops
import NcVerif.Model.Ops
import NcVerif.Proofs.Caps
import NcVerif.Proofs.Builders
import NcVerif.Proofs.Retrieve
namespace NcVerif.C09
open NcVerif NcVerif.Gen NcVerif.OpsSpec NcVerif.Caps NcVerif.Ops

/-- With everything advertised, what each call asserts is exactly what the documentation says it
    depends on (candidate, confirmed-commit, validate, validate:1.1 for test-only, rollback-on-error,
    url, notification, with-defaults; junos / sros commit overrides included). -/
theorem asserted_is_documented : ∀ r ∈ opRows, gatingOk r = true := by decide +kernel

/-- A capability-dependent parameter element (`confirmed`, `confirm-timeout`, `persist`, `test-option`,
    `with-defaults`) is never on the wire without its capability having been asserted — also for argument
    combinations the documentation does not foresee (e.g. `persist` without `confirmed`). -/
theorem gated_elements_asserted : ∀ r ∈ opRows, gatedParamsOk r = true := by decide +kernel

/-- The same for capability-dependent VALUES: `<test-option>test-only` and `<error-option>rollback-on-error`
    are on the wire only if `:validate:1.1` / `:rollback-on-error` was asserted — whatever spelling of the
    argument produced them. -/
theorem gated_values_asserted : ∀ r ∈ opRows, gatedValuesOk r = true := by decide +kernel

/-- With a required capability missing the call is refused (MissingCapabilityError / WithDefaultsError)
    and nothing is put on the wire. -/
theorem refused_silently : ∀ r ∈ opRows, refusalOk r = true := by decide +kernel

/-- The probing covered every documented requirement of every sent call. -/
theorem every_requirement_probed : probedAll opRows = true := by decide +kernel

/-- The gate, for EVERY capability list: refused iff some required capability is not contained. -/
theorem gate_iff (caps : Caps) (req : List Str) :
    gate caps req = none ↔ ∀ c ∈ req, contains caps c = true := by
  induction req with
  | nil => simp [gate]
  | cons c rest ih =>
    simp only [gate, List.mem_cons, forall_eq_or_imp]
    split <;> simp_all

/-- …and the refusal names the first missing capability. -/
theorem gate_names_missing (caps : Caps) (req : List Str) (c : Str)
    (h : gate caps req = some (.missingCapability c)) : c ∈ req ∧ contains caps c = false := by
  induction req with
  | nil => simp [gate] at h
  | cons d rest ih =>
    simp only [gate] at h
    split at h
    · obtain ⟨h1, h2⟩ := ih h
      exact ⟨List.mem_cons_of_mem _ h1, h2⟩
    · rename_i hc
      simp at h; subst h
      exact ⟨List.mem_cons_self, by simpa using hc⟩

/-- with-defaults: accepted iff the capability is there, carries a basic-mode, and the (stripped,
    lower-cased) mode is the basic mode or one of the comma-separated also-supported modes. -/
theorem with_defaults_iff (caps : Caps) (mode : Str) :
    withDefaultsGate caps mode = none ↔
      contains caps kWithDefaults = true ∧ ∃ cap b, getItem caps kWithDefaults = .ok cap ∧
        dictGet cap.params kBasicMode = some b ∧
        lowerAscii (pyStrip mode) ∈ b :: (match dictGet cap.params kAlsoSupported with | some a => splitOn ',' a | none => []) := by
  unfold withDefaultsGate validModes
  cases hc : contains caps kWithDefaults
  · simp
  · simp only [Bool.not_true, Bool.false_eq_true, if_false, true_and]
    cases hg : getItem caps kWithDefaults with
    | error e => simp
    | ok cap =>
      cases hb : dictGet cap.params kBasicMode with
      | none => simp [hb]
      | some b =>
        cases ha : dictGet cap.params kAlsoSupported with
        | none => simp [hb, ha]
        | some a =>
          by_cases h : lowerAscii (pyStrip mode) = b <;> simp [hb, ha, h]

/-! Non-vacuity -/
example : ∃ r ∈ opRows, isSent r = true ∧ r.op = s "commit" ∧ argIs r "confirmed" "False" = true ∧ argIs r "persist" "True" = true := by
  decide +kernel
example : ∃ r ∈ opRows, isSent r = true ∧ required r = [s ":url", s ":validate", s ":validate:1.1", s ":rollback-on-error"] := by
  decide +kernel
example : gate (mk ["urn:ietf:params:xml:ns:netconf:capability:candidate:1.0".toList]) [":candidate".toList] = none := by decide
example : gate (mk ["urn:ietf:params:netconf:base:1.0".toList]) [":candidate".toList, ":url".toList] = some (.missingCapability ":candidate".toList) := by decide
example : withDefaultsGate (mk ["urn:ietf:params:netconf:capability:with-defaults:1.0?basic-mode=explicit&also-supported=report-all,trim".toList]) " Trim ".toList = none := by decide +kernel
example : withDefaultsGate (mk ["urn:ietf:params:netconf:capability:with-defaults:1.0?basic-mode=explicit".toList]) "trim".toList = some .withDefaults := by decide +kernel

/-! ## The request builders for ALL argument values (Model/Builders, compared with the real Manager on random arguments) -/

section Builders
open NcVerif.XmlDoc NcVerif.Builders NcVerif.BuildersP

/-- A request is built only if every capability its ARGUMENTS depend on (RFC 6241 §8: `:url` for a URL
    source / target / configuration, `:validate` for any test-option and `:validate:1.1` for `test-only`,
    `:rollback-on-error`, `:candidate`, `:confirmed-commit`) is one the server has — for every datastore
    name, URL, option value and text the caller may pass, and every server capability set `has`. -/
theorem built_only_with_capabilities (has : Str → Bool) (call : Call) (t : XNode)
    (hcfg : ∀ c tg d to e, call = .edit (.xml c) tg d to e → Good c) (h : build has call = .ok t) :
    ∀ cap ∈ Builders.required call, has (Builders.s cap) = true :=
  (build_ok has call t hcfg h).2

/-- Contrapositive, as the property words it: if the server lacks a capability the call depends on, nothing
    is built (so nothing can be put on the wire) — the outcome is a local refusal. -/
theorem missing_capability_builds_nothing (has : Str → Bool) (call : Call) (cap : String)
    (hcfg : ∀ c tg d to e, call = .edit (.xml c) tg d to e → Good c)
    (hreq : cap ∈ Builders.required call) (hmiss : has (Builders.s cap) = false) : ∃ r, build has call = .error r := by
  cases hb : build has call with
  | error r => exact ⟨r, rfl⟩
  | ok t =>
    have := built_only_with_capabilities has call t hcfg hb cap hreq
    rw [hmiss] at this; cases this

example : refusal (build (fun c => c != ":url".toList) (.getConfig "ftp://h/f".toList)) = some (.missingCapability ":url".toList) := by decide +kernel
example : refusal (build (fun c => c != ":validate:1.1".toList) (.edit (.text "x".toList) "running".toList none (some "test-only".toList) none))
    = some (.missingCapability ":validate:1.1".toList) := by decide +kernel
example : (builtText (build (fun c => c != ":validate:1.1".toList) (.edit (.text "x".toList) "running".toList none (some "set".toList) none))).isSome = true := by
  decide +kernel
end Builders

/-! ## The retrieval builders (Model/Retrieve): with-defaults against the server's OWN mode list, `:url` sources, `:notification` -/

section Retrieve
open NcVerif.XmlDoc NcVerif.Builders NcVerif.BuildersP NcVerif.Retrieve NcVerif.RetrieveP

/-- get / get-config / dispatch / create-subscription / get-schema / rpc / the flowmon power operations / validate and
    copy-config with element arguments — with Model/Builders that is EVERY entry of `manager.OPERATIONS` — are built only if the
    server has every capability their arguments depend on: `:with-defaults` for any with-defaults mode, `:url` for a URL source or
    target, `:notification` for a subscription, `:validate`, the power-control URIs. -/
theorem retrieval_built_only_with_capabilities (caps : Caps) (call : Retrieve.Call) (t : XNode)
    (hf : FilterGood (filterOf call)) (he : ∀ e ∈ elemArgs call, Good e) (h : Retrieve.build caps call = .ok t) :
    ∀ cap ∈ Retrieve.required call, contains caps (Builders.s cap) = true :=
  (RetrieveP.build_ok caps call t hf he h).2.1

/-- …and a with-defaults mode is on the wire only if the server's with-defaults capability URI lists it: it carries a
    `basic-mode`, and the stripped, lower-cased mode is that basic mode or one of the comma-separated `also-supported` ones. -/
theorem with_defaults_mode_is_advertised (caps : Caps) (call : Retrieve.Call) (t : XNode) (mode : Str)
    (hf : FilterGood (filterOf call)) (he : ∀ e ∈ elemArgs call, Good e) (h : Retrieve.build caps call = .ok t) (hm : wdOf call = some mode) :
    contains caps kWithDefaults = true ∧ ∃ cap b, getItem caps kWithDefaults = .ok cap ∧
      dictGet cap.params kBasicMode = some b ∧
      lowerAscii (pyStrip mode) ∈ b :: (match dictGet cap.params kAlsoSupported with | some a => splitOn ',' a | none => []) :=
  (with_defaults_iff caps mode).mp ((RetrieveP.build_ok caps call t hf he h).2.2 mode hm)

/-- Contrapositive: a mode the server does not list (or a server without the capability) yields a local refusal, nothing built. -/
theorem unsupported_mode_builds_nothing (caps : Caps) (call : Retrieve.Call) (mode : Str)
    (hf : FilterGood (filterOf call)) (he : ∀ e ∈ elemArgs call, Good e) (hm : wdOf call = some mode) (hg : withDefaultsGate caps mode ≠ none) :
    ∃ r, Retrieve.build caps call = .error r := by
  cases hb : Retrieve.build caps call with
  | error r => exact ⟨r, rfl⟩
  | ok t => exact absurd ((RetrieveP.build_ok caps call t hf he hb).2.2 mode hm) hg

example : refusal (Retrieve.build (mk ["urn:ietf:params:netconf:capability:with-defaults:1.0?basic-mode=explicit".toList]) (.get none (some "trim".toList)))
    = some .withDefaultsError := by decide +kernel
example : refusal (Retrieve.build (mk ["urn:ietf:params:netconf:base:1.0".toList]) (.get none (some "explicit".toList)))
    = some (.missingCapability ":with-defaults".toList) := by decide +kernel
example : refusal (Retrieve.build (mk ["urn:ietf:params:netconf:base:1.0".toList]) .reboot)
    = some (.missingCapability "urn:liberouter:params:netconf:capability:power-control:1.0".toList) := by decide +kernel
example : refusal (Retrieve.build (mk ["urn:ietf:params:netconf:base:1.0".toList]) (.subscribe none none none none))
    = some (.missingCapability ":notification".toList) := by decide +kernel
example : (builtText (Retrieve.build (mk ["urn:ietf:params:netconf:capability:with-defaults:1.0?basic-mode=explicit".toList]) (.getConfig "running".toList none (some " Explicit ".toList)))).isSome = true := by
  decide +kernel
end Retrieve

end NcVerif.C09
