/-
  C18 — Junos streaming-filter mode is transparent and segmentation-independent.
  PARTIAL. Proved here, over the model of the SAX handler (Model/JunosSax.lean), for ALL filters and
  reply trees: the handler's output does not depend on how expat cuts character data; without a
  filter it writes nothing and hands over; for replies whose tag names do not repeat along a path
  (`Good`, the premise the handler's name-based bookkeeping needs) its output is exactly the
  projection of the reply onto the filter's paths.  Not modelled at all: expat's tokenising,
  `_delimiter_check` (difflib heuristics) and the SAX→DOM hand-over; independence of the READ
  segmentation is therefore explored by the correspondence run only (every cut position of scripted
  streams), which is where the known findings of this property are.
-/
import NcVerif.Proofs.JunosSax
namespace NcVerif.C18
open NcVerif NcVerif.JunosSax

mutual
  /-- No element has a proper descendant with the same tag, and no element is called rpc-reply. -/
  def goodRT (above : List Str) : RT → Bool
    | .leaf t _ _ => !(t ∈ above) && !(t ∈ rpcReplyTags)
    | .node t _ ch => !(t ∈ above) && !(t ∈ rpcReplyTags) && goodRTList (t :: above) ch
  def goodRTList (above : List Str) : List RT → Bool
    | [] => true
    | x :: xs => goodRT above x && goodRTList above xs
end

/-- The premise: the reply's top element is the filter's root element, tag names do not repeat
    along any path of the reply, and the filter root has no child called rpc-reply (otherwise the
    handler takes the `<rpc-reply>` start tag itself for an element on a filter path: see the example
    at the end of this file). -/
def Good (f : FT) (top : RT) : Prop :=
  top.tag = f.tag ∧ goodRT [] top = true ∧ f.find "rpc-reply".toList = none

/-! ### Helper lemmas (they need `goodRT`, hence live here) -/

open NcVerif.JunosSaxP

private theorem goodRT_leaf {above : List Str} {t : Str} {a : List (Str × Str)} {p : List Str}
    (h : goodRT above (.leaf t a p) = true) : t ∉ above ∧ t ∉ rpcReplyTags := by
  simpa [goodRT] using h

private theorem goodRT_node {above : List Str} {t : Str} {a : List (Str × Str)} {ch : List RT}
    (h : goodRT above (.node t a ch) = true) :
    t ∉ above ∧ t ∉ rpcReplyTags ∧ goodRTList (t :: above) ch = true := by
  simpa [goodRT, and_assoc] using h

private theorem goodRTList_cons {above : List Str} {x : RT} {xs : List RT}
    (h : goodRTList above (x :: xs) = true) : goodRT above x = true ∧ goodRTList above xs = true := by
  simpa [goodRTList] using h

/-- A tag that is not an ancestor's tag (nor rpc-reply) is not a default tag. -/
private theorem not_default {above dts : List Str} {t : Str}
    (hd : ∀ d ∈ dts, d ∈ above ∨ d ∈ rpcReplyTags) (ha : t ∉ above) (hr : t ∉ rpcReplyTags) :
    t ∉ dts := fun hm => (hd t hm).elim ha hr

private theorem stack_cons {above : List Str} {st : List FT} {t : Str}
    (hs : ∀ s ∈ st, s.tag ∈ above) : ∀ s ∈ st, s.tag ∈ t :: above :=
  fun s hm => List.mem_cons_of_mem _ (hs s hm)

private theorem dts_cons {above dts : List Str} {t : Str}
    (hd : ∀ d ∈ dts, d ∈ above ∨ d ∈ rpcReplyTags) : ∀ d ∈ dts, d ∈ t :: above ∨ d ∈ rpcReplyTags :=
  fun d hm => (hd d hm).imp (List.mem_cons_of_mem _) id

/- While ignoring (inside a dropped element `ig`), a whole subtree goes by without any effect:
   its tags differ from `ig`, from the default tags and from the open filter nodes' tags, because all
   of those are ancestors' tags. -/
mutual
  private theorem ignore_events (lk : Lookup) (r : Option FT) (w v fl : Bool) (ig : Str) :
      ∀ (y : RT) (above : List Str) (g : FT) (rest : List FT) (dts : List Str) (out : Str),
        goodRT above y = true → ig ∈ above → (∀ s ∈ g :: rest, s.tag ∈ above) →
        (∀ d ∈ dts, d ∈ above ∨ d ∈ rpcReplyTags) →
        feed lk ⟨r, g :: rest, w, some ig, dts, none, v, out, fl⟩ (events y) =
          .ok ⟨r, g :: rest, w, some ig, dts, none, v, out, fl⟩
    | .leaf t a p, above, g, rest, dts, out, hg, hi, hs, hd => by
      obtain ⟨hta, htr⟩ := goodRT_leaf hg
      have hgt : g.tag ≠ t := fun e => hta (e ▸ hs g (List.mem_cons_self ..))
      have hit : ig ≠ t := fun e => hta (e ▸ hi)
      rw [events, List.cons_append, feed_start_ok _ _ _ _ _ _ (start_ignoring lk _ t a htr rfl), feed_chars,
        characters_none, feed_stop, end_inner _ _ _ _ _ _ _ _ _ _ _ hit (not_default hd hta htr) hgt]
      rfl
    | .node t a ch, above, g, rest, dts, out, hg, hi, hs, hd => by
      obtain ⟨hta, htr, hch⟩ := goodRT_node hg
      have hgt : g.tag ≠ t := fun e => hta (e ▸ hs g (List.mem_cons_self ..))
      have hit : ig ≠ t := fun e => hta (e ▸ hi)
      rw [events, List.cons_append, feed_start_ok _ _ _ _ _ _ (start_ignoring lk _ t a htr rfl),
        feed_append_ok _ _ _ _ _
          (ignore_eventsList lk r w v fl ig ch (t :: above) g rest dts out hch
            (List.mem_cons_of_mem _ hi) (stack_cons hs) (dts_cons hd)),
        feed_stop, end_inner _ _ _ _ _ _ _ _ _ _ _ hit (not_default hd hta htr) hgt]
      rfl
  private theorem ignore_eventsList (lk : Lookup) (r : Option FT) (w v fl : Bool) (ig : Str) :
      ∀ (ys : List RT) (above : List Str) (g : FT) (rest : List FT) (dts : List Str) (out : Str),
        goodRTList above ys = true → ig ∈ above → (∀ s ∈ g :: rest, s.tag ∈ above) →
        (∀ d ∈ dts, d ∈ above ∨ d ∈ rpcReplyTags) →
        feed lk ⟨r, g :: rest, w, some ig, dts, none, v, out, fl⟩ (eventsList ys) =
          .ok ⟨r, g :: rest, w, some ig, dts, none, v, out, fl⟩
    | [], _, _, _, _, _, _, _, _, _ => rfl
    | y :: ys, above, g, rest, dts, out, hg, hi, hs, hd => by
      obtain ⟨hy, hys⟩ := goodRTList_cons hg
      rw [eventsList, feed_append_ok _ _ _ _ _
        (ignore_events lk r w v fl ig y above g rest dts out hy hi hs hd)]
      exact ignore_eventsList lk r w v fl ig ys above g rest dts out hys hi hs hd
end

/- The core invariant: a child `x` of a kept element whose filter node is `g`. If `g` has a child
   for `x.tag` the element is copied (recursively projected), the filter node being pushed at its
   start tag and popped at its end tag; otherwise it is dropped without a trace. -/
mutual
  private theorem child_events (lk : Lookup) (r : FT) (w fl : Bool) :
      ∀ (x : RT) (above : List Str) (g : FT) (rest : List FT) (dts : List Str) (ct : Option Str)
        (out : Str),
        goodRT above x = true → (∀ s ∈ g :: rest, s.tag ∈ above) →
        (∀ d ∈ dts, d ∈ above ∨ d ∈ rpcReplyTags) →
        feed lk ⟨some r, g :: rest, w, none, dts, ct, false, out, fl⟩ (events x) =
          .ok ⟨some r, g :: rest, w, none, dts, none, false,
               out ++ (match g.find x.tag with | some n => render n x | none => []), fl⟩
    | .leaf t a p, above, g, rest, dts, ct, out, hg, hs, hd => by
      obtain ⟨hta, htr⟩ := goodRT_leaf hg
      have hgt : g.tag ≠ t := fun e => hta (e ▸ hs g (List.mem_cons_self ..))
      have htd := not_default hd hta htr
      simp only [RT.tag]
      cases hf : g.find t with
      | none =>
        rw [events, List.cons_append, feed_start_ok _ _ _ _ _ _ (start_dropped lk r g rest w dts ct out fl t a htr hgt hf),
          feed_chars, characters_none, feed_stop, end_dropped _ _ _ _ _ _ _ _ _ _ htd hgt]
        simp only [List.append_nil]; rfl
      | some n =>
        rw [events, List.cons_append, feed_start_ok _ _ _ _ _ _ (start_kept lk r g n rest w dts ct out fl t a htr hgt hf),
          feed_chars, characters_some, feed_stop, end_kept _ _ _ _ _ _ _ _ _ _ htd (find_tag hf)]
        simp only [render, List.append_assoc]; rfl
    | .node t a ch, above, g, rest, dts, ct, out, hg, hs, hd => by
      obtain ⟨hta, htr, hch⟩ := goodRT_node hg
      have hgt : g.tag ≠ t := fun e => hta (e ▸ hs g (List.mem_cons_self ..))
      have htd := not_default hd hta htr
      simp only [RT.tag]
      cases hf : g.find t with
      | none =>
        rw [events, List.cons_append, feed_start_ok _ _ _ _ _ _ (start_dropped lk r g rest w dts ct out fl t a htr hgt hf),
          feed_append_ok _ _ _ _ _
            (ignore_eventsList lk (some r) w false fl t ch (t :: above) g rest dts out hch
              (List.mem_cons_self ..) (stack_cons hs) (dts_cons hd)),
          feed_stop, end_dropped _ _ _ _ _ _ _ _ _ _ htd hgt]
        simp only [List.append_nil]; rfl
      | some n =>
        have hs' : ∀ s ∈ n :: g :: rest, s.tag ∈ t :: above := by
          intro s hm
          rcases List.mem_cons.1 hm with e | hm'
          · rw [e, find_tag hf]; exact List.mem_cons_self ..
          · exact List.mem_cons_of_mem _ (hs s hm')
        obtain ⟨ct', hrec⟩ := child_eventsList lk r w fl ch (t :: above) n (g :: rest) dts (some t)
          (out ++ openTag t a) hch hs' (dts_cons hd)
        rw [events, List.cons_append, feed_start_ok _ _ _ _ _ _ (start_kept lk r g n rest w dts ct out fl t a htr hgt hf),
          feed_append_ok _ _ _ _ _ hrec, feed_stop,
          end_kept _ _ _ _ _ _ _ _ _ _ htd (find_tag hf)]
        simp only [render, List.append_assoc]; rfl
  private theorem child_eventsList (lk : Lookup) (r : FT) (w fl : Bool) :
      ∀ (xs : List RT) (above : List Str) (g : FT) (rest : List FT) (dts : List Str)
        (ct : Option Str) (out : Str),
        goodRTList above xs = true → (∀ s ∈ g :: rest, s.tag ∈ above) →
        (∀ d ∈ dts, d ∈ above ∨ d ∈ rpcReplyTags) →
        ∃ ct', feed lk ⟨some r, g :: rest, w, none, dts, ct, false, out, fl⟩ (eventsList xs) =
          .ok ⟨some r, g :: rest, w, none, dts, ct', false, out ++ renderList g xs, fl⟩
    | [], _, _, _, _, ct, _, _, _, _ => ⟨ct, by simp only [eventsList, renderList, List.append_nil, feed]⟩
    | x :: xs, above, g, rest, dts, ct, out, hg, hs, hd => by
      obtain ⟨hx, hxs⟩ := goodRTList_cons hg
      obtain ⟨ct', hrec⟩ := child_eventsList lk r w fl xs above g rest dts none
        (out ++ (match g.find x.tag with | some n => render n x | none => [])) hxs hs hd
      refine ⟨ct', ?_⟩
      rw [eventsList, feed_append_ok _ _ _ _ _
        (child_events lk r w fl x above g rest dts ct out hx hs hd), hrec, renderList,
        List.append_assoc]
      rfl
end

private theorem rr_mem : "rpc-reply".toList ∈ rpcReplyTags := by decide

/-- The projection theorem with the premises spelt out. -/
private theorem sax_project_of (f : FT) (attrs : List (Str × Str)) (top : RT)
    (htag : top.tag = f.tag) (hgood : goodRT [] top = true)
    (hrr : f.find "rpc-reply".toList = none) :
    ∃ h', feed (.filter f) {} (replyEvents attrs top) = .ok h' ∧ h'.out = expectedOut f attrs top ∧
      h'.failed = false ∧ h'.ignoretag = none := by
  cases top with
  | leaf t a p =>
    obtain ⟨-, htr⟩ := goodRT_leaf hgood
    simp only [RT.tag] at htag
    subst htag
    have hne : f.tag ≠ "rpc-reply".toList := fun e => htr (e ▸ rr_mem)
    have hfeed : feed (.filter f) {} (replyEvents attrs (.leaf f.tag a p)) =
        .ok ⟨some f, [f], false, none, ["rpc-reply".toList] ++ [f.tag], none, false,
          openTag "rpc-reply".toList attrs ++ openTag f.tag a ++ escape p.flatten ++ closeTag f.tag ++
            closeTag "rpc-reply".toList, false⟩ := by
      have hev : replyEvents attrs (.leaf f.tag a p) = .start "rpc-reply".toList attrs ::
          .start f.tag a :: (p.map .chars ++ [.stop f.tag, .stop "rpc-reply".toList]) := by
        simp only [replyEvents, events, List.cons_append, List.append_assoc, List.nil_append]
      rw [hev, feed_start_ok _ _ _ _ _ _ (start_rpcreply f _ attrs rr_mem hne hrr),
        feed_start_ok _ _ _ _ _ _ (start_top _ f _ _ _ _ a htr), feed_chars, characters_some,
        feed_stop,
        end_default _ _ _ _ _ _ _ _ _ (by simp), feed_stop, end_default _ _ _ _ _ _ _ _ _ (by simp)]
      rfl
    exact ⟨_, hfeed, by simp only [expectedOut, render, List.append_assoc], rfl, rfl⟩
  | node t a ch =>
    obtain ⟨-, htr, hch⟩ := goodRT_node hgood
    simp only [RT.tag] at htag
    subst htag
    have hne : f.tag ≠ "rpc-reply".toList := fun e => htr (e ▸ rr_mem)
    obtain ⟨ct', hrec⟩ := child_eventsList (.filter f) f false false ch [f.tag] f []
      (["rpc-reply".toList] ++ [f.tag]) (some f.tag)
      (openTag "rpc-reply".toList attrs ++ openTag f.tag a) hch
      (by intro s hm; rw [List.mem_singleton.1 hm]; exact List.mem_cons_self ..)
      (by
        intro d hm
        rcases List.mem_append.1 hm with h1 | h1
        · rw [List.mem_singleton.1 h1]; exact Or.inr rr_mem
        · rw [List.mem_singleton.1 h1]; exact Or.inl (List.mem_cons_self ..))
    have hfeed : feed (.filter f) {} (replyEvents attrs (.node f.tag a ch)) =
        .ok ⟨some f, [f], false, none, ["rpc-reply".toList] ++ [f.tag], none, false,
          openTag "rpc-reply".toList attrs ++ openTag f.tag a ++ renderList f ch ++ closeTag f.tag ++
            closeTag "rpc-reply".toList, false⟩ := by
      have hev : replyEvents attrs (.node f.tag a ch) = .start "rpc-reply".toList attrs ::
          .start f.tag a :: (eventsList ch ++ [.stop f.tag, .stop "rpc-reply".toList]) := by
        simp only [replyEvents, events, List.cons_append, List.append_assoc, List.nil_append]
      rw [hev, feed_start_ok _ _ _ _ _ _ (start_rpcreply f _ attrs rr_mem hne hrr),
        feed_start_ok _ _ _ _ _ _ (start_top _ f _ _ _ _ a htr),
        feed_append_ok _ _ _ _ _ hrec, feed_stop,
        end_default _ _ _ _ _ _ _ _ _ (by simp), feed_stop, end_default _ _ _ _ _ _ _ _ _ (by simp)]
      rfl
    exact ⟨_, hfeed, by simp only [expectedOut, render, List.append_assoc], rfl, rfl⟩

/-! ### The properties -/

/-- How expat happens to cut character data into `characters` events does not matter. -/
theorem chars_split (h : H) (a b : Str) :
    characters (characters h a) b = characters h (a ++ b) := by
  exact characters_append h a b

theorem chars_pieces (h : H) (pieces : List Str) :
    (pieces.foldl characters h) = characters h pieces.flatten := by
  exact foldl_characters pieces h

/-- Without a filter the handler writes nothing for this reply and asks for the hand-over to the DOM
    parser at the `<rpc-reply>` start tag, whatever follows. -/
theorem nofilter_fallback (h : H) (attrs : List (Str × Str)) (rest : List Ev) :
    feed .noFilter h (.start "rpc-reply".toList attrs :: rest) = .noFilter := by
  simp only [feed, startElement, rr_mem, ↓reduceIte]

theorem unknown_id_rejected (h : H) (attrs : List (Str × Str)) (rest : List Ev) :
    feed .unknown h (.start "rpc-reply".toList attrs :: rest) = .unknownId := by
  simp only [feed, startElement, rr_mem, ↓reduceIte]

/-- With a filter, for every Good reply: what the handler writes is a well-nested document containing
    exactly the elements of the reply that lie on the filter's paths (with their attributes and leaf
    text, escaped), in document order. -/
theorem sax_project (f : FT) (attrs : List (Str × Str)) (top : RT) (hg : Good f top) :
    ∃ h', feed (.filter f) {} (replyEvents attrs top) = .ok h' ∧ h'.out = expectedOut f attrs top ∧
      h'.failed = false ∧ h'.ignoretag = none := by
  exact sax_project_of f attrs top hg.1 hg.2.1 hg.2.2

/-- The output is independent of how leaf text was delivered (corollary, at the level of whole replies). -/
theorem sax_project_text_pieces (f : FT) (attrs a : List (Str × Str)) (t : Str) (p q : List Str)
    (hp : p.flatten = q.flatten) (hg : Good f (.leaf t a p)) :
    ∃ h1 h2, feed (.filter f) {} (replyEvents attrs (.leaf t a p)) = .ok h1 ∧
             feed (.filter f) {} (replyEvents attrs (.leaf t a q)) = .ok h2 ∧ h1.out = h2.out := by
  -- the two event streams drive the handler into the very same state (the premise is not needed)
  have _ := hg
  have key : ∀ r : List Str, replyEvents attrs (.leaf t a r) =
      [.start "rpc-reply".toList attrs, .start t a] ++
        (r.map .chars ++ [.stop t, .stop "rpc-reply".toList]) := by
    intro r
    simp only [replyEvents, events, List.cons_append, List.append_assoc, List.nil_append]
  obtain ⟨h1, e1⟩ := feed_filter_ok f (replyEvents attrs (.leaf t a p)) {}
  refine ⟨h1, h1, e1, ?_, rfl⟩
  rw [← e1, key, key]
  exact feed_pieces_irrel _ _ _ _ _ _ hp.symm

/-! Non-vacuity -/
def s (x : String) : Str := x.toList
def flt : FT := .node (s "a") [.node (s "b") [.node (s "c") []]]
def rep : RT := .node (s "a") [] [.node (s "b") [] [.leaf (s "c") [] [s "1"], .leaf (s "d") [] [s "2"]], .leaf (s "e") [] [s "x & y"]]
example : Good flt rep := by unfold Good; decide
example : (match feed (.filter flt) {} (replyEvents [(s "message-id", s "m1")] rep) with | .ok h => h.out | _ => []) =
    s "<rpc-reply message-id=\"m1\"><a><b><c>1</c>\n</b>\n</a>\n</rpc-reply>\n" := by decide +kernel
-- the premise matters: an ignored element containing an element named like its parent corrupts the output
def bad : RT := .node (s "a") [] [.node (s "x") [] [.leaf (s "a") [] [s "1"]], .leaf (s "b") [] [s "2"]]
example : (match feed (.filter (.node (s "a") [.node (s "b") []])) {} (replyEvents [] bad) with | .ok h => h.out | _ => []) ≠
    expectedOut (.node (s "a") [.node (s "b") []]) [] bad := by decide +kernel

-- the third conjunct of `Good` matters: if the filter root has a child called rpc-reply, the handler
-- takes the `<rpc-reply>` start tag for that child (`validate` is never set) and drops the top element
def rrFlt : FT := .node (s "a") [.node (s "rpc-reply") []]
def rrTop : RT := .leaf (s "a") [] []
example : rrTop.tag = rrFlt.tag ∧ goodRT [] rrTop = true := by decide
example : (match feed (.filter rrFlt) {} (replyEvents [] rrTop) with | .ok h => h.out | _ => []) =
    s "<rpc-reply></rpc-reply>\n" := by decide +kernel
example : (match feed (.filter rrFlt) {} (replyEvents [] rrTop) with | .ok h => h.out | _ => []) ≠
    expectedOut rrFlt [] rrTop := by decide +kernel

end NcVerif.C18
