/-
  C11 — notifications are queued exactly once, in order, without disturbing RPCs.
  Property theorems only, over all histories and environments of Model/Session.
-/
import NcVerif.Proofs.SessionA
import NcVerif.Props.C03
namespace NcVerif.C11
open NcVerif NcVerif.Session NcVerif.SessionSpec NcVerif.Framing

/-- Exactly once, in arrival order, text intact: what has been taken plus what is still queued is
    the sub-sequence of well-formed notifications among the messages received, in order. -/
theorem notifQ_spec (env : Env) (ops : List Op) :
    (run env init ops).taken ++ (run env init ops).notifQ =
      (run env init ops).received.filter (goodNotif env) := by
  exact SessionA.notifQ_spec env ops

/-- A notification is never taken for a reply, never fails a pending request and never terminates
    the session — for every device profile (`env.qualify` either way). -/
theorem notif_inert (env : Env) (w : World) (raw : Str) (rest : List Out) (m : Option Nat)
    (hpc : w.pc = .dispatching (.deliver raw :: rest))
    (hc : env.classify raw = .root ⟨.notification, m⟩) (hn : env.notifOk raw = true) :
    let w' := step env w .wDispatch
    w'.rpcs = w.rpcs ∧ w'.id2rpc = w.id2rpc ∧ w'.connected = w.connected ∧ w'.closing = w.closing ∧
    (∀ e, w'.pc ≠ .failing e) ∧ (w.hasNotif = true → w'.notifQ = w.notifQ ++ [raw]) := by
  exact SessionA.notif_inert env w raw rest m hpc hc hn

/-- Replies and other messages never enter the notification queue. -/
theorem only_notifications_queued (env : Env) (ops : List Op) :
    ∀ n ∈ (run env init ops).notifQ ++ (run env init ops).taken, goodNotif env n = true := by
  exact SessionA.only_notifications_queued env ops

/-- With nothing queued a non-blocking take returns nothing and changes nothing. -/
theorem take_empty (env : Env) (w : World) (h : w.notifQ = []) : step env w .cTake = w := by
  exact SessionA.take_empty env w h

/-- A take returns the oldest queued notification. -/
theorem take_oldest (env : Env) (w : World) (n : Str) (rest : List Str) (h : w.notifQ = n :: rest) :
    (step env w .cTake).notifQ = rest ∧ (step env w .cTake).taken = w.taken ++ [n] := by
  exact SessionA.take_oldest env w n rest h

/-- The NotificationHandler is registered before the worker can dispatch anything. -/
theorem handler_before_worker (env : Env) (ops : List Op) :
    (run env init ops).pc ≠ .notStarted → (run env init ops).hasNotif = true := by
  exact SessionA.handler_before_worker env ops

example : (run C03.demoEnv init C03.demoOps).notifQ = ["n".toList] := by decide +kernel

end NcVerif.C11
