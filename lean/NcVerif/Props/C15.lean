/-
  C15 — peer authentication precedes credentials and NETCONF traffic.
  Ordering and decision logic of the connect sequences, for every configuration (`Cfg`: any number of
  credentials and subsystem candidates).  PARTIAL: the cryptographic verdicts themselves (key
  equality, signature / certificate-chain validation) are paramiko's / OpenSSL's and enter as the
  environment's answers; the correspondence run drives the real connect code over the whole finite
  configuration table against a recording transport, and real TLS handshakes with a wrong CA.
-/
import NcVerif.Model.Connect
namespace NcVerif.C15
open NcVerif NcVerif.Connect

def isAuth : Ev → Bool | .auth _ _ => true | _ => false
def isNetconf : Ev → Bool | .hello => true | .subsystem _ _ => true | .openSession => true | _ => false

/-- The server key is acceptable: pinned key matches, or (no pinned key) known_hosts has it under the
    host or the [host]:port entry, or the unknown-host callback accepts it. -/
def Accepted (c : Cfg) : Prop :=
  c.pinned = .matching ∨ (c.pinned = .absent ∧ (c.known = .underHost ∨ c.known = .underHostPort)) ∨ c.cbAccepts = true

theorem authTrace_only_auth (i : Nat) (l : List Bool) : ∀ e ∈ (authTrace i l).1, isAuth e = true := by
  induction l generalizing i with
  | nil => simp [authTrace]
  | cons ok rest ih =>
    simp only [authTrace]
    split
    · simp [isAuth]
    · intro e he
      simp only [List.mem_cons] at he
      rcases he with rfl | he
      · rfl
      · exact ih _ e he

theorem subsystemTrace_no_auth (i : Nat) (l : List Bool) : ∀ e ∈ (subsystemTrace i l).1, isAuth e = false := by
  induction l generalizing i with
  | nil => simp [subsystemTrace]
  | cons ok rest ih =>
    simp only [subsystemTrace]
    split
    · intro e he; simp at he; rcases he with rfl | rfl | rfl <;> rfl
    · intro e he
      simp only [List.mem_cons] at he
      rcases he with rfl | rfl | he
      · rfl
      · rfl
      · exact ih _ e he

/-! ### Helper lemmas -/

private theorem sshTrace_spec (c : Cfg) :
    (c.negotiates = false ∧ sshTrace c = ([.startClient], .negotiationFailed)) ∨
    (c.negotiates = true ∧ c.verify = true ∧ isKnown c = false ∧ c.cbAccepts = false ∧
      sshTrace c = ([.startClient, .keyCheck false, .callback false], .unknownHost)) ∨
    (c.negotiates = true ∧ ∃ chk : List Ev,
      ((c.verify = false ∧ chk = []) ∨ (c.verify = true ∧ isKnown c = true ∧ chk = [.keyCheck true]) ∨
        (c.verify = true ∧ isKnown c = false ∧ c.cbAccepts = true ∧ chk = [.keyCheck false, .callback true])) ∧
      (((authTrace 0 c.auths).2 = false ∧
          sshTrace c = ([.startClient] ++ chk ++ (authTrace 0 c.auths).1, .authenticationError)) ∨
       ((authTrace 0 c.auths).2 = true ∧
          sshTrace c = ([.startClient] ++ chk ++ (authTrace 0 c.auths).1 ++ (subsystemTrace 0 c.subsystems).1,
            if (subsystemTrace 0 c.subsystems).2 then .connected else .noSubsystem)))) := by
  unfold sshTrace
  rcases ha : authTrace 0 c.auths with ⟨au, ok⟩
  rcases hs : subsystemTrace 0 c.subsystems with ⟨su, ok2⟩
  cases hn : c.negotiates <;> cases hv : c.verify <;> cases hk : isKnown c <;> cases hc : c.cbAccepts <;>
    cases ok <;> simp

private theorem accepted_iff (c : Cfg) : Accepted c ↔ (isKnown c || c.cbAccepts) = true := by
  unfold Accepted isKnown
  cases hp : c.pinned <;> cases hk : c.known <;> cases hc : c.cbAccepts <;> simp

private theorem authTrace_all_false (i : Nat) (l : List Bool) (h : ∀ ok ∈ l, ok = false) :
    (authTrace i l).2 = false := by
  induction l generalizing i with
  | nil => simp [authTrace]
  | cons ok rest ih =>
    have h0 : ok = false := h ok (by simp)
    subst h0
    simp only [authTrace]
    exact ih (i + 1) (fun o ho => h o (by simp [ho]))

private theorem authTrace_true_mem (i : Nat) (l : List Bool) (h : (authTrace i l).2 = true) :
    ∃ j, Ev.auth j true ∈ (authTrace i l).1 := by
  induction l generalizing i with
  | nil => simp [authTrace] at h
  | cons ok rest ih =>
    cases ok
    · simp only [authTrace] at h ⊢
      obtain ⟨j, hj⟩ := ih (i + 1) h
      exact ⟨j, by simp [hj]⟩
    · exact ⟨i, by simp [authTrace]⟩

private theorem authTrace_no_netconf (i : Nat) (l : List Bool) :
    ∀ e ∈ (authTrace i l).1, isNetconf e = false := by
  intro e he
  have := authTrace_only_auth i l e he
  cases e <;> simp_all [isAuth, isNetconf]

private theorem subsystemTrace_no_keyCheck (i : Nat) (l : List Bool) (k : Bool) :
    Ev.keyCheck k ∉ (subsystemTrace i l).1 := by
  induction l generalizing i with
  | nil => simp [subsystemTrace]
  | cons ok rest ih =>
    cases ok
    · simp only [subsystemTrace]
      simp [ih (i + 1)]
    · simp [subsystemTrace]

private theorem subsystemTrace_hello (i : Nat) (l : List Bool) (h : Ev.hello ∈ (subsystemTrace i l).1) :
    (subsystemTrace i l).2 = true := by
  induction l generalizing i with
  | nil => simp [subsystemTrace] at h
  | cons ok rest ih =>
    cases ok
    · simp only [subsystemTrace] at h ⊢
      simp at h
      exact ih (i + 1) h
    · simp [subsystemTrace]

private theorem prefix_of_not_mem {α : Type} (l₁ l₂ pre : List α) (x : α) (post : List α)
    (h : l₁ ++ l₂ = pre ++ x :: post) (hx : x ∉ l₁) : ∃ r, pre = l₁ ++ r := by
  induction l₁ generalizing pre with
  | nil => exact ⟨pre, rfl⟩
  | cons a t ih =>
    cases pre with
    | nil =>
      simp at h
      exact absurd h.1.symm (by intro e; exact hx (by simp [e]))
    | cons b pre' =>
      simp at h
      obtain ⟨r, hr⟩ := ih pre' h.2 (fun hm => hx (by simp [hm]))
      exact ⟨r, by simp [h.1, hr]⟩

/-- With host-key verification on, a credential is offered only if the server key was accepted. -/
theorem verify_before_auth (c : Cfg) (hv : c.verify = true)
    (h : ∃ e ∈ (sshTrace c).1, isAuth e = true) : Accepted c := by
  rw [accepted_iff]
  obtain ⟨e, he, hauth⟩ := h
  rcases sshTrace_spec c with ⟨_, hs⟩ | ⟨_, _, _, _, hs⟩ | ⟨_, chk, hchk, _⟩
  · rw [hs] at he; simp at he; subst he; simp [isAuth] at hauth
  · rw [hs] at he; simp at he; rcases he with rfl | rfl | rfl <;> simp [isAuth] at hauth
  · rcases hchk with ⟨hv', _⟩ | ⟨_, hk, _⟩ | ⟨_, _, hc, _⟩
    · simp [hv] at hv'
    · simp [hk]
    · simp [hc]

/-- Otherwise connect raises the unknown-host error and offers no credential, opens no channel,
    exchanges no NETCONF message. -/
theorem unknown_raises (c : Cfg) (hv : c.verify = true) (hn : c.negotiates = true) (h : ¬ Accepted c) :
    (sshTrace c).2 = .unknownHost ∧ ∀ e ∈ (sshTrace c).1, isAuth e = false ∧ isNetconf e = false := by
  rw [accepted_iff] at h
  rcases sshTrace_spec c with ⟨hn', _⟩ | ⟨_, _, _, _, hs⟩ | ⟨_, chk, hchk, _⟩
  · simp [hn] at hn'
  · rw [hs]
    refine ⟨rfl, ?_⟩
    intro e he
    simp at he
    rcases he with rfl | rfl | rfl <;> simp [isAuth, isNetconf]
  · rcases hchk with ⟨hv', _⟩ | ⟨_, hk, _⟩ | ⟨_, _, hc, _⟩
    · simp [hv] at hv'
    · simp [hk] at h
    · simp [hc] at h

/-- Every credential is offered after the key check (position in the trace). -/
theorem check_precedes_auth (c : Cfg) (hv : c.verify = true) (pre post : List Ev) (i : Nat) (ok : Bool)
    (h : (sshTrace c).1 = pre ++ .auth i ok :: post) : ∃ k, Ev.keyCheck k ∈ pre := by
  have key : ∀ (chk l₂ : List Ev),
      (chk = [.keyCheck true] ∨ chk = [.keyCheck false, .callback true]) →
      [Ev.startClient] ++ chk ++ l₂ = pre ++ .auth i ok :: post → ∃ k, Ev.keyCheck k ∈ pre := by
    intro chk l₂ hchk heq
    have hx : Ev.auth i ok ∉ [Ev.startClient] ++ chk := by
      rcases hchk with rfl | rfl <;> simp
    obtain ⟨r, hr⟩ := prefix_of_not_mem _ _ _ _ _ heq hx
    rcases hchk with rfl | rfl
    · exact ⟨true, by simp [hr]⟩
    · exact ⟨false, by simp [hr]⟩
  rcases sshTrace_spec c with ⟨_, hs⟩ | ⟨_, _, _, _, hs⟩ | ⟨_, chk, hchk, hrest⟩
  · rw [hs] at h
    have h' : [Ev.startClient] = pre ++ .auth i ok :: post := h
    have : Ev.auth i ok ∈ [Ev.startClient] := by rw [h']; simp
    simp at this
  · rw [hs] at h
    have h' : [Ev.startClient, .keyCheck false, .callback false] = pre ++ .auth i ok :: post := h
    have : Ev.auth i ok ∈ [Ev.startClient, .keyCheck false, .callback false] := by rw [h']; simp
    simp at this
  · have hchk' : chk = [.keyCheck true] ∨ chk = [.keyCheck false, .callback true] := by
      rcases hchk with ⟨hv', _⟩ | ⟨_, _, hc⟩ | ⟨_, _, _, hc⟩
      · simp [hv] at hv'
      · exact Or.inl hc
      · exact Or.inr hc
    rcases hrest with ⟨_, hs⟩ | ⟨_, hs⟩
    · rw [hs] at h
      exact key chk _ hchk' h
    · rw [hs] at h
      simp only [List.append_assoc] at h
      exact key chk ((authTrace 0 c.auths).1 ++ (subsystemTrace 0 c.subsystems).1) hchk'
        (by simpa only [List.append_assoc] using h)

/-- Failed client authentication raises the authentication error; no NETCONF message is exchanged. -/
theorem authfail_no_netconf (c : Cfg) (h : ∀ ok ∈ c.auths, ok = false) (hr : (sshTrace c).2 ≠ .negotiationFailed)
    (hu : (sshTrace c).2 ≠ .unknownHost) :
    (sshTrace c).2 = .authenticationError ∧ ∀ e ∈ (sshTrace c).1, isNetconf e = false := by
  have hf := authTrace_all_false 0 c.auths h
  rcases sshTrace_spec c with ⟨_, hs⟩ | ⟨_, _, _, _, hs⟩ | ⟨_, chk, hchk, hrest⟩
  · rw [hs] at hr; exact absurd rfl hr
  · rw [hs] at hu; exact absurd rfl hu
  · rcases hrest with ⟨_, hs⟩ | ⟨ht, _⟩
    · rw [hs]
      refine ⟨rfl, ?_⟩
      intro e he
      simp only [List.mem_append] at he
      rcases he with (he | he) | he
      · simp at he; subst he; rfl
      · rcases hchk with ⟨_, rfl⟩ | ⟨_, _, rfl⟩ | ⟨_, _, _, rfl⟩
        · simp at he
        · simp at he; subst he; rfl
        · simp at he; rcases he with rfl | rfl <;> rfl
      · exact authTrace_no_netconf _ _ e he
    · rw [hf] at ht; cases ht

/-- NETCONF traffic only after a successful authentication. -/
theorem hello_after_auth (c : Cfg) (h : Ev.hello ∈ (sshTrace c).1) :
    (sshTrace c).2 = .connected ∧ ∃ i, Ev.auth i true ∈ (sshTrace c).1 := by
  rcases sshTrace_spec c with ⟨_, hs⟩ | ⟨_, _, _, _, hs⟩ | ⟨_, chk, hchk, hrest⟩
  · rw [hs] at h; simp at h
  · rw [hs] at h; simp at h
  · have hnc : Ev.hello ∉ [Ev.startClient] ++ chk := by
      rcases hchk with ⟨_, rfl⟩ | ⟨_, _, rfl⟩ | ⟨_, _, _, rfl⟩ <;> simp
    have hna : Ev.hello ∉ (authTrace 0 c.auths).1 := by
      intro hm
      have := authTrace_no_netconf _ _ _ hm
      simp [isNetconf] at this
    rcases hrest with ⟨_, hs⟩ | ⟨ht, hs⟩
    · rw [hs] at h
      simp only [List.mem_append] at h
      rcases h with h | h
      · exact absurd (by simpa only [List.mem_append] using h) hnc
      · exact absurd h hna
    · rw [hs] at h ⊢
      simp only [List.mem_append] at h
      rcases h with (h | h) | h
      · exact absurd (by simpa only [List.mem_append] using h) hnc
      · exact absurd h hna
      · have h2 := subsystemTrace_hello _ _ h
        obtain ⟨j, hj⟩ := authTrace_true_mem _ _ ht
        refine ⟨by simp [h2], j, ?_⟩
        simp only [List.mem_append]
        exact Or.inl (Or.inr hj)

/-- A pinned key makes known_hosts irrelevant: only the pinned key (or the callback) can accept. -/
theorem pinned_overrides_known_hosts (c : Cfg) (k : Known) :
    c.pinned ≠ .absent → isKnown { c with known := k } = isKnown c := by
  intro hp
  unfold isKnown
  cases hpin : c.pinned <;> simp_all

/-- TLS: the certificate is REQUIRED and verified in the handshake before any NETCONF message; a
    failed handshake raises TLSError with nothing written. -/
theorem tls_handshake_before_hello (c : TlsCfg) (h : TlsEv.hello ∈ (tlsTrace c).1) :
    c.handshakeOk = true ∧ (tlsTrace c).1 = [.context true, .tcp, .handshake true, .hello] ∧ (tlsTrace c).2 = .connected := by
  unfold tlsTrace at h ⊢
  cases h1 : c.hasHost <;> cases h2 : c.hasCert <;> cases h3 : c.hasProtocol <;>
    cases h4 : c.tcpConnects <;> cases h5 : c.handshakeOk <;> simp_all

theorem tls_failure_is_error (c : TlsCfg) (h : c.handshakeOk = false) :
    (tlsTrace c).2 = .tlsError ∧ TlsEv.hello ∉ (tlsTrace c).1 := by
  unfold tlsTrace
  cases h1 : c.hasHost <;> cases h2 : c.hasCert <;> cases h3 : c.hasProtocol <;>
    cases h4 : c.tcpConnects <;> simp_all

/-! Non-vacuity -/
def demo : Cfg := { verify := true, known := .differentKey, pinned := .absent, cbAccepts := false, negotiates := true,
                    auths := [false, true], subsystems := [true] }
example : sshTrace demo = ([.startClient, .keyCheck false, .callback false], .unknownHost) := by decide
example : sshTrace { demo with known := .underHostPort } =
    ([.startClient, .keyCheck true, .auth 0 false, .auth 1 true, .openSession, .subsystem 0 true, .hello], .connected) := by decide
example : ¬ Accepted demo := by unfold Accepted demo; decide

end NcVerif.C15
