/-
  C02 — outbound framing matches the negotiated version under partial writes.
  Property theorems only, over all histories and environments of Model/Session (every interleaving
  of submitting threads with the worker's micro-steps, every short-write pattern).
-/
import NcVerif.Proofs.SessionB
namespace NcVerif.C02
open NcVerif NcVerif.Session NcVerif.SessionSpec NcVerif.Framing NcVerif.FramingSpec

/-- Single consumer, FIFO: what was taken off the queue followed by what is still on it is exactly
    what was submitted, in submission (`Queue.put`) order — nothing dropped, duplicated, reordered. -/
theorem fifo (env : Env) (ops : List Op) :
    (run env init ops).dequeued.map Prod.fst ++ (run env init ops).q = (run env init ops).puts := by
  exact (SessionB.invQ_run env ops).fifo

/-- Each dequeued message becomes one frame, in the framing selected by `_base` at that moment
    (the marked client `<hello>` always in end-of-message framing). -/
theorem frames_spec (env : Env) (ops : List Op) :
    (run env init ops).frames =
      (run env init ops).dequeued.map fun p => frame (p.2 && !p.1.isHello) p.1.data := by
  exact (SessionB.invQ_run env ops).frames

/-- The wire is always a prefix of the concatenation of the frames: frames are contiguous, never
    interleaved, never truncated in the middle and continued with another. -/
theorem wire_prefix (env : Env) (ops : List Op) :
    (run env init ops).wire <+: (run env init ops).frames.flatten := by
  exact SessionB.wireRel_prefix (SessionB.invQ_run env ops).wire

/-- While a frame is being written, wire ++ (what is left of it) is the concatenation of the frames. -/
theorem wire_writing (env : Env) (ops : List Op) (data : Bytes) :
    (run env init ops).pc = .writing data →
      (run env init ops).wire ++ data = (run env init ops).frames.flatten := by
  exact SessionB.wire_writing env ops data

/-- Between frames (worker at any other live point of its loop) the wire is exactly the frames. -/
theorem wire_complete (env : Env) (ops : List Op) :
    ((run env init ops).pc = .top ∨ (run env init ops).pc = .select ∨ (run env init ops).pc = .read ∨
     (∃ t, (run env init ops).pc = .dispatching t) ∨ (run env init ops).pc = .exiting) →
      (run env init ops).wire = (run env init ops).frames.flatten := by
  exact SessionB.wire_complete env ops

/-- Whatever short-write pattern the transport exhibits (each write accepts ≥ 1 byte), once the
    writes add up to the frame the whole frame, and nothing else, is on the wire. -/
theorem short_writes_total (env : Env) (w : World) (data : Bytes) (ns : List Int)
    (hpc : w.pc = .writing data) (hne : data ≠ []) (hpos : ∀ n ∈ ns, 1 ≤ n)
    (hsum : data.length ≤ (ns.map Int.toNat).sum) :
    (run env w (ns.map .wWrite)).wire = w.wire ++ data ∧ (run env w (ns.map .wWrite)).pc = .select := by
  exact SessionB.short_writes_total env w data ns hpc hne hpos hsum

/-- A transport that accepts no more bytes is an error (SessionCloseError), not a silent drop. -/
theorem write_failure_is_error (env : Env) (w : World) (data : Bytes) (n : Int)
    (hpc : w.pc = .writing data) (hn : n ≤ 0) :
    (step env w (.wWrite n)).pc = .failing .sessionClose ∧ (step env w (.wWrite n)).wire = w.wire := by
  exact SessionB.write_failure_is_error env w data n hpc hn

/-- RFC 6242: the chunk header carries the octet count of the UTF-8 payload. -/
theorem frame11_header (data : Bytes) :
    frame true data = [0x0a, 0x23] ++ natDigits data.length ++ [0x0a] ++ data ++ endDelim11 := by
  exact SessionB.frame11_header data

/-- Decoding the client's 1.1 byte stream per RFC 6242 (with the verified inbound decoder, under
    any segmentation) yields exactly the submitted messages, in order. -/
theorem frames_roundtrip11 (ds : List Bytes) (segs : List Bytes) (h : ∀ d ∈ ds, d ≠ [])
    (hs : segs.flatten = (ds.map (frame true)).flatten) :
    obs (feedAll true init segs) = outcomes present11 ds := by
  exact SessionB.frames_roundtrip11 ds segs h hs

/-- …and per RFC 4742 for 1.0 (messages that do not contain the delimiter). -/
theorem frames_roundtrip10 (ds : List Bytes) (segs : List Bytes) (h : ∀ d ∈ ds, Frameable10 d)
    (hs : segs.flatten = (ds.map (frame false)).flatten) :
    obs (feedAll false init segs) = outcomes present10 ds := by
  exact SessionB.frames_roundtrip10 ds segs h hs

/-! Non-vacuity -/
-- "é" (2 octets, 1 character) is framed with size 2
example : frame true [0xc3, 0xa9] = [0x0a, 0x23, 0x32, 0x0a, 0xc3, 0xa9, 0x0a, 0x23, 0x23, 0x0a] := by decide +kernel
example : (run C03demo.env init [.kAddListeners, .kSendHello [0x68], .kStart, .wTop true, .wWrite 2, .wWrite 1, .wWrite 10]).wire
    = [0x68, 0x5d, 0x5d, 0x3e, 0x5d, 0x5d, 0x3e] := by decide +kernel

end NcVerif.C02
