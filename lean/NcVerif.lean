-- Root of the `NcVerif` library: every model, proof and property module.
import NcVerif.Model.Basic
import NcVerif.Model.Caps
import NcVerif.Driver.CapsD
