-- Root of the `NcVerif` library: every model, proof and property module.
import NcVerif.Model.Basic
import NcVerif.Model.Caps
import NcVerif.Driver.CapsD
import NcVerif.Model.Utf8
import NcVerif.Model.Framing
import NcVerif.Driver.FramingD
import NcVerif.Model.Session
import NcVerif.Driver.SessionD
import NcVerif.Props.C08
