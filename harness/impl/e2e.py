"""End-to-end scenarios: the real ncclient Manager over a real Unix-socket / TLS transport against
the scripted server, with real client threads.  Deterministic inputs come from the scenario
(derived from VERIF_SEED); thread scheduling is the one non-deterministic component, so oracles on
these runs only state what must hold under EVERY schedule."""
import logging
import os
import random
import re
import threading
import time

logging.disable(logging.CRITICAL)

from impl import fakeserver as FS
from ncclient import manager
from ncclient.xml_ import new_ele, sub_ele
from ncclient.transport.errors import TransportError
from ncclient.operations.errors import TimeoutExpiredError
from ncclient.operations import rpc as _rpcmod

# The lock-step runner replaces the module name `rpc.uuid4` by a counter for the duration of a history.  Runs over real
# transports must use the library's OWN id generator (whatever `rpc.uuid4` was when the library was imported).
from impl.session_run import LIB_UUID4 as _LIB_UUID4      # noqa: E402


def connect_restoring_ids(fn):
    def wrapped(*a, **k):
        _rpcmod.uuid4 = _LIB_UUID4
        return fn(*a, **k)
    wrapped.__name__ = fn.__name__
    wrapped.__doc__ = fn.__doc__
    return wrapped

NOTIF_NS = 'urn:ietf:params:xml:ns:netconf:notification:1.0'
CERT_DIR = '/repo/test/unit/transport/certs'


def notif_text(k):
    from cases.session_gen import event_time, big_root_attrs
    return '<notification xmlns="%s"%s><eventTime>%s</eventTime><ev>n%d-é</ev></notification>' % (NOTIF_NS, big_root_attrs(k), event_time(k), k)


def tiny_notif_text(k):
    return '<notification xmlns="%s"><eventTime>2020-01-01T00:00:00Z</eventTime><e>%d</e></notification>' % (NOTIF_NS, k)


def reply_text(r):
    """Raw XML of what a Manager call returned (RPCReply, or NCElement for transforming profiles)."""
    x = getattr(r, 'xml', None)
    if isinstance(x, str):
        return x
    inner = getattr(r, '_NCElement__result', None)
    if inner is not None and isinstance(getattr(inner, 'xml', None), str):
        return inner.xml
    return str(r)


def exc_name(e):
    if isinstance(e, TimeoutExpiredError):
        return 'TimeoutExpiredError'
    if isinstance(e, TransportError):
        return 'TransportError:' + type(e).__name__
    return type(e).__name__


_PKI = {}


def pki():
    """Harness-made CA + server certificate (127.0.0.1 / localhost) and a second, unrelated CA; made once
    per process with the openssl CLI in a temp dir that is removed at exit."""
    if _PKI:
        return _PKI
    import atexit
    import shutil
    import subprocess
    import tempfile
    d = tempfile.mkdtemp(prefix='ncverif-pki-')
    atexit.register(shutil.rmtree, d, True)

    def sh(*a):
        subprocess.run(a, cwd=d, check=True, stdout=subprocess.DEVNULL, stderr=subprocess.DEVNULL)
    for ca in ('ca', 'otherca'):
        sh('openssl', 'req', '-x509', '-newkey', 'rsa:2048', '-nodes', '-keyout', ca + '.key', '-out', ca + '.crt', '-days', '30',
           '-subj', '/CN=ncverif ' + ca, '-addext', 'basicConstraints=critical,CA:TRUE')
    open(os.path.join(d, 'ext.cnf'), 'w').write('subjectAltName=IP:127.0.0.1,DNS:localhost\n')
    sh('openssl', 'req', '-newkey', 'rsa:2048', '-nodes', '-keyout', 'srv.key', '-out', 'srv.csr', '-subj', '/CN=localhost')
    sh('openssl', 'x509', '-req', '-in', 'srv.csr', '-CA', 'ca.crt', '-CAkey', 'ca.key', '-CAcreateserial', '-out', 'srv.crt', '-days', '30',
       '-extfile', 'ext.cnf')
    # a certificate of the SAME CA issued to another device (other name, other address)
    open(os.path.join(d, 'ext2.cnf'), 'w').write('subjectAltName=IP:10.9.9.9,DNS:other-device.example\n')
    sh('openssl', 'req', '-newkey', 'rsa:2048', '-nodes', '-keyout', 'srv2.key', '-out', 'srv2.csr', '-subj', '/CN=other-device.example')
    sh('openssl', 'x509', '-req', '-in', 'srv2.csr', '-CA', 'ca.crt', '-CAkey', 'ca.key', '-CAcreateserial', '-out', 'srv2.crt', '-days', '30',
       '-extfile', 'ext2.cnf')
    _PKI.update(dir=d, ca=os.path.join(d, 'ca.crt'), otherca=os.path.join(d, 'otherca.crt'), srv_crt=os.path.join(d, 'srv.crt'),
                srv_key=os.path.join(d, 'srv.key'), srv2_crt=os.path.join(d, 'srv2.crt'), srv2_key=os.path.join(d, 'srv2.key'))
    return _PKI


def make_server(sc, handler, **kw):
    tr = sc.get('transport', 'unix')
    caps = sc.get('server_caps')
    if tr == 'unix':
        return FS.UnixServer(caps=caps, handler=handler, **kw)
    if tr == 'tls':
        p = pki()
        which = 'srv2' if sc.get('other_device_cert') else 'srv'
        return FS.TlsServer(p[which + '_crt'], p[which + '_key'], caps=caps, handler=handler, **kw)
    if tr == 'ssh':
        return FS.SshServer(caps=caps, handler=handler, **kw)
    raise ValueError(tr)


def connect(srv, sc, **kw):
    tr = sc.get('transport', 'unix')
    dp = dict(sc.get('device_params') or {}, name=sc.get('profile', 'default'))
    if tr == 'unix':
        return manager.connect_uds(path=srv.path, device_params=dp, **kw)
    if tr == 'tls':
        import ssl
        return manager.connect_tls(host='127.0.0.1', port=srv.port, certfile=os.path.join(CERT_DIR, 'test.pem'),
                                   keyfile=os.path.join(CERT_DIR, 'test.key'), ca_certs=(None if sc.get('ca_certs') is False else (sc.get('ca_certs') or pki()['ca'])),
                                   protocol=getattr(ssl, sc.get('protocol', 'PROTOCOL_TLS_CLIENT')), check_hostname=sc.get('check_hostname', True),
                                   server_hostname=sc.get('server_hostname'), device_params=dp, **kw)
    if tr == 'ssh':
        return srv.connect(password=sc.get('password', 'pw'), device_params=dp, **kw)
    raise ValueError(tr)


def cut(rng, data, mode):
    n = len(data)
    if n <= 1 or mode == 'whole':
        return [data]
    if mode == 'ones' and n <= 600:
        return [data[i:i + 1] for i in range(n)]
    k = min(n - 1, rng.randint(1, 8))
    pts = sorted(rng.sample(range(1, n), k))
    out, prev = [], 0
    for p in pts:
        out.append(data[prev:p])
        prev = p
    out.append(data[prev:])
    return out


@connect_restoring_ids
def run_traffic(sc):
    """Scenario keys: transport, profile, server_caps, threads, per_thread, window, notifs, seg, timeout,
    fault: None | {'kind': 'close-after-requests', 'n': k} | {'kind': 'close-at-offset', 'offset': k}
    Returns observations; never raises for behaviour of the system under test."""
    rng = random.Random(sc.get('seed', 0))
    threads, per_thread = sc.get('threads', 2), sc.get('per_thread', 3)
    window = sc.get('window', 3)
    n_notifs = sc.get('notifs', 0)
    seg = sc.get('seg', 'random')
    fault = sc.get('fault')
    timeout = sc.get('timeout', 5)
    state = {'pending': [], 'notifs_sent': 0, 'handled': 0, 'sent_bytes': 0, 'closed_at': None}
    lock = threading.Lock()

    emit_lock = threading.Lock()

    def emit(srv, texts):
        with emit_lock:         # the flusher thread and the request handler must not interleave their segments
            _emit(srv, texts)

    def _emit(srv, texts):
        state.setdefault('emitted_notifs', []).extend(t for t in texts if t.startswith('<notification'))     # arrival order at the client
        data = b''.join(srv.frame(t) for t in texts)
        segs = cut(rng, data, seg)
        if seg == 'paced' and len(data) > 10:
            # a long message whose LAST read also carries the beginning (or all) of the next message
            k = max(1, min(len(data) - 1, int(len(data) * 0.55)))
            srv.do_actions([('raw', data[:k]), ('sleep', 0.08), ('raw', data[k:])])
            state['sent_bytes'] += len(data)
            return
        if fault and fault['kind'] == 'close-at-offset':
            left = fault['offset'] - state['sent_bytes']
            out = []
            for s in segs:
                if left <= 0:
                    break
                out.append(s[:left])
                left -= len(out[-1])
            sent = sum(len(s) for s in out)
            state['sent_bytes'] += sent
            if out:
                srv.do_actions([('segs', out, 0)])
            if state['sent_bytes'] >= fault['offset']:
                if state['closed_at'] is None:
                    state['closed_at'] = time.time()
                srv.close()
                return
            return
        state['sent_bytes'] += len(data)
        srv.do_actions([('segs', segs, 0.0005 if len(segs) < 50 else 0)])

    def flush(srv):
        with lock:
            batch = state['pending']
            state['pending'] = []
        if not batch:
            return
        rng.shuffle(batch)
        texts = []
        for req in batch:
            mid = FS.msg_id_of(req)
            tag = re.search(r'<(?:\w+:)?tag>([^<]*)</', req)
            texts.append('<rpc-reply message-id="%s" xmlns="%s"><data><tag>%s</tag><pad>%s</pad></data></rpc-reply>' % (
                mid, FS.BASE_NS, tag.group(1) if tag else '?', 'é' * (sc['pad'] if 'pad' in sc else rng.choice([0, 1, 50, 3000]))))
            if state['notifs_sent'] < n_notifs and (rng.random() < 0.7 or sc.get('notif_after_reply')):
                state['notifs_sent'] += 1
                texts.insert(len(texts) if sc.get('notif_after_reply') else rng.randint(0, len(texts)), notif_text(state['notifs_sent']))
        emit(srv, texts)

    def handler(srv, req):
        with lock:
            state['pending'].append(req)
            state['handled'] += 1
            n = len(state['pending'])
            h = state['handled']
        if fault and fault['kind'] == 'close-after-requests' and h >= fault['n']:
            state['closed_at'] = time.time()
            return [('close',)]
        if n >= window:
            flush(srv)
        return []

    if sc.get('slow_handler'):
        # a user-supplied device handler (public extension point) whose hooks take a little time: whatever the library does between
        # two of its hooks, other threads get to run there
        from ncclient.devices.default import DefaultDeviceHandler
        hrng = random.Random(sc.get('seed', 0) + 1)

        class SlowHandler(DefaultDeviceHandler):
            def get_xml_extra_prefix_kwargs(self):
                time.sleep(hrng.choice([0, 0.002, 0.01, 0.02]))
                return DefaultDeviceHandler.get_xml_extra_prefix_kwargs(self)

            def get_xml_base_namespace_dict(self):
                time.sleep(hrng.choice([0, 0.002]))
                return DefaultDeviceHandler.get_xml_base_namespace_dict(self)
        sc = dict(sc, device_params={'handler': SlowHandler})
    srv = make_server(sc, handler)
    res = {'calls': [], 'notifs': [], 'connect': None}
    stop_flusher = threading.Event()

    def flusher():
        while not stop_flusher.is_set():
            time.sleep(0.03)
            if not srv.closed:
                flush(srv)
    try:
        try:
            m = connect(srv, sc, timeout=timeout)
        except Exception as e:
            res['connect'] = 'exc:' + exc_name(e)
            return res
        res['connect'] = 'ok'
        m.timeout = timeout
        sess = m._session
        if sc.get('slow_construct'):
            # a loaded machine: building the object for a large notification takes a while (time grows with size); whatever the library
            # does with that time, the order of arrival is the order in which notifications are taken
            import ncclient.transport.session as _sessmod
            _orig_notification = _sessmod.Notification

            def _slow_notification(raw, *a, **kw):
                time.sleep(min(0.3, len(raw) / 1e6))
                return _orig_notification(raw, *a, **kw)
            _sessmod.Notification = _slow_notification
            res['_restore_notification'] = _orig_notification
        start_barrier = None
        if sc.get('first_race'):
            # widen the window between "is there a reply listener yet?" and "install one": several threads issue the FIRST
            # requests of the session at the same instant (public method wrapped on the instance; the lookup itself is unchanged)
            orig_get = sess.get_listener_instance

            def slow_get(cls):
                r = orig_get(cls)
                if r is None:
                    time.sleep(0.05)
                return r
            sess.get_listener_instance = slow_get
            start_barrier = threading.Barrier(threads)
        if sc.get('slow_first_callback'):
            # an application listener that is slow ONCE (it logs, resolves a name, ...): meanwhile the peer's output piles up in the socket,
            # and the next transport read hands over as much as the transport's read size allows
            from ncclient.transport.session import SessionListener as _SL

            class SlowOnce(_SL):
                done = False

                def callback(self, root, raw):
                    if not SlowOnce.done:
                        SlowOnce.done = True
                        time.sleep(sc['slow_first_callback'])

                def errback(self, ex):
                    pass
            sess.add_listener(SlowOnce())
        if sc.get('burst'):
            # a backlog of notifications nobody has taken yet (replay / slow consumer), before any request is issued
            k = sc['burst']
            texts = [(tiny_notif_text if sc.get('tiny') else notif_text)(state['notifs_sent'] + i + 1) for i in range(k)]
            if sc.get('mixed_sizes'):
                # every fourth notification is large (a full routing table, a config-change with the configuration in it)
                texts = [t.replace('</notification>', '<detail>%s</detail></notification>' % ('<r a="1">x</r>' * 12000)) if i % 4 == 1 else t for i, t in enumerate(texts)]
            state['notifs_sent'] += k
            bt = threading.Thread(target=emit, args=(srv, texts), daemon=True)     # a server's writes never wait for our client
            bt.start()
            bt.join(5)
            time.sleep(0.3)
        fl = threading.Thread(target=flusher, daemon=True)
        fl.start()
        if sc.get('resubscribe'):
            # the application (re)subscribes while notifications it has not taken yet are queued: they stay queued
            try:
                m.create_subscription()
                res['resubscribe'] = 'ok'
            except Exception as e:
                res['resubscribe'] = 'exc:' + exc_name(e)
        calls = []
        clock = threading.Lock()

        def worker(ti):
            if start_barrier is not None:
                try:
                    start_barrier.wait(2)
                except Exception:
                    pass
            for j in range(per_thread):
                tag = 'T%d-%d' % (ti, j)
                node = new_ele('probe')
                sub_ele(node, 'tag').text = tag
                if sc.get('pasted') and (ti + j) % 2 == 0:
                    # what users paste from RFC 6241 / vendor manuals into rpc(): a complete <rpc> with the documentation's message-id
                    from ncclient.xml_ import to_ele
                    node = to_ele('<rpc xmlns="%s" message-id="101"><probe><tag>%s</tag></probe></rpc>' % (FS.BASE_NS, tag))
                t0 = time.time()
                try:
                    if sc.get('reseed') is not None:
                        # an application that seeds the global RNG for its own reproducibility: message-ids must stay unique all the same
                        random.seed(sc['reseed'])
                    r = m.rpc(node)
                    x = reply_text(r)
                    tg = re.search(r'<(?:\w+:)?tag>([^<]*)</', x)
                    out = ('reply', FS.msg_id_of(x), tg.group(1) if tg else None)
                except Exception as e:
                    out = ('exc', exc_name(e), None)
                with clock:
                    calls.append({'tag': tag, 'out': out, 'dt': time.time() - t0, 't_end': time.time()})
        ths = [threading.Thread(target=worker, args=(i,), daemon=True) for i in range(threads)]
        for t in ths:
            t.start()
        for t in ths:
            t.join(timeout * per_thread + 10)
        res['hung_threads'] = sum(1 for t in ths if t.is_alive())
        res['calls'] = calls
        if sc.get('notifs_then_close'):
            k = sc['notifs_then_close']
            texts = [notif_text(state['notifs_sent'] + i + 1) for i in range(k)]
            state['notifs_sent'] += k
            emit(srv, texts)
            time.sleep(0.05)
            srv.close()
            t_end = time.time() + 3
            while m.connected and time.time() < t_end:
                time.sleep(0.01)
            res['disconnected_before_take'] = not m.connected
        # drain notifications
        want = state['notifs_sent']
        for _ in range(want + 2):
            n = m.take_notification(block=True, timeout=0.3)
            if n is None:
                break
            res['notifs'].append(n.notification_xml)
        t0 = time.time()
        res['take_empty_nonblocking'] = m.take_notification(block=False) is None
        res['take_empty_nonblocking_dt'] = time.time() - t0
        t0 = time.time()
        res['take_empty_blocking'] = m.take_notification(block=True, timeout=0.25) is None
        res['take_empty_blocking_dt'] = time.time() - t0
        # the other argument combinations: non-blocking with a timeout given (returns at once), blocking with timeout 0 (returns after 0 s)
        st, v, dt = FS.run_with_timeout(lambda: m.take_notification(block=False, timeout=3.0), 6)
        res['take_nonblocking_with_timeout'] = [st, v is None, dt]
        st, v, dt = FS.run_with_timeout(lambda: m.take_notification(block=True, timeout=0), 3)
        res['take_blocking_zero'] = [st, v is None, dt]
        res['notifs_sent'] = state['notifs_sent']
        res['notifs_emitted'] = list(state.get('emitted_notifs', []))
        res['connected_before_close'] = m.connected
        res['closed_at'] = state['closed_at']
        # what the server saw for each tag
        seen = {}
        for req in srv.requests:
            tg = re.search(r'<(?:\w+:)?tag>([^<]*)</', req)
            if tg:
                seen[tg.group(1)] = FS.msg_id_of(req)
        res['server_saw'] = seen
        res['server_ids'] = [FS.msg_id_of(r) for r in srv.requests]
        # a later request after a fault must be refused
        if fault:
            # "promptly": poll with a generous bound instead of a fixed nap, so that a loaded machine cannot turn a slow worker into an alarm
            t_end = time.time() + (8 if state['closed_at'] else 0.3)
            while time.time() < t_end and (m.connected or sess.is_alive()):
                time.sleep(0.02)
            res['connected_after_fault'] = m.connected
            try:
                m.rpc(new_ele('late'))
                res['late'] = 'sent'
            except Exception as e:
                res['late'] = exc_name(e)
            # the same for operations with class-level capability prerequisites and for close_session itself
            for key, fn in (('late_commit', lambda: m.commit()), ('late_discard', lambda: m.discard_changes()), ('late_close', lambda: m.close_session())):
                try:
                    fn()
                    res[key] = 'returned'
                except Exception as e:
                    res[key] = exc_name(e)
            res['worker_alive_after_fault'] = sess.is_alive()
        else:
            try:
                m.close_session()
                res['close'] = 'ok'
            except Exception as e:
                res['close'] = exc_name(e)
            time.sleep(0.35)
            res['connected_after_close'] = m.connected
            res['worker_alive_after_close'] = sess.is_alive()
            res['eof_seen'] = srv.eof_seen.wait(1.0)
    finally:
        stop_flusher.set()
        srv.cleanup()
        if res.get('_restore_notification') is not None:
            import ncclient.transport.session as _sessmod
            _sessmod.Notification = res.pop('_restore_notification')
    return res


@connect_restoring_ids
def run_sized_frames(sc):
    """Messages whose FRAMED length is an exact number of octets (multiples of the transport read size and their neighbours), each
    sent in one piece and followed by silence, over a real transport: every one must be delivered promptly and intact."""
    srv = make_server(sc, None)
    res = {'connect': None, 'got': [], 'sizes': list(sc['sizes'])}
    try:
        try:
            m = connect(srv, sc, timeout=sc.get('timeout', 3))
        except Exception as e:
            res['connect'] = 'exc:' + exc_name(e)
            return res
        res['connect'] = 'ok'
        time.sleep(0.1)
        res['base11'] = srv.base11
        want = []
        for i, size in enumerate(sc['sizes']):
            head = '<notification xmlns="urn:ietf:params:xml:ns:netconf:notification:1.0"><eventTime>2026-01-01T00:00:%02dZ</eventTime><pad>é' % i
            tail = '</pad></notification>'
            k = max(0, size - len(srv.frame(head + tail)))
            text = head + 'x' * k + tail
            for _ in range(6):
                d = size - len(srv.frame(text))
                if d == 0 or k + d < 0:
                    break
                k += d
                text = head + 'x' * k + tail
            want.append(text)
            res.setdefault('framed', []).append(len(srv.frame(text)))
            srv.do_actions([('raw', srv.frame(text))])
            t0 = time.time()
            n = m.take_notification(block=True, timeout=sc.get('wait', 1.5))
            res['got'].append({'text': None if n is None else n.notification_xml, 'dt': time.time() - t0})
            if n is None:
                break
        res['want'] = want
        time.sleep(0.05)
        res['connected'] = m.connected
        try:
            m._session.close()
        except Exception:
            pass
    finally:
        srv.cleanup()
    return res


def session_threads():
    return [t for t in threading.enumerate() if t.name == 'session' and t.is_alive()]


def nfds():
    try:
        return len(os.listdir('/proc/self/fd'))
    except Exception:
        return -1


class _CountingListener:
    pass


@connect_restoring_ids
def run_lifecycle(sc):
    """Close / failed-connect / leak scenarios.  sc['mode'] in
       'close'           connect, optional in-flight request from another thread, close_session / with-block (+exception)
       'failed-hello'    server sends: nothing | garbage | bad-hello | closes at once   -> connect must raise and release
       'cycles'          n open/close cycles; thread and fd counts before/after"""
    from ncclient.transport.session import SessionListener
    rng = random.Random(sc.get('seed', 0))
    mode = sc['mode']
    res = {'mode': mode}
    base_threads = len(session_threads())
    if mode == 'failed-hello':
        what = sc['what']
        kw = {}
        if what == 'nothing':
            kw = dict(send_hello=False)
        elif what == 'garbage':
            kw = dict(hello_text='this is not xml')
        elif what == 'bad-hello':
            kw = dict(hello_text='<hello xmlns="%s"><capabilities><capability/></capabilities><session-id>1</session-id></hello>' % FS.BASE_NS)
        elif what == 'rpc-error-hello':
            kw = dict(hello_text='<rpc-reply xmlns="%s"><rpc-error><error-message>no</error-message></rpc-error></rpc-reply>' % FS.BASE_NS)
        srv = make_server(sc, None, **kw)
        if what == 'close-at-once':
            srv.send_hello = False
            orig = srv.serve
            srv.serve = lambda: (time.sleep(0.05), srv.close(), srv.done.set())
        try:
            st, val, dt = FS.run_with_timeout(lambda: connect(srv, sc, timeout=sc.get('timeout', 0.6)), sc.get('timeout', 0.6) + 3)
            res['connect'] = st if st != 'exc' else 'exc:' + exc_name(val)
            res['connect_dt'] = dt
            if st == 'ok':
                try:
                    val.close_session()
                except Exception:
                    pass
            # released?
            deadline = time.time() + 1.5
            while time.time() < deadline and len(session_threads()) > base_threads:
                time.sleep(0.02)
            res['leaked_threads'] = len(session_threads()) - base_threads
            res['eof_seen'] = srv.eof_seen.wait(1.0) or srv.closed
        finally:
            srv.cleanup()
        return res
    if mode == 'failed-auth':
        # SSH only: wrong credentials -> AuthenticationError; the half-open SSH transport must be released
        def pthreads():
            return [t for t in threading.enumerate() if t.is_alive() and type(t).__module__.startswith('paramiko')]
        base = len(pthreads())
        srv = make_server(sc, None)
        try:
            st, val, dt = FS.run_with_timeout(lambda: connect(srv, dict(sc, password='wrong'), timeout=3), 8)
            res['connect'] = st if st != 'exc' else 'exc:' + exc_name(val)
            deadline = time.time() + 2.5
            while time.time() < deadline and srv.transport.is_active():
                time.sleep(0.02)
            res['server_sees_closed'] = not srv.transport.is_active()
            res['auth_attempts'] = len(srv.auth_attempts)
            res['subsystem_requests'] = len(srv.subsystem_requests)
        finally:
            srv.cleanup()
        deadline = time.time() + 2.0
        while time.time() < deadline and len(pthreads()) > base:
            time.sleep(0.02)
        res['leaked_threads'] = max(0, len(pthreads()) - base)
        return res
    if mode == 'cycles':
        n = sc.get('n', 5)
        fds0 = nfds()
        for i in range(n):
            srv = make_server(sc, None)
            try:
                m = connect(srv, sc, timeout=3)
                m.get_config(source='running')
                m.close_session()
            except Exception as e:
                res.setdefault('errors', []).append(exc_name(e))
            finally:
                srv.eof_seen.wait(0.5)
                srv.cleanup()
        deadline = time.time() + 1.5
        while time.time() < deadline and len(session_threads()) > base_threads:
            time.sleep(0.02)
        import gc
        gc.collect()
        res['leaked_threads'] = len(session_threads()) - base_threads
        res['fd_growth'] = nfds() - fds0
        res['n'] = n
        return res
    # mode == 'close'
    hold = threading.Event()

    def handler(srv, req):
        if 'slow' in req:
            return []               # never answered: in flight at close
        if 'close-session' in req and sc.get('no_close_reply'):
            return []               # a server that does not answer <close-session>
        if 'close-session' in req and sc.get('close_error'):
            # RFC 6241 7.8 allows a negative response; the client side is released all the same
            return [('send', '<rpc-reply message-id="%s" xmlns="%s"><rpc-error><error-type>application</error-type><error-tag>operation-failed</error-tag>'
                     '<error-severity>error</error-severity><error-message>close refused</error-message></rpc-error></rpc-reply>' % (FS.msg_id_of(req), FS.BASE_NS))]
        return [('send', FS.ok_reply(FS.msg_id_of(req)))]
    srv = make_server(sc, handler)
    calls = {'n': 0, 'after_close': 0, 'closed': False}

    class Counting(SessionListener):
        def callback(self, root, raw):
            calls['n'] += 1
            if calls['closed']:
                calls['after_close'] += 1

        def errback(self, ex):
            if calls['closed_done']:
                calls['after_close'] += 1
    calls['closed_done'] = False

    class OneShot(SessionListener):
        """An application listener that takes itself off the session when it hears of an error (and looks the registry up on the way)."""
        def __init__(self, sess):
            self.sess = sess

        def callback(self, root, raw):
            pass

        def errback(self, ex):
            self.sess.get_listener_instance(OneShot)
            self.sess.remove_listener(self)
    try:
        m = connect(srv, sc, timeout=sc.get('connect_timeout', 3))
        sess = m._session
        sess.add_listener(Counting())
        if sc.get('oneshot_listener'):
            sess.add_listener(OneShot(sess))
        inflight = {}
        if sc.get('inflight'):
            m.timeout = 1.0

            def slow():
                t0 = time.time()
                try:
                    m.rpc(new_ele('slow'))
                    inflight['out'] = 'reply'
                except Exception as e:
                    inflight['out'] = exc_name(e)
                inflight['dt'] = time.time() - t0
            th = threading.Thread(target=slow, daemon=True)
            th.start()
            time.sleep(0.15)
        if sc.get('blocked_writer'):
            # the peer stays connected but stops reading; a request larger than the socket buffers is being written when the
            # session is closed: the worker is inside its write at that moment
            srv.stop_reading.set()
            time.sleep(0.05)
            m.async_mode = True
            big = new_ele('big')
            big.text = 'x' * sc['blocked_writer']
            m.dispatch(big)
            m.async_mode = False
            m.timeout = 1.0
            time.sleep(0.4)
        if sc.get('backlog'):
            # notifications nobody takes (a subscription whose consumer is slow or absent) pile up before the session is closed
            data = b''.join(srv.frame(notif_text(i + 1)) for i in range(sc['backlog']))
            bt = threading.Thread(target=lambda: srv.do_actions([('raw', data)]), daemon=True)
            bt.start()
            bt.join(5)
            time.sleep(0.5)
            m.timeout = 2.0
        how = sc.get('how', 'close_session')
        if sc.get('no_close_reply'):
            m.timeout = 0.5
        if sc.get('async_close'):
            m.async_mode = True      # the application works asynchronously; closing must release the session all the same
        res['call_timeout'] = m.timeout
        t0 = time.time()
        try:
            if how == 'close_session':
                m.close_session()
            elif how == 'with':
                with m:
                    m.get_config(source='running')
            elif how == 'with-exception':
                try:
                    with m:
                        raise KeyError('body failed')
                except KeyError:
                    res['body_exception_propagated'] = True
            elif how == 'with-transport-error':
                # the body fails with a TransportError that has nothing to do with THIS session (e.g. a nested connect elsewhere)
                try:
                    with m:
                        raise TransportError('another connection failed')
                except TransportError:
                    res['body_exception_propagated'] = True
            res['close'] = 'ok'
        except Exception as e:
            res['close'] = exc_name(e)
        calls['closed'] = True
        res['close_dt'] = time.time() - t0
        res['connected_after'] = m.connected
        deadline = time.time() + sc.get('worker_deadline', 4)
        while time.time() < deadline and sess.is_alive():
            time.sleep(0.02)
        res['worker_alive'] = sess.is_alive()
        res['worker_deadline'] = sc.get('worker_deadline', 4)
        srv.stop_reading.clear()
        calls['closed_done'] = True
        res['eof_seen'] = srv.eof_seen.wait(1.0)
        time.sleep(0.2)
        res['listener_calls_after_close'] = calls['after_close']
        try:
            m.get_config(source='running')
            res['later_request'] = 'sent'
        except Exception as e:
            res['later_request'] = exc_name(e)
        for key, fn in (('later_commit', lambda: m.commit()), ('later_validate', lambda: m.validate('candidate'))):
            try:
                fn()
                res[key] = 'sent'
            except Exception as e:
                res[key] = exc_name(e)
        if sc.get('inflight'):
            th.join(3)
            res['inflight'] = inflight
        hold.set()
    except Exception as e:
        res['harness_error'] = repr(e)
    finally:
        hold.set()
        srv.cleanup()
    return res


@connect_restoring_ids
def run_stall(case):
    """The peer stays connected but stops reading while a message larger than the socket buffers is being written; then a burst of
    small asynchronous requests, then a SYNCHRONOUS request with a short timeout.  Nothing may block for ever: the session must fail
    (error to the pending requests, disconnected) and the synchronous call must return or raise within its timeout."""
    sc = {'transport': case['transport'], 'profile': 'default'}
    srv = make_server(sc, None)
    try:
        m = connect(srv, sc, timeout=case['timeout'])
        srv.stop_reading.set()
        time.sleep(0.05)
        m.async_mode = True
        big = new_ele('big')
        big.text = 'x' * case['size']
        t0 = time.time()
        r = m.dispatch(big)
        small = m.dispatch(new_ele('after'))
        burst = {'accepted': 0, 'blocked': False}

        def many():
            for i in range(case.get('burst', 0)):
                try:
                    m.dispatch(new_ele('b%d' % i))
                    burst['accepted'] += 1
                except Exception as e:
                    burst['refused'] = [exc_name(e), str(e)[:60], bool(m.connected)]
                    break
        st, _, bdt = FS.run_with_timeout(many, 5)
        burst['blocked'] = st == 'hang'
        sync = None
        if case.get('sync_timeout'):
            m.async_mode = False
            m.timeout = case['sync_timeout']

            def call():
                try:
                    m.get_config(source='running')
                    return 'reply'
                except Exception as e:
                    return exc_name(e)
            st, v, sdt = FS.run_with_timeout(call, case['sync_timeout'] + 6)
            sync = {'state': st, 'out': v, 'dt': sdt}
            m.async_mode = True
        deadline = t0 + case['timeout'] + 8
        while time.time() < deadline and (m.connected or not r.event.is_set()):
            time.sleep(0.02)
        res = {'connected': m.connected, 'failed': r.event.is_set() and r.error is not None, 'error': type(r.error).__name__ if r.error is not None else None,
               'second_failed': small.event.is_set() and small.error is not None, 'dt': time.time() - t0, 'worker_alive': m._session.is_alive(),
               'burst': burst, 'sync': sync}
        srv.stop_reading.clear()
        try:
            m._session.close()
        except Exception:
            pass
        return res
    except Exception as e:
        return {'harness_error': type(e).__name__ + ': ' + str(e)[:100]}
    finally:
        srv.cleanup()


@connect_restoring_ids
def run_two(sc):
    """Two sessions alive in ONE process.  Session B has `held` asynchronous requests outstanding whose replies its server holds back;
    session A meanwhile does a request and ENDS (sc['end']: 'close_session' | 'server-eof' | 'local-close'); then B's server answers.
    Each of B's requests must complete with its own reply and B must stay usable."""
    held, release = [], threading.Event()

    def handler_b(srv, req):
        held.append(req)
        return []
    sa = make_server(dict(sc, transport=sc.get('transport_a', 'unix')), None)
    sb = make_server(dict(sc, transport=sc.get('transport_b', 'unix')), handler_b)
    res = {'connect': None}
    ma = mb = None
    try:
        try:
            ma = connect(sa, dict(sc, transport=sc.get('transport_a', 'unix')), timeout=5)
            mb = connect(sb, dict(sc, transport=sc.get('transport_b', 'unix')), timeout=5)
        except Exception as e:
            res['connect'] = 'exc:' + exc_name(e)
            return res
        res['connect'] = 'ok'
        mb.async_mode = True
        rpcs = []
        for i in range(sc.get('held', 2)):
            node = new_ele('probe')
            sub_ele(node, 'tag').text = 'B%d' % i
            rpcs.append(mb.rpc(node))
        t_end = time.time() + 3
        while len(held) < len(rpcs) and time.time() < t_end:
            time.sleep(0.005)
        try:
            ma.get()
            res['a_get'] = 'ok'
        except Exception as e:
            res['a_get'] = 'exc:' + exc_name(e)
        if sc['end'] == 'close_session':
            try:
                ma.close_session()
            except Exception as e:
                res['a_close'] = 'exc:' + exc_name(e)
        elif sc['end'] == 'server-eof':
            sa.close()
        else:
            ma._session.close()
        t_end = time.time() + 3
        while ma.connected and time.time() < t_end:
            time.sleep(0.005)
        time.sleep(0.05)
        res['b_before'] = [('done' if r.event.is_set() else 'pending') for r in rpcs]
        res['b_errors_before'] = [exc_name(r.error) if r.error is not None else None for r in rpcs]
        for req in held:
            tag = re.search(r'<(?:\w+:)?tag>([^<]*)</', req)
            sb.do_actions([('send', '<rpc-reply message-id="%s" xmlns="%s"><data><tag>%s</tag></data></rpc-reply>' % (
                FS.msg_id_of(req), FS.BASE_NS, tag.group(1) if tag else '?'))])
        out = []
        for i, r in enumerate(rpcs):
            r.event.wait(3)
            if r.error is not None:
                out.append(['exc', exc_name(r.error)])
            elif r.reply is None:
                out.append(['none'])
            else:
                tg = re.search(r'<(?:\w+:)?tag>([^<]*)</', reply_text(r.reply))
                out.append(['reply', tg.group(1) if tg else None])
        res['b_out'] = out
        time.sleep(0.05)
        res['b_connected'] = mb.connected
        mb.async_mode = False
        try:
            sb.handler = lambda srv, req: [('send', FS.ok_reply(FS.msg_id_of(req)))]
            mb.timeout = 3
            mb.get()
            res['b_after'] = 'ok'
        except Exception as e:
            res['b_after'] = 'exc:' + exc_name(e)
        return res
    finally:
        for m in (ma, mb):
            try:
                if m is not None:
                    m._session.close()
            except Exception:
                pass
        sa.cleanup()
        sb.cleanup()


def run_many(sc):
    """One session (stub transport, the real RPC / RPCReplyListener objects) with sc['n'] asynchronous requests outstanding at the same
    time, `stale` of them never answered; the server then answers the others in the order sc['order'] ('fifo' | 'lifo' | 'shuffled')."""
    from impl.rpcstub import make_manager
    from ncclient.xml_ import parse_root
    m, s, dh = make_manager(profile=sc.get('profile', 'default'), responder=None, raise_mode=0)
    m.async_mode = True
    rpcs = []
    for i in range(sc['n']):
        node = new_ele('probe')
        sub_ele(node, 'tag').text = 'N%d' % i
        rpcs.append(m.rpc(node))
    ids = [FS.msg_id_of(t) for t in s.sent]
    order = list(range(sc.get('stale', 0), sc['n']))
    if sc.get('order') == 'lifo':
        order.reverse()
    elif sc.get('order') == 'shuffled':
        random.Random(sc.get('seed', 0)).shuffle(order)
    listener_errors = []
    for i in order:
        reply = '<rpc-reply message-id="%s" xmlns="%s"><data><tag>N%d</tag></data></rpc-reply>' % (ids[i], FS.BASE_NS, i)
        root = parse_root(reply)
        for l in list(s._listeners):
            try:
                l.callback(root, reply)
            except Exception as e:          # the session thread would deliver this to every listener and close
                listener_errors.append(exc_name(e))
                for l2 in list(s._listeners):
                    l2.errback(e)
    wrong = []
    for i in order:
        r = rpcs[i]
        if r.error is not None:
            wrong.append([i, 'exc:' + exc_name(r.error)])
        elif r.reply is None:
            wrong.append([i, 'none'])
        elif '<tag>N%d</tag>' % i not in reply_text(r.reply):
            wrong.append([i, 'foreign'])
    return {'n': sc['n'], 'distinct_ids': len(set(ids)), 'wrong': wrong[:5], 'n_wrong': len(wrong), 'listener_errors': listener_errors[:3],
            'stale_done': sum(1 for i in range(sc.get('stale', 0)) if rpcs[i].event.is_set())}


@connect_restoring_ids
def run_stderr(case):
    """SSH: `before` requests, then the subsystem writes `octets` octets to its stderr, then `after` requests (timeout 3 s each)."""
    caps = [c for c in FS.STD_CAPS if case['base11'] or c != FS.B11]
    srv = FS.SshServer(caps=caps)
    res = {'failed': [], 'foreign': None}
    m = None
    try:
        m = srv.connect(timeout=5)
        m.timeout = 3
        for i in range(case['before']):
            try:
                m.get()
            except Exception as e:
                res['failed'].append(['before-%d' % i, exc_name(e)])
        srv.chan.sendall_stderr(b'W' * (case['octets'] - 1) + b'\n')
        time.sleep(0.3)
        for i in range(case['after']):
            try:
                r = m.get()
                if 'WWW' in r.xml:
                    res['foreign'] = r.xml[:80]
            except Exception as e:
                res['failed'].append(['after-%d' % i, exc_name(e)])
        res['server_requests'] = len(srv.requests)
        return res
    except Exception as e:
        res['failed'].append(['connect', exc_name(e)])
        res['server_requests'] = len(srv.requests)
        return res
    finally:
        try:
            if m is not None:
                m._session.close()
        except Exception:
            pass
        srv.cleanup()


@connect_restoring_ids
def run_trickle(case):
    """A synchronous request (timeout case['sync_timeout']) to a server that, for case['for'] seconds, sends a notification every 0.15 s or
    the reply in small pieces, completing nothing in time.  Observed: how long the call takes."""
    stop = threading.Event()

    def handler(srv, req):
        mid = FS.msg_id_of(req)

        def feed():
            t_end = time.time() + case['for']
            if case['what'] == 'notifications':
                k = 0
                while time.time() < t_end and not stop.is_set() and not srv.closed:
                    k += 1
                    srv.do_actions([('send', notif_text(k))])
                    time.sleep(0.15)
            else:
                data = srv.frame('<rpc-reply message-id="%s" xmlns="%s"><data>%s</data></rpc-reply>' % (mid, FS.BASE_NS, 'x' * 4000))
                n = max(1, int(len(data) / (case['for'] / 0.1)))
                for i in range(0, len(data), n):
                    if stop.is_set() or srv.closed:
                        break
                    srv.do_actions([('raw', data[i:i + n])])
                    time.sleep(0.1)
        threading.Thread(target=feed, daemon=True).start()
        return []
    sc = {'transport': case['transport'], 'server_caps': [c for c in FS.STD_CAPS if case['base11'] or c != FS.B11]}
    srv = make_server(sc, handler)
    res = {'connect': None}
    m = None
    try:
        try:
            m = connect(srv, sc, timeout=5)
        except Exception as e:
            res['connect'] = 'exc:' + exc_name(e)
            return res
        res['connect'] = 'ok'
        m.timeout = case['sync_timeout']

        def call():
            try:
                m.get()
                return 'reply'
            except Exception as e:
                return exc_name(e)
        st, out, dt = FS.run_with_timeout(call, case['sync_timeout'] + case['for'] + 3)
        res.update({'state': st, 'out': out, 'dt': dt})
        return res
    finally:
        stop.set()
        try:
            if m is not None:
                m._session.close()
        except Exception:
            pass
        srv.cleanup()


@connect_restoring_ids
def run_stray(sc):
    """One synchronous request answered normally, then ONE asynchronous request outstanding while the server sends an <rpc-reply> that is
    not its answer (sc['stray']: 'no-id' | 'unknown-id' | 'duplicate' of the first reply), then the real answer."""
    seen = []

    def handler(srv, req):
        mid = FS.msg_id_of(req)
        seen.append(mid)
        if len(seen) == 1:
            return [('send', '<rpc-reply message-id="%s" xmlns="%s"><data><n>first</n></data></rpc-reply>' % (mid, FS.BASE_NS))]
        stray = {'no-id': '<rpc-reply xmlns="%s"><data><n>stray</n></data></rpc-reply>' % FS.BASE_NS,
                 'unknown-id': '<rpc-reply message-id="urn:uuid:00000000-1111-2222-3333-444444444444" xmlns="%s"><data><n>stray</n></data></rpc-reply>' % FS.BASE_NS,
                 'duplicate': '<rpc-reply message-id="%s" xmlns="%s"><data><n>first</n></data></rpc-reply>' % (seen[0], FS.BASE_NS)}[sc['stray']]
        return [('send', stray), ('sleep', 0.2), ('send', '<rpc-reply message-id="%s" xmlns="%s"><data><n>second</n></data></rpc-reply>' % (mid, FS.BASE_NS))]
    srv = make_server(sc, handler)
    res = {'connect': None}
    m = None
    try:
        try:
            m = connect(srv, sc, timeout=5)
        except Exception as e:
            res['connect'] = 'exc:' + exc_name(e)
            return res
        res['connect'] = 'ok'
        m.timeout = 3
        m.get()
        m.async_mode = True
        r = m.get()
        r.event.wait(3)
        time.sleep(0.4)
        if r.error is not None:
            res['second'] = ['exc', exc_name(r.error)]
        elif r.reply is None:
            res['second'] = ['none']
        else:
            x = reply_text(r.reply)
            res['second'] = ['reply', FS.msg_id_of(x), 'second' in x]
        res['own_id'] = seen[1] if len(seen) > 1 else None
        return res
    finally:
        try:
            if m is not None:
                m._session.close()
        except Exception:
            pass
        srv.cleanup()
