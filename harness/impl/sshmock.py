"""Runs the REAL SSHSession.connect / _auth (and manager.connect_ssh with its profile overrides) against
a recording stand-in for paramiko.Transport: every call the client makes on the transport is logged,
the environment's answers (server key, which credentials succeed, which subsystems are accepted) come
from the case.  Real paramiko key objects and a real known_hosts file are used, so HostKeys.check and
the key classes run for real."""
import base64
import logging
import os
import shutil
import socket
import tempfile
import threading

logging.disable(logging.CRITICAL)

import paramiko                                    # noqa: E402
from ncclient import manager                        # noqa: E402
from ncclient.transport import ssh as sshmod        # noqa: E402
from ncclient.transport import errors as terrors    # noqa: E402

_KEYS = {}


def keys():
    if not _KEYS:
        _KEYS['server'] = paramiko.RSAKey.generate(1024)
        _KEYS['other'] = paramiko.RSAKey.generate(1024)
        _KEYS['client'] = paramiko.RSAKey.generate(1024)
        _KEYS['third'] = paramiko.RSAKey.generate(1024)
    return _KEYS


class FakeChannel:
    def __init__(self, log, idx, accept):
        self.log, self.idx, self.accept = log, idx, accept
        self.name = None

    def get_id(self):
        return 7

    def set_name(self, n):
        self.name = n

    def get_name(self):
        return self.name

    def invoke_subsystem(self, name):
        self.log.append('subsystem:%d:%d' % (self.idx, 1 if self.accept else 0))
        if FakeTransport.current is not None:
            FakeTransport.current.setdefault('sub_names', []).append(name)
        if not self.accept:
            raise paramiko.SSHException('subsystem request rejected')

    def update_environment(self, env):
        pass

    def close(self):
        pass


class FakeTransport:
    """Stands in for paramiko.Transport(sock)."""
    current = None

    def __init__(self, sock):
        env = FakeTransport.current
        self.env = env
        self.log = env['log']
        self._preferred_keys = None
        self.n_auth = 0
        self.n_sub = 0
        self.active = True

    def set_log_channel(self, n):
        pass

    def use_compression(self):
        pass

    def start_client(self):
        self.log.append('start')
        if not self.env['negotiates']:
            raise paramiko.SSHException('negotiation')

    def get_remote_server_key(self):
        return keys()[self.env.get('server_key', 'server')]

    def _auth(self, kind):
        ok = self.env['auths'][self.n_auth] if self.n_auth < len(self.env['auths']) else False
        self.log.append('auth:%d:%d' % (self.n_auth, 1 if ok else 0))
        self.n_auth += 1
        if not ok:
            # the ways a server refuses a credential (all of them are "authentication failed" for the caller)
            k = (self.env.get('authx', 0) + self.n_auth) % 3
            if k == 1:
                raise paramiko.BadAuthenticationType('Bad authentication type', ['publickey'])
            if k == 2:
                raise paramiko.ssh_exception.PartialAuthentication(['keyboard-interactive'])
            raise paramiko.AuthenticationException('no')

    def auth_password(self, user, password):
        self._auth('password')

    def auth_publickey(self, user, key):
        self._auth('publickey')

    def open_session(self):
        self.log.append('open')
        acc = self.env['subs'][self.n_sub] if self.n_sub < len(self.env['subs']) else False
        ch = FakeChannel(self.log, self.n_sub, acc)
        self.n_sub += 1
        return ch

    def set_keepalive(self, k):
        pass

    def is_active(self):
        return self.active

    def close(self):
        self.active = False


def run_connect(case, shared_home=None):
    """case: verify, known (a|h|p|d), pinned (a|m|d), cb (bool), profile, negotiates, auths [bool], subs [bool], port"""
    K = keys()
    own_home = shared_home is None
    home = tempfile.mkdtemp(prefix='ncverif-home-') if own_home else shared_home
    old_home = os.environ.get('HOME')
    os.environ['HOME'] = home
    log = []
    host, port = case.get('host', 'device.example'), case.get('port', 830)
    try:
        if own_home:
            os.makedirs(os.path.join(home, '.ssh'))
            hk = paramiko.HostKeys()
            if case['known'] == 'h':
                hk.add(host, 'ssh-rsa', K['server'])
            elif case['known'] == 'p':
                hk.add('[%s]:%s' % (host, port), 'ssh-rsa', K['server'])
            elif case['known'] == 'd':
                hk.add(host, 'ssh-rsa', K['other'])
            elif case['known'] == 'k':
                # the key is filed under a THIRD name only (what a HostKeyAlias option would point at)
                hk.add('lab-gateway', 'ssh-rsa', K['server'])
                hk.add('[lab-gateway]:%s' % port, 'ssh-rsa', K['server'])
            elif case['known'] == 'w':
                # an OpenSSH pattern line that does NOT apply to this host (negated), and one for another domain
                hk.add('*.%s,!%s' % (host.split('.', 1)[-1], host), 'ssh-rsa', K['server'])
                hk.add('*.other.example', 'ssh-rsa', K['server'])
            elif case['known'] == 'i':
                hk.add('127.0.0.1', 'ssh-rsa', K['server'])
                hk.add('[127.0.0.1]:%s' % port, 'ssh-rsa', K['server'])
            hk.save(os.path.join(home, '.ssh', 'known_hosts'))
        keyfile = os.path.join(home, 'id_test')
        if not os.path.exists(keyfile):
            K['client'].write_private_key_file(keyfile, password='pw')
        env = {'log': log, 'negotiates': case['negotiates'], 'auths': case['auths'], 'subs': case['subs'], 'server_key': case.get('server_key', 'server'),
               'authx': case.get('authx', 0)}
        FakeTransport.current = env
        orig_T = sshmod.paramiko.Transport
        orig_post = sshmod.SSHSession._post_connect
        cb_calls = []

        def fp_of(k):
            hx = K[k].get_fingerprint().hex()
            return ':'.join(hx[i:i + 2] for i in range(0, len(hx), 2))
        presented = case.get('server_key', 'server')
        # the callback decides BY FINGERPRINT, as its documentation intends: an accepting caller has the presented key's fingerprint on its
        # allow-list, a refusing caller has the fingerprints of the other keys (those known_hosts may list for the host) but not this one
        allow = {fp_of(presented)} if case['cb'] else {fp_of(k) for k in ('server', 'other', 'third') if k != presented}

        def cb(h, fp):
            verdict = h == (None if case.get('nohost') else host) and str(fp).lower() in allow
            log.append('callback:%d' % (1 if verdict else 0))
            return verdict

        def post(self, timeout=None):
            log.append('hello')
        sshmod.paramiko.Transport = FakeTransport
        sshmod.SSHSession._post_connect = post
        # a real TCP connection (the peer has an address: 127.0.0.1), as connect(host=…) would have made after resolving the name
        lst = socket.socket(socket.AF_INET, socket.SOCK_STREAM)
        lst.bind(('127.0.0.1', 0))
        lst.listen(1)
        a = socket.create_connection(lst.getsockname())
        b, _ = lst.accept()
        lst.close()
        kw = dict(host=(None if case.get('nohost') else host), port=port, sock=a, hostkey_verify=case['verify'], allow_agent=False, look_for_keys=False, username='u',
                  device_params=dict(case.get('device_params') or {}, name=case['profile']))
        if case['profile'] in ('default', 'junos', 'nexus') and case['cb'] is not None:
            kw['unknown_host_cb'] = cb          # cb None: the caller passes no callback at all (the library's default refuses)
        if case['pinned'] == 'm':
            kw['hostkey_b64'] = base64.b64encode(K[case.get('server_key', 'server')].asbytes()).decode()
        elif case['pinned'] == 'd':
            kw['hostkey_b64'] = base64.b64encode(K['other' if case.get('server_key', 'server') != 'other' else 'third'].asbytes()).decode()
        if case.get('sshcfg'):
            # an OpenSSH client configuration file named by the caller: none of its options may weaken the host-key verification
            cfgp = os.path.join(home, 'sshconfig-%d' % (abs(hash(tuple(case['sshcfg']))) % 100000))
            with open(cfgp, 'w') as fh:
                fh.write('Host %s\n' % case.get('sshcfg_host', '*') + ''.join('    %s\n' % o for o in case['sshcfg']))
            kw['ssh_config'] = cfgp
        # credentials: n attempts = key file first (if any), then password
        n = len(case['auths'])
        if n >= 2:
            kw['key_filename'] = keyfile
        if n >= 1:
            kw['password'] = 'pw'
        try:
            m = manager.connect_ssh(**kw)
            res = 'connected'
        except terrors.SSHUnknownHostError:
            res = 'unknownHost'
        except terrors.AuthenticationError:
            res = 'authenticationError'
        except terrors.SSHError as e:
            res = 'negotiationFailed' if 'Negotiation' in str(e) else ('noSubsystem' if 'subsystem' in str(e) else 'sshError:' + str(e)[:40])
        except Exception as e:
            res = 'other:' + type(e).__name__
        finally:
            sshmod.paramiko.Transport = orig_T
            sshmod.SSHSession._post_connect = orig_post
            a.close()
            b.close()
        # for profiles that install their own callback the harness cannot log the call: infer it
        return {'trace': log, 'result': res, 'sub_names': list(env.get('sub_names', []))}
    finally:
        if old_home is None:
            os.environ.pop('HOME', None)
        else:
            os.environ['HOME'] = old_home
        if own_home:
            shutil.rmtree(home, ignore_errors=True)


def run_sequence(case):
    """Several connects in ONE process sharing one known_hosts file: case['entries'] = [[pattern, keyname]], case['connects'] = list of
    run_connect cases (with host / port / server_key).  Each must behave as it would alone."""
    K = keys()
    home = tempfile.mkdtemp(prefix='ncverif-home-')
    try:
        os.makedirs(os.path.join(home, '.ssh'))
        hk = paramiko.HostKeys()
        for pat, kn in case['entries']:
            hk.add(pat, 'ssh-rsa', K[kn])
        hk.save(os.path.join(home, '.ssh', 'known_hosts'))
        return {'results': [run_connect(c, shared_home=home) for c in case['connects']]}
    finally:
        shutil.rmtree(home, ignore_errors=True)
