"""Executes harness-level histories on the real session objects in lock-step and records, for each
command, the model operations it amounts to and the observation of the real system afterwards.

Commands (JSON lists):
  ['connect', timeout_mode]      timeout_mode in {'long','short'}: start _post_connect in a thread
  ['finish']                     let the connecting thread run from 'discarding listener' to its end
  ['expire']                     wait for the short hello timeout to expire
  ['req']                        create an asynchronous request (RPC.__init__ + send)
  ['w', answer]                  answer the transport call the worker is parked in
  ['take']                       take_notification(block=False)
  ['close']                      session.close() from a client thread
  ['ltrap']                      install a listener that issues the session's first request from inside the dispatch of a notification
"""
import threading
import time
import uuid

from core import hexb, hexs, hlist
from impl import lockstep as L

from ncclient import manager
from ncclient.operations import rpc as rpcmod
from ncclient.transport.session import HelloHandler, NetconfBase
from ncclient.transport.notify import Notification
from ncclient.xml_ import parse_root, qualify, new_ele, NETCONF_NOTIFICATION_NS
from lxml import etree


LIB_UUID4 = rpcmod.uuid4        # the library's own id generator, captured before any history replaces the name


class _IdGen:
    def __init__(self):
        self.n = 0

    def __call__(self):
        self.n += 1
        return uuid.UUID(int=self.n)


def msg_id(n):
    return uuid.UUID(int=n).urn


class _ParkingLogger:
    """Stands in for session.logger; parks the connecting thread at 'discarding listener'."""

    def __init__(self, runner):
        self.r = runner

    def debug(self, msg, *a, **k):
        if isinstance(msg, str) and msg.startswith('discarding listener') and threading.current_thread() is self.r.conn_thread:
            self.r.conn_parked.set()
            self.r.conn_release.wait()

    info = warning = error = exception = critical = lambda self, *a, **k: None


UNREF = object()


class Runner:
    def __init__(self, transport, profile, extra_caps=None):
        self.transport = transport
        self.profile = profile
        self.session, self.ctl, self.dh = L.make_session(transport, {'name': profile}, {'capabilities': list(extra_caps or [])})
        self.idgen = _IdGen()
        rpcmod.uuid4 = self.idgen
        self.mgr = None
        self.rpcs = []           # RPC objects (or None when construction failed)
        self.req_status = []
        self.taken = []
        self.lines = []          # model protocol lines
        self.obs = []            # one observation per command
        self.spans = []          # (first line, last line+1) per command
        self.sent = []
        self.conn_thread = None
        self.conn_parked = threading.Event()
        self.conn_release = threading.Event()
        self.conn_result = None
        self.conn_state = 'idle'
        self.closer = None
        self.close_end_emitted = False
        self.known_msgs = set()
        self.pending_lines = []
        self.sync_outcomes = {}
        self.torn_down = False
        orig_send = self.session.send

        def send(message):
            self.sent.append(message)
            return orig_send(message)
        self.session.send = send
        self.session.logger = _ParkingLogger(self)
        caps = list(self.session._client_capabilities)
        self.lines.append('ss init %d %d %d %s' % (1 if self.dh.perform_qualify_check() else 0, 1 if transport == 'ssh' else 0,
                                                   0 if transport == 'ssh' else 1, hlist(hexs(c) for c in caps)))

    # ---- message classification = the environment (verdicts of the real XML library) ----------
    def classify(self, raw):
        """Register what the real library says about message text `raw` (as dispatched)."""
        if raw in self.known_msgs:
            return
        self.known_msgs.add(raw)
        cls, mid = None, '-'
        root = None
        try:
            root = parse_root(raw)
        except Exception:
            try:
                handled = self.dh.handle_raw_dispatch(raw)
            except Exception:
                handled = None
                cls = 'fatal'
            if cls is None:
                if isinstance(handled, str):
                    try:
                        root = parse_root(handled)
                    except Exception:
                        cls = 'fatal'
                elif isinstance(handled, Exception):
                    cls = 'rawErr'
                else:
                    cls = 'drop'
        if root is not None:
            tag, attrs = root
            if tag == qualify('rpc-reply'):
                cls = 'replyBase'
            elif etree.QName(tag).localname == 'rpc-reply':
                cls = 'replyOther'
            elif tag == qualify('notification', NETCONF_NOTIFICATION_NS):
                cls = 'notification'
            elif tag in (qualify('hello'), 'hello'):
                cls = 'hello'
            else:
                cls = 'other'
            if 'message-id' in attrs:
                m = attrs['message-id']
                mid = None
                for i in range(1, self.idgen.n + 200):
                    if msg_id(i) == m:
                        mid = str(i)
                        break
                if mid is None:
                    mid = str(100000 + (hash(m) % 100000))
        try:
            Notification(raw)
            nok = 1
        except Exception:
            nok = 0
        hello = '-'
        try:
            sid, caps = HelloHandler.parse(raw)
            hello = '%s;%s' % (hexs(str(sid)), hlist(hexs(c) for c in caps))
        except Exception:
            pass
        self.lines.append('ss cls %s %s %s %d %s' % (hexs(raw), cls, mid, nok, hello))

    # ---- observation -----------------------------------------------------------------------------
    def observe(self):
        s = self.session
        pk = self.ctl.parked[0] if self.ctl.parked else ('notStarted' if not s.is_alive() and self.conn_state in ('idle',) else 'stopped')
        if self.conn_state == 'idle' and not s.is_alive() and not self.ctl.parked:
            pk = 'notStarted'
        rp = []
        parses = []          # per request: does the LIBRARY parse the reply it holds ('P'), refuse it ('X'), or is there none ('-')
        for r in self.rpcs:
            v = '-'
            if r is not None and r is not UNREF and getattr(r, 'reply', None) is not None and hasattr(r.reply, 'parse'):
                try:
                    r.reply.parse()
                    v = 'P'
                except Exception:
                    v = 'X'
            parses.append(v)
        for i, r in enumerate(self.rpcs, 1):
            if r is None:
                st = 'W'
            elif r is UNREF:
                st = 'U'            # nothing references this request any more: its own outcome is not observable
            elif r.event.is_set():
                if r.error is not None:
                    st = 'E' + str(L.err_kind(r.error))
                elif r.reply is not None:
                    st = 'R' + hexs(r.reply.xml)
                else:
                    st = 'W'
            else:
                st = 'W'
            rp.append('%d:%s' % (i, st))
        sid = '-' if s.id is None else hexs(str(s.id))
        sc = s.server_capabilities
        caps = '-' if sc is None else hlist(hexs(c) for c in sc)
        return {'pc': pk, 'connected': bool(s.connected), 'base11': getattr(s, '_base', None) == NetconfBase.BASE_11,
                'wire': bytes(self.ctl.wire).hex(), 'rpcs': rp, 'taken': list(self.taken), 'conn': self.conn_state,
                'sid': sid, 'caps': caps, 'reply_parses': parses}

    def _cmd_done(self, first):
        if self.pending_lines:
            self.lines += self.pending_lines
            self.pending_lines = []
        self._maybe_close_end()
        self.spans.append((first, len(self.lines)))
        self.obs.append(self.observe())

    def _maybe_close_end(self):
        if self.closer is not None and not self.close_end_emitted:
            self.closer.join(0.5 if self.ctl.parked and self.ctl.parked[0] == 'stopped' else 0.02)
            if not self.closer.is_alive():
                self.lines.append('ss op cCloseEnd')
                self.close_end_emitted = True

    # ---- commands ----------------------------------------------------------------------------------
    def run(self, cmd):
        first = len(self.lines)
        k = cmd[0]
        s = self.session
        if k == 'connect':
            hello = HelloHandler.build(s._client_capabilities, self.dh)
            tmo = 0.3 if cmd[1] == 'short' else 120

            def target():
                try:
                    s._post_connect(tmo) if True else None
                    self.conn_result = 'ok'
                except Exception as e:
                    self.conn_result = 'failed:' + type(e).__name__
            self.conn_thread = threading.Thread(target=target, daemon=True)
            self.conn_thread.start()
            self.lines += ['ss op kAddListeners', 'ss op kSendHello ' + hexb(hello.encode()), 'ss op kStart']
            # the worker has been started by _post_connect: wait until it parks
            t0 = time.time()
            while not s.is_alive() and self.conn_thread.is_alive() and time.time() - t0 < 5:
                time.sleep(0.001)
            self.ctl.wait_parked()
            self.conn_state = 'started'
        elif k == 'finish':
            if not self.conn_parked.wait(5):
                raise RuntimeError('connect thread did not reach the end of its wait')
            self.conn_release.set()
            self.conn_thread.join(5)
            self.conn_state = 'ok' if self.conn_result == 'ok' else 'failed'
            self.lines.append('ss op kFinish')
            if self.conn_result == 'ok':
                self.mgr = manager.Manager(s, self.dh, timeout=30)
                self.mgr.async_mode = True
        elif k == 'expire':
            self.conn_thread.join(5)
            self.conn_state = 'failed'
            self.lines.append('ss op kWaitExpire')
        elif k == 'req':
            n = len(self.rpcs) + 1
            before = len(self.sent)
            try:
                mgr = self.mgr or manager.Manager(s, self.dh, timeout=30)
                mgr.async_mode = True
                q = new_ele('q%d' % n)
                if n % 3:
                    q.text = 'ü€😀 ' * (n % 3) + 'é'         # multi-byte characters: short writes and chunk sizes count OCTETS
                r = mgr.rpc(q)
                self.rpcs.append(r)
                self.req_status.append('sent')
            except Exception as e:
                # RPC.__init__ registered the request before send() refused it
                self.rpcs.append(None)
                self.req_status.append('refused:' + L.err_kind(e) if L.err_kind(e) else 'refused')
            self.lines.append('ss op cNew %d' % n)
            if len(self.sent) > before:
                self.lines.append('ss op cSend ' + hexb(self.sent[-1].encode()))
            else:
                self.lines.append('ss op cSend b')
        elif k == 'sreq':
            # a SYNCHRONOUS request whose caller gives up after a short timeout (the request stays unanswered for now)
            n = len(self.rpcs) + 1
            before = len(self.sent)
            from ncclient.operations.rpc import GenericRPC
            from ncclient.operations.errors import TimeoutExpiredError
            box = {}
            unref = len(cmd) > 1 and cmd[1] == 'unref'
            try:
                if unref:
                    # the way users issue it: Manager.execute builds the RPC object and drops it when the call raises
                    mgr = manager.Manager(s, self.dh, timeout=0.05)
                    mgr.raise_mode = 0
                    self.rpcs.append(UNREF)
                    r = None
                else:
                    r = GenericRPC(s, self.dh, async_mode=False, timeout=0.05, raise_mode=0)
                    self.rpcs.append(r)

                def call():
                    try:
                        if unref:
                            mgr.dispatch(new_ele('sq%d' % n))
                        else:
                            r.request(new_ele('sq%d' % n))
                        box['out'] = 'returned'
                    except TimeoutExpiredError:
                        box['out'] = 'timeout'
                    except Exception as e:
                        box['out'] = 'exc:' + type(e).__name__
                th = threading.Thread(target=call, daemon=True)
                th.start()
                th.join(5)
                if unref:
                    del mgr, th
                    import gc
                    gc.collect()
                self.req_status.append('sent' if len(self.sent) > before else 'refused')
                self.sync_outcomes[n] = box.get('out', 'hung')
            except Exception as e:
                self.rpcs.append(None)
                self.req_status.append('refused')
            self.lines.append('ss op cNew %d' % n)
            if len(self.sent) > before:
                self.lines.append('ss op cSend ' + hexb(self.sent[-1].encode()))
            else:
                self.lines.append('ss op cSend b')
        elif k == 'trap':
            # a pending request object owned by the harness: when the worker delivers an error to it, it
            # creates (registers + sends) another request, i.e. a client thread doing so at that very moment
            n = len(self.rpcs) + 1
            runner = self

            class Trap:
                def __init__(self):
                    self.event = threading.Event()
                    self.error = None
                    self.reply = None
                    self.fired = False

                def deliver_error(self, err):
                    self.error = err
                    self.event.set()
                    if not self.fired:
                        self.fired = True
                        runner._inner_request()

                def deliver_reply(self, raw):
                    class _R:
                        xml = raw
                    self.reply = _R()
                    self.event.set()
            t = Trap()
            from ncclient.operations.rpc import RPCReplyListener
            self.idgen()                      # consume id n so that indices and message-ids stay aligned
            RPCReplyListener(s, self.dh).register(msg_id(n), t)
            self.rpcs.append(t)
            self.req_status.append('trap')
            self.lines.append('ss op cNew %d' % n)
        elif k == 'ltrap':
            # a listener owned by the harness: while the worker is dispatching the first <notification> to the listeners, it issues the
            # session's FIRST request (which installs the reply listener), i.e. an application thread doing so at that very moment
            from ncclient.transport.session import SessionListener
            runner = self

            class LTrap(SessionListener):
                fired = False

                def callback(self, root, raw):
                    tag = root[0] if isinstance(root, tuple) else root
                    if not LTrap.fired and str(tag).endswith('}notification'):
                        LTrap.fired = True
                        runner.ltrap_fired = True
                        runner.ltrap_fired_now = True
                        runner._inner_request()

                def errback(self, ex):
                    pass
            self.ltrap_fired = False
            s.add_listener(LTrap())
        elif k == 'w':
            kind = self.ctl.parked[0]
            a = cmd[1]
            if kind == 'ready':
                self.lines.append('ss op wTop %d' % (1 if a else 0))
                self.ctl.answer(bool(a))
            elif kind == 'write':
                if a == 'err':
                    self.lines.append('ss op wWriteErr')
                    self.ctl.answer(L.InjectedReadError('injected write error'))
                else:
                    self.lines.append('ss op wWrite %d' % int(a))
                    self.ctl.answer(int(a))
            elif kind == 'select':
                self.lines.append('ss op wSelect %d' % (1 if a else 0))
                self.ctl.answer([1] if a else [])
            elif kind == 'read':
                if a == 'eof':
                    self.lines.append('ss op wRead eof')
                    self.ctl.answer(b'')
                elif a == 'err':
                    self.lines.append('ss op wRead err')
                    self.ctl.answer(L.InjectedReadError('injected'))
                else:
                    data = bytes.fromhex(a)
                    for m in cmd[2] if len(cmd) > 2 else []:
                        self.classify(m)
                    at = len(self.lines)
                    self.lines.append('ss op wRead ' + hexb(data))
                    self.ctl.answer(data)
                    if getattr(self, 'ltrap_fired_now', False):
                        # the request was issued from INSIDE the dispatch of a message of this read, i.e. before the worker came back
                        # to the top of its loop: in the model it precedes the read step (it commutes with the dispatch itself)
                        self.ltrap_fired_now = False
                        self.lines[at:at] = self.pending_lines
                        self.pending_lines = []
            elif kind == 'close':
                self.lines.append('ss op wCloseSelf')
                self.ctl.answer(None)
            else:
                raise RuntimeError('worker is not parked: %r' % (self.ctl.parked,))
        elif k == 'take':
            # a blocking take (short timeout) once the worker is gone, a non-blocking one otherwise: both must hand out what is queued
            stopped = bool(self.ctl.parked) and self.ctl.parked[0] == 'stopped'
            n = s.take_notification(True, 0.02) if stopped else s.take_notification(False, None)
            if n is not None:
                self.taken.append(hexs(n.notification_xml))
            self.lines.append('ss op cTake')
        elif k == 'close':
            if self.closer is None:
                self.closer = threading.Thread(target=s.close, daemon=True)
                self.closer.start()
                t0 = time.time()
                while not s._closing.is_set() and time.time() - t0 < 5:
                    time.sleep(0.001)
                time.sleep(0.002)
                self.lines.append('ss op cCloseBegin')
        else:
            raise ValueError(cmd)
        self._cmd_done(first)

    def _inner_request(self):
        if self.torn_down:
            return
        n = len(self.rpcs) + 1
        before = len(self.sent)
        try:
            mgr = manager.Manager(self.session, self.dh, timeout=30)
            mgr.async_mode = True
            r = mgr.rpc(new_ele('inner%d' % n))
            self.rpcs.append(r)
            self.req_status.append('sent')
        except Exception as e:
            self.rpcs.append(None)
            self.req_status.append('refused')
        self.pending_lines.append('ss op cNew %d' % n)
        if len(self.sent) > before:
            self.pending_lines.append('ss op cSend ' + hexb(self.sent[-1].encode()))
        else:
            self.pending_lines.append('ss op cSend b')

    def finish_all(self):
        """Release every thread so that the process can go on (worker may stay parked; daemon)."""
        self.torn_down = True
        self.conn_release.set()
        try:
            if self.ctl.parked and self.ctl.parked[0] != 'stopped':
                self.ctl.ans.put(L.InjectedReadError('teardown'))
        except Exception:
            pass


def parse_model_obs(line):
    t = line.split(' ')
    return {'pc': t[0], 'connected': t[1] == 'c1', 'base11': t[2] == 'b1', 'wire': t[3][1:],
            'rpcs': [] if t[4] == '_' else t[4].split(','), 'taken': [] if t[5] == '_' else t[5].split(','),
            'conn': t[6], 'sid': t[7], 'caps': t[8]}
