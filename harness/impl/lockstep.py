"""Lock-step control of the REAL ncclient session worker, without source hooks.

A subclass of the real transport session class (UnixSocketSession / TLSSession / SSHSession) is given
a fake socket / channel owned by the harness.  Every transport primitive the worker calls
(`send_ready`, `send`, `select`, `recv`, and the worker's own `close`) blocks on a rendezvous with
the controller, which supplies the answer.  Between two rendezvous the real `Session.run`,
`parser.parse`, `_dispatch_message`, `_dispatch_error`, `RPCReplyListener`, `HelloHandler`,
`NotificationHandler` run unmodified, and nothing else runs, so a history fixes the schedule.
"""
import logging
import queue
import threading

logging.disable(logging.CRITICAL)

from ncclient import manager, operations                       # noqa: E402
from ncclient.transport import errors as terrors                # noqa: E402
from ncclient.transport.unixSocket import UnixSocketSession     # noqa: E402
from ncclient.transport.tls import TLSSession                   # noqa: E402
from ncclient.transport.ssh import SSHSession                   # noqa: E402
from ncclient.operations.errors import OperationError           # noqa: E402
from ncclient.operations.rpc import RPCError                    # noqa: E402


class WorkerGone(Exception):
    pass


class Ctl:
    def __init__(self):
        self.req = queue.Queue()
        self.ans = queue.Queue()
        self.wire = bytearray()
        self.parked = None          # (kind, arg) the worker is blocked in, or ('stopped', None)
        self.thread = None
        self.closed_by = []         # who called close on the fake transport
        self.listener_calls_after_close = 0
        self.foreign_writes = []    # transport writes issued by a thread other than the session thread

    # -- worker side ------------------------------------------------------------------------
    def ask(self, kind, arg=None):
        self.req.put((kind, arg))
        a = self.ans.get()
        if isinstance(a, BaseException):
            raise a
        return a

    def in_worker(self):
        return self.thread is not None and threading.current_thread() is self.thread

    # -- controller side --------------------------------------------------------------------
    def wait_parked(self, timeout=10.0):
        waited = 0.0
        while True:
            try:
                self.parked = self.req.get(timeout=0.005)
                return self.parked
            except queue.Empty:
                waited += 0.005
                if self.thread is None or not self.thread.is_alive():
                    # the thread may have queued a request just before we looked
                    try:
                        self.parked = self.req.get_nowait()
                        return self.parked
                    except queue.Empty:
                        self.parked = ('stopped', None)
                        return self.parked
                if waited > timeout:
                    raise RuntimeError('worker neither parked nor stopped')

    def answer(self, value):
        assert self.parked and self.parked[0] != 'stopped', self.parked
        self.ans.put(value)
        return self.wait_parked()


class FakeSocket:
    """Stands in for the socket of UnixSocketSession / TLSSession."""

    def __init__(self, ctl):
        self.ctl = ctl
        self.closed = False

    def recv(self, n):
        if not self.ctl.in_worker():
            raise RuntimeError('transport read from a thread other than the session thread')
        stash = getattr(self, '_record_rest', b'')
        if stash:
            # the rest of a TLS record that is already decrypted (see pending()): handed out without waiting for the peer
            self._record_rest = stash[n:]
            return stash[:n]
        r = self.ctl.ask('read', n)
        if getattr(self, 'records', False) and isinstance(r, (bytes, bytearray)) and len(r) > n:
            # the scripted peer wrote one TLS record of more than n octets: recv(n) returns its first n octets, the rest is pending
            self._record_rest = bytes(r[n:])
            r = bytes(r[:n])
        return r

    def pending(self):
        # ssl.SSLSocket.pending(): octets of an already decrypted record
        return len(getattr(self, '_record_rest', b''))

    def send(self, data):
        if not self.ctl.in_worker():
            # a thread other than the session thread writes to the transport: the octets go out at once, wherever the session
            # thread is with its own frame (the wire then shows what a peer would see)
            self.ctl.foreign_writes.append(len(data))
            self.ctl.wire += bytes(data)
            return len(data)
        n = self.ctl.ask('write', bytes(data))
        if n > 0:
            self.ctl.wire += bytes(data)[:n]
        return n

    def close(self):
        self.ctl.closed_by.append('worker' if self.ctl.in_worker() else 'client')
        if self.ctl.in_worker():
            self.ctl.ask('close')
        self.closed = True

    def fileno(self):
        return -1


class FakeChannel(FakeSocket):
    """Stands in for paramiko's Channel in SSHSession."""

    def send_ready(self):
        if not self.ctl.in_worker():
            return True
        return self.ctl.ask('ready')

    def close(self):
        # SSHSession.close() closes the transport first (that is the rendezvous point)
        self.closed = True

    def set_name(self, n):
        pass

    # a subsystem that writes nothing to stderr (the stderr case is exercised over the real paramiko channel, impl/e2e.py run_stderr)
    def recv_stderr_ready(self):
        return False

    def recv_ready(self):
        return True

    eof_received = False


class FakeTransport:
    def __init__(self, ctl, chan):
        self.ctl = ctl
        self.chan = chan
        self.active = True

    def is_active(self):
        return self.active

    def close(self):
        # paramiko: closing the transport closes its channels (the worker then reads EOF)
        self.active = False
        self.ctl.closed_by.append('worker' if self.ctl.in_worker() else 'client')
        if self.ctl.in_worker():
            self.ctl.ask('close')


def make_session(kind, device_params=None, nc_params=None, ignore_errors=None):
    """-> (session, ctl, device_handler).  The session counts as transport-connected."""
    dh = manager.make_device_handler(device_params or {'name': 'default'}, ignore_errors)
    dh.add_additional_netconf_params(dict(nc_params or {}))
    ctl = Ctl()
    base = {'unix': UnixSocketSession, 'tls': TLSSession, 'ssh': SSHSession}[kind]

    class LockstepSession(base):
        def _transport_register(self, selector, event):
            selector.select = lambda timeout=None: ctl.ask('select')

        def run(self):
            ctl.thread = threading.current_thread()
            base.run(self)

    s = LockstepSession(dh)
    if kind == 'ssh':
        chan = FakeChannel(ctl)
        s._channel = chan
        s._transport = FakeTransport(ctl, chan)
        s._channel_id = 1
        # virtual time for the waits of SSHSession.close(): `self.join(10)` becomes a 10 ms wait, so that "the worker is busy for
        # longer than one join timeout" is an ordinary schedule of the lock-step run instead of a 10 s sleep
        real_join = s.join
        s.join = lambda timeout=None: real_join(None if timeout is None else min(timeout, 0.01))
    else:
        s._socket = FakeSocket(ctl)
        s._socket.records = (kind == 'tls')        # only an SSL socket holds the rest of a record (pending())
    s._connected = True
    s._closing.clear()
    ctl.thread = s
    return s, ctl, dh


def err_kind(e):
    """Real exception -> the model's ErrK enum (classes only, never texts)."""
    if e is None:
        return None
    try:
        from lxml.etree import XMLSyntaxError
    except Exception:                                   # pragma: no cover
        XMLSyntaxError = ()
    if isinstance(e, terrors.SessionCloseError):
        return 'sessionClose'
    if isinstance(e, terrors.NetconfFramingError):
        return 'framing'
    if isinstance(e, UnicodeDecodeError):
        return 'decode'
    if isinstance(e, RPCError):
        return 'rawDispatch'
    if isinstance(e, OperationError):
        return 'operation'
    if isinstance(e, XMLSyntaxError):
        return 'xml'
    if isinstance(e, (terrors.TransportError, OSError)):
        return 'transport'
    return 'other:' + type(e).__name__


class InjectedReadError(OSError):
    pass
