"""Scripted NETCONF servers for end-to-end runs of the real ncclient over real transports.

  UnixServer   a listening AF_UNIX socket in a private temp dir   (manager.connect_uds)
  TlsServer    ssl on loopback with the repo's test certificate    (manager.connect_tls)
  SshServer    in-process paramiko server on a socketpair           (manager.connect_ssh(sock=...))

The server logic is transport independent: it sends its <hello>, reads the client's byte stream,
decodes it with the reference RFC 4742/6242 decoders, and for every request calls
`handler(server, request_text) -> list of actions`:
    ('send', text)                 frame `text` in the negotiated framing and send it
    ('raw', bytes)                 send these bytes as they are
    ('sleep', seconds)
    ('close',)                     close the connection
    ('segs', [bytes, ...], delay)  send pre-cut segments with a delay between them
Everything received and sent is recorded.
"""
import os
import re
import shutil
import socket
import ssl
import tempfile
import threading
import time

from oracle.framing_spec import decode10, decode11, DELIM10

BASE_NS = 'urn:ietf:params:xml:ns:netconf:base:1.0'
B10 = 'urn:ietf:params:netconf:base:1.0'
B11 = 'urn:ietf:params:netconf:base:1.1'
STD_CAPS = [B10, B11,
            'urn:ietf:params:netconf:capability:writable-running:1.0',
            'urn:ietf:params:netconf:capability:candidate:1.0',
            'urn:ietf:params:netconf:capability:confirmed-commit:1.0',
            'urn:ietf:params:netconf:capability:confirmed-commit:1.1',
            'urn:ietf:params:netconf:capability:rollback-on-error:1.0',
            'urn:ietf:params:netconf:capability:startup:1.0',
            'urn:ietf:params:netconf:capability:url:1.0?scheme=http,ftp,file',
            'urn:ietf:params:netconf:capability:validate:1.0',
            'urn:ietf:params:netconf:capability:validate:1.1',
            'urn:ietf:params:netconf:capability:xpath:1.0',
            'urn:ietf:params:netconf:capability:notification:1.0',
            'urn:ietf:params:netconf:capability:interleave:1.0',
            'urn:ietf:params:netconf:capability:with-defaults:1.0?basic-mode=explicit&also-supported=report-all,trim']


def hello_xml(caps, sid=4711):
    body = ''.join('<capability>%s</capability>' % c.replace('&', '&amp;') for c in caps)
    return '<hello xmlns="%s"><capabilities>%s</capabilities><session-id>%s</session-id></hello>' % (BASE_NS, body, sid)


def ok_reply(mid):
    return '<rpc-reply message-id="%s" xmlns="%s"><ok/></rpc-reply>' % (mid, BASE_NS)


def msg_id_of(text):
    m = re.search(r'message-id="([^"]+)"', text)
    return m.group(1) if m else None


class ServerCore:
    def __init__(self, caps=None, handler=None, client_has_11=True, send_hello=True, hello_text=None, sid=4711):
        self.caps = list(STD_CAPS if caps is None else caps)
        self.handler = handler or (lambda srv, req: [('send', ok_reply(msg_id_of(req)))])
        self.base11 = (B11 in self.caps) and client_has_11
        self.send_hello = send_hello
        self.hello_text = hello_text
        self.sid = sid
        self.rx = bytearray()
        self.tx = bytearray()
        self.requests = []          # decoded request texts, in arrival order
        self.client_hello = None
        self.eof_seen = threading.Event()
        self.done = threading.Event()
        self.error = None
        self.conn = None
        self.lock = threading.Lock()
        self.closed = False
        self.n_handled = 0
        self.stop_reading = threading.Event()     # a peer that stays connected but no longer reads

    # ---- transport primitives (overridden) ----
    def _send(self, b):
        self.conn.sendall(b)

    def _recv(self):
        return self.conn.recv(65536)

    def _close(self):
        # shutdown first: close() alone does not end the connection while another thread of this server is blocked in recv() on
        # the same socket (the peer would then see no EOF until that recv returns)
        try:
            self.conn.shutdown(socket.SHUT_RDWR)
        except Exception:
            pass
        try:
            self.conn.close()
        except Exception:
            pass

    # ---- protocol ----
    def frame(self, text):
        b = text.encode('utf-8')
        if self.base11:
            return b'\n#%d\n' % len(b) + b + b'\n##\n'
        return b + DELIM10

    def send_bytes(self, b):
        with self.lock:
            if self.closed:
                return
            self.tx += b
            try:
                self._send(b)
            except Exception as e:
                self.error = e

    def do_actions(self, actions):
        for a in actions:
            if a[0] == 'send':
                self.send_bytes(self.frame(a[1]))
            elif a[0] == 'raw':
                self.send_bytes(a[1])
            elif a[0] == 'sleep':
                time.sleep(a[1])
            elif a[0] == 'segs':
                for s in a[1]:
                    self.send_bytes(s)
                    if a[2]:
                        time.sleep(a[2])
            elif a[0] == 'close':
                self.close()
                return False
        return True

    def close(self):
        with self.lock:
            if not self.closed:
                self.closed = True
                self._close()

    def decode_rx(self):
        w = bytes(self.rx)
        i = w.find(DELIM10)
        if i < 0:
            return None, []
        hello = w[:i]
        rest = w[i + len(DELIM10):]
        payloads, _ = (decode11 if self.base11 else decode10)(rest)
        return hello, payloads

    def serve(self):
        try:
            if self.send_hello:
                self.send_bytes((self.hello_text if self.hello_text is not None else hello_xml(self.caps, self.sid)).encode('utf-8') + DELIM10)
            while not self.closed:
                if self.stop_reading.is_set():
                    time.sleep(0.02)
                    continue
                try:
                    d = self._recv()
                except Exception:
                    d = b''
                if not d:
                    if not self.closed:          # EOF caused by the PEER (after our own shutdown recv returns b'' as well)
                        self.eof_seen.set()
                    break
                self.rx += d
                hello, payloads = self.decode_rx()
                if hello is not None and self.client_hello is None:
                    self.client_hello = hello.decode('utf-8', 'replace')
                    # chunked framing only if the CLIENT advertised base:1.1 too (e.g. the alu profile does not)
                    self.base11 = (B11 in self.caps) and ('<capability>%s</capability>' % B11 in self.client_hello.replace('nc:', ''))
                    hello, payloads = self.decode_rx()
                while self.n_handled < len(payloads):
                    req = payloads[self.n_handled].decode('utf-8', 'replace')
                    if not self.base11:
                        req = req.strip()
                    self.n_handled += 1
                    self.requests.append(req)
                    if not self.do_actions(self.handler(self, req)):
                        break
        except Exception as e:      # pragma: no cover
            self.error = e
        finally:
            self.close()
            self.done.set()


class UnixServer(ServerCore):
    def __init__(self, **kw):
        ServerCore.__init__(self, **kw)
        self.dir = tempfile.mkdtemp(prefix='ncverif-uds-')
        self.path = os.path.join(self.dir, 's')
        self.lsock = socket.socket(socket.AF_UNIX, socket.SOCK_STREAM)
        self.lsock.bind(self.path)
        self.lsock.listen(1)
        self.thread = threading.Thread(target=self._run, daemon=True)
        self.thread.start()

    def _run(self):
        try:
            self.lsock.settimeout(10)
            self.conn, _ = self.lsock.accept()
        except Exception as e:
            self.error = e
            self.done.set()
            return
        self.serve()

    def cleanup(self):
        self.close()
        try:
            self.lsock.close()
        except Exception:
            pass
        shutil.rmtree(self.dir, ignore_errors=True)

    def connect(self, **kw):
        from ncclient import manager
        return manager.connect_uds(path=self.path, **kw)


class TlsServer(ServerCore):
    def __init__(self, certfile, keyfile, **kw):
        ServerCore.__init__(self, **kw)
        self.ctx = ssl.SSLContext(ssl.PROTOCOL_TLS_SERVER)
        self.ctx.load_cert_chain(certfile, keyfile)
        self.lsock = socket.socket(socket.AF_INET, socket.SOCK_STREAM)
        self.lsock.setsockopt(socket.SOL_SOCKET, socket.SO_REUSEADDR, 1)
        self.lsock.bind(('127.0.0.1', 0))
        self.lsock.listen(1)
        self.port = self.lsock.getsockname()[1]
        self.handshake_ok = None
        self.thread = threading.Thread(target=self._run, daemon=True)
        self.thread.start()

    def _run(self):
        # like a real server, keeps accepting: a client that gives up on one connection may come back with another one at once
        timeout = 10
        for attempt in range(3):
            try:
                self.lsock.settimeout(timeout)
                raw, _ = self.lsock.accept()
            except Exception as e:
                if attempt == 0:
                    self.error = e
                break
            timeout = 0.5
            self.connections = getattr(self, 'connections', 0) + 1
            try:
                self.conn = self.ctx.wrap_socket(raw, server_side=True)
                self.handshake_ok = True
            except Exception as e:
                self.handshake_ok = False
                self.error = e
                try:
                    d = raw.recv(100)
                    self.rx += d
                except Exception:
                    pass
                raw.close()
                continue
            self.closed = False
            self.done.clear()
            self.serve()
            if self.rx:
                return              # NETCONF octets arrived on this connection: it was the session
        self.done.set()

    def cleanup(self):
        self.close()
        try:
            self.lsock.close()
        except Exception:
            pass


def run_with_timeout(fn, timeout):
    """Run fn() in a thread; -> ('ok', value) | ('exc', exception) | ('hang', None)."""
    box = {}

    def target():
        try:
            box['v'] = fn()
        except BaseException as e:       # noqa
            box['e'] = e
    t = threading.Thread(target=target, daemon=True)
    t0 = time.time()
    t.start()
    t.join(timeout)
    dt = time.time() - t0
    if t.is_alive():
        return 'hang', None, dt
    if 'e' in box:
        return 'exc', box['e'], dt
    return 'ok', box.get('v'), dt


class SshServer(ServerCore):
    """In-process paramiko server on a socketpair; the client end is handed to manager.connect_ssh(sock=...)."""

    def __init__(self, password='pw', accept_subsystems=('netconf',), **kw):
        import paramiko
        ServerCore.__init__(self, **kw)
        self.client_sock, self.server_sock = socket.socketpair()
        self.host_key = paramiko.RSAKey.generate(1024)
        self.auth_attempts = []
        self.subsystem_requests = []
        self.password = password
        self.accept_subsystems = accept_subsystems
        self.chan = None
        self.chan_ready = threading.Event()
        outer = self

        class Srv(paramiko.ServerInterface):
            def check_auth_password(self, username, password):
                outer.auth_attempts.append(('password', username, password == outer.password))
                return paramiko.AUTH_SUCCESSFUL if password == outer.password else paramiko.AUTH_FAILED

            def check_auth_publickey(self, username, key):
                outer.auth_attempts.append(('publickey', username, False))
                return paramiko.AUTH_FAILED

            def get_allowed_auths(self, username):
                return 'password,publickey'

            def check_channel_request(self, kind, chanid):
                return paramiko.OPEN_SUCCEEDED

            def check_channel_subsystem_request(self, channel, name):
                outer.subsystem_requests.append(name)
                if name in outer.accept_subsystems:
                    outer.chan = channel
                    outer.chan_ready.set()
                    return True
                return False
        self.transport = paramiko.Transport(self.server_sock)
        self.transport.add_server_key(self.host_key)
        self.transport.start_server(event=threading.Event(), server=Srv())
        self.thread = threading.Thread(target=self._run, daemon=True)
        self.thread.start()

    def _run(self):
        if not self.chan_ready.wait(10):
            self.done.set()
            return
        self.conn = self.chan
        self.serve()

    def _send(self, b):
        self.conn.sendall(b)

    def _recv(self):
        return self.conn.recv(65536)

    def _close(self):
        try:
            if self.conn is not None:
                self.conn.close()
            self.transport.close()
        except Exception:
            pass

    def cleanup(self):
        self.close()
        try:
            self.transport.close()
            self.client_sock.close()
            self.server_sock.close()
        except Exception:
            pass

    def connect(self, password='pw', **kw):
        from ncclient import manager
        return manager.connect_ssh(host='device.example', sock=self.client_sock, username='u', password=password, hostkey_verify=False,
                                   allow_agent=False, look_for_keys=False, **kw)
