"""Adapters that run the REAL inbound/outbound framing code of ncclient on stub sessions."""
import io
import logging

logging.disable(logging.CRITICAL)

from ncclient.transport import parser as ncparser          # noqa: E402
from ncclient.transport.session import NetconfBase          # noqa: E402


class _DH:
    def handle_raw_dispatch(self, raw):
        return None


class StubSession:
    """Just enough of a Session for DefaultXMLParser: buffer, message list, base, dispatch sink."""

    def __init__(self, base11):
        self._buffer = io.BytesIO()
        self._message_list = []
        self._base = NetconfBase.BASE_11 if base11 else NetconfBase.BASE_10
        self._device_handler = _DH()
        self.delivered = []
        self.parser = ncparser.DefaultXMLParser(self)

    def _dispatch_message(self, raw):
        self.delivered.append(raw)


def exc_class(e):
    """Small enum of error classes (never message texts)."""
    from ncclient.transport.errors import NetconfFramingError, SessionCloseError, TransportError
    if isinstance(e, NetconfFramingError):
        return 'FramingError'
    if isinstance(e, UnicodeDecodeError):
        return 'DecodeError'
    if isinstance(e, SessionCloseError):
        return 'SessionClose'
    if isinstance(e, TransportError):
        return 'TransportError'
    if isinstance(e, RecursionError):
        return 'RecursionError'
    return 'Other:' + type(e).__name__


def feed_parser(base11, segments):
    """Feed byte segments to the real DefaultXMLParser. Returns per-segment delivered counts,
    delivered messages (as str), error class (parsing stops at the first error, as the worker does)."""
    s = StubSession(base11)
    counts = []
    err = None
    for seg in segments:
        try:
            s.parser.parse(bytes(seg))
        except Exception as e:       # the worker's `except Exception`
            err = exc_class(e)
            counts.append(len(s.delivered))
            break
        counts.append(len(s.delivered))
    return {'delivered': list(s.delivered), 'counts': counts, 'error': err}
