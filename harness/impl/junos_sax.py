"""Drives the REAL Junos streaming-filter path: SSHSession + JunosXMLParser (SAX) + RPCReplyListener +
ExecuteRpc on a session that is not started; the harness plays the worker loop's receive branch
(`parser.parse(data)` with the SAXFilterXMLNotFoundError fallback of Session.run) segment by segment."""
import logging

logging.disable(logging.CRITICAL)

from ncclient import manager                                              # noqa: E402
from ncclient.transport.ssh import SSHSession                             # noqa: E402
from ncclient.transport import parser as ncparser                         # noqa: E402
from ncclient.operations.third_party.juniper.rpc import ExecuteRpc        # noqa: E402
from ncclient.operations import RaiseMode                                 # noqa: E402

BASE = 'urn:ietf:params:xml:ns:netconf:base:1.0'


def worker_receive(session, data):
    """The receive branch of Session.run, verbatim."""
    try:
        session.parser.parse(data)
    except ncparser.SAXFilterXMLNotFoundError:
        session.parser = ncparser.DefaultXMLParser(session)
        session.parser.parse(data)


def run_pair(flt, stream_a, cut, stream_b):
    """Two sessions in one process whose requests carry the SAME filter text: A reads stream_a[:cut], then B reads all of stream_b,
    then A reads the rest.  -> (reply of A, reply of B, error)"""
    sess = []
    for name in ('a', 'b'):
        dh = manager.make_device_handler({'name': 'junos', 'use_filter': True})
        s = SSHSession(dh)
        s._connected = True
        s.parser = dh.get_xml_parser(s)
        r = ExecuteRpc(s, dh, async_mode=True, raise_mode=RaiseMode.NONE)
        lst = r._listener
        with lst._lock:
            del lst._id2rpc[r._id]
            r._id = 'm1'
            lst._id2rpc[r._id] = r
        r._filter_xml = flt
        sess.append((s, r))
    err = None
    try:
        worker_receive(sess[0][0], bytes(stream_a[:cut]))
        worker_receive(sess[1][0], bytes(stream_b))
        worker_receive(sess[0][0], bytes(stream_a[cut:]))
    except Exception as e:
        err = type(e).__name__
    return {'a': sess[0][1]._reply.xml if sess[0][1]._reply is not None else None,
            'b': sess[1][1]._reply.xml if sess[1][1]._reply is not None else None, 'error': err}


def run(use_filter, requests, segments, as_element=False, timed_out=(), issue_at=None):
    """requests: list of filter_xml strings or None (one async ExecuteRpc each, message-ids m1, m2, …);
    segments: list of bytes fed in order.  -> list of raw reply texts (or None) per request, + error"""
    dh = manager.make_device_handler({'name': 'junos', 'use_filter': use_filter})
    s = SSHSession(dh)
    s._connected = True
    s.parser = dh.get_xml_parser(s)
    rpcs = []
    issue_at = issue_at or {}
    late = []
    for i, flt in enumerate(requests, 1):
        if issue_at.get(i - 1):
            late.append((i, flt))
            rpcs.append(None)
            continue
        r = ExecuteRpc(s, dh, async_mode=True, raise_mode=RaiseMode.NONE)
        # deterministic ids
        lst = r._listener
        with lst._lock:
            del lst._id2rpc[r._id]
            r._id = 'm%d' % i
            lst._id2rpc[r._id] = r
        if as_element and flt is not None:
            from lxml import etree
            flt = etree.fromstring(flt)        # the filter handed over as an lxml element (documented alternative to a string)
        r._filter_xml = flt
        rpcs.append(r)
        if (i - 1) in timed_out:
            # this request is a SYNCHRONOUS call whose caller gave up (TimeoutExpiredError) before the reply below arrives
            from ncclient.operations.errors import TimeoutExpiredError
            from ncclient.xml_ import new_ele
            r._async = False
            r._timeout = 0.01
            try:
                r._request(new_ele('get-late'))
            except TimeoutExpiredError:
                pass
            except Exception:
                pass
    err = None

    def issue(i, flt):
        # a request issued through the PUBLIC call while earlier replies are (partly) in: ExecuteRpc.request(rpc, filter_xml)
        from ncclient.xml_ import new_ele
        r = ExecuteRpc(s, dh, async_mode=True, raise_mode=RaiseMode.NONE)
        lst = r._listener
        with lst._lock:
            del lst._id2rpc[r._id]
            r._id = 'm%d' % i
            lst._id2rpc[r._id] = r
        if as_element and flt is not None:
            from lxml import etree
            flt = etree.fromstring(flt)
        r.request(new_ele('get-something'), filter_xml=flt)
        rpcs[i - 1] = r
    for j, seg in enumerate(segments):
        for (i, flt) in [x for x in late if issue_at.get(x[0] - 1) == j]:
            issue(i, flt)
        try:
            worker_receive(s, bytes(seg))
        except Exception as e:
            err = type(e).__name__
            break
    out = []
    for r in rpcs:
        out.append(r._reply.xml if (r is not None and r._reply is not None) else None)
    return {'replies': out, 'error': err, 'residual': s._buffer.getvalue().decode('utf-8', 'replace')}
