"""Drives the REAL Junos streaming-filter path: SSHSession + JunosXMLParser (SAX) + RPCReplyListener +
ExecuteRpc on a session that is not started; the harness plays the worker loop's receive branch
(`parser.parse(data)` with the SAXFilterXMLNotFoundError fallback of Session.run) segment by segment."""
import logging

logging.disable(logging.CRITICAL)

from ncclient import manager                                              # noqa: E402
from ncclient.transport.ssh import SSHSession                             # noqa: E402
from ncclient.transport import parser as ncparser                         # noqa: E402
from ncclient.operations.third_party.juniper.rpc import ExecuteRpc        # noqa: E402
from ncclient.operations import RaiseMode                                 # noqa: E402

BASE = 'urn:ietf:params:xml:ns:netconf:base:1.0'


def worker_receive(session, data):
    """The receive branch of Session.run, verbatim."""
    try:
        session.parser.parse(data)
    except ncparser.SAXFilterXMLNotFoundError:
        session.parser = ncparser.DefaultXMLParser(session)
        session.parser.parse(data)


def run(use_filter, requests, segments, as_element=False):
    """requests: list of filter_xml strings or None (one async ExecuteRpc each, message-ids m1, m2, …);
    segments: list of bytes fed in order.  -> list of raw reply texts (or None) per request, + error"""
    dh = manager.make_device_handler({'name': 'junos', 'use_filter': use_filter})
    s = SSHSession(dh)
    s._connected = True
    s.parser = dh.get_xml_parser(s)
    rpcs = []
    for i, flt in enumerate(requests, 1):
        r = ExecuteRpc(s, dh, async_mode=True, raise_mode=RaiseMode.NONE)
        # deterministic ids
        lst = r._listener
        with lst._lock:
            del lst._id2rpc[r._id]
            r._id = 'm%d' % i
            lst._id2rpc[r._id] = r
        if as_element and flt is not None:
            from lxml import etree
            flt = etree.fromstring(flt)        # the filter handed over as an lxml element (documented alternative to a string)
        r._filter_xml = flt
        rpcs.append(r)
    err = None
    for seg in segments:
        try:
            worker_receive(s, bytes(seg))
        except Exception as e:
            err = type(e).__name__
            break
    out = []
    for r in rpcs:
        out.append(r._reply.xml if r._reply is not None else None)
    return {'replies': out, 'error': err, 'residual': s._buffer.getvalue().decode('utf-8', 'replace')}
