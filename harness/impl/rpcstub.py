"""Runs the REAL synchronous request path (RPC.__init__, _request, RPCReplyListener.callback,
deliver_reply, RPCReply.parse, raise block, reply transforms) against a stub session that answers
every request at once with a scripted reply and records what was put on the 'wire'."""
import logging
import re
import threading

logging.disable(logging.CRITICAL)

from ncclient import manager, operations                      # noqa: E402
from ncclient.capabilities import Capabilities                 # noqa: E402
from ncclient.transport.session import SessionListener         # noqa: E402
from ncclient.xml_ import parse_root                           # noqa: E402

BASE_NS = 'urn:ietf:params:xml:ns:netconf:base:1.0'


class StubSession:
    """Answers each request synchronously from `responder(request_text, message_id) -> reply text | None`."""

    def __init__(self, server_caps, responder=None, connected=True):
        self._listeners = set()
        self._lock = threading.Lock()
        self.server_capabilities = Capabilities(server_caps)
        self._server_capabilities = self.server_capabilities
        self.sent = []
        self.responder = responder
        self.connected = connected
        self.can_pipeline = True
        self.id = '1'

    def add_listener(self, l):
        with self._lock:
            self._listeners.add(l)

    def remove_listener(self, l):
        with self._lock:
            self._listeners.discard(l)

    def get_listener_instance(self, cls):
        with self._lock:
            for l in self._listeners:
                if isinstance(l, cls):
                    return l

    def send(self, message):
        self.sent.append(message)
        if self.responder is None:
            return
        m = re.search(r'message-id="([^"]+)"', message)
        mid = m.group(1) if m else None
        reply = self.responder(message, mid)
        if reply is None:
            return
        root = parse_root(reply)
        for l in list(self._listeners):
            l.callback(root, reply)

    def close(self):
        self.connected = False


def make_manager(profile='default', server_caps=None, responder=None, ignore_errors=None, raise_mode=None, device_params=None, timeout=2):
    dp = dict(device_params or {})
    dp.setdefault('name', profile)
    dh = manager.make_device_handler(dp, ignore_errors)
    s = StubSession(server_caps if server_caps is not None else [], responder)
    kw = {}
    if raise_mode is not None:
        kw['raise_mode'] = raise_mode
    m = manager.Manager(s, dh, timeout=timeout, **kw)
    return m, s, dh
