"""Regenerates MANIFEST.json from the table below (kept in one place so it is always valid)."""
import json
import os

VERIF = os.path.dirname(os.path.dirname(os.path.abspath(__file__)))
BASELINE = "cd /repo && /venv/bin/python -m pytest -ra -q -p no:cacheprovider --timeout=900 --continue-on-collection-errors test"

# id -> (technique, level text, level note, design ref)
CLAIMED = {
    'C08': ('Lean 4 theorems over a hand-written model of capabilities.py (grammar spec <-> _abbreviate, dict semantics); '
            'model tied to the code by differential correspondence on generated URI lists',
            'Machine-checked proof (Lean 4 kernel) that, in the model of capabilities.py, lookup of an advertised URI succeeds, '
            'shorthand lookup succeeds iff the grammar of RFC capability/base URNs says so (both URN forms), results are the right '
            'capability, parameters are exactly the well-formed k=v pairs and the only failure is KeyError - for all URI lists and keys. '
            'The model is compared with the real Capabilities class on thousands of grammar-generated cases per run, and the property '
            'predicate (an independent regex spec) is evaluated on the implementation itself.',
            'Trusted: Lean kernel; axioms propext/Quot.sound/Classical.choice; the correspondence harness; Python str.split/startswith as modelled.',
            'DESIGN.md 5/C08'),
}
ALL = ['C%02d' % i for i in range(1, 19)]


def main():
    checks = []
    for pid in ALL:
        if pid not in CLAIMED:
            continue
        tech, text, note, ref = CLAIMED[pid]
        checks.append({
            'property_id': pid,
            'quick_cmd': './check %s --tier quick' % pid,
            'thorough_cmd': './check %s --tier thorough' % pid,
            'evidence_file': 'evidence/%s.json' % pid,
            'replay_cmd_template': './check %s --replay {path}' % pid,
            'engine': 'lean4-proof+correspondence',
            'level_claimed': {'category': 'proof', 'text': text, 'design_ref': ref},
            'level_note': note,
            'technique': tech,
        })
    man = {
        'version': 1,
        'setup_cmd': 'cd lean && lake build',
        'hooks': {
            'guard': 'NCCLIENT_VERIF',
            'enable': 'no source hooks: checks import /repo as it is (editable install) and drive it through stub transports',
            'baseline_off_cmd': BASELINE,
            'source_commits': [],
            'add_only': True,
        },
        'engines': [{'name': 'lean4-proof+correspondence', 'path': 'check',
                     'serves_properties': [c['property_id'] for c in checks],
                     'kind_free_text': 'Lean 4 theorems about executable models (lean/NcVerif), tied to /repo by a translator (harness/gen) '
                                       'and a differential correspondence harness (harness/props) on every run'}],
        'checks': checks,
        'notes': 'See DESIGN.md. Fix commits in /repo are listed in known_findings.json under "fixed".',
        'not_applicable': [{'property_id': p, 'reason': 'check not built yet in this round (planned: proof, see DESIGN.md section 5)'}
                           for p in ALL if p not in CLAIMED],
    }
    with open(os.path.join(VERIF, 'MANIFEST.json'), 'w') as fh:
        json.dump(man, fh, indent=1)
        fh.write('\n')


if __name__ == '__main__':
    main()
