"""Regenerates MANIFEST.json from the table below (kept in one place so it is always valid)."""
import json
import os

VERIF = os.path.dirname(os.path.dirname(os.path.abspath(__file__)))
BASELINE = "cd /repo && /venv/bin/python -m pytest -ra -q -p no:cacheprovider --timeout=900 --continue-on-collection-errors test"

# id -> (technique, level text, level note, design ref)
NOTE = ('Trusted: Lean 4.33 kernel; axioms propext/Quot.sound/Classical.choice only (checked by #print axioms on every run); the correspondence '
        'harness and translator in harness/; Python primitives named in DESIGN.md section 6. ')
T = 'Lean 4 theorems over an executable model + differential correspondence with the real code (+ translator-regenerated tables)'
CLAIMED = {
    'C01': (T + ': segmentation law / round trip by induction over read lists',
            'Machine-checked proof that, in the model of DefaultXMLParser, delivered messages depend only on the concatenated byte stream '
            '(all cuts, all chunkings, both framing versions, all byte streams), equal the RFC 4742/6242 reading of the stream, nothing is '
            'delivered early and nothing after a terminator is lost. The model is compared with the real parser on generated and '
            'exhaustive-cut streams each run, and the property predicate is evaluated on the real parser with an independent RFC decoder.',
            NOTE + 'The theorems hold for every cut, so the transports\' read size is immaterial; the three _transport_read bodies are only recorded in the evidence.',
            'DESIGN.md 5/C01'),
    'C02': (T + ': invariants over all operation histories of the session model; short-write induction',
            'Proof that in the session model the wire is always a prefix of the concatenation of the frames of the dequeued messages in put '
            'order, complete between frames, for every interleaving and short-write pattern; a write returning <= 0 is an error; and that '
            'decoding the frames with the verified inbound decoder returns the messages. Real Session.run is driven in lock-step '
            '(every transport call answered by the harness) and compared step by step with the model.',
            NOTE + 'queue.Queue FIFO is a trusted primitive.', 'DESIGN.md 5/C02'),
    'C03': (T + ': invariants over all interleavings at synchronisation-point granularity',
            'Proof over all histories of the session model that a request holds only a reply carrying its own message-id, at most once, that '
            'late replies and non-reply messages disturb nothing (for every profile). Real Session/RPC/RPCReplyListener objects are driven in '
            'lock-step and compared with the model after every step; real-socket runs with client threads check reply/thread pairing.',
            NOTE + 'uuid4 freshness; interleavings below transport-call granularity are covered by the theorems, not by the correspondence.', 'DESIGN.md 5/C03'),
    'C04': (T + ': invariants + fault enumeration at every byte offset',
            'Proof that every loss (EOF, read error, failed write) leads to the error path, that every registered request is failed with that '
            'error, the session ends disconnected and refuses later requests, and nothing pending is ever forgotten. Lock-step fault injection '
            'and real-socket runs closing the connection at every byte offset check the real code, incl. call durations.',
            NOTE + 'Event.wait(timeout) is a trusted primitive; wall-clock bounds are measured with tolerances.', 'DESIGN.md 5/C04'),
    'C05': (T + ': interleaving invariants + finite profile table regenerated from the source',
            'Proof that the first frame is the client hello in end-of-message framing for every ordering of server hello vs. client write, '
            'that later frames are chunked iff both sides advertised base:1.1, that id/capabilities come from a received hello, that connect '
            'cannot hang; decide-checked table: all 14 profiles always advertise a base URI, default = documented list ++ extras; and, over the '
            'model of the XML serialiser / reader (Model/XmlDoc), that a peer reading the <hello> ncclient builds gets exactly the capability '
            'list, in order, unaltered, for every list and both namespace spellings. HelloHandler.build is compared with the model byte for byte; '
            'a real SSH server that never sends / drips its hello checks that connect fails within the timeout.',
            NOTE + 'lxml serialisation is modelled (compared every run), HelloHandler.parse enters as environment; the hello on the wire is parsed with xml.etree in the oracle.', 'DESIGN.md 5/C05'),
    'C06': (T + ': decision logic stated outright',
            'Proof (for replies without an <ok/> child; with one the statement is false of the code: known finding C06:ok-element-hides-rpc-errors, '
            'witness in Props/C06.lean, replayed each run) that ok iff no rpc-error, the error list mirrors the rpc-errors, an RPCError is raised iff (ALL and some non-exempt error) or '
            '(ERRORS and some non-exempt error of severity error), never under NONE, that the exemption test is exactly the documented '
            'exact / prefix* / *suffix / *infix* match (case-insensitive), and that an aggregate carries all errors with severity error iff a '
            'constituent has it. The real RPC._request / RPCReply.parse / is_rpc_error_exempt run on generated replies x modes x pattern sets.',
            NOTE + 'str.lower() modelled for ASCII letters; lxml parsing of the reply is the environment.', 'DESIGN.md 5/C06'),
    'C07': (T + ': finite operation table (decide +kernel) + escaping lemmas for all strings',
            'PARTIAL. Proved: over the operation table regenerated from the source by probing execution (every standard and vendor operation x '
            'argument shape x profile envelope) every sent request is one <rpc> in the base namespace with message-id and exactly the operation '
            'element the protocol defines, RFC 6241 parameter order, out-of-set enumerated arguments rejected with nothing sent, each caller '
            'string exactly once in a text/attribute position, every enumerated element on the wire carries a member of its enumeration; for ALL '
            'strings: escape/parse round trip of text and attribute values and no markup in escaped data; for ALL well-formed element trees: '
            'reading the serialisation gives back exactly the tree (no caller string can add, remove or re-parent an element), incl. the <rpc> '
            'envelope and its message-id; and for ALL argument values of the base-namespace operations (Model/Builders, compared with the real Manager byte '
            'for byte on random arguments): what is built is well-formed, read back exactly, in RFC order, with option values inside their enumerations; likewise for the '
            'remaining standard operations (Model/Retrieve: get / get-config with XPath / subtree / list / element filters and with-defaults, get-schema, dispatch, rpc, create-subscription, '
            'the flowmon power operations, validate / copy-config with element arguments - with Model/Builders every entry of manager.OPERATIONS). Modelled, not verified: lxml serialisation and an XML reader (compared byte for byte / tree for tree '
            'with lxml and expat each run).',
            NOTE + 'parametricity of request builders in their string arguments is sampled (26 templates x nasty strings per run, each call issued twice), not proved.', 'DESIGN.md 5/C07'),
    'C09': (T + ': finite gating table (decide +kernel) + gate semantics for all capability lists',
            'Proved: over the regenerated operation table the capabilities each call asserts are exactly the documented dependencies, a '
            'capability-dependent element or value (confirmed, persist, test-option, test-only, rollback-on-error, with-defaults) is on the wire '
            'only if its capability was asserted - whatever spelling of the argument produced it -; for ALL argument values (Model/Builders): a request is built '
            'only if every capability its arguments depend on is present, else nothing is built; (Model/Retrieve) a with-defaults mode is on the wire only if the '
            'server\'s own with-defaults capability URI lists it (basic-mode / also-supported), :url sources and :notification likewise; every '
            'documented dependency was probed with the capability removed and was refused (MissingCapabilityError / WithDefaultsError) with '
            'nothing sent; for ALL capability lists: the gate refuses iff a required capability is not contained (C08 gives what contained '
            'means, both URN forms) and the with-defaults mode check accepts iff the mode is the basic or an also-supported mode.',
            NOTE + 'the catalogue of probed argument shapes is hand-written; random capability subsets x gated calls run on the real code each time.', 'DESIGN.md 5/C09'),
    'C13': (T + ': bracket theorem by induction over body programs',
            'Proved for all bodies (requests, raise, sequencing, nested lock contexts), all datastores and all history-dependent servers: lock t, '
            'then exactly the body\'s requests, then unlock t once, on return and on raise; the body\'s exception propagates; a refused lock runs '
            'neither body nor unlock; lock/unlock events of any program are well-bracketed. Random programs run as real `with m.locked()` blocks.',
            NOTE + 'the Python with-statement protocol is a trusted primitive.', 'DESIGN.md 5/C13'),
    'C15': (T + ': trace-order theorems over all configurations; exhaustive configuration table on the real connect code',
            'PARTIAL. Proved for every configuration (any number of credentials / subsystem candidates): with verification on a credential is '
            'offered only if the pinned key matches, or known_hosts has the key under host or [host]:port, or the callback accepts; otherwise '
            'the unknown-host error with no credential and no NETCONF traffic; every credential follows the key check; failed authentication '
            'raises and nothing NETCONF is exchanged; TLS hello only after a successful handshake. Modelled: the cryptographic verdicts. '
            'The whole finite configuration table runs through the real connect_ssh/_auth with real keys and known_hosts against a recording '
            'transport, and real TLS handshakes with right / wrong CA and host name.',
            NOTE + 'paramiko key exchange and signature checks, OpenSSL chain validation: environment.', 'DESIGN.md 5/C15'),
    'C16': (T + ': finite profile / isolation tables (decide +kernel) + non-interference by induction',
            'Proved over the tables regenerated from the 14 handler modules: every advertised name resolves to the class of its name, vendor '
            'operations take precedence and all standard ones remain, a base URI is always advertised (for all user extras), subsystem candidates '
            'are duplicate-free and the preference rule puts ANY preferred name first; no probed public call writes a module- or class-level '
            'container; non-interference for every history of operations whose write sets avoid what is observed. Random histories over live '
            'handlers and managers are observed on the real code.',
            NOTE + 'write sets are measured by snapshot diff over a hand-written catalogue of public calls.', 'DESIGN.md 5/C16'),
    'C17': (T + ': tree induction for replace_namespace, validation and declaration logic; escaping lemmas',
            'PARTIAL. Proved: replace_namespace renames exactly the elements and attributes of the old namespace and nothing else (all trees), '
            'root validation accepts exactly the allowed tag / required attribute combinations, one XML declaration, character-data round '
            'trip for all strings, and the tree-level round trip parse(serialise t) = t for every well-formed namespace-free tree over a MODEL of '
            'the serialiser and reader (compared with to_xml byte for byte and with expat each run); the root-only parse (model of parse_root: the start tag alone) '
            'agrees with the full parse on EVERY text the full parse accepts. Environment: prefixes, comments, PIs, CDATA, '
            'DTDs, parse_root on namespaced / declared-encoding documents - established by the correspondence on generated documents, a raw-document corpus and constructor programs '
            '(round trip, in-scope namespace bindings, tree left untouched, independent parser).',
            NOTE + 'lxml and expat are modelled for namespace-free trees and environment otherwise.', 'DESIGN.md 5/C17'),
    'C18': (T + ': event induction over reply trees for the SAX handler',
            'PARTIAL. Proved over the model of the Junos SAX content handler: for every filter and every reply whose tag names do not repeat '
            'along a path (premise Good, with a decide-checked counterexample showing it is needed) the handler writes exactly the projection '
            'of the reply onto the filter paths; the output is independent of how expat cuts character data; without a filter nothing is '
            'written and the DOM parser takes over. NOT modelled: expat tokenising, _delimiter_check (difflib heuristics), the SAX/DOM '
            'hand-over - independence of the read segmentation is explored by every-cut correspondence runs on the real parser only, where '
            'three genuine defect classes are recorded as known findings.',
            NOTE + 'replies without mixed content; see known_findings.json for the three C18 classes.', 'DESIGN.md 5/C18, 9'),
    'C08': (T + ': grammar spec <-> _abbreviate, dict semantics',
            'Machine-checked proof that, in the model of capabilities.py, lookup of an advertised URI succeeds, shorthand lookup succeeds iff the '
            'grammar of RFC capability/base URNs says so (both URN forms), results are the right capability, parameters are exactly the '
            'well-formed k=v pairs and the only failure is KeyError - for all URI lists and keys; and for ALL histories of add / remove the object equals the one '
            'freshly built from the ordered set of URIs added and not removed (no memory of earlier lookups or contents). The model is compared with the real '
            'Capabilities class on thousands of grammar-generated cases per run; an independent regex spec is evaluated on the implementation.',
            NOTE + 'Python str.split/startswith as modelled.', 'DESIGN.md 5/C08'),
    'C10': (T + ': tree induction for the reply transforms; composition of framing and dispatch theorems',
            'PARTIAL. Proved: for all trees the Junos transform keeps element structure, order, non-blank text, comments and attribute values and '
            'leaves no namespace; the ALU transform only un-namespaces element names; SR OS is the identity; data is the <data> child; a '
            'request\'s raw reply is a received message carrying its id (C03) which is an exact frame payload (C01/C14). Modelled: libxml2 / '
            'libxslt. Random documents x reply classes x profiles run through the real request path and are compared with the model and '
            'with an xml.etree reading of what the server sent; huge text / deep trees with huge_tree on.',
            NOTE + 'which blank text nodes a remove_blank_text parser drops is libxml2 heuristics: compared modulo blank text.', 'DESIGN.md 5/C10'),
    'C11': (T + ': queue invariant over all histories',
            'Proof that taken ++ queued notifications are exactly the well-formed notifications received, in order, that a notification changes '
            'no request and never fails the session for any profile, and that an empty take returns nothing. Lock-step histories for all 14 '
            'profiles and real-socket runs (blocking / non-blocking takes timed) check the real code.',
            NOTE + 'queue.Queue.get(block, timeout) is a trusted primitive.', 'DESIGN.md 5/C11'),
    'C12': (T + ': release invariant + bounded worker termination under a stated environment',
            'Proof that after close() the worker stops within todo+5 steps whatever it was doing, the session ends disconnected, refuses '
            'requests, invokes no listener, and in-flight requests are failed. PARTIAL: what epoll/paramiko do with a closed descriptor is an '
            'explicit environment assumption, validated by lock-step runs of the three real close() methods and by real Unix/TLS sockets '
            '(thread liveness, EOF at the peer, fd/thread counts over open/close cycles).',
            NOTE + 'OS/epoll/paramiko behaviour is modelled (workerOpClosed), not verified; the waits of SSHSession.close run in virtual time in the lock-step runs.', 'DESIGN.md 5/C12'),
    'C14': (T + ': soundness of delivery for arbitrary byte streams, no-stall, stop invariant',
            'Proof that for ANY byte stream and segmentation the delivered messages are the payloads of correctly framed messages forming a '
            'prefix of the stream, followed by at most one error; that a non-raised parser is never wedged; that bad headers raise at once; '
            'and that whenever the worker stops the session is closing, the final error was delivered and every request failed or answered. '
            'Mutation-grammar and bounded-exhaustive streams, and hostile lock-step histories, run on the real code each time.',
            NOTE + 'parse_root (lxml) enters as the environment parameter `classify`.', 'DESIGN.md 5/C14'),
}
ALL = ['C%02d' % i for i in range(1, 19)]


def main():
    checks = []
    for pid in ALL:
        if pid not in CLAIMED:
            continue
        tech, text, note, ref = CLAIMED[pid]
        checks.append({
            'property_id': pid,
            'quick_cmd': './check %s --tier quick' % pid,
            'thorough_cmd': './check %s --tier thorough' % pid,
            'evidence_file': 'evidence/%s.json' % pid,
            'replay_cmd_template': './check %s --replay {path}' % pid,
            'engine': 'lean4-proof+correspondence',
            'level_claimed': {'category': 'proof', 'text': text, 'design_ref': ref},
            'level_note': note,
            'technique': tech,
        })
    man = {
        'version': 1,
        'setup_cmd': 'cd lean && lake build',
        'hooks': {
            'guard': 'NCCLIENT_VERIF',
            'enable': 'no source hooks: checks import /repo as it is (editable install) and drive it through stub transports',
            'baseline_off_cmd': BASELINE,
            'source_commits': [],
            'add_only': True,
        },
        'engines': [{'name': 'lean4-proof+correspondence', 'path': 'check',
                     'serves_properties': [c['property_id'] for c in checks],
                     'kind_free_text': 'Lean 4 theorems about executable models (lean/NcVerif), tied to /repo by a translator (harness/gen) '
                                       'and a differential correspondence harness (harness/props) on every run'}],
        'checks': checks,
        'notes': 'See DESIGN.md. Fix commits in /repo are listed in known_findings.json under "fixed".',
        'not_applicable': [{'property_id': p, 'reason': 'check not built yet in this round (planned: proof, see DESIGN.md section 5)'}
                           for p in ALL if p not in CLAIMED],
    }
    with open(os.path.join(VERIF, 'MANIFEST.json'), 'w') as fh:
        json.dump(man, fh, indent=1)
        fh.write('\n')


if __name__ == '__main__':
    main()
