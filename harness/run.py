"""Entry point of every check: ./check <ID> [--tier quick|thorough] [--replay FILE]."""
import argparse
import importlib
import os
import sys
import traceback

HERE = os.path.dirname(os.path.abspath(__file__))
sys.path.insert(0, HERE)
os.environ.setdefault('PYTHONHASHSEED', '0')


def main():
    ap = argparse.ArgumentParser()
    ap.add_argument('pid')
    ap.add_argument('--tier', default=os.environ.get('VERIF_TIER', 'quick'), choices=['quick', 'thorough'])
    ap.add_argument('--replay', default=None)
    a = ap.parse_args()
    try:
        seed = int(os.environ.get('VERIF_SEED', '0'))
    except ValueError:
        seed = 0
    import core
    try:
        mod = importlib.import_module('props.' + a.pid)
        chk = mod.CHECK()
        rc = core.run_check(chk, a.tier, seed, a.replay)
    except core.Infra as e:
        print('INFRA-ERROR %s: %s' % (a.pid, e))
        sys.exit(2)
    except Exception:
        traceback.print_exc()
        print('INFRA-ERROR %s' % a.pid)
        sys.exit(2)
    sys.stdout.flush()
    os._exit(rc)   # worker threads of deliberately wedged sessions must not keep the check alive


if __name__ == '__main__':
    main()
