"""Maintenance tool for /verif/seeded: confirm a seeded change (compiles, test suite passes, its
demonstration fails with it and passes without it) in a scratch worktree, then run the registered
checks of /verif against /repo with the change applied and record which detect it.

  python3 harness/seeded.py confirm <name> <patch> <demo> <meta.json>     -> seeded/<name>/
  python3 harness/seeded.py detect <name> [check ids…]                     (applies to /repo, runs ./check, restores)
  python3 harness/seeded.py table
"""
import json
import os
import shutil
import subprocess
import sys
import tempfile

VERIF = os.path.dirname(os.path.dirname(os.path.abspath(__file__)))
REPO = '/repo'
PY = '/venv/bin/python'


def sh(cmd, cwd=None, timeout=900, env=None):
    p = subprocess.run(cmd, cwd=cwd, stdout=subprocess.PIPE, stderr=subprocess.STDOUT, text=True, timeout=timeout, env=env)
    return p.returncode, p.stdout


def confirm(name, patch, demo, meta):
    wt = tempfile.mkdtemp(prefix='ncverif-seedcheck-')
    os.rmdir(wt)
    try:
        rc, out = sh(['git', '-C', REPO, 'worktree', 'add', '-q', wt, 'HEAD'])
        assert rc == 0, out
        rc0, out0 = sh([PY, demo], cwd=wt, timeout=120)
        rc, out = sh(['git', 'apply', os.path.abspath(patch)], cwd=wt)
        if rc != 0:
            return {'ok': False, 'why': 'patch does not apply: ' + out[-300:]}
        rct, outt = sh([PY, '-m', 'pytest', '-q', '-p', 'no:cacheprovider', '-x', 'test'], cwd=wt, timeout=600)
        rc1, out1 = sh([PY, demo], cwd=wt, timeout=120)
        res = {'demo_rc_without': rc0, 'tests_rc_with': rct, 'tests_tail': outt.strip().split('\n')[-1], 'demo_rc_with': rc1,
               'demo_tail_with': out1.strip().split('\n')[-3:]}
        res['ok'] = rc0 == 0 and rct == 0 and rc1 != 0
        if res['ok']:
            d = os.path.join(VERIF, 'seeded', name)
            os.makedirs(d, exist_ok=True)
            shutil.copy(patch, os.path.join(d, 'patch.diff'))
            shutil.copy(demo, os.path.join(d, 'demo.py'))
            m = json.load(open(meta)) if meta and os.path.exists(meta) else {}
            m['confirmed'] = {'demo_exit_without_change': rc0, 'pytest_with_change': res['tests_tail'], 'demo_exit_with_change': rc1,
                              'how': 'scratch worktree of /repo HEAD: demo; git apply; pytest -x test; demo'}
            json.dump(m, open(os.path.join(d, 'meta.json'), 'w'), indent=1)
        return res
    finally:
        sh(['git', '-C', REPO, 'worktree', 'remove', '--force', wt])
        shutil.rmtree(wt, ignore_errors=True)


def detect(name, checks):
    d = os.path.join(VERIF, 'seeded', name)
    meta = json.load(open(os.path.join(d, 'meta.json')))
    rc, out = sh(['git', '-C', REPO, 'status', '--short'])
    assert out.strip() == '', '/repo is not clean'
    rc, out = sh(['git', '-C', REPO, 'apply', os.path.join(d, 'patch.diff')])
    assert rc == 0, out
    results = {}
    try:
        for c in checks:
            env = dict(os.environ, VERIF_SEED=os.environ.get('VERIF_SEED', '0'))
            rc, out = sh([os.path.join(VERIF, 'check'), c, '--tier', 'quick'], cwd=VERIF, timeout=1500, env=env)
            lines = [l for l in out.split('\n') if l.startswith('VIOLATION')]
            results[c] = {'exit': rc, 'violations': len(lines), 'no_failing_input': any('no-failing-input-found' in l for l in lines),
                          'first': lines[0] if lines else None}
    finally:
        sh(['git', '-C', REPO, 'checkout', '--', '.'])
        # regenerate the tables for the clean tree so that the next run starts from a consistent build
    meta.setdefault('detection', {}).update(results)
    json.dump(meta, open(os.path.join(d, 'meta.json'), 'w'), indent=1)
    return results


def table():
    rows = []
    base = os.path.join(VERIF, 'seeded')
    for n in sorted(os.listdir(base)):
        m = json.load(open(os.path.join(base, n, 'meta.json')))
        det = m.get('detection', {})
        caught = [c for c, r in det.items() if r['exit'] == 1]
        concrete = [c for c, r in det.items() if r['exit'] == 1 and not r['no_failing_input']]
        rows.append((n, m.get('property'), ','.join(caught) or '-', ','.join(concrete) or '-', (m.get('summary') or '')[:90]))
    for r in rows:
        print('%-10s %-4s caught-by=%-12s concrete-replay=%-12s %s' % r)


if __name__ == '__main__':
    cmd = sys.argv[1]
    if cmd == 'confirm':
        print(json.dumps(confirm(*sys.argv[2:6]), indent=1))
    elif cmd == 'detect':
        name = sys.argv[2]
        checks = sys.argv[3:] or [json.load(open(os.path.join(VERIF, 'seeded', name, 'meta.json'))).get('property')]
        print(json.dumps(detect(name, checks), indent=1))
    elif cmd == 'table':
        table()
