"""Model-state-aware random walks over session histories (generated while executing on the real
code, so that every step is enabled), plus the scripted NETCONF server they talk to."""
import re

from oracle.framing_spec import decode10, decode11, DELIM10

BASE_NS = 'urn:ietf:params:xml:ns:netconf:base:1.0'
NOTIF_NS = 'urn:ietf:params:xml:ns:netconf:notification:1.0'
B10 = 'urn:ietf:params:netconf:base:1.0'
B11 = 'urn:ietf:params:netconf:base:1.1'
B10X = 'urn:ietf:params:xml:ns:netconf:base:1.0'
B11X = 'urn:ietf:params:xml:ns:netconf:base:1.1'

PROFILES = ['default', 'junos', 'iosxr', 'huawei', 'h3c', 'sros', 'nexus', 'iosxe', 'csr', 'alu', 'hpcomware', 'huaweiyang', 'ciena', 'ericsson']


def server_caps(rng):
    r = rng.random()
    if r < 0.35:
        caps = [B10, B11]
    elif r < 0.5:
        caps = [B10]
    elif r < 0.6:
        caps = [B11]
    elif r < 0.7:
        caps = [B10X, B11X]
    elif r < 0.75:
        caps = [B11X]
    elif r < 0.8:
        caps = []
    else:
        caps = [B10, B11 + '?x=1']
    extra = ['urn:ietf:params:netconf:capability:candidate:1.0', 'urn:ietf:params:netconf:capability:notification:1.0',
             'http://example.com/yang?module=m&revision=2020-01-01', 'urn:ietf:params:netconf:capability:with-defaults:1.0?basic-mode=explicit']
    caps = caps + [c for c in extra if rng.random() < 0.4]
    # legal URIs whose query part is not a tidy key=value list: a bare flag, a trailing / doubled '&', '=' inside a value, an empty query
    odd = ['http://example.com/netconf/extensions/audit?strict', 'http://example.com/yang/a?module=a&', 'urn:example:cap:b?x=1&&y=2',
           'http://example.com/yang/c?module=c&checksum=q83vEg==', 'urn:example:cap:d?', 'urn:example:cap:e?=v', 'urn:example:cap:f?k=v?w']
    if rng.random() < 0.35:
        caps = caps + [rng.choice(odd)]
    rng.shuffle(caps)
    if rng.random() < 0.1 and caps:
        caps.append(caps[0])
    return caps


def hello_text(rng, caps, sid=None, clean=False):
    sid = sid if sid is not None else str(rng.randint(1, 9999))
    r = 0.5 if clean else rng.random()
    body = ''.join('<capability>%s</capability>' % c.replace('&', '&amp;') for c in caps)
    if r < 0.08:
        body += '<capability/>'                 # empty capability: HelloHandler.parse raises -> connect fails
    if clean or r >= 0.08:
        # comments and processing instructions are legal anywhere inside the document (RFC 6241 does not exclude them)
        k = rng.random()
        if k < 0.15:
            body = '<!-- advertised by the device -->' + body
        elif k < 0.3 and caps:
            body = body.replace('</capability><capability>', '</capability><!--x--><capability>', 1)
        elif k < 0.4:
            body = body + '<?vendor build=7?>'
    if r < 0.85:
        if rng.random() < 0.15:
            return '<hello xmlns="%s"><!-- hello --><capabilities>%s</capabilities><?x y?><session-id>%s</session-id></hello>' % (BASE_NS, body, sid)
        return '<hello xmlns="%s"><capabilities>%s</capabilities><session-id>%s</session-id></hello>' % (BASE_NS, body, sid)
    if r < 0.95:
        return '<hello><capabilities>%s</capabilities><session-id>%s</session-id></hello>' % (body, sid)
    return '<hello xmlns="%s"><capabilities>%s</capabilities></hello>' % (BASE_NS, body)


def reply_text(rng, mid, n):
    r = rng.random()
    body = rng.choice(['<ok/>', '<data><v>é%d</v></data>' % n, '<data/>'])
    if r < 0.8:
        return '<rpc-reply message-id="%s" xmlns="%s"%s>%s</rpc-reply>' % (mid, BASE_NS, big_root_attrs(n + 1), body)
    if r < 0.9:
        return '<rpc-reply message-id="%s">%s</rpc-reply>' % (mid, body)          # no namespace (junos style)
    return '<nc:rpc-reply xmlns:nc="%s" message-id="%s">%s</nc:rpc-reply>' % (BASE_NS, mid, body)


# RFC 3339 date-times as devices write them: whole seconds, fractions of any length (nanosecond clocks), numeric offsets,
# a leap second, lower-case separators
EVENT_TIMES = ['2020-01-01T00:00:%02dZ', '2023-03-01T12:00:%02d.123456789Z', '2023-03-01T12:00:%02d.5+05:30', '2024-02-29T23:59:%02d-08:00',
               '2016-12-31T23:59:60Z', '2023-03-01t12:00:%02dz', '2023-03-01T12:00:%02d.000001Z', '2020-01-01T00:00:%02dZ']


def event_time(k):
    t = EVENT_TIMES[k % len(EVENT_TIMES)]
    return t % (k % 60) if '%' in t else t


def big_root_attrs(k):
    """Every 5th message has a root START TAG of several kB (all module prefixes declared on the root, as YANG-push devices do)."""
    if k % 5 != 3:
        return ''
    return ''.join(' xmlns:m%d="urn:example:yang:module-%d:with-a-rather-long-namespace-name"' % (i, i) for i in range(70 + k % 20))


def notification_text(rng, k):
    return '<notification xmlns="%s"%s><eventTime>%s</eventTime><e>n%d ü</e></notification>' % (NOTIF_NS, big_root_attrs(k), event_time(k), k)


ODD = ['<foo/>', '<rpc-reply xmlns="%s"><ok/></rpc-reply>' % BASE_NS, '<rpc-reply message-id="urn:uuid:ffffffff-0000-0000-0000-000000000000" xmlns="%s"><ok/></rpc-reply>' % BASE_NS,
       'not xml at all', '<notification xmlns="%s"><eventTime>x</eventTime><broken></notification>' % NOTIF_NS, '<hello xmlns="%s"/>' % BASE_NS,
       '<notification><eventTime>x</eventTime></notification>', '',
       # correctly framed, well-formed START TAG, body that is not XML: must not reach the caller as a notification / as data
       '<notification xmlns="%s"><eventTime>2026-09-30T10:00:01Z</eventTime><link-down><if>ge-0/0/2</link-down></notification>' % NOTIF_NS,
       '<notification xmlns="%s"><eventTime>2026-09-30T10:00:02Z</eventTime><a>&undefined;</a></notification>' % NOTIF_NS,
       '<notification xmlns="%s"><eventTime>2026-09-30T10:00:03Z</eventTime><a>' % NOTIF_NS]


class Server:
    """Scripted peer: reads the client's wire (reference decoders), queues framed messages."""

    def __init__(self, rng):
        self.rng = rng
        self.out = bytearray()      # bytes not yet handed to the client
        self.sent_texts = []
        self.base11 = False
        self.seen_ids = []
        self.answered = []
        self.notifs = 0

    def client_frames(self, wire):
        """Decode the client's byte stream: first frame 1.0 (hello), the rest in the negotiated framing."""
        w = bytes(wire)
        i = w.find(DELIM10)
        if i < 0:
            return None, []
        hello = w[:i]
        rest = w[i + len(DELIM10):]
        if self.base11:
            payloads, _ = decode11(rest)
        else:
            payloads, _ = decode10(rest)
        return hello, payloads

    def pending_ids(self, wire):
        _, payloads = self.client_frames(wire)
        ids = []
        for p in payloads:
            m = re.search(rb'message-id="([^"]+)"', p)
            if m:
                ids.append(m.group(1).decode())
        return [i for i in ids if i not in self.answered]

    def frame(self, text, chunk=True):
        b = text.encode('utf-8')
        if self.base11 and chunk:
            n = len(b)
            if n > 1 and self.rng.random() < 0.5:
                k = self.rng.randint(1, n - 1)
                return b'\n#%d\n' % k + b[:k] + b'\n#%d\n' % (n - k) + b[k:] + b'\n##\n'
            return b'\n#%d\n' % n + b + b'\n##\n' if n else b'\n##\n'
        return b + DELIM10

    def push(self, text, chunk=True):
        self.sent_texts.append(text)
        self.out += self.frame(text, chunk)

    def push_raw_payload(self, payload):
        """A correctly FRAMED message whose payload is not valid UTF-8."""
        if self.base11:
            self.out += b'\n#%d\n' % len(payload) + payload + b'\n##\n'
        else:
            self.out += payload + DELIM10

    def next_read(self, maxn=4096):
        n = len(self.out)
        if n == 0:
            return b''
        r = self.rng.random()
        k = n if r < 0.4 else self.rng.randint(1, n)
        k = min(k, maxn)
        d = bytes(self.out[:k])
        del self.out[:k]
        return d


def dispatched_texts(server_texts, base11):
    return [t if base11 else t.strip() for t in server_texts]


def explore(rng, transport, profile, flavor, runner_cls, max_cmds=70):
    """Run one random history on the real code. Returns (commands, runner, info)."""
    R = runner_cls(transport, profile, extra_caps=(['urn:example:extra:1.0'] if rng.random() < 0.3 else []))
    srv = Server(rng)
    cmds = []
    info = {'flavor': flavor, 'faults': [], 'server_texts': srv.sent_texts}
    scaps = server_caps(rng)
    client_has_11 = B11 in list(R.session._client_capabilities)
    want11 = (B11 in scaps) and client_has_11          # RFC 6241 §8.1: only this URI names the base:1.1 capability

    def do(cmd):
        cmds.append(cmd)
        R.run(cmd)

    short = flavor == 'hello-timeout'
    do(['connect', 'short' if short else 'long'])
    hello_sent = False
    finished = False
    fault_budget = 1 if flavor == 'fault' else 0
    delay_ready = flavor == 'late-ready' and transport == 'ssh'
    n_req = 0
    closed = False
    steps = 0
    while steps < max_cmds:
        steps += 1
        pk = R.ctl.parked[0]
        if pk == 'stopped':
            # worker gone: a few more client commands to see refusals, then stop
            if finished or R.conn_thread is None or not R.conn_thread.is_alive() or R.conn_parked.is_set():
                pass
            if not finished and R.conn_parked.is_set():
                do(['finish'])
                finished = True
                continue
            if not finished and R.conn_thread is not None:
                # _post_connect is still waiting although the worker died without setting the event
                R.conn_thread.join(0.5)
                if not R.conn_thread.is_alive():
                    R.conn_state = 'failed'
                break
            if rng.random() < 0.6 and n_req < 6:
                n_req += 1
                do(['req'])
                continue
            break
        # connecting thread can finish?
        if not finished and R.conn_parked.is_set() and rng.random() < (0.15 if delay_ready else 0.6):
            do(['finish'])
            finished = True
            if R.conn_result == 'ok':
                srv.base11 = want11
            continue
        if short and not hello_sent and rng.random() < 0.3 and pk == 'select':
            # let the hello wait expire with no server hello
            do(['w', False])
            R.conn_thread.join(2)
            if not R.conn_thread.is_alive():
                do(['expire'])
                finished = True
                info['expired'] = True
                # a session whose connect failed is closed by manager.connect_*
                do(['close'])
                closed = True
            continue
        # server actions
        if info.get('ltrap') and not getattr(R, 'ltrap_fired', False):
            pass                            # the server stays silent until the armed notification has been dispatched
        elif not hello_sent and rng.random() < 0.5 and not short:
            srv.push(hello_text(rng, scaps, clean=(flavor in ('normal', 'late-ready', 'close'))), chunk=False)
            hello_sent = True
        elif hello_sent and finished and R.conn_result == 'ok' and rng.random() < 0.35:
            pend = srv.pending_ids(R.ctl.wire)
            r = rng.random()
            if pend and flavor in ('odd', 'fault') and rng.random() < 0.12:
                # a correctly framed <rpc-reply> for a pending request whose BODY is not XML (control character, mismatched tags):
                # it may complete the request, but the caller must not be able to read it as data
                mid = rng.choice(pend)
                srv.answered.append(mid)
                bad = rng.choice(['<data><out>show version\x1b[0m done\x08</out></data>', '<data><a><b></a></data>', '<data>\x00</data>', '<data>&nbsp;</data>'])
                srv.push('<rpc-reply message-id="%s" xmlns="%s">%s</rpc-reply>' % (mid, BASE_NS, bad))
                info['bad_reply_body'] = info.get('bad_reply_body', 0) + 1
            elif pend and flavor == 'odd' and rng.random() < (0.35 if len(pend) == 1 else 0.1):
                # while requests are outstanding (often exactly one): an <rpc-reply> that is NOT an answer to any of them - without
                # message-id, with an id nobody used, or a second copy of a reply that was delivered already
                k = rng.random()
                if k < 0.35 or not srv.answered:
                    srv.push(ODD[1])
                elif k < 0.6:
                    srv.push(ODD[2])
                else:
                    srv.push(reply_text(rng, rng.choice(srv.answered), len(srv.answered)))
                info['stray_reply'] = info.get('stray_reply', 0) + 1
            elif pend and r < 0.6:
                mid = rng.choice(pend)
                srv.answered.append(mid)
                srv.push(reply_text(rng, mid, len(srv.answered)))
            elif r < 0.85:
                srv.notifs += 1
                srv.push(notification_text(rng, srv.notifs))
            elif flavor in ('odd', 'fault'):
                if rng.random() < 0.25:
                    srv.push_raw_payload(b'<rpc-reply message-id="x" xmlns="%s"><data>\xff\xfe\xc3</data></rpc-reply>' % BASE_NS.encode())
                    info['bad_utf8'] = True
                else:
                    odd = rng.choice(ODD)
                    if odd.startswith('<notification'):
                        info['odd_notifs'] = info.get('odd_notifs', 0) + 1
                    srv.push(odd)
        # a request issued from inside the dispatch of the first notification (before any other request exists)
        if finished and R.conn_result == 'ok' and not closed and n_req == 0 and 'ltrap' not in info and flavor in ('normal', 'odd') and hello_sent:
            # (armed only with nothing else in flight: the notification must be the only message of its reads, because the model
            # places the listener's request before the whole read step)
            info['ltrap'] = len(srv.out) == 0 and rng.random() < 0.25
            if info['ltrap']:
                do(['ltrap'])
                srv.notifs += 1
                srv.push(notification_text(rng, srv.notifs))
                n_req += 1                  # the request the listener will issue
                continue
        if info.get('ltrap') and not getattr(R, 'ltrap_fired', False):
            pass                            # no other request until the notification has been dispatched
        # client actions
        elif finished and R.conn_result == 'ok' and not closed and rng.random() < 0.25 and n_req < 6:
            n_req += 1
            if flavor == 'fault' and rng.random() < 0.25 and not info.get('trap'):
                info['trap'] = True
                do(['trap'])
            elif rng.random() < 0.2:
                # synchronous caller that times out; its reply may still arrive later.  Half of them go through Manager.execute,
                # after which NOTHING references the request any more (as in user code): the late reply must still be harmless
                do(['sreq', 'unref'] if rng.random() < 0.5 else ['sreq'])
            else:
                do(['req'])
            continue
        if finished and rng.random() < 0.1:
            do(['take'])
            continue
        if finished and not closed and flavor == 'close' and rng.random() < 0.08:
            do(['close'])
            closed = True
            continue
        # worker
        if pk == 'ready':
            do(['w', False if (delay_ready and not finished) else rng.random() < 0.85])
        elif pk == 'write':
            data = R.ctl.parked[1]
            if fault_budget and rng.random() < 0.08:
                fault_budget -= 1
                info['faults'].append('write')
                do(['w', rng.choice([0, -1, 'err'])])
            elif closed:
                do(['w', 'err'])
            else:
                n = len(data)
                do(['w', n if rng.random() < 0.5 else rng.randint(1, n)])
        elif pk == 'select':
            if closed:
                do(['w', rng.random() < 0.5])
            elif fault_budget and rng.random() < 0.04:
                do(['w', True])
            else:
                do(['w', len(srv.out) > 0 and rng.random() < 0.8])
        elif pk == 'read':
            if closed:
                do(['w', 'eof'])
            elif fault_budget and info.get('_eof_next'):
                # ... and now the peer is gone, part of a message (often with its complete start tag) still undelivered in the buffer
                fault_budget -= 1
                info['faults'].append('eof')
                info['eof_mid_message'] = True
                del srv.out[:]
                do(['w', 'eof'])
            elif fault_budget and len(srv.out) > 12 and rng.random() < 0.25:
                # the peer goes away in the MIDDLE of a message: hand over a proper prefix of what is pending (no terminator in it) ...
                n = len(srv.out)
                term = bytes(srv.out).find(b'\n##\n' if srv.base11 else DELIM10)
                hi = (term if term > 0 else n) - 1
                k = rng.randint(max(1, min(hi, int(hi * 0.5))), max(1, hi))
                if srv.base11 and rng.random() < 0.4:
                    # ... exactly behind the last octet of a complete chunk, before the next chunk header / the end-of-chunks marker
                    j = bytes(srv.out).find(b'\n#', 2)
                    if 0 < j <= hi + 1:
                        k = j
                k = min(k, 20000 if transport == 'tls' else 4096)          # one transport read
                d = bytes(srv.out[:k])
                del srv.out[:k]
                info['_eof_next'] = True
                texts = srv.sent_texts[info.setdefault('_classified', 0):]
                info['_classified'] = len(srv.sent_texts)
                do(['w', d.hex(), list(texts) + [t.strip() for t in texts if t.strip() != t]])
            elif fault_budget and len(srv.out) > 0 and rng.random() < 0.2 and any((b & 0xC0) == 0x80 for b in srv.out):
                # the peer goes away in the middle of a multi-byte character: hand over the bytes up to there, then EOF
                i = min(next(k for k, b in enumerate(srv.out) if (b & 0xC0) == 0x80), 4096)
                d = bytes(srv.out[:i])
                del srv.out[:]
                texts = srv.sent_texts[info.setdefault('_classified', 0):]
                info['_classified'] = len(srv.sent_texts)
                do(['w', d.hex(), list(texts) + [t.strip() for t in texts if t.strip() != t]])
                info['eof_mid_char'] = True
            elif fault_budget and (len(srv.out) == 0 or rng.random() < 0.15):
                fault_budget -= 1
                f = rng.choice(['eof', 'err'])
                info['faults'].append(f)
                do(['w', f])
            elif len(srv.out) == 0:
                # spurious readiness with nothing to read never happens on a real socket; treat as EOF fault
                info['faults'].append('eof')
                do(['w', 'eof'])
            else:
                # over TLS one transport read hands over a whole record (up to 16 KiB + what the first recv took), not just 4096 octets
                d = srv.next_read(20000 if transport == 'tls' else 4096)
                texts = srv.sent_texts[info.setdefault('_classified', 0):]
                info['_classified'] = len(srv.sent_texts)
                do(['w', d.hex(), list(texts) + [t.strip() for t in texts if t.strip() != t]])
        elif pk == 'close':
            do(['w', None])
        else:
            break
    # drain: let the client read everything the server has sent, so that 'lost' can be told from 'not yet read'
    if finished and R.conn_result == 'ok' and not closed:
        for _ in range(60):
            pk = R.ctl.parked[0]
            if pk == 'select':
                if len(srv.out) == 0:
                    break
                do(['w', True])
            elif pk == 'read':
                if len(srv.out) == 0:
                    break
                d = srv.next_read()
                texts = srv.sent_texts[info.setdefault('_classified', 0):]
                info['_classified'] = len(srv.sent_texts)
                do(['w', d.hex(), list(texts) + [t.strip() for t in texts if t.strip() != t]])
            elif pk == 'ready':
                do(['w', True])
            elif pk == 'write':
                do(['w', len(R.ctl.parked[1])])
            elif pk == 'close':
                do(['w', None])
            else:
                break
    if finished and R.conn_result == 'ok':
        for _ in range(srv.notifs + info.get('odd_notifs', 0) + 1):
            do(['take'])
    info['closed'] = closed
    info['finished'] = finished
    info['server_out_left'] = len(srv.out)
    info['answered'] = list(srv.answered)
    info['want11'] = want11
    info['server_caps'] = scaps
    info['n_req'] = n_req
    return cmds, R, info


def replay(cmds, transport, profile, runner_cls, extra_caps):
    R = runner_cls(transport, profile, extra_caps=extra_caps)
    for c in cmds:
        R.run(c)
    return R
