"""Builder correspondence (C07 / C09): random ARGUMENT VALUES (not a catalogue) for the base-namespace operations of the default
profile, run on the real Manager over a stub session, against Model/Builders.lean through the driver (`bd …`).

case = {'kind': 'build', 'op': …, 'args': {...}, 'uris': [server capability URIs]}
"""
import re
import xml.etree.ElementTree as ET

from core import hexs, hlist, unhexs, unhlist

BASE = 'urn:ietf:params:xml:ns:netconf:base:1.0'
CAP = 'urn:ietf:params:netconf:capability:'
GATING_CAPS = [CAP + 'candidate:1.0', CAP + 'confirmed-commit:1.0', CAP + 'confirmed-commit:1.1', CAP + 'validate:1.0', CAP + 'validate:1.1',
               CAP + 'rollback-on-error:1.0', CAP + 'url:1.0?scheme=http,ftp,file', CAP + 'startup:1.0',
               'urn:ietf:params:xml:ns:netconf:capability:validate:1.1', 'urn:ietf:params:netconf:base:1.0', 'http://example.com/yang?module=url']
NAMES = ['running', 'candidate', 'startup', 'x-y', 'A1', '_u', 'n.m', 'bad name', '1abc', '', 'a:b', ':x', 'run<ning', 'my-store', '-x', 'a/b']
URLS = ['ftp://host/%s', 'file:///var/tmp/%s', 'sftp://user@host.example:2222/dir/%s?x=1', 'https://[2001:db8::1]/%s', '://%s', 'x://%s', 'http://h/a b&c<d>%s']
TEXTS = ['plain', 'a<b>&c', '"q" \'s\'', 'l1\nl2\r\nl3\rend', '\ttab', '  pad  ', 'ünïcödé ★ 😀', ']]>', '600', '0', 'x' * 300, 'bell\x07', 'nul\x00', 'esc\x1b[0m', '\ufffe']
DO = ['merge', 'replace', 'none', 'Merge', ' none', 'delete', '']
TO = ['test-then-set', 'set', 'test-only', 'TEST-ONLY', 'test_only', 'set ', 'check']
EO = ['stop-on-error', 'continue-on-error', 'rollback-on-error', 'Rollback-On-Error', 'rollback_on_error', 'abort']
OPS = ['edit', 'edit', 'edit', 'lock', 'unlock', 'getconfig', 'delete', 'copy', 'validate', 'commit', 'commit', 'cancel', 'discard', 'kill', 'close',
       'get', 'get', 'getcf', 'getcf', 'disp', 'sub', 'schema', 'rpc', 'rpc', 'poweroff', 'reboot', 'validateel', 'copyel']
WD_CAPS = [CAP + 'with-defaults:1.0?basic-mode=explicit&also-supported=report-all,trim,report-all-tagged', CAP + 'with-defaults:1.0?basic-mode=report-all',
           CAP + 'with-defaults:1.0?also-supported=trim', CAP + 'with-defaults:1.0', CAP + 'with-defaults:1.0?basic-mode=trim&also-supported=',
           'urn:ietf:params:xml:ns:netconf:capability:with-defaults:1.0?basic-mode=explicit&also-supported=trim', None, None]
WD_MODES = ['explicit', 'trim', 'report-all', 'report-all-tagged', ' Trim ', 'TRIM', 'Report-All\n', 'bogus', 'ex plicit', 'trim,', '\ttrim', 'trim\x0b', '', '  ', '\n']
RETRIEVE = ('get', 'getcf', 'disp', 'sub', 'schema', 'rpc', 'poweroff', 'reboot', 'validateel', 'copyel')
POWER_CAPS = ['urn:liberouter:param:netconf:capability:power-control:1.0', 'urn:liberouter:params:netconf:capability:power-control:1.0']


def gen_filter(rng, plain_tree):
    r = rng.random()
    if r < 0.25:
        return None
    if r < 0.45:
        return ['xpath', rng.choice(TEXTS + ['/a/b[c="x"]', "//if[name='e0']", '/p:a/p:b'])]
    if r < 0.65:
        return ['subtree', plain_tree(rng)]
    if r < 0.75:
        return ['subtrees', [plain_tree(rng) for _ in range(rng.choice([0, 1, 2, 3]))]]
    if r < 0.82:
        return ['other', rng.choice(['Xpath', 'sub-tree', '', 'regex'])]
    t = plain_tree(rng)
    t[1] = 'filter' if rng.random() < 0.75 else rng.choice(['fltr', 'config'])
    return ['element', t, rng.random() < 0.6]          # third item: root in the base namespace (nc:filter) or un-qualified


def loc(rng):
    r = rng.random()
    if r < 0.55:
        return rng.choice(NAMES)
    return rng.choice(URLS) % rng.choice(['f', 'cfg.xml', 'ü'])


def text(rng):
    return rng.choice(TEXTS)


def opt(rng, pool, p=0.5):
    return rng.choice(pool) if rng.random() < p else None


def gen(rng, plain_tree):
    op = rng.choice(OPS)
    a = {}
    if op == 'edit':
        k = rng.choice(['xml', 'xml', 'text', 'url'])
        a = {'target': loc(rng), 'do': opt(rng, DO, 0.4), 'to': opt(rng, TO, 0.4), 'eo': opt(rng, EO, 0.4), 'cfgkind': k}
        if k == 'xml':
            t = plain_tree(rng)
            t[1] = 'config' if rng.random() < 0.85 else rng.choice(['cfg', 'data'])
            a['cfg'] = t
            a['bare_root'] = rng.random() < 0.3
        elif k == 'text':
            a['cfg'] = text(rng)
        else:
            a['cfg'] = (rng.choice(URLS) % 'c') if rng.random() < 0.8 else rng.choice(['not a url', 'host/path', 'nourl'])
    elif op in ('lock', 'unlock', 'delete'):
        a = {'target': loc(rng)}
    elif op in ('getconfig', 'validate'):
        a = {'source': loc(rng)}
    elif op == 'copy':
        a = {'source': loc(rng), 'target': loc(rng)}
    elif op == 'commit':
        a = {'confirmed': rng.random() < 0.6, 'timeout': opt(rng, TEXTS + ['']), 'persist': opt(rng, TEXTS + [''], 0.4), 'pid': opt(rng, TEXTS + [''], 0.3)}
    elif op == 'cancel':
        a = {'pid': opt(rng, TEXTS + [''])}
    elif op == 'kill':
        a = {'sid': text(rng)}
    elif op == 'get':
        a = {'filter': gen_filter(rng, plain_tree), 'wd': opt(rng, WD_MODES, 0.6)}
    elif op == 'getcf':
        a = {'source': loc(rng), 'filter': gen_filter(rng, plain_tree), 'wd': opt(rng, WD_MODES, 0.5)}
    elif op == 'disp':
        a = {'cmd': rng.choice(NAMES + ['get-system-info', 'clear-arp-table']), 'source': loc(rng) if rng.random() < 0.4 else None, 'filter': gen_filter(rng, plain_tree)}
    elif op == 'sub':
        a = {'filter': gen_filter(rng, plain_tree), 'stream': opt(rng, TEXTS + ['NETCONF'], 0.5), 'start': opt(rng, ['2020-01-01T00:00:00Z'] + TEXTS, 0.5),
             'stop': opt(rng, ['2021-01-01T00:00:00Z'] + TEXTS, 0.4)}
    elif op == 'schema':
        a = {'id': text(rng), 'version': opt(rng, TEXTS + ['2020-01-01'], 0.5), 'format': opt(rng, ['yang', 'xsd'] + TEXTS, 0.4)}
    elif op == 'rpc':
        cfg = None
        if rng.random() < 0.5:
            cfg = plain_tree(rng)
            cfg[1] = 'config' if rng.random() < 0.8 else rng.choice(['cfg', 'data'])
        a = {'cmd': rng.choice(NAMES + ['get-system-info', 'request-reboot']), 'target': loc(rng) if rng.random() < 0.4 else None,
             'source': loc(rng) if rng.random() < 0.4 else None, 'filter': gen_filter(rng, plain_tree), 'cfg': cfg, 'bare_root': rng.random() < 0.3}
    elif op in ('validateel', 'copyel'):
        cfg = plain_tree(rng)
        cfg[1] = ('config' if op == 'validateel' else 'source') if rng.random() < 0.85 else rng.choice(['cfg', 'data'])
        a = {'cfg': cfg, 'bare_root': rng.random() < 0.3}
        if op == 'copyel':
            a['target'] = loc(rng)
    uris = [u for u in GATING_CAPS if rng.random() < 0.7]
    if op in ('poweroff', 'reboot'):
        uris += [u for u in POWER_CAPS if rng.random() < 0.5]
    if op in RETRIEVE:
        w = rng.choice(WD_CAPS)
        uris += ([w] if w else []) + ([CAP + 'notification:1.0'] if rng.random() < 0.7 else []) + ([CAP + 'xpath:1.0'] if rng.random() < 0.5 else [])
        rng.shuffle(uris)
    # profiles that write the same `nc:`-prefixed envelope and do not override these operations
    # every fourth call is made in asynchronous mode: a local refusal is raised from the call all the same
    return {'kind': 'build', 'op': op, 'args': a, 'uris': uris, 'profile': rng.choice(['default', 'default', 'iosxr', 'csr']), 'async': rng.random() < 0.25}


def url_ok(u):
    from urllib.parse import urlparse
    try:
        r = urlparse(u)
        return bool(r.scheme and r.netloc)
    except Exception:
        return False


def run_impl(case, plain_build, plain_from_etree):
    from impl.rpcstub import make_manager
    from ncclient.operations.errors import MissingCapabilityError, OperationError
    from ncclient.xml_ import XMLError
    from ncclient.operations.retrieve import WithDefaultsError
    from lxml import etree
    a, op = case['args'], case['op']
    m, s, dh = make_manager(profile=case.get('profile', 'default'), raise_mode=0, server_caps=list(case['uris']),
                            responder=lambda req, mid: ('<rpc-reply message-id="%s" xmlns="%s"><data xmlns="urn:ietf:params:xml:ns:yang:ietf-netconf-monitoring">module m {}</data></rpc-reply>'
                                                        if 'get-schema' in req else '<rpc-reply message-id="%s" xmlns="%s"><ok/></rpc-reply>') % (mid, BASE))
    m.async_mode = bool(case.get('async'))
    caps_before = [(u, sorted(m.server_capabilities[u].parameters.items())) for u in m.server_capabilities]
    try:
        if op == 'edit':
            cfg = a['cfg']
            if a['cfgkind'] == 'xml':
                # root in the base namespace (new_ele) or un-qualified; children without a namespace (the shape the model serialises)
                t = a['cfg']
                from ncclient.xml_ import new_ele, sub_ele_ns
                root = etree.Element(t[1]) if a.get('bare_root') else new_ele(t[1], dict(t[2]))
                if a.get('bare_root'):
                    for k, v in t[2]:
                        root.set(k, v)

                def rec(n, parent):
                    last = None
                    for c in n[3]:
                        if c[0] == 'T':
                            if last is None:
                                parent.text = c[1]
                            else:
                                last.tail = c[1]
                        else:
                            last = sub_ele_ns(parent, c[1], None, dict(c[2]))
                            rec(c, last)
                rec(t, root)
                cfg = root
            m.edit_config(config=cfg, format={'xml': 'xml', 'text': 'text', 'url': 'url'}[a['cfgkind']], target=a['target'],
                          default_operation=a['do'], test_option=a['to'], error_option=a['eo'])
        elif op == 'lock':
            m.lock(a['target'])
        elif op == 'unlock':
            m.unlock(a['target'])
        elif op == 'getconfig':
            m.get_config(source=a['source'])
        elif op == 'delete':
            m.delete_config(a['target'])
        elif op == 'copy':
            m.copy_config(source=a['source'], target=a['target'])
        elif op == 'validate':
            m.validate(a['source'])
        elif op == 'commit':
            m.commit(confirmed=a['confirmed'], timeout=a['timeout'], persist=a['persist'], persist_id=a['pid'])
        elif op == 'cancel':
            m.cancel_commit(persist_id=a['pid'])
        elif op == 'discard':
            m.discard_changes()
        elif op == 'kill':
            m.kill_session(a['sid'])
        elif op == 'close':
            m.close_session()
        elif op in RETRIEVE:
            f = a.get('filter')
            if f is None:
                flt = None
            elif f[0] in ('xpath', 'other'):
                flt = ('xpath' if f[0] == 'xpath' else f[1], f[1] if f[0] == 'xpath' else 'criteria')
            elif f[0] == 'subtree':
                flt = ('subtree', plain_build(f[1]))
            elif f[0] == 'subtrees':
                flt = [plain_build(t) for t in f[1]]
            else:
                t = f[1]
                if f[2]:
                    from ncclient.xml_ import new_ele
                    root = new_ele(t[1], dict(t[2]))
                else:
                    root = etree.Element(t[1])
                    for k, v in t[2]:
                        root.set(k, v)
                last = None
                for c in t[3]:
                    if c[0] == 'T':
                        if last is None:
                            root.text = c[1]
                        else:
                            last.tail = c[1]
                    else:
                        last = plain_build(c)
                        root.append(last)
                flt = root
            def build_el(t, bare):
                # root in the base namespace (new_ele) or un-qualified; children without a namespace (the shape the model serialises)
                from ncclient.xml_ import new_ele
                if bare:
                    root = etree.Element(t[1])
                    for k, v in t[2]:
                        root.set(k, v)
                else:
                    root = new_ele(t[1], dict(t[2]))
                last = None
                for c in t[3]:
                    if c[0] == 'T':
                        if last is None:
                            root.text = c[1]
                        else:
                            last.tail = c[1]
                    else:
                        last = plain_build(c)
                        root.append(last)
                return root
            if op == 'schema':
                m.get_schema(a['id'], version=a['version'], format=a['format'])
            elif op == 'rpc':
                m.rpc(a['cmd'], target=a['target'], source=a['source'], filter=flt, config=None if a['cfg'] is None else build_el(a['cfg'], a['bare_root']))
            elif op == 'poweroff':
                m.poweroff_machine()
            elif op == 'reboot':
                m.reboot_machine()
            elif op == 'validateel':
                m.validate(build_el(a['cfg'], a['bare_root']))
            elif op == 'copyel':
                m.copy_config(source=build_el(a['cfg'], a['bare_root']), target=a['target'])
            elif op == 'get':
                m.get(filter=flt, with_defaults=a['wd'])
            elif op == 'getcf':
                m.get_config(source=a['source'], filter=flt, with_defaults=a['wd'])
            elif op == 'disp':
                m.dispatch(a['cmd'], source=a['source'], filter=flt)
            else:
                m.create_subscription(filter=flt, stream_name=a['stream'], start_time=a['start'], stop_time=a['stop'])
        out = 'ok'
    except MissingCapabilityError as e:
        mm = re.search(r'\[(.*)\]', str(e))
        out = 'missing:' + (mm.group(1) if mm else '?')
    except WithDefaultsError:
        out = 'withdefaults'
    except XMLError:
        out = 'xml'
    except OperationError:
        out = 'operation'
    except (ValueError, TypeError):
        out = 'value'
    except Exception as e:
        out = 'other:' + type(e).__name__
    res = {'out': out, 'nsent': len(s.sent)}
    try:
        caps_after = [(u, sorted(m.server_capabilities[u].parameters.items())) for u in m.server_capabilities]
    except Exception as e:
        caps_after = 'exc:' + type(e).__name__
    if caps_after != caps_before:
        res['caps_changed'] = [str(caps_before)[:300], str(caps_after)[:300]]
    if s.sent:
        xml = s.sent[0]
        res['ser'] = xml[xml.index('?>') + 2:] if xml.startswith('<?xml') else xml
        root = ET.fromstring(xml.encode('utf-8'))
        res['mid'] = root.get('message-id')
        case['_mid'] = res['mid']
        ops = list(root)
        res['params'] = [c.tag for c in ops[0]] if ops else []
        res['op_tree'] = plain_from_etree(ops[0]) if ops else None
    return res


def tree_toks(node, nc_root=True):
    """Driver tokens of a config tree: the root `config` in the base namespace is `nc:config` in the model, un-qualified `config` else."""
    def toks(n, top):
        if n[0] == 'T':
            return ['T', hexs(n[1])]
        name = ('nc:' + n[1]) if (top and nc_root) else n[1]
        out = ['E', hexs(name), str(len(n[2]))]
        for k, v in n[2]:
            out += [hexs(k), hexs(v)]
        out.append(str(len(n[3])))
        for c in n[3]:
            out += toks(c, False)
        return out
    return toks(node, True)


def model_line(case):
    a, op = case['args'], case['op']
    o = lambda v: '-' if v is None else hexs(v)
    head = 'bd %s %s %s' % (op, hlist(hexs(u) for u in case['uris']), hexs(case.get('_mid') or 'urn:uuid:none'))
    if op == 'edit':
        if a['cfgkind'] == 'xml':
            tail = 'xml ' + ' '.join(tree_toks(a['cfg'], nc_root=not a.get('bare_root')))
        elif a['cfgkind'] == 'text':
            tail = 'text ' + hexs(a['cfg'])
        else:
            tail = 'url %s %d' % (hexs(a['cfg']), 1 if url_ok(a['cfg']) else 0)
        return '%s %s %s %s %s %s' % (head, hexs(a['target']), o(a['do']), o(a['to']), o(a['eo']), tail)
    if op in ('lock', 'unlock', 'delete'):
        return '%s %s' % (head, hexs(a['target']))
    if op in ('getconfig', 'validate'):
        return '%s %s' % (head, hexs(a['source']))
    if op == 'copy':
        return '%s %s %s' % (head, hexs(a['source']), hexs(a['target']))
    if op == 'commit':
        return '%s %d %s %s %s' % (head, 1 if a['confirmed'] else 0, o(a['timeout']), o(a['persist']), o(a['pid']))
    if op == 'cancel':
        return '%s %s' % (head, o(a['pid']))
    if op == 'kill':
        return '%s %s' % (head, hexs(a['sid']))
    if op == 'schema':
        return '%s %s %s %s' % (head, hexs(a['id']), o(a['version']), o(a['format']))
    if op in ('poweroff', 'reboot'):
        return head
    if op == 'validateel':
        return '%s %s' % (head, ' '.join(tree_toks(a['cfg'], nc_root=not a['bare_root'])))
    if op == 'copyel':
        return '%s %s %s' % (head, hexs(a['target']), ' '.join(tree_toks(a['cfg'], nc_root=not a['bare_root'])))
    if op in RETRIEVE:
        f = a['filter']
        if f is None:
            ft = '-'
        elif f[0] in ('xpath', 'other'):
            ft = '%s %s' % (f[0], hexs(f[1]))
        elif f[0] == 'subtree':
            ft = 'subtree ' + ' '.join(tree_toks(f[1], nc_root=False))
        elif f[0] == 'subtrees':
            ft = ' '.join(['subtrees', str(len(f[1]))] + [x for t in f[1] for x in tree_toks(t, nc_root=False)])
        else:
            ft = 'element ' + ' '.join(tree_toks(f[1], nc_root=f[2]))
        if op == 'rpc':
            cfgt = 'nocfg' if a['cfg'] is None else 'cfg ' + ' '.join(tree_toks(a['cfg'], nc_root=not a['bare_root']))
            return '%s %s %s %s %s flt %s' % (head, hexs(a['cmd']), o(a['target']), o(a['source']), cfgt, ft)
        if op == 'get':
            return '%s %s %s' % (head, o(a['wd']), ft)
        if op == 'getcf':
            return '%s %s %s %s' % (head, hexs(a['source']), o(a['wd']), ft)
        if op == 'disp':
            return '%s %s %s %s' % (head, hexs(a['cmd']), o(a['source']), ft)
        return '%s %s %s %s %s' % (head, o(a['stream']), o(a['start']), o(a['stop']), ft)
    return head


def model_obs(out):
    t = out.split(' ')
    if t[0] == 'ok':
        return {'out': 'ok', 'ser': unhexs(t[1]), 'params': [unhexs(x) for x in unhlist(t[2])]}
    if t[0] != 'err':
        return {'out': 'driver:' + out[:60]}
    if t[1] == 'missing':
        return {'out': 'missing:' + unhexs(t[2])}
    return {'out': t[1]}


def has_empty_text(case):
    a = case['args']
    return any(a.get(k) == '' for k in ('timeout', 'persist', 'pid', 'sid', 'cfg', 'stream', 'start', 'stop', 'wd', 'id', 'version', 'format') if isinstance(a.get(k), str))


def compare(case, io, mo):
    if mo is None:
        return None
    if io['out'] != mo['out']:
        return 'outcome differs: implementation %s (%d sent), model %s' % (io['out'], io['nsent'], mo['out'])
    if io['out'] == 'ok':
        if io['nsent'] != 1:
            return 'implementation sent %d messages' % io['nsent']
        if io['ser'] != mo['ser'] and not has_empty_text(case):
            return 'request differs: implementation %r, model %r' % (io['ser'][:300], mo['ser'][:300])
    elif io['nsent'] != 0:
        return 'refused (%s) yet %d message(s) sent' % (io['out'], io['nsent'])
    return None


RFC_ORDER = {'edit': ['target', 'default-operation', 'test-option', 'error-option', 'config', 'config-text', 'url'], 'copy': ['target', 'source'],
             'commit': ['confirmed', 'confirm-timeout', 'persist', 'persist-id'], 'getconfig': ['source'], 'delete': ['target'], 'validate': ['source'],
             'lock': ['target'], 'unlock': ['target'], 'cancel': ['persist-id'], 'kill': ['session-id'], 'discard': [], 'close': [],
             'get': ['filter', 'with-defaults'], 'getcf': ['source', 'filter', 'with-defaults'], 'disp': ['source', 'filter'],
             'sub': ['filter', 'stream', 'startTime', 'stopTime'], 'schema': ['identifier', 'version', 'format'], 'rpc': ['target', 'source', 'filter', 'config'],
             'poweroff': [], 'reboot': [], 'validateel': ['source'], 'copyel': ['target', 'source']}
ENUMS = {'default-operation': ['merge', 'replace', 'none'], 'test-option': ['test-then-set', 'set', 'test-only'],
         'error-option': ['stop-on-error', 'continue-on-error', 'rollback-on-error']}


def required(case):
    """Documented capability dependencies of the call (RFC 6241 §8), from the arguments alone."""
    a, op = case['args'], case['op']
    url = lambda v: [':url'] if isinstance(v, str) and '://' in v else []
    if op == 'edit':
        r = url(a['target'])
        if a['to'] is not None:
            r += [':validate'] + ([':validate:1.1'] if a['to'] == 'test-only' else [])
        if a['eo'] == 'rollback-on-error':
            r += [':rollback-on-error']
        if a['cfgkind'] == 'url':
            r += [':url']
        return r
    if op in ('getconfig',):
        return url(a['source'])
    if op == 'delete':
        return url(a['target'])
    if op == 'copy':
        return url(a['target']) + url(a['source'])
    if op == 'validate':
        return [':validate'] + url(a['source'])
    if op == 'commit':
        return [':candidate'] + ([':confirmed-commit'] if a['confirmed'] else [])
    if op == 'cancel':
        return [':candidate', ':confirmed-commit']
    if op == 'discard':
        return [':candidate']
    if op == 'get':
        return [':with-defaults'] if a['wd'] is not None else []
    if op == 'getcf':
        return url(a['source']) + ([':with-defaults'] if a['wd'] is not None else [])
    if op == 'disp':
        return url(a['source'])
    if op == 'sub':
        return [':notification']
    if op == 'rpc':
        return url(a['target']) + url(a['source'])
    if op == 'validateel':
        return [':validate']
    if op == 'copyel':
        return url(a['target'])
    if op == 'poweroff':
        return [POWER_CAPS[0]]
    if op == 'reboot':
        return [POWER_CAPS[1]]
    return []


def advertised_modes(uris):
    """Independent reading of RFC 6243 section 4.3: the modes of the FIRST with-defaults capability URI in the list."""
    for u in uris:
        m = re.match(r'^urn:ietf:params:(?:xml:ns:)?netconf:capability:with-defaults:1\.0(?:\?(.*))?$', u)
        if m:
            q = dict(p.split('=') for p in (m.group(1) or '').split('&') if p.count('=') == 1)
            if 'basic-mode' not in q:
                return None
            return [q['basic-mode']] + (q['also-supported'].split(',') if 'also-supported' in q else [])
    return None


def server_has(uris, short):
    """Independent reading of RFC 6241 capability URNs: does the list contain the capability `:name[:version]`?"""
    if not short.startswith(':'):
        return short in uris            # a dependency named by its full URI
    for u in uris:
        m = re.match(r'^urn:ietf:params:(?:xml:ns:)?netconf:capability:([^:?]*):([^:?]*)', u)
        if m and short in (':' + m.group(1), ':%s:%s' % (m.group(1), m.group(2))):
            return True
    return False


def oracle(case, io, pid):
    a, op = case['args'], case['op']
    tag = '%s%s' % (op, {k: v for k, v in a.items() if k not in ('cfg', 'filter')})
    if io['out'].startswith('other:'):
        return (pid + ':builder-unexpected-exception:' + op, '%s raised %s' % (tag, io['out']))
    if io.get('caps_changed'):
        return (pid + ':server-capabilities-changed-by-call', '%s changed what the session reports as the server\'s capabilities: %s -> %s' % (tag, io['caps_changed'][0], io['caps_changed'][1]))
    if io['out'] != 'ok':
        if io['nsent']:
            return (pid + ':refused-but-sent:' + op, '%s was refused (%s) yet %d message(s) were sent' % (tag, io['out'], io['nsent']))
        return None
    if io['nsent'] != 1:
        return (pid + ':returned-without-sending:' + op, '%s returned normally (%s mode) but %d messages were sent; capabilities it depends on and the server lacks: %s' % (
            tag, 'asynchronous' if case.get('async') else 'synchronous', io['nsent'], [c for c in required(case) if not server_has(case['uris'], c)]))
    # sent: gating
    miss = [c for c in required(case) if not server_has(case['uris'], c)]
    if miss:
        return (pid + ':sent-without-capability:' + op, '%s was sent although the server does not advertise %s' % (tag, miss))
    if op in ('get', 'getcf') and a['wd'] is not None:
        modes = advertised_modes(case['uris'])
        if modes is None or a['wd'].strip().lower() not in modes:
            return (pid + ':with-defaults-mode-not-advertised:' + op, '%s was sent with with-defaults %r although the server advertises the modes %s' % (tag, a['wd'], modes))
    names = [p.split('}')[-1] for p in io['params']]
    it = iter(RFC_ORDER[op])
    if not all(n in it for n in names):
        return (pid + ':param-order:' + op, '%s: parameters %s are not in the RFC 6241 order %s' % (tag, names, RFC_ORDER[op]))
    tree = io['op_tree']
    for c in tree[3]:
        if c[0] != 'E':
            continue
        n = c[1].split('}')[-1]
        if n in ENUMS:
            v = ''.join(x[1] for x in c[3] if x[0] == 'T')
            if v not in ENUMS[n]:
                return (pid + ':enumeration-on-wire:' + op, '%s: <%s> carries %r' % (tag, n, v))
        if n in ('target', 'source'):
            want = a.get(n)
            inner = [x for x in c[3] if x[0] == 'E']
            if want is not None and len(inner) == 1:
                got = inner[0]
                if '://' in want:
                    txt = ''.join(x[1] for x in got[3] if x[0] == 'T')
                    if got[1].split('}')[-1] != 'url' or txt != want.replace('\r\n', '\n').replace('\r', '\n'):
                        return (pid + ':caller-string-altered:' + op, '%s: <%s> carries %r, the caller gave the URL %r' % (tag, n, txt, want))
                elif got[1] != '{%s}%s' % (BASE, want):
                    return (pid + ':caller-string-altered:' + op, '%s: <%s> names %r, the caller gave %r' % (tag, n, got[1], want))
    return None
