"""Generators for framing cases (C01, C02, C14). Every choice comes from the rng passed in."""

ALPHA = {
    'ascii': 'abcXYZ <>/="\' 01\n\t',
    'latin': 'aé ñü<x>ß',
    'bmp': 'a€ 中文<y/>  ',
    'astral': 'a😀𝔘<z>\U0001F600 ',
}
LOOKALIKES = [']]>', ']]>]]', ']]', '\n#', '\n##', '\n#12\n', '\n##\n', '#', '>]]>', ']]>]]&gt;']


def gen_text(rng, maxlen=60, kinds=None):
    k = rng.choice(kinds or list(ALPHA))
    n = rng.choice([1, 2, 3, 5, 8, 13, 21, maxlen])
    s = ''.join(rng.choice(ALPHA[k]) for _ in range(n))
    if rng.random() < 0.3:
        pos = rng.randint(0, len(s))
        s = s[:pos] + rng.choice(LOOKALIKES) + s[pos:]
    return s


def gen_message(rng, big=False):
    """XML-ish message text (str). Never contains the full 1.0 delimiter."""
    r = rng.random()
    body = gen_text(rng, 4000 if big and rng.random() < 0.5 else 60)
    if r < 0.5:
        m = '<rpc-reply message-id="%d" xmlns="urn:ietf:params:xml:ns:netconf:base:1.0"><data>%s</data></rpc-reply>' % (rng.randint(1, 999), body)
    elif r < 0.65:
        m = '<notification xmlns="urn:ietf:params:xml:ns:netconf:notification:1.0"><e>%s</e></notification>' % body
    elif r < 0.8:
        m = '<x>%s</x>' % body
    else:
        m = body if body.strip() else 'x'
    if rng.random() < 0.2:
        # what many servers put in front of every message; it is part of the message text the listeners must get
        m = rng.choice(['<?xml version="1.0" encoding="UTF-8"?>', "<?xml version='1.0' encoding='utf-8' standalone='yes'?>\n",
                        '<?xml version="1.0"?>', '<?xml-stylesheet href="x"?>', '<!-- c -->']) + m
    m = m.replace(']]>]]>', ']]>]] >')
    if rng.random() < 0.25:
        ws = rng.choice([' ', '\n', '\r\n', '\t ', ' ', ' ', '\x0b', ' \n '])
        m = (ws if rng.random() < 0.6 else '') + m + (ws if rng.random() < 0.6 else '')
    return m


def chunkings(rng, data):
    """Cut a byte string into >=1 non-empty chunks (octet granularity)."""
    n = len(data)
    if n == 0:
        return []
    mode = rng.choice(['whole', 'ones', 'twos', 'random', 'random', 'few'])
    if mode == 'whole' or n == 1:
        return [data]
    if mode == 'ones':
        return [data[i:i + 1] for i in range(n)] if n <= 400 else _cut(data, sorted(rng.sample(range(1, n), 40)))
    if mode == 'twos':
        return [data[i:i + 2] for i in range(0, n, 2)] if n <= 800 else _cut(data, sorted(rng.sample(range(1, n), 40)))
    k = rng.randint(1, min(n - 1, 12 if mode == 'random' else 2))
    return _cut(data, sorted(rng.sample(range(1, n), k)))


def _cut(data, points):
    out, prev = [], 0
    for p in points:
        out.append(data[prev:p])
        prev = p
    out.append(data[prev:])
    return [c for c in out if len(c)]


def interesting_offsets(stream):
    """Offsets around delimiters, chunk headers and multi-byte characters."""
    offs = set()
    for i, b in enumerate(stream):
        if b >= 0x80 or b in (0x5d, 0x3e, 0x0a, 0x23):     # non-ASCII, ']', '>', '\n', '#'
            offs.update((i, i + 1))
    return sorted(o for o in offs if 0 < o < len(stream))


def segmentations(rng, stream, bufsize=4096):
    """One way of cutting the stream into transport reads, each <= bufsize."""
    n = len(stream)
    if n == 0:
        return []
    mode = rng.choice(['whole', 'one-cut', 'biased', 'biased', 'random', 'ones', 'bufsize'])
    if mode == 'ones' and n > 300:
        mode = 'biased'
    if mode == 'whole':
        pts = []
    elif mode == 'one-cut':
        pts = [rng.randint(1, n - 1)] if n > 1 else []
    elif mode == 'biased':
        io = interesting_offsets(stream)
        k = rng.randint(1, 6)
        pts = sorted(set(rng.choice(io) if io and rng.random() < 0.8 else rng.randint(1, max(1, n - 1)) for _ in range(k)))
        pts = [p for p in pts if 0 < p < n]
    elif mode == 'random':
        k = rng.randint(1, min(10, max(1, n - 1)))
        pts = sorted(set(rng.randint(1, max(1, n - 1)) for _ in range(k)))
        pts = [p for p in pts if 0 < p < n]
    elif mode == 'ones':
        pts = list(range(1, n))
    else:
        pts = list(range(bufsize, n, bufsize))
    segs = _cut(stream, pts)
    out = []
    for s in segs:                      # respect the transport's read size
        for i in range(0, len(s), bufsize):
            out.append(s[i:i + bufsize])
    return out


def gen_valid_case(rng, big=False):
    base11 = rng.random() < 0.5
    k = rng.choice([1, 1, 2, 3, 5])
    msgs = [gen_message(rng, big) for _ in range(k)]
    if base11:
        chunked = [chunkings(rng, m.encode('utf-8')) for m in msgs]
        from oracle.framing_spec import enc11
        stream = enc11(chunked)
    else:
        from oracle.framing_spec import enc10
        chunked = None
        # RFC 4742's own limitation (premise Frameable10): the first delimiter of m+DELIM is at |m|
        msgs = [m if (m.encode('utf-8') + b']]>]]>').find(b']]>]]>') == len(m.encode('utf-8')) else m + 'x' for m in msgs]
        stream = enc10([m.encode('utf-8') for m in msgs])
        if rng.random() < 0.2:
            stream += rng.choice([b'\n', b'  ', b'\r\n'])
    # read size: 4096 octets (SSH, Unix socket) or a whole TLS record on top of it (the TLS transport keeps reading while the SSL
    # object holds decrypted octets)
    segs = segmentations(rng, stream, rng.choice([4096, 4096, 4096 + 16384]))
    return {'base11': base11, 'msgs': msgs, 'chunks': [[c.hex() for c in cs] for cs in chunked] if chunked else None,
            'segs': [s.hex() for s in segs]}


def gen_record_case(rng):
    """A short message and its terminator at the FRONT of one large read (a TLS record), followed in the same read by several thousand
    octets of the next message, whose own terminator comes in a later read."""
    base11 = rng.random() < 0.5
    small = '<rpc-reply message-id="%d" xmlns="urn:ietf:params:xml:ns:netconf:base:1.0"><ok/></rpc-reply>' % rng.randint(1, 999)
    big = '<notification xmlns="urn:ietf:params:xml:ns:netconf:notification:1.0"><e>%s</e></notification>' % gen_text(rng, rng.choice([5000, 9000, 15000]))
    tail = '<x>%s</x>' % gen_text(rng, 40)
    msgs = [m.replace(']]>]]>', ']]>]] >') for m in (small, big, tail)]
    if base11:
        from oracle.framing_spec import enc11
        chunked = [[m.encode('utf-8')] for m in msgs]
        stream = enc11(chunked)
    else:
        from oracle.framing_spec import enc10
        chunked = None
        msgs = [m if (m.encode('utf-8') + b']]>]]>').find(b']]>]]>') == len(m.encode('utf-8')) else m + 'x' for m in msgs]
        stream = enc10([m.encode('utf-8') for m in msgs])
    first_end = len(small.encode('utf-8')) + (6 if not base11 else 12)
    big_len = len(msgs[1].encode('utf-8'))
    cut = min(len(stream) - 10, first_end + rng.randint(4200, max(4300, min(big_len - 50, 19000))))
    segs = [stream[:cut]] + segmentations(rng, stream[cut:], 4096)
    return {'base11': base11, 'msgs': msgs, 'chunks': [[c.hex() for c in cs] for cs in chunked] if chunked else None, 'segs': [x.hex() for x in segs]}


MUTS = ['drop', 'insert', 'flip', 'size+1', 'size-1', 'size0', 'lead0', 'bigsize', 'nolf', 'endfirst', 'truncate',
        'bad-utf8', 'nul', 'garbage-prefix', 'dup-delim', 'size-junk', 'none']


def mutate(rng, stream, base11):
    import re
    m = rng.choice(MUTS)
    s = bytearray(stream)
    n = len(s)
    if m == 'none' or n == 0:
        return bytes(s), m
    pos = rng.randint(0, n - 1)
    heads = [x for x in re.finditer(rb'\n#(\d+)\n', bytes(s))]
    if m == 'drop':
        del s[pos]
    elif m == 'insert':
        s.insert(pos, rng.choice(b'\n#0123x]>\xc3\xa9\xff'))
    elif m == 'flip':
        s[pos] = rng.choice(b'\n#0123x]>\xc3\xa9\xff')
    elif m in ('size+1', 'size-1', 'size0', 'lead0', 'bigsize') and heads:
        h = rng.choice(heads)
        v = int(h.group(1))
        new = {'size+1': b'%d' % (v + 1), 'size-1': b'%d' % max(v - 1, 0), 'size0': b'0', 'lead0': b'0%d' % v,
               'bigsize': b'99999999999999999999'}[m]
        s[h.start(1):h.end(1)] = new
    elif m == 'size-junk' and heads:
        # a chunk header of 1..14 digits that is not terminated by LF ("#12345678901 octets follow")
        h = rng.choice(heads)
        k = rng.choice([1, 2, 9, 10, 11, 11, 12, 12, 13, 14])
        s[h.start(1):h.end(1)] = b''.join(b'%d' % rng.randint(1, 9) for _ in range(k)) + rng.choice([b'x', b' octets follow', b'#', b'\r'])
    elif m == 'nolf' and heads:
        h = rng.choice(heads)
        del s[h.start()]
    elif m == 'endfirst':
        s[0:0] = b'\n##\n'
    elif m == 'truncate':
        del s[pos:]
    elif m == 'bad-utf8':
        s[pos:pos] = rng.choice([b'\xff', b'\xc3', b'\xe2\x82', b'\xed\xa0\x80', b'\xc0\xaf', b'\xf4\x90\x80\x80'])
    elif m == 'nul':
        s[pos:pos] = b'\x00'
    elif m == 'garbage-prefix':
        s[0:0] = rng.choice([b'x', b'\n', b'#', b'\n#', b'garbage\n', b'\r\n'])
    elif m == 'dup-delim':
        d = b'\n##\n' if base11 else b']]>]]>'
        s[pos:pos] = d
    return bytes(s), m


def gen_hostile_case(rng):
    c = gen_valid_case(rng)
    stream = b''.join(bytes.fromhex(x) for x in c['segs'])
    muts = []
    for _ in range(rng.choice([1, 1, 1, 2, 3])):
        stream, m = mutate(rng, stream, c['base11'])
        muts.append(m)
    segs = segmentations(rng, stream)
    return {'base11': c['base11'], 'muts': muts, 'segs': [s.hex() for s in segs]}


SMALL_ALPHA = [b'\n', b'#', b'1', b'2', b'0', b']', b'>', b'x', b'\xc3', b'\xa9']


def exhaustive_streams(maxlen, alphabet):
    """All byte strings over `alphabet` up to maxlen (iterative, lexicographic)."""
    import itertools
    for n in range(0, maxlen + 1):
        for t in itertools.product(alphabet, repeat=n):
            yield b''.join(t)
