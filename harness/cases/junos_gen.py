"""Generators for C18: reply documents (no mixed content; Junos-style), filters drawn from the
document's own paths, segmentations, adjacent replies."""
import xml.etree.ElementTree as ET

TAGS = ['a', 'b', 'c', 'd', 'e', 'item', 'name', 're-name', 'x-y']
TEXTS = ['1', 'text', 'x &amp; y', 'é€', 'a b', '&lt;tag&gt;', '0.5', 'a ]]&gt; b', ']]&gt;]]&gt;', 'x &gt; y', '&#93;]&gt;', 'q&quot;&apos;']


def gen_elem(rng, depth, max_depth):
    tag = rng.choice(TAGS)
    attrs = ''
    if rng.random() < 0.2:
        attrs = ' k="%s"' % rng.choice(['v', 'a b', 'é'])
    if depth >= max_depth or rng.random() < 0.35:
        return '<%s%s>%s</%s>' % (tag, attrs, rng.choice(TEXTS), tag)
    kids = ''.join(gen_elem(rng, depth + 1, max_depth) for _ in range(rng.randint(1, 3)))
    return '<%s%s>%s</%s>' % (tag, attrs, kids, tag)


def gen_reply(rng, mid, nc_prefix=False):
    body = gen_elem(rng, 0, rng.randint(1, 4))
    if nc_prefix:
        return '<nc:rpc-reply xmlns:nc="urn:ietf:params:xml:ns:netconf:base:1.0" message-id="%s">%s</nc:rpc-reply>' % (mid, body)
    return '<rpc-reply message-id="%s" xmlns:junos="http://xml.juniper.net/junos/1.0">%s</rpc-reply>' % (mid, body)


def paths_filter(rng, reply):
    """A filter made of some root-to-node paths of the reply's first child (first occurrence of each tag per level)."""
    root = ET.fromstring(reply.encode('utf-8'))
    top = list(root)[0]

    def pick(el):
        kids = []
        seen = set()
        for c in el:
            if c.tag in seen:
                continue
            seen.add(c.tag)
            if rng.random() < 0.6:
                kids.append(pick(c))
        return '<%s>%s</%s>' % (el.tag, ''.join(kids), el.tag) if kids else '<%s/>' % el.tag
    return pick(top)


def project(reply, flt):
    """Reference projection (DOM): elements of the reply lying on the filter's paths, leaf text kept."""
    root = ET.fromstring(reply.encode('utf-8'))
    f = ET.fromstring(flt.encode('utf-8'))

    def proj(el, fn):
        out = ET.Element(el.tag, dict(el.attrib))
        if len(el) == 0:
            out.text = el.text
        for c in el:
            m = fn.find(c.tag)
            if m is not None:
                out.append(proj(c, m))
        return out
    if f.tag == root.tag:
        # the filter spells the path from the very top: its root is the reply envelope itself
        return proj(root, f)
    new_root = ET.Element(root.tag, dict(root.attrib))
    for c in root:
        if c.tag == f.tag:
            new_root.append(proj(c, f))
    return new_root


def canon(el):
    """Element -> nested tuple ignoring whitespace-only text and tails."""
    t = (el.text or '')
    kids = [canon(c) for c in el]
    return (el.tag, tuple(sorted(el.attrib.items())), t.strip() if not kids else '', tuple(kids))


def cut(rng, data, n_cuts):
    n = len(data)
    if n <= 1 or n_cuts == 0:
        return [data]
    pts = sorted(set(rng.randint(1, n - 1) for _ in range(n_cuts)))
    out, prev = [], 0
    for p in pts:
        out.append(data[prev:p])
        prev = p
    out.append(data[prev:])
    return out


def gen_elem_good(rng, depth, max_depth, used):
    """Tag names never repeat along a path (what Junos replies look like; premise `Good` of the model)."""
    avail = [t for t in TAGS if t not in used]
    tag = rng.choice(avail)
    attrs = ' k="%s"' % rng.choice(['v', 'a b', 'é', 'q"q', "s's", 'a<b']) .replace('&', '&amp;').replace('<', '&lt;').replace('"', '&quot;') if rng.random() < 0.25 else ''
    if depth >= max_depth or rng.random() < 0.35 or len(avail) < 2:
        return '<%s%s>%s</%s>' % (tag, attrs, rng.choice(TEXTS + ['']), tag)
    kids = ''.join(gen_elem_good(rng, depth + 1, max_depth, used | {tag}) for _ in range(rng.randint(1, 3)))
    return '<%s%s>%s</%s>' % (tag, attrs, kids, tag)


def gen_reply_good(rng, mid):
    return '<rpc-reply message-id="%s" xmlns:junos="http://xml.juniper.net/junos/1.0">%s</rpc-reply>' % (mid, gen_elem_good(rng, 0, rng.randint(1, 4), set()))


def is_good(reply):
    root = ET.fromstring(reply.encode('utf-8'))

    def ok(el, above):
        if el.tag in above or el.tag in ('rpc-reply', 'nc:rpc-reply'):
            return False
        return all(ok(c, above | {el.tag}) for c in el)
    return all(ok(c, set()) for c in root)


def sax_events(text):
    """Events as expat delivers them (xml.sax, no namespace processing) -> driver tokens."""
    import xml.sax
    from core import hexs
    toks = []

    class Hd(xml.sax.ContentHandler):
        def startElement(self, name, attrs):
            toks.extend(['S', hexs(name), str(len(attrs))])
            for k in attrs.getNames():
                toks.extend([hexs(k), hexs(attrs.getValue(k))])

        def endElement(self, name):
            toks.extend(['E', hexs(name)])

        def characters(self, content):
            toks.extend(['C', hexs(content)])
    xml.sax.parseString(text.encode('utf-8'), Hd())
    return toks


def filter_tokens(flt):
    from core import hexs
    root = ET.fromstring(flt.encode('utf-8'))

    def t(el):
        out = ['N', hexs(el.tag), str(len(el))]
        for c in el:
            out += t(c)
        return out
    return t(root)
