"""Generators and converters for XML documents: random trees as JSON, JSON <-> lxml, JSON <-> xml.etree,
JSON <-> the Lean driver's token format.

JSON node:  ['E', ns|None, name, [[ns|None, name, value], ...], [children...]] | ['T', s] | ['C', s] | ['P', target, s]
"""
from core import hexs, unhexs

NSS = [None, 'urn:a', 'urn:b', 'urn:ietf:params:xml:ns:netconf:base:1.0', 'http://example.com/ns/1', 'urn:a:b', 'http://example.com/ns/1:ext']
NAMES = ['a', 'b', 'c', 'data', 'config', 'interface', 'name', 'x-y', 'A1', 'été', 'rpc', 'rpc-reply', 'configuration']
TEXTS = ['t', 'hello world', 'é€😀', 'a<b>&c', 'line1\nline2', 'cr\rlf', '\ttab', '  pad  ', '"q" \'s\'', ']]>', '0']
BLANKS = [' ', '\n  ', '\n', '\t']


def gen_tree(rng, depth=0, max_depth=4, blanks=True, comments=True, pis=False, attr_clash=False):
    ns = rng.choice(NSS)
    name = rng.choice(NAMES)
    attrs = []
    seen = set()
    for _ in range(rng.choice([0, 0, 1, 2, 3])):
        a_ns = rng.choice([None, None, 'urn:a', 'urn:p'])
        a_name = rng.choice(['k', 'type', 'select', 'id', 'message-id'])
        key = a_name if not attr_clash else (a_ns, a_name)
        if key in seen or (a_ns, a_name) in [(x[0], x[1]) for x in attrs]:
            continue
        seen.add(key)
        attrs.append([a_ns, a_name, rng.choice(TEXTS + ['', '', '0', ' '])])
    children = []
    if depth < max_depth:
        for _ in range(rng.choice([0, 1, 1, 2, 3, 4])):
            r = rng.random()
            if r < 0.5:
                children.append(gen_tree(rng, depth + 1, max_depth, blanks, comments, pis, attr_clash))
            elif r < 0.75:
                children.append(['T', rng.choice(TEXTS)])
            elif r < 0.85 and blanks:
                children.append(['T', rng.choice(BLANKS)])
            elif r < 0.95 and comments:
                children.append(['C', rng.choice([' c ', 'x', 'a b'])])
            elif pis:
                children.append(['P', 'pi', 'x=1'])
    # merge adjacent text nodes (XML cannot tell them apart)
    merged = []
    for c in children:
        if c[0] == 'T' and merged and merged[-1][0] == 'T':
            merged[-1] = ['T', merged[-1][1] + c[1]]
        else:
            merged.append(c)
    return ['E', ns, name, attrs, merged]


def q(ns, name):
    return '{%s}%s' % (ns, name) if ns else name


def to_lxml(node, parent=None):
    from lxml import etree
    if node[0] == 'E':
        tag = q(node[1], node[2])
        el = etree.Element(tag) if parent is None else etree.SubElement(parent, tag)
        for a in node[3]:
            el.set(q(a[0], a[1]), a[2])
        last = None
        for c in node[4]:
            if c[0] == 'T':
                if last is None:
                    el.text = (el.text or '') + c[1]
                else:
                    last.tail = (last.tail or '') + c[1]
            elif c[0] == 'E':
                last = to_lxml(c, el)
            elif c[0] == 'C':
                last = etree.Comment(c[1])
                el.append(last)
            else:
                last = etree.ProcessingInstruction(c[1], c[2])
                el.append(last)
        return el
    raise ValueError(node)


def split(tag):
    if not isinstance(tag, str) and hasattr(tag, 'text'):
        tag = tag.text          # lxml hands back the QName object that was assigned to .tag
    if isinstance(tag, str) and tag.startswith('{'):
        ns, name = tag[1:].split('}', 1)
        return ns, name
    return None, tag


def from_lxml(el):
    """lxml OR xml.etree element -> JSON (comments / PIs only with lxml)."""
    ns, name = split(el.tag)
    attrs = [[split(k)[0], split(k)[1], v] for k, v in el.attrib.items()]
    children = []
    if el.text:
        children.append(['T', el.text])
    for c in el:
        if not isinstance(c.tag, str) and not hasattr(c.tag, 'text'):
            import xml.etree.ElementTree as _ET
            kind = type(c).__name__
            if 'Comment' in kind or c.tag is _ET.Comment:
                children.append(['C', c.text or ''])
            elif c.tag is _ET.ProcessingInstruction:
                tgt, _, data = (c.text or '').partition(' ')
                children.append(['P', tgt, data])
            else:
                children.append(['P', getattr(c, 'target', 'pi'), c.text or ''])
        else:
            children.append(from_lxml(c))
        if c.tail:
            children.append(['T', c.tail])
    return ['E', ns, name, attrs, children]


def canon(node, sort_attrs=True):
    if node[0] != 'E':
        return node
    attrs = sorted(node[3], key=lambda a: (a[0] or '', a[1])) if sort_attrs else node[3]
    return ['E', node[1], node[2], [list(a) for a in attrs], [canon(c, sort_attrs) for c in node[4]]]


def drop_comments(node):
    if node[0] != 'E':
        return node
    ch = []
    for c in node[4]:
        if c[0] in ('C', 'P'):
            continue
        c = drop_comments(c)
        if c[0] == 'T' and ch and ch[-1][0] == 'T':
            ch[-1] = ['T', ch[-1][1] + c[1]]
        else:
            ch.append(c)
    return ['E', node[1], node[2], node[3], ch]


def toks(node):
    if node[0] == 'E':
        out = ['E', hexs(node[1]) if node[1] else '-', hexs(node[2]), str(len(node[3]))]
        for a in node[3]:
            out += [hexs(a[0]) if a[0] else '-', hexs(a[1]), hexs(a[2])]
        out.append(str(len(node[4])))
        for c in node[4]:
            out += toks(c)
        return out
    if node[0] == 'T':
        return ['T', hexs(node[1])]
    if node[0] == 'C':
        return ['C', hexs(node[1])]
    return ['P', hexs(node[1]), hexs(node[2])]


def parse_toks(t, i=0):
    k = t[i]
    if k == 'E':
        ns = None if t[i + 1] == '-' else unhexs(t[i + 1])
        name = unhexs(t[i + 2])
        na = int(t[i + 3])
        i += 4
        attrs = []
        for _ in range(na):
            attrs.append([None if t[i] == '-' else unhexs(t[i]), unhexs(t[i + 1]), unhexs(t[i + 2])])
            i += 3
        nc = int(t[i])
        i += 1
        ch = []
        for _ in range(nc):
            c, i = parse_toks(t, i)
            ch.append(c)
        return ['E', ns, name, attrs, ch], i
    if k == 'T':
        return ['T', unhexs(t[i + 1])], i + 2
    if k == 'C':
        return ['C', unhexs(t[i + 1])], i + 2
    return ['P', unhexs(t[i + 1]), unhexs(t[i + 2])], i + 3


def parse_out_nodes(line):
    t = line.split(' ')
    n = int(t[0])
    out, i = [], 1
    for _ in range(n):
        c, i = parse_toks(t, i)
        out.append(c)
    return out


def shape(node):
    """Python mirror of the property's comparison: namespaces forgotten, whitespace-only text dropped."""
    if node[0] == 'E':
        ch = []
        for c in node[4]:
            ch += shape(c)
        return [['E', None, node[2], sorted([[None, a[1], a[2]] for a in node[3]], key=lambda a: (a[1], a[2])), ch]]
    if node[0] == 'T':
        return [] if node[1].strip(' \t\n\r\x0b\x0c') == '' else [node]
    return [node]


def drop_blank(node):
    """Remove whitespace-only text nodes (which of them a `remove_blank_text` parser drops is libxml2 heuristics)."""
    if node[0] != 'E':
        return node
    return ['E', node[1], node[2], node[3], [drop_blank(c) for c in node[4] if not (c[0] == 'T' and c[1].strip(' \t\n\r\x0b\x0c') == '')]]


def et_parse_full(text):
    """xml.etree (expat) parse that keeps comments and processing instructions."""
    import xml.etree.ElementTree as ET
    p = ET.XMLParser(target=ET.TreeBuilder(insert_comments=True, insert_pis=True))
    p.feed(text.encode('utf-8'))
    return p.close()
