"""Translator for C16's isolation clause: for a catalogue of public calls (handler construction with
parameter variations, every getter, mutation of what the getters return, Manager construction and
attribute resolution, NCElement.xpath with caller namespaces, element constructors) measure, on the
CURRENT source, which module-level / class-level mutable containers of the ncclient package each
call writes (snapshot diff).  -> lean/NcVerif/Gen/Isolation.lean"""
import os
import sys
import types

from gen.leanfmt import lstr, lstrs, llist, write_if_changed, src_hash
from gen.profiles import shipped_names


def _containers():
    """name -> repr of every module-level / class-level dict, list, set in ncclient.* modules."""
    snap = {}
    for mname, mod in list(sys.modules.items()):
        if not (mname == 'ncclient' or mname.startswith('ncclient.')) or mod is None:
            continue
        for k, v in list(vars(mod).items()):
            if k.startswith('__'):
                continue
            if isinstance(v, (dict, list, set)):
                snap['%s.%s' % (mname, k)] = _r(v)
            elif isinstance(v, types.FunctionType) and v.__module__ == mname:
                for i, dv in enumerate(v.__defaults__ or ()):
                    if isinstance(dv, (dict, list, set)):
                        snap['%s.%s.__defaults__[%d]' % (mname, k, i)] = _r(dv)      # a mutable default argument is shared by all calls
            elif isinstance(v, type) and v.__module__ == mname:
                for ck, cv in list(vars(v).items()):
                    if not ck.startswith('__') and isinstance(cv, (dict, list, set)):
                        snap['%s.%s.%s' % (mname, v.__name__, ck)] = _r(cv)
                    f = getattr(cv, '__func__', cv)
                    if isinstance(f, types.FunctionType):
                        for i, dv in enumerate(f.__defaults__ or ()):
                            if isinstance(dv, (dict, list, set)):
                                snap['%s.%s.%s.__defaults__[%d]' % (mname, v.__name__, ck, i)] = _r(dv)
    return snap


def _r(v):
    try:
        if isinstance(v, dict):
            return repr(sorted((repr(k), repr(x)) for k, x in v.items()))
        if isinstance(v, set):
            return repr(sorted(repr(x) for x in v))
        return repr(v)
    except Exception:
        return '<unrepr>'


def ops_catalogue():
    from ncclient import manager
    from ncclient.xml_ import new_ele, sub_ele, NCElement, to_ele
    from impl.rpcstub import StubSession
    ops = []
    for name in shipped_names(os.environ.get('VERIF_REPO', '/repo')):
        def mk(name=name, **kw):
            dh = manager.make_device_handler(dict({'name': name}, **kw.get('dp', {})), kw.get('ignore'))
            dh.add_additional_netconf_params(dict(kw.get('nc', {})))
            return dh
        ops.append(('construct:%s' % name, lambda mk=mk: mk()))
        ops.append(('construct+params:%s' % name, lambda mk=mk: mk(nc={'capabilities': ['urn:x:1']}, ignore=['*foo*', 'bar'], dp={'ssh_subsystem_name': 'zz', 'config_mode': 'private'})))

        def getters(mk=mk):
            dh = mk()
            c = dh.get_capabilities()
            c.append('urn:mutated')
            c[:1] = ['urn:mutated0']
            d = dh.get_xml_base_namespace_dict()
            d['zz'] = 'urn:mutated'
            e = dh.get_xml_extra_prefix_kwargs()
            e.setdefault('nsmap', {})['zz'] = 'urn:mutated'
            s = dh.get_ssh_subsystem_names()
            s.append('mutated')
            o = dh.add_additional_operations()
            o['mutated'] = object
            dh.is_rpc_error_exempt('some Error text')
            dh.perform_qualify_check()
            dh.transform_reply()
        ops.append(('getters+mutate-results:%s' % name, getters))

        def mgr(mk=mk):
            dh = mk()
            m = manager.Manager(StubSession([]), dh)
            m._vendor_operations['mutated'] = object
            for n in ('get', 'commit', 'lock', 'rpc'):
                getattr(m, n)
        ops.append(('manager:%s' % name, mgr))

    def xp():
        class R:
            _root = to_ele('<a xmlns="urn:a"><b>1</b></a>')

            def __str__(self):
                return '<a xmlns="urn:a"><b>1</b></a>'
        dh = manager.make_device_handler({'name': 'junos'})
        n = NCElement(R(), dh.transform_reply())
        n.xpath('//b', namespaces={'zz': 'urn:mutated'})
        n.xpath('//b')
    ops.append(('NCElement.xpath(namespaces)', xp))

    def ctors():
        a = new_ele('x', {'k': 'v'})
        a.attrib['m'] = '1'
        b = sub_ele(a, 'y')
        b.set('q', '2')
    ops.append(('xml constructors', ctors))
    return ops


def measure():
    import ncclient.manager, ncclient.devices, ncclient.xml_, ncclient.operations      # noqa: F401,E401
    for n in shipped_names(os.environ.get('VERIF_REPO', '/repo')):
        __import__('ncclient.devices.' + n)
    rows = []
    for label, fn in ops_catalogue():
        before = _containers()
        err = None
        try:
            fn()
        except Exception as e:          # a call that cannot run is reported, not hidden
            err = type(e).__name__
        after = _containers()
        writes = sorted(k for k in set(before) | set(after) if before.get(k) != after.get(k))
        rows.append({'label': label, 'writes': writes, 'error': err})
        # restore nothing: later rows see the polluted state, which is exactly what a user would see
    return rows


def measure_fresh():
    """Run `measure` in a FRESH interpreter: caches, memo tables and lazily filled containers are cold there, so the first use of
    every profile is observed (in the check's own process earlier translators have already used them all)."""
    import json
    import subprocess
    here = os.path.dirname(os.path.dirname(os.path.abspath(__file__)))
    code = 'import sys, json; sys.path.insert(0, %r); from gen import isolation; print("@@" + json.dumps(isolation.measure()))' % here
    p = subprocess.run([sys.executable, '-c', code], stdout=subprocess.PIPE, stderr=subprocess.PIPE, text=True, timeout=300)
    for line in p.stdout.split('\n'):
        if line.startswith('@@'):
            return json.loads(line[2:])
    raise RuntimeError('isolation probe failed: ' + p.stderr[-500:])


def generate(repo, lean_dir):
    rows = measure_fresh()
    import glob
    srcs = glob.glob(os.path.join(repo, 'ncclient', 'devices', '*.py')) + [os.path.join(repo, 'ncclient', f) for f in ('manager.py', 'xml_.py')]
    out = ['-- GENERATED by harness/gen/isolation.py from /repo on every run. Do not edit.',
           'import NcVerif.Model.Basic', 'namespace NcVerif.Gen', 'open NcVerif', '',
           'structure IsoOp where', '  label : Str', '  sharedWrites : List Str   -- module-/class-level containers whose content differs after the call',
           '  failed : Bool', '', 'def isoOps : List IsoOp := [']
    out.append(',\n'.join('  { label := %s, sharedWrites := %s, failed := %s }' % (lstr(r['label']), lstrs(r['writes']), 'true' if r['error'] else 'false')
                          for r in rows))
    out.append(']')
    out.append('end NcVerif.Gen')
    changed = write_if_changed(os.path.join(lean_dir, 'NcVerif', 'Gen', 'Isolation.lean'), '\n'.join(out) + '\n')
    return {'rows': rows, 'changed': changed}
