"""Translator (probing execution): every operation's `request()` is executed against a recording stub
session for a catalogue of argument shapes, under a server that advertises everything and then once
per asserted capability with that capability removed.  What comes out is a finite table
(lean/NcVerif/Gen/OpTable.lean) re-derived from the CURRENT source on every run; the Lean obligations
over it are `decide +kernel`.  The same rows are handed to the Python oracles (C07, C09), so that a
violated obligation comes with the concrete call that violates it."""
import itertools
import os
import re
import xml.etree.ElementTree as ET

from gen.leanfmt import lstr, lstrs, lbool, llist, write_if_changed, src_hash

BASE = 'urn:ietf:params:xml:ns:netconf:base:1.0'
NOTIF = 'urn:ietf:params:xml:ns:netconf:notification:1.0'
MON = 'urn:ietf:params:xml:ns:yang:ietf-netconf-monitoring'
WD = 'urn:ietf:params:xml:ns:yang:ietf-netconf-with-defaults'

ALL_CAPS = [
    'urn:ietf:params:netconf:base:1.0', 'urn:ietf:params:netconf:base:1.1',
    'urn:ietf:params:netconf:capability:writable-running:1.0', 'urn:ietf:params:netconf:capability:candidate:1.0',
    'urn:ietf:params:netconf:capability:confirmed-commit:1.1', 'urn:ietf:params:netconf:capability:rollback-on-error:1.0',
    'urn:ietf:params:netconf:capability:startup:1.0', 'urn:ietf:params:netconf:capability:url:1.0?scheme=http,ftp,file',
    'urn:ietf:params:netconf:capability:validate:1.1', 'urn:ietf:params:netconf:capability:xpath:1.0',
    'urn:ietf:params:netconf:capability:notification:1.0', 'urn:ietf:params:netconf:capability:interleave:1.0',
    'urn:ietf:params:netconf:capability:with-defaults:1.0?basic-mode=explicit&also-supported=report-all,trim,report-all-tagged',
    'urn:liberouter:param:netconf:capability:power-control:1.0', 'urn:liberouter:params:netconf:capability:power-control:1.0',
]


def S(name):
    """Sentinel string for argument `name`."""
    return 'zq%sqz' % name


OUT = 'zqOUTSIDERqz'


def cfg_str():
    return '<config xmlns="%s"><top xmlns="urn:x"><leaf>%s</leaf></top></config>' % (BASE, S('cfg'))


def cfg_ele():
    from ncclient.xml_ import to_ele
    return to_ele(cfg_str())


def vendor_ele(tag, sentinel):
    from ncclient.xml_ import to_ele
    return to_ele('<%s><x>%s</x></%s>' % (tag, S(sentinel), tag))


DATASTORES = ['running', 'candidate', 'url']


URL_FORMS = ['ftp://host/%s', 'file:///var/tmp/%s', 'sftp://user@host.example:2222/dir/%s?x=1', 'https://[2001:db8::1]/%s']
_url_i = [0]


def ds(kind, name):
    """A datastore name, or a URL; the URL forms (with / without authority, user, port, query, IPv6 literal) rotate over the rows."""
    if kind != 'url':
        return kind
    _url_i[0] += 1
    return URL_FORMS[_url_i[0] % len(URL_FORMS)] % S(name)


def filters():
    return [('none', lambda: None),
            ('subtree', lambda: ('subtree', '<a xmlns="urn:f"><b>%s</b></a>' % S('filter'))),
            ('xpath', lambda: ('xpath', '/a[b="%s"]' % S('filter'))),
            ('xpath-ns', lambda: ('xpath', ({'p': 'urn:f'}, '/p:a[p:b="%s"]' % S('filter')))),
            ('list', lambda: ['<a xmlns="urn:f"><b>%s</b></a>' % S('filter'), '<c xmlns="urn:g"/>']),
            ('element', lambda: '<filter xmlns="%s" type="subtree"><a xmlns="urn:f"><b>%s</b></a></filter>' % (BASE, S('filter'))),
            ('bogus', lambda: ('bogus', 'x'))]


def catalogue():
    """-> list of (op, profile, shape-key, kwargs-factory, outsider?)"""
    rows = []
    _url_i[0] = 0

    def add(op, shape, kw, outsider=False, profile='default'):
        args = [tuple(p.split('=', 1)) for p in shape.split(',') if '=' in p]
        rows.append((op, profile, shape, kw, outsider, args))
    for fk, ff in filters():
        for wd in (None, 'explicit', 'trim', 'report-all-tagged', OUT):
            add('get', 'filter=%s,wd=%s' % (fk, wd), (lambda ff=ff, wd=wd: dict(filter=ff(), with_defaults=wd)), outsider=(wd == OUT or fk == 'bogus'))
            for src in DATASTORES:
                if fk in ('none', 'subtree', 'xpath') or (wd is None and src == 'running'):
                    add('get_config', 'source=%s,filter=%s,wd=%s' % (src, fk, wd),
                        (lambda ff=ff, wd=wd, src=src: dict(source=ds(src, 'source'), filter=ff(), with_defaults=wd)),
                        outsider=(wd == OUT or fk == 'bogus'))
    for ident, ver, fmt in itertools.product((True,), (None, True), (None, True)):
        add('get_schema', 'version=%s,format=%s' % (ver, fmt),
            (lambda ver=ver, fmt=fmt: dict(identifier=S('identifier'), version=S('version') if ver else None, format=S('format') if fmt else None)))
    # near misses: outside the RFC 6241 enumerations, but equal to a member after case folding / stripping
    NEAR_DO = ['Merge', ' none', 'REPLACE', 'merge ']
    NEAR_TO = ['TEST-ONLY', 'set ', 'test_only', ' test-only', 'Test-Only', 'test-only\n', 'test_then_set']
    NEAR_EO = ['Rollback-On-Error', 'stop-on-error\n', 'rollback_on_error', ' rollback-on-error', 'rollback-on-error ', 'ROLLBACK-ON-ERROR', 'continue_on_error']
    NEAR = tuple(NEAR_DO + NEAR_TO + NEAR_EO)
    ENUM_DO = [None, 'merge', 'replace', 'none', OUT] + NEAR_DO
    ENUM_TO = [None, 'test-then-set', 'set', 'test-only', OUT] + NEAR_TO
    ENUM_EO = [None, 'stop-on-error', 'continue-on-error', 'rollback-on-error', OUT] + NEAR_EO
    for fmt, tgt, do, to, eo in itertools.product(('xml', 'xml-ele', 'text', 'url', 'badurl'), DATASTORES, ENUM_DO, ENUM_TO, ENUM_EO):
        # full product for format=xml; the other formats against a pairwise slice
        if fmt != 'xml' and not ((do, to, eo).count(None) >= 2):
            continue
        nn = sum(1 for v in (do, to, eo) if v in NEAR)
        if nn and (nn > 1 or OUT in (do, to, eo) or fmt != 'xml' or tgt != DATASTORES[0] and (do, to, eo).count(None) < 2):
            continue

        def kw(fmt=fmt, tgt=tgt, do=do, to=to, eo=eo):
            cfg = {'xml': cfg_str, 'xml-ele': cfg_ele, 'text': lambda: S('cfg'), 'url': lambda: 'http://host/%s' % S('cfg'),
                   'badurl': lambda: 'not a url'}[fmt]()
            f = {'xml': 'xml', 'xml-ele': 'xml', 'text': 'text', 'url': 'url', 'badurl': 'url'}[fmt]
            return dict(config=cfg, format=f, target=ds(tgt, 'target'), default_operation=do, test_option=to, error_option=eo)
        add('edit_config', 'format=%s,target=%s,do=%s,to=%s,eo=%s' % (fmt, tgt, do, to, eo), kw, outsider=(OUT in (do, to, eo) or fmt == 'badurl' or any(v in NEAR for v in (do, to, eo))))
    for src in DATASTORES + ['config']:
        for tgt in DATASTORES:
            add('copy_config', 'source=%s,target=%s' % (src, tgt),
                (lambda src=src, tgt=tgt: dict(source=('<source><config xmlns="%s"><t xmlns="urn:x">%s</t></config></source>' % (BASE, S('source'))) if src == 'config' else ds(src, 'source'),
                                                target=ds(tgt, 'target'))))
    for tgt in DATASTORES:
        add('delete_config', 'target=%s' % tgt, (lambda tgt=tgt: dict(target=ds(tgt, 'target'))))
    for src in DATASTORES + ['config']:
        add('validate', 'source=%s' % src, (lambda src=src: dict(source=cfg_ele() if src == 'config' else ds(src, 'source'))))
    for confirmed, tmo, persist, pid in itertools.product((False, True), (None, True), (None, True), (None, True)):
        # timeout / persist are documented as parameters OF a confirmed commit; without confirmed=True they must not put a
        # confirmed-commit element on the wire un-gated (Spec: gatedParamsOk)
        add('commit', 'confirmed=%s,timeout=%s,persist=%s,persist_id=%s' % (confirmed, tmo, persist, pid),
            (lambda confirmed=confirmed, tmo=tmo, persist=persist, pid=pid: dict(confirmed=confirmed, timeout=(S('timeout') if confirmed else '120') if tmo else None,
                                                                                 persist=(S('persist') if confirmed else 'plain-token') if persist else None,
                                                                                 persist_id=S('persistid') if pid else None)),
            outsider=bool(persist and pid))
    add('discard_changes', '', lambda: {})
    for pid in (None, True):
        add('cancel_commit', 'persist_id=%s' % pid, (lambda pid=pid: dict(persist_id=S('persistid') if pid else None)))
    for tgt in ('running', 'candidate', 'startup'):
        add('lock', 'target=%s' % tgt, (lambda tgt=tgt: dict(target=tgt)))
        add('unlock', 'target=%s' % tgt, (lambda tgt=tgt: dict(target=tgt)))
    for fk, ff in filters()[:3]:
        for stream, start, stop in itertools.product((None, True), (None, True), (None, True)):
            add('create_subscription', 'filter=%s,stream=%s,start=%s,stop=%s' % (fk, stream, start, stop),
                (lambda ff=ff, stream=stream, start=start, stop=stop: dict(filter=ff(), stream_name=S('stream') if stream else None,
                                                                         start_time=S('start') if start else None, stop_time=S('stop') if stop else None)),
                outsider=bool(stop and not start))
    add('close_session', '', lambda: {})
    add('kill_session', '', lambda: dict(session_id=S('sid')))
    add('poweroff_machine', '', lambda: {})
    add('reboot_machine', '', lambda: {})
    for src, fk in itertools.product((None, 'running', 'url'), ('none', 'subtree')):
        ff = dict(filters())[fk]
        add('dispatch', 'cmd=str,source=%s,filter=%s' % (src, fk),
            (lambda src=src, ff=ff: dict(rpc_command='vendor-cmd', source=None if src is None else ds(src, 'source'), filter=ff())))
    add('dispatch', 'cmd=element', lambda: dict(rpc_command=vendor_ele('vendor-cmd', 'cmd')))
    for tgt, src, cfg in itertools.product((None, 'url', 'candidate'), (None, 'running'), (None, True)):
        add('rpc', 'cmd=str,target=%s,source=%s,config=%s' % (tgt, src, cfg),
            (lambda tgt=tgt, src=src, cfg=cfg: dict(rpc_command='vendor-cmd', target=None if tgt is None else ds(tgt, 'target'),
                                                    source=None if src is None else ds(src, 'source'), config=cfg_str() if cfg else None)))
    # --- vendor operations (profile envelopes differ) ---
    J = 'junos'
    for fmt in ('xml', 'text'):
        add('get_configuration', 'format=%s,filter=%s' % (fmt, True), (lambda fmt=fmt: dict(format=fmt, filter=vendor_ele('configuration', 'filter'))), profile=J)
    for fmt, action in (('xml', 'merge'), ('text', 'merge'), ('text', 'set'), ('json', 'merge')):
        add('load_configuration', 'format=%s,action=%s' % (fmt, action),
            (lambda fmt=fmt, action=action: dict(format=fmt, action=action, config=vendor_ele('configuration', 'cfg') if fmt == 'xml' else S('cfg'))), profile=J)
    add('compare_configuration', '', lambda: dict(rollback=3), profile=J)
    add('command', '', lambda: dict(command=S('command'), format='text'), profile=J)
    add('reboot', '', lambda: {}, profile=J)
    add('halt', '', lambda: {}, profile=J)
    add('rollback', '', lambda: dict(rollback=2), profile=J)
    for confirmed, tmo, comment, sync, at, check in itertools.product((False, True), (None, '120'), (None, True), (False, True), (None, True), (False, True)):
        add('commit', 'confirmed=%s,timeout=%s,comment=%s,sync=%s,at=%s,check=%s' % (confirmed, tmo, comment, sync, at, check),
            (lambda confirmed=confirmed, tmo=tmo, comment=comment, sync=sync, at=at, check=check:
             dict(confirmed=confirmed, timeout=tmo, comment=S('comment') if comment else None, synchronize=sync,
                  at_time=S('attime') if at else None, check=check)), outsider=bool(confirmed and at), profile=J)
    for confirmed, tmo, persist, pid, comment in itertools.product((False, True), (None, True), (None, True), (None, True), (None, True)):
        add('commit', 'confirmed=%s,timeout=%s,persist=%s,persist_id=%s,comment=%s' % (confirmed, tmo, persist, pid, comment),
            (lambda confirmed=confirmed, tmo=tmo, persist=persist, pid=pid, comment=comment:
             dict(confirmed=confirmed, timeout=(S('timeout') if confirmed else '120') if tmo else None,
                  persist=(S('persist') if confirmed else 'plain-token') if persist else None,
                  persist_id=S('persistid') if pid else None, comment=S('comment') if comment else None)),
            outsider=bool(persist and pid), profile='sros')
    add('md_cli_raw_command', '', lambda: dict(command=S('command')), profile='sros')
    add('exec_command', '', lambda: dict(cmds=[S('cmd1'), S('cmd2')]), profile='nexus')
    add('save_config', '', lambda: {}, profile='iosxe')
    for prof in ('h3c', 'hpcomware'):
        add('action', '', lambda: dict(action=vendor_ele('top', 'action')), profile=prof)
        add('rollback', '', (lambda prof=prof: dict(file=S('file')) if prof == 'h3c' else dict(filename=S('file'))), profile=prof)
        add('save', '', (lambda prof=prof: dict(file=S('file')) if prof == 'h3c' else dict(filename=S('file'))), profile=prof)
    add('cli', '', lambda: dict(command=vendor_ele('Execution', 'command')), profile='h3c')
    add('load', '', lambda: dict(file=S('file')), profile='h3c')
    add('get_bulk', '', lambda: dict(filter=('subtree', '<a xmlns="urn:f"><b>%s</b></a>' % S('filter'))), profile='h3c')
    add('get_bulk_config', '', lambda: dict(source='running', filter=('subtree', '<a xmlns="urn:f"><b>%s</b></a>' % S('filter'))), profile='h3c')
    add('cli_display', '', lambda: dict(cmds=[S('cmd1'), S('cmd2')]), profile='hpcomware')
    add('cli_config', '', lambda: dict(cmds=[S('cmd1')]), profile='hpcomware')
    add('cli', '', lambda: dict(command=vendor_ele('execute', 'command')), profile='huawei')
    add('action', '', lambda: dict(action=vendor_ele('top', 'action')), profile='huawei')
    add('show_cli', '', lambda: dict(command=S('command')), profile='alu')
    add('get_configuration', 'content=xml', lambda: dict(content='xml', filter='<a xmlns="urn:f"><b>%s</b></a>' % S('filter')), profile='alu')
    add('get_configuration', 'content=cli', lambda: dict(content='cli', filter=[S('f1'), S('f2')], detail=True), profile='alu')
    add('load_configuration', 'format=xml', lambda: dict(format='xml', default_operation='merge', target='running', config=vendor_ele('configure', 'cfg')), profile='alu')
    add('load_configuration', 'format=cli', lambda: dict(format='cli', config=S('cfg')), profile='alu')
    return rows


class RecordingCaps:
    """Capabilities object that records which keys are looked up (the `_assert` calls)."""

    def __init__(self, uris):
        from ncclient.capabilities import Capabilities
        self._c = Capabilities(uris)
        self.asked = []

    def __contains__(self, key):
        self.asked.append(key)
        return key in self._c

    def __getitem__(self, key):
        return self._c[key]

    def __iter__(self):
        return iter(self._c)


def localname(tag):
    return tag.rsplit('}', 1)[-1]


def nsof(tag):
    return tag[1:].split('}', 1)[0] if tag.startswith('{') else ''


ENUM_ELEMS = ('default-operation', 'test-option', 'error-option', 'with-defaults')


def analyse_request(text, sentinels):
    """Parse the request with xml.etree (not lxml) and describe it."""
    root = ET.fromstring(text.encode('utf-8'))
    d = {'rootNs': nsof(root.tag), 'rootName': localname(root.tag), 'hasMsgId': 'message-id' in root.attrib, 'nOps': len(list(root))}
    ops = list(root)
    if ops:
        op = ops[0]
        d['opNs'], d['opName'] = nsof(op.tag), localname(op.tag)
        d['params'] = [localname(c.tag) for c in op]
        d['paramNs'] = [nsof(c.tag) for c in op]
        d['enumLeaves'] = [(localname(c.tag), c.text or '') for c in op if localname(c.tag) in ENUM_ELEMS]
    else:
        d['opNs'] = d['opName'] = ''
        d['params'] = []
        d['paramNs'] = []
        d['enumLeaves'] = []
    occ = []
    for name in sentinels:
        s = S(name)
        n_text = n_attr = n_tag = 0
        for el in root.iter():
            if s in el.tag:
                n_tag += 1
            for part in (el.text, el.tail):
                if part and s in part:
                    n_text += part.count(s)
            for k, v in el.attrib.items():
                if s in k:
                    n_tag += 1
                if s in v:
                    n_attr += v.count(s)
        occ.append((name, n_text + n_attr + n_tag, n_tag == 0, text.count(s)))
    d['sentinels'] = occ
    return d


def find_sentinels(kwargs):
    found = []

    def walk(v):
        if isinstance(v, str):
            for m in re.finditer(r'zq([A-Za-z0-9]+)qz', v):
                if m.group(1) != 'OUTSIDER' and m.group(1) not in found:
                    found.append(m.group(1))
        elif isinstance(v, (list, tuple)):
            for x in v:
                walk(x)
        elif isinstance(v, dict):
            for x in v.values():
                walk(x)
        elif v is not None and hasattr(v, 'iter'):
            from lxml import etree
            walk(etree.tostring(v).decode())
    walk(kwargs)
    return found


def execute(op, profile, kw_factory, caps, reply_ok=True):
    """Run one operation call on a recording stub. -> row dict"""
    from ncclient import manager
    from impl.rpcstub import StubSession
    import threading
    rc = RecordingCaps(caps)

    def responder(req, mid):
        return '<rpc-reply message-id="%s" xmlns="%s"><ok/></rpc-reply>' % (mid, BASE)
    dh = manager.make_device_handler({'name': profile})
    s = StubSession([], responder)
    s.server_capabilities = rc
    s._server_capabilities = rc
    m = manager.Manager(s, dh, timeout=2, raise_mode=0)
    kwargs = kw_factory()
    sentinels = find_sentinels(kwargs)
    try:
        getattr(m, op)(**kwargs)
        outcome = 'sent' if s.sent else 'nothing'
    except Exception as e:
        # an exception while digesting the stub's canned reply is not about the request
        outcome = 'sent' if s.sent else 'exc:' + type(e).__name__
    row = {'outcome': outcome, 'nsent': len(s.sent), 'asserted': list(rc.asked), 'sentinel_names': sentinels}
    if s.sent:
        row.update(analyse_request(s.sent[0], sentinels))
        row['request'] = s.sent[0]
    return row


def probe():
    rows = []
    for op, profile, shape, kw, outsider, args in catalogue():
        base = execute(op, profile, kw, ALL_CAPS)
        base.update(op=op, profile=profile, shape=shape, capsMode='all', outsider=outsider, args=args)
        rows.append(base)
        base['probedMinus'] = []
        # once per asserted capability with that capability removed
        for cap in list(dict.fromkeys(base['asserted'])):
            from ncclient.capabilities import Capabilities
            full = Capabilities(ALL_CAPS)
            if cap not in full:
                continue
            holder = full[cap].namespace_uri
            caps = [u for u in ALL_CAPS if u.split('?')[0] != holder]
            if cap == ':validate':          # ':validate' is also satisfied by validate:1.1; nothing weaker is advertised here
                pass
            r = execute(op, profile, kw, caps)
            r.update(op=op, profile=profile, shape=shape, capsMode='minus' + cap, outsider=outsider, args=args)
            r['probedMinus'] = []
            base['probedMinus'].append(cap)
            rows.append(r)
    return rows


FIELDS = ['op', 'profile', 'shape', 'capsMode', 'outcome', 'nsent', 'rootNs', 'rootName', 'hasMsgId', 'nOps', 'opNs', 'opName', 'params',
          'asserted', 'outsider', 'sentinels', 'enumLeaves']


def generate(repo, lean_dir):
    rows = probe()
    import glob
    srcs = glob.glob(os.path.join(repo, 'ncclient', 'operations', '*.py')) + glob.glob(os.path.join(repo, 'ncclient', 'operations', 'third_party', '*', '*.py')) \
        + [os.path.join(repo, 'ncclient', 'xml_.py'), os.path.join(repo, 'ncclient', 'manager.py')]
    out = ['-- GENERATED by harness/gen/optable.py from /repo on every run. Do not edit.',
           'import NcVerif.Model.Basic', 'namespace NcVerif.Gen', 'open NcVerif', '',
           'structure OpRow where', '  op : Str', '  profile : Str', '  args : List (Str × Str)', '  capsMode : Str', '  outcome : Str', '  nsent : Nat',
           '  rootNs : Str', '  rootName : Str', '  hasMsgId : Bool', '  nOps : Nat', '  opNs : Str', '  opName : Str',
           '  params : List Str', '  enumLeaves : List (Str × Str)', '  asserted : List Str', '  probedMinus : List Str', '  outsider : Bool',
           '  sentinels : List (Str × Nat × Bool × Nat)   -- name, occurrences in text/attribute/tag positions, none in a tag position, raw occurrences',
           'deriving DecidableEq', '']
    chunks = []
    CH = 150
    for ci in range(0, len(rows), CH):
        items = []
        for r in rows[ci:ci + CH]:
            items.append('  { op := %s, profile := %s, args := %s, capsMode := %s, outcome := %s, nsent := %d,\n'
                         '    rootNs := %s, rootName := %s, hasMsgId := %s, nOps := %d, opNs := %s, opName := %s,\n'
                         '    params := %s, enumLeaves := %s, asserted := %s, probedMinus := %s, outsider := %s, sentinels := %s }' % (
                             lstr(r['op']), lstr(r['profile']), llist(r['args'], lambda kv: '(%s, %s)' % (lstr(kv[0]), lstr(kv[1]))),
                             lstr(r['capsMode']), lstr(r['outcome']), r['nsent'],
                             lstr(r.get('rootNs', '')), lstr(r.get('rootName', '')), lbool(r.get('hasMsgId', False)), r.get('nOps', 0),
                             lstr(r.get('opNs', '')), lstr(r.get('opName', '')), lstrs(r.get('params', [])),
                             llist(r.get('enumLeaves', []), lambda kv: '(%s, %s)' % (lstr(kv[0]), lstr(kv[1]))), lstrs(r['asserted']),
                             lstrs(r['probedMinus']), lbool(r['outsider']),
                             llist(r.get('sentinels', [(n, 0, True, 0) for n in r['sentinel_names']]),
                                   lambda t: '(%s, %d, %s, %d)' % (lstr(t[0]), t[1], lbool(t[2]), t[3]))))
        out.append('def opRows%d : List OpRow := [\n%s\n]' % (ci // CH, ',\n'.join(items)))
        chunks.append('opRows%d' % (ci // CH))
    out.append('def opRowChunks : List (List OpRow) := [%s]' % ', '.join(chunks))
    out.append('def opRows : List OpRow := opRowChunks.flatten')
    out.append('end NcVerif.Gen')
    changed = write_if_changed(os.path.join(lean_dir, 'NcVerif', 'Gen', 'OpTable.lean'), '\n'.join(out) + '\n')
    return {'rows': rows, 'changed': changed, 'chunks': len(chunks)}
