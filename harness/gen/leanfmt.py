"""Helpers to print Python values as Lean terms (strings as `List Char` via `"…".toList`)."""
import hashlib
import os


def lstr(s):
    out = []
    for ch in s:
        o = ord(ch)
        if ch == '"':
            out.append('\\"')
        elif ch == '\\':
            out.append('\\\\')
        elif ch == '\n':
            out.append('\\n')
        elif ch == '\t':
            out.append('\\t')
        elif ch == '\r':
            out.append('\\r')
        elif o < 32 or o == 127:
            out.append('\\x%02x' % o)
        else:
            out.append(ch)
    return '"%s".toList' % ''.join(out)


def llist(items, fmt=lambda x: x):
    return '[' + ', '.join(fmt(i) for i in items) + ']'


def lstrs(items):
    return llist(items, lstr)


def lbool(b):
    return 'true' if b else 'false'


def write_if_changed(path, text):
    old = None
    if os.path.exists(path):
        old = open(path, encoding='utf-8').read()
    if old != text:
        os.makedirs(os.path.dirname(path), exist_ok=True)
        with open(path, 'w', encoding='utf-8') as fh:
            fh.write(text)
        return True
    return False


def src_hash(paths):
    h = hashlib.sha256()
    for p in sorted(paths):
        h.update(open(p, 'rb').read())
    return h.hexdigest()[:16]
