"""Python mirror of lean/NcVerif/Spec/Ops.lean: what the documents fix for each operation.
(Hand-written from RFC 6241 / 5277 / 6022 / 6243 and the vendor schemas, not from the code.)"""
BASE = 'urn:ietf:params:xml:ns:netconf:base:1.0'
NOTIF = 'urn:ietf:params:xml:ns:netconf:notification:1.0'
MON = 'urn:ietf:params:xml:ns:yang:ietf-netconf-monitoring'
PC = 'urn:liberouter:params:xml:ns:netconf:power-control:1.0'
HW = 'http://www.huawei.com/netconf/capability/base/1.0'

STD = {'get': (BASE, 'get'), 'get_config': (BASE, 'get-config'), 'get_schema': (MON, 'get-schema'), 'edit_config': (BASE, 'edit-config'),
       'copy_config': (BASE, 'copy-config'), 'delete_config': (BASE, 'delete-config'), 'validate': (BASE, 'validate'),
       'discard_changes': (BASE, 'discard-changes'), 'cancel_commit': (BASE, 'cancel-commit'), 'lock': (BASE, 'lock'), 'unlock': (BASE, 'unlock'),
       'create_subscription': (NOTIF, 'create-subscription'), 'close_session': (BASE, 'close-session'), 'kill_session': (BASE, 'kill-session'),
       'poweroff_machine': (PC, 'poweroff-machine'), 'reboot_machine': (PC, 'reboot-machine')}
VENDOR = {('commit', 'default'): (BASE, 'commit'), ('commit', 'sros'): (BASE, 'commit'), ('commit', 'junos'): ('', 'commit-configuration'),
          ('get_configuration', 'junos'): (BASE, 'get-configuration'), ('load_configuration', 'junos'): (BASE, 'load-configuration'),
          ('compare_configuration', 'junos'): (BASE, 'get-configuration'), ('command', 'junos'): (BASE, 'command'),
          ('reboot', 'junos'): (BASE, 'request-reboot'), ('halt', 'junos'): (BASE, 'request-halt'), ('rollback', 'junos'): (BASE, 'load-configuration'),
          ('md_cli_raw_command', 'sros'): ('urn:ietf:params:xml:ns:yang:1', 'action'), ('exec_command', 'nexus'): ('http://www.cisco.com/nxos:1.0', 'exec-command'),
          ('save_config', 'iosxe'): ('http://cisco.com/yang/cisco-ia', 'save-config'), ('action', 'h3c'): (BASE, 'action'), ('action', 'hpcomware'): (BASE, 'action'),
          ('action', 'huawei'): (HW, 'execute-action'), ('cli', 'h3c'): (BASE, 'CLI'), ('cli', 'huawei'): (HW, 'execute-cli'),
          ('cli_config', 'hpcomware'): (BASE, 'CLI'), ('cli_display', 'hpcomware'): (BASE, 'CLI'), ('rollback', 'h3c'): (BASE, 'rollback'),
          ('rollback', 'hpcomware'): (BASE, 'rollback'), ('save', 'h3c'): (BASE, 'save'), ('save', 'hpcomware'): (BASE, 'save'), ('load', 'h3c'): (BASE, 'load'),
          ('get_bulk', 'h3c'): (BASE, 'get-bulk'), ('get_bulk_config', 'h3c'): (BASE, 'get-bulk-config'), ('show_cli', 'alu'): (BASE, 'get'),
          ('get_configuration', 'alu'): (BASE, 'get-config'), ('load_configuration', 'alu'): (BASE, 'edit-config')}
ORDER = {'get': ['filter', 'with-defaults'], 'get_config': ['source', 'filter', 'with-defaults'],
         'edit_config': ['target', 'default-operation', 'test-option', 'error-option', 'config', 'config-text', 'url'],
         'copy_config': ['target', 'source'], 'delete_config': ['target'], 'lock': ['target'], 'unlock': ['target'], 'validate': ['source'],
         'commit': ['confirmed', 'confirm-timeout', 'persist', 'persist-id'], 'cancel_commit': ['persist-id'], 'discard_changes': [],
         'close_session': [], 'kill_session': ['session-id']}


def expected_op(op, profile):
    if op in ('rpc', 'dispatch'):
        return 'any'
    return VENDOR.get((op, profile)) or STD.get(op)


def is_sublist(a, b):
    it = iter(b)
    return all(x in it for x in a)


def required(row):
    a = dict(row['args'])
    op = row['op']

    def url(k):
        return [':url'] if a.get(k) == 'url' else []

    def given(k):
        return k in a and a[k] != 'None'
    if op == 'edit_config':
        return url('target') + ([':validate'] if given('to') else []) + ([':validate:1.1'] if a.get('to') == 'test-only' else []) + \
            ([':rollback-on-error'] if a.get('eo') == 'rollback-on-error' else []) + url('format')
    if op == 'get':
        return [':with-defaults'] if given('wd') else []
    if op == 'get_config':
        return url('source') + ([':with-defaults'] if given('wd') else [])
    if op == 'copy_config':
        return url('target') + url('source')
    if op == 'delete_config':
        return url('target')
    if op == 'validate':
        return [':validate'] + url('source')
    if op == 'commit':
        return [':candidate'] + ([':confirmed-commit'] if a.get('confirmed') == 'True' else [])
    if op == 'cancel_commit':
        return [':candidate', ':confirmed-commit']
    if op == 'discard_changes':
        return [':candidate']
    if op == 'create_subscription':
        return [':notification']
    if op == 'poweroff_machine':
        return ['urn:liberouter:param:netconf:capability:power-control:1.0']
    if op == 'reboot_machine':
        return ['urn:liberouter:params:netconf:capability:power-control:1.0']
    if op in ('rpc', 'dispatch', 'get_bulk_config'):
        return url('target') + url('source')
    return []


# parameter elements that exist only under a capability: their presence on the wire requires the assertion (mirrors Spec/Ops.lean gatedParams)
GATED_PARAMS = {'commit': [('confirmed', ':confirmed-commit'), ('confirm-timeout', ':confirmed-commit'), ('persist', ':confirmed-commit')],
                'edit_config': [('test-option', ':validate')],
                'get': [('with-defaults', ':with-defaults')], 'get_config': [('with-defaults', ':with-defaults')]}


GATED_VALUES = {'edit_config': [('test-option', 'test-only', ':validate:1.1'), ('error-option', 'rollback-on-error', ':rollback-on-error')]}
ENUMS = {'default-operation': ['merge', 'replace', 'none'], 'test-option': ['test-then-set', 'set', 'test-only'],
         'error-option': ['stop-on-error', 'continue-on-error', 'rollback-on-error'],
         'with-defaults': ['report-all', 'report-all-tagged', 'trim', 'explicit']}


def row_violations(row):
    """-> [(key-suffix, what)]: the predicates of Spec/Ops.lean evaluated on one probed row."""
    out = []
    sent = row['outcome'] == 'sent'
    tag = '%s@%s[%s]' % (row['op'], row['profile'], row['shape'])
    if sent:
        exp = expected_op(row['op'], row['profile'])
        if not (row['nsent'] == 1 and row['rootNs'] == BASE and row['rootName'] == 'rpc' and row['hasMsgId'] and row['nOps'] == 1):
            out.append(('shape', '%s: not exactly one <rpc> in the base namespace with message-id and one operation element' % tag))
        if exp is None or (exp != 'any' and (row['opNs'], row['opName']) != exp):
            out.append(('op-element', '%s: operation element {%s}%s, expected %s' % (tag, row['opNs'], row['opName'], exp)))
        if row['profile'] == 'default' and row['op'] in ORDER and not is_sublist(row['params'], ORDER[row['op']]):
            out.append(('param-order', '%s: parameters %s not in RFC 6241 order %s' % (tag, row['params'], ORDER[row['op']])))
        for name, n, no_tag, raw in row['sentinels']:
            if n != 1 or not no_tag or raw != 1:
                out.append(('caller-string', '%s: caller string %r occurs %d times in text/attribute/tag positions (raw %d)%s' % (
                    tag, name, n, raw, '' if no_tag else ', in a tag')))
    if sent and row['profile'] == 'default' and row['op'] in ('edit_config', 'get', 'get_config'):
        for pname, val in row.get('enumLeaves', []):
            if pname in ENUMS and val not in ENUMS[pname]:
                out.append(('enumeration', '%s: <%s> carries %r, which is not in its enumeration' % (tag, pname, val)))
    if row['outsider'] and (sent or row['nsent'] != 0):
        out.append(('enumeration', '%s: argument outside its documented set was not rejected locally (%s, %d sent)' % (tag, row['outcome'], row['nsent'])))
    if sent and row['capsMode'] == 'all':
        if set(row['asserted']) != set(required(row)):
            out.append(('gating', '%s: asserts %s, documented dependencies %s' % (tag, sorted(set(row['asserted'])), sorted(set(required(row))))))
        for pname, cap in GATED_PARAMS.get(row['op'], []):
            if pname in row['params'] and cap not in row['asserted']:
                out.append(('gated-element', '%s: <%s> is on the wire but %s was not asserted' % (tag, pname, cap)))
        for pname, val, cap in GATED_VALUES.get(row['op'], []):
            if [pname, val] in [list(x) for x in row.get('enumLeaves', [])] and cap not in row['asserted']:
                out.append(('gated-element', '%s: <%s>%s is on the wire but %s was not asserted' % (tag, pname, val, cap)))
        miss = [c for c in required(row) if c not in row['probedMinus']]
        if miss:
            out.append(('gating-probe', '%s: documented dependency %s is never asserted' % (tag, miss)))
    if row['capsMode'] != 'all':
        ok = row['outcome'] in ('exc:MissingCapabilityError', 'exc:WithDefaultsError') or (row['outcome'] == 'exc:OperationError' and row['outsider'])
        if not ok or row['nsent'] != 0:
            out.append(('refusal', '%s with %s: %s, %d message(s) sent' % (tag, row['capsMode'], row['outcome'], row['nsent'])))
    return out


def row_violation(row, kinds=None):
    """-> None | (key-suffix, what): the first violation (among `kinds`, when given)."""
    for v in row_violations(row):
        if kinds is None or v[0] in kinds:
            return v
    return None
