"""Reference (specification) decoders for RFC 4742 / RFC 6242 framing, written from the RFCs.

They define what a byte stream *means*; they share no code with ncclient or with the Lean model.
decode(stream) -> (payloads, status) with status in
   'open'      the stream is a proper prefix of a valid one (more bytes needed)
   'clean'     the stream ends exactly at a message boundary
   'bad@<n>'   the byte at offset n makes the stream impossible to extend to a valid one
"""

DELIM10 = b']]>]]>'


def decode10(stream):
    parts = bytes(stream).split(DELIM10)
    payloads = parts[:-1]
    tail = parts[-1]
    return payloads, ('clean' if tail.strip() == b'' else 'open')


def decode11(stream):
    s = bytes(stream)
    i, n = 0, len(s)
    payloads, chunks = [], []
    while True:
        if i == n:
            return payloads, ('clean' if not chunks else 'open')
        # LF HASH
        if s[i:i + 1] != b'\n':
            return payloads, 'bad@%d' % i
        if i + 1 == n:
            return payloads, 'open'
        if s[i + 1:i + 2] != b'#':
            return payloads, 'bad@%d' % (i + 1)
        if i + 2 == n:
            return payloads, 'open'
        c = s[i + 2:i + 3]
        if c == b'#':
            if not chunks:
                return payloads, 'bad@%d' % (i + 2)     # end-of-chunks with no chunk
            if i + 3 == n:
                return payloads, 'open'
            if s[i + 3:i + 4] != b'\n':
                return payloads, 'bad@%d' % (i + 3)
            payloads.append(b''.join(chunks))
            chunks = []
            i += 4
            continue
        if not (b'1' <= c <= b'9'):
            return payloads, 'bad@%d' % (i + 2)
        j = i + 2
        while j < n and b'0' <= s[j:j + 1] <= b'9':
            j += 1
        if j == n:
            return payloads, 'open'
        if s[j:j + 1] != b'\n':
            return payloads, 'bad@%d' % j
        size = int(s[i + 2:j])
        if n - (j + 1) < size:
            return payloads, 'open'
        chunks.append(s[j + 1:j + 1 + size])
        i = j + 1 + size


def enc10(msgs):
    return b''.join(m + DELIM10 for m in msgs)


def enc11(chunked_msgs):
    out = []
    for chunks in chunked_msgs:
        for c in chunks:
            out.append(b'\n#%d\n' % len(c) + c)
        out.append(b'\n##\n')
    return b''.join(out)


def is_utf8(b):
    try:
        bytes(b).decode('utf-8')
        return True
    except UnicodeDecodeError:
        return False


def expected(base11, stream):
    """What a correct client must have done after reading `stream` (any segmentation):
    -> (delivered_texts, error) with error in {None, 'FramingError', 'DecodeError'}."""
    payloads, status = (decode11 if base11 else decode10)(stream)
    out = []
    for p in payloads:
        if not is_utf8(p):
            return out, 'DecodeError'
        t = p.decode('utf-8')
        out.append(t if base11 else t.strip())
    if status.startswith('bad'):
        return out, 'FramingError'
    return out, None
