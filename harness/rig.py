"""Parallel test rig for the maintainers of /verif (NOT used by any registered check): runs checks of a private
copy of /verif against a scratch worktree of /repo with a patch applied, so that many seeded or harmless changes can be
tried at once while /repo and /verif stay free.  The registered checks always run in /verif against /repo itself.

  python3 harness/rig.py confirm <name> <dir-with-patch.diff+demo.py+meta.json>   demo ok / tests ok with patch / demo fails with patch
  python3 harness/rig.py detect <name> <patch.diff> <check id>…                    -> JSON {check: {exit, violations, first, tail}}
  python3 harness/rig.py batch <jobs.json> <out.json> [parallel]                   jobs: [{name, patch, checks, confirm_dir?}]
"""
import json
import os
import shutil
import subprocess
import sys
import tempfile
from concurrent.futures import ThreadPoolExecutor

VERIF = os.path.dirname(os.path.dirname(os.path.abspath(__file__)))
REPO = '/repo'
PY = '/venv/bin/python'
RIG = '/tmp/ncverif-rig'


def sh(cmd, cwd=None, timeout=1800, env=None):
    try:
        p = subprocess.run(cmd, cwd=cwd, stdout=subprocess.PIPE, stderr=subprocess.STDOUT, text=True, timeout=timeout, env=env)
        return p.returncode, p.stdout
    except subprocess.TimeoutExpired as e:
        return 124, (e.stdout or b'').decode(errors='replace') if isinstance(e.stdout, bytes) else (e.stdout or '')


def make_tree(name, patch=None):
    os.makedirs(RIG, exist_ok=True)
    base = tempfile.mkdtemp(prefix=name + '-', dir=RIG)
    wt = os.path.join(base, 'repo-' + os.path.basename(base))      # unique basename: git names its worktree admin dirs after it
    rc, out = sh(['git', '-C', REPO, 'worktree', 'add', '-q', '--detach', wt, 'HEAD'])
    assert rc == 0, out
    if patch:
        rc, out = sh(['git', 'apply', os.path.abspath(patch)], cwd=wt)
        if rc != 0:
            drop_tree(base)
            raise RuntimeError('patch does not apply: ' + out[-300:])
    return base, wt


def drop_tree(base):
    sh(['git', '-C', REPO, 'worktree', 'remove', '--force', os.path.join(base, 'repo-' + os.path.basename(base))])
    shutil.rmtree(base, ignore_errors=True)


def confirm(name, d):
    patch, demo = os.path.join(d, 'patch.diff'), os.path.join(d, 'demo.py')
    base, wt = make_tree(name)
    try:
        env = dict(os.environ, PYTHONPATH=wt)
        rc0, out0 = sh([PY, demo], cwd=wt, timeout=180, env=env)
        rc, out = sh(['git', 'apply', os.path.abspath(patch)], cwd=wt)
        if rc != 0:
            return {'ok': False, 'why': 'patch does not apply: ' + out[-300:]}
        rct, outt = sh([PY, '-m', 'pytest', '-q', '-p', 'no:cacheprovider', '-x', 'test'], cwd=wt, timeout=900, env=env)
        rc1, out1 = sh([PY, demo], cwd=wt, timeout=180, env=env)
        return {'demo_rc_without': rc0, 'tests_rc_with': rct, 'tests_tail': outt.strip().split('\n')[-1], 'demo_rc_with': rc1,
                'demo_tail_with': out1.strip().split('\n')[-3:], 'ok': rc0 == 0 and rct == 0 and rc1 not in (0, 124)}
    finally:
        drop_tree(base)


def detect(name, patch, checks, seed='0', tier='quick'):
    base, wt = make_tree(name, patch)
    try:
        v = os.path.join(base, 'verif')
        shutil.copytree(VERIF, v, symlinks=True, ignore=shutil.ignore_patterns('.git', 'replays', '__pycache__'))
        env = dict(os.environ, PYTHONPATH=wt, VERIF_REPO=wt, VERIF_SEED=seed)
        res = {}
        for c in checks:
            rc, out = sh([os.path.join(v, 'check'), c, '--tier', tier], cwd=v, timeout=2400 if tier == 'quick' else 7200, env=env)
            lines = [l for l in out.split('\n') if l.startswith('VIOLATION')]
            first = None
            if lines:
                rp = lines[0].split('replay=')[1].split()[0]
                try:
                    j = json.load(open(os.path.join(v, rp)))
                    first = {'key': j.get('finding_key'), 'what': (j.get('what') or '')[:300], 'kind': j.get('kind')}
                except Exception as e:
                    first = {'err': repr(e)}
            res[c] = {'exit': rc, 'violations': len(lines), 'no_failing_input': any('no-failing-input-found' in l for l in lines),
                      'first': first, 'tail': out.strip().split('\n')[-1][:300]}
        return res
    finally:
        drop_tree(base)


def job(j):
    r = {'name': j['name']}
    try:
        if j.get('confirm_dir'):
            r['confirm'] = confirm(j['name'], j['confirm_dir'])
        if j.get('checks'):
            r['detect'] = detect(j['name'], j['patch'], j['checks'], seed=str(j.get('seed', 0)), tier=j.get('tier', 'quick'))
    except Exception as e:
        r['error'] = repr(e)
    print(json.dumps(r), flush=True)
    return r


if __name__ == '__main__':
    cmd = sys.argv[1]
    if cmd == 'confirm':
        print(json.dumps(confirm(sys.argv[2], sys.argv[3]), indent=1))
    elif cmd == 'detect':
        print(json.dumps(detect(sys.argv[2], sys.argv[3], sys.argv[4:]), indent=1))
    elif cmd == 'batch':
        jobs = json.load(open(sys.argv[2]))
        par = int(sys.argv[4]) if len(sys.argv) > 4 else 4
        with ThreadPoolExecutor(par) as ex:
            out = list(ex.map(job, jobs))
        json.dump(out, open(sys.argv[3], 'w'), indent=1)
