"""Shared machinery of the /verif checks: Lean build + audit, driver protocol, verdict, evidence.

Every check is `./check <ID> [--tier quick|thorough] [--replay FILE]`; see DESIGN.md 2.2/2.3.
Only the standard library plus whatever /repo itself needs is imported here.
"""
import hashlib
import json
import os
import random
import re
import shutil
import subprocess
import sys
import tempfile
import time
import traceback

VERIF = os.path.dirname(os.path.dirname(os.path.abspath(__file__)))
LEAN = os.path.join(VERIF, 'lean')
REPO = os.environ.get('VERIF_REPO', '/repo')
EVID = os.path.join(VERIF, 'evidence')
REPLAYS = os.path.join(EVID, 'replays')
CORPUS = os.path.join(VERIF, 'corpus')
ALLOWED_AXIOMS = {'propext', 'Quot.sound', 'Classical.choice'}
FORBIDDEN = re.compile(r'\b(sorry|admit|native_decide|bv_decide|implemented_by|unsafe)\b|^\s*axiom\s|maxHeartbeats\s+0\b')

STANDING_TRUST = [
    'Lean 4.33.0 kernel (thorough tier: re-checked with leanchecker)',
    'the correspondence harness (harness/), its canonicalisers and fake servers',
    'the translator harness/gen (tables regenerated from /repo on every run)',
]


def hexs(s):
    """str -> protocol token (hex of UTF-8, 's' prefix so that the empty string is a token)."""
    return 's' + s.encode('utf-8', 'surrogatepass').hex()


def hexb(b):
    return 'b' + bytes(b).hex()


def unhex(tok):
    return bytes.fromhex(tok[1:])


def unhexs(tok):
    return bytes.fromhex(tok[1:]).decode('utf-8')


def hlist(tokens):
    """list of tokens -> one token ('_' = empty list)."""
    tokens = list(tokens)
    return ','.join(tokens) if tokens else '_'


def unhlist(tok):
    return [] if tok == '_' else tok.split(',')


class Infra(Exception):
    pass


# ---------------------------------------------------------------------------------------------
# Lean side
# ---------------------------------------------------------------------------------------------

def _run(cmd, cwd=None, timeout=3600, inp=None):
    p = subprocess.run(cmd, cwd=cwd, input=inp, stdout=subprocess.PIPE, stderr=subprocess.STDOUT,
                       timeout=timeout, text=True)
    return p.returncode, p.stdout


def strip_comments(src):
    """Remove Lean comments (nested block comments and line comments) and string literals."""
    out = []
    i, n, depth = 0, len(src), 0
    while i < n:
        if src.startswith('/-', i):
            depth += 1
            i += 2
        elif depth and src.startswith('-/', i):
            depth -= 1
            i += 2
        elif depth:
            if src[i] == '\n':
                out.append('\n')
            i += 1
        elif src.startswith('--', i):
            while i < n and src[i] != '\n':
                i += 1
        elif src[i] == "'" and i + 2 < n and src[i + 1] != '\\' and src[i + 2] == "'":
            out.append("' '")          # character literal such as '"' or '<'
            i += 3
        elif src[i] == "'" and i + 3 < n and src[i + 1] == '\\':
            j = src.find("'", i + 3) if src[i + 2] != "'" else i + 3
            if src[i + 2] == "'":
                j = i + 3
            if 0 < j - i <= 8:
                out.append("' '")      # escaped character literal such as '\n', '\'' or '\x0b'
                i = j + 1
            else:
                out.append(src[i])
                i += 1
        elif src[i] == '"':
            i += 1
            while i < n and src[i] != '"':
                i += 2 if src[i] == '\\' else 1
            i += 1
            out.append('""')
        else:
            out.append(src[i])
            i += 1
    return ''.join(out)


def lean_sources(modules):
    """Transitive closure of NcVerif.* imports of the given modules -> {module: path}."""
    seen = {}
    todo = list(modules)
    while todo:
        m = todo.pop()
        if m in seen or not m.startswith('NcVerif'):
            continue
        path = os.path.join(LEAN, *m.split('.')) + '.lean'
        if not os.path.exists(path):
            raise Infra('missing Lean module %s' % m)
        seen[m] = path
        for line in open(path, encoding='utf-8'):
            mm = re.match(r'\s*(?:public\s+)?import\s+(\S+)', line)
            if mm:
                todo.append(mm.group(1))
    return seen


def scan_forbidden(modules):
    hits = []
    for m, path in sorted(lean_sources(modules).items()):
        src = strip_comments(open(path, encoding='utf-8').read())
        for ln, line in enumerate(src.split('\n'), 1):
            if FORBIDDEN.search(line):
                hits.append('%s:%d: %s' % (m, ln, line.strip()[:120]))
    return hits


DECL_RE = re.compile(r'^(?:@\[[^\]]*\]\s*)?(private\s+|protected\s+)?(theorem|example|lemma)\s+([^\s:({\[]+)?', re.M)


def obligations_of(props_module):
    """Property theorems and non-vacuity examples declared in Props/<ID>.lean."""
    path = os.path.join(LEAN, *props_module.split('.')) + '.lean'
    src = strip_comments(open(path, encoding='utf-8').read())
    ns = []
    obs = []
    ex = 0
    for line_no, line in enumerate(src.split('\n'), 1):
        m = re.match(r'\s*namespace\s+(\S+)', line)
        if m:
            ns.append(m.group(1))
            continue
        m = re.match(r'\s*end\s+(\S+)', line)
        if m and ns and ns[-1] == m.group(1):
            ns.pop()
            continue
        m = DECL_RE.match(line)
        if m:
            kind, name = m.group(2), m.group(3)
            if m.group(1) and m.group(1).strip() == 'private':
                continue        # private helper lemma: checked by the build, its axioms show up in its users
            if kind == 'example' or not name:
                ex += 1
                obs.append({'kind': 'example', 'name': 'example#%d' % ex, 'line': line_no})
            else:
                obs.append({'kind': 'theorem', 'name': '.'.join(ns + [name]), 'line': line_no})
    return obs


def lake_build(targets, log):
    t0 = time.time()
    rc, out = _run(['lake', 'build'] + targets, cwd=LEAN, timeout=3000)
    log['lake_build_s'] = round(time.time() - t0, 2)
    log['lake_build_rc'] = rc
    if rc != 0:
        log['lake_build_tail'] = out[-4000:]
    return rc == 0, out


def print_axioms(props_module, theorem_names):
    """-> {name: set(axioms)}; names missing from the result did not check."""
    if not theorem_names:
        return {}
    tmp = tempfile.mkdtemp(prefix='ncverif-audit-')
    try:
        f = os.path.join(tmp, 'Audit.lean')
        with open(f, 'w') as fh:
            fh.write('import %s\n' % props_module)
            for n in theorem_names:
                fh.write('#print axioms %s\n' % n)
        rc, out = _run(['lake', 'env', 'lean', f], cwd=LEAN, timeout=900)
    finally:
        shutil.rmtree(tmp, ignore_errors=True)
    res = {}
    flat = re.sub(r'\s+', ' ', out)
    for m in re.finditer(r"'([^']+)' depends on axioms: \[([^\]]*)\]", flat):
        res[m.group(1)] = set(a.strip() for a in m.group(2).split(',') if a.strip())
    for m in re.finditer(r"'([^']+)' does not depend on any axioms", flat):
        res[m.group(1)] = set()
    return res, out


def leanchecker(modules, log):
    t0 = time.time()
    rc, out = _run(['lake', 'env', 'leanchecker'] + list(modules), cwd=LEAN, timeout=3000)
    log['leanchecker_s'] = round(time.time() - t0, 2)
    log['leanchecker_rc'] = rc
    if rc != 0:
        log['leanchecker_tail'] = out[-2000:]
    return rc == 0


DRIVER = os.path.join(LEAN, '.lake', 'build', 'bin', 'driver')


def run_driver(lines, timeout=1800):
    """Feed protocol lines to the compiled Lean driver; one output line per input line."""
    if not lines:
        return []
    if not os.path.exists(DRIVER):
        raise Infra('driver not built')
    data = '\n'.join(lines) + '\n'
    p = subprocess.run([DRIVER], input=data.encode(), stdout=subprocess.PIPE, stderr=subprocess.PIPE, timeout=timeout)
    if p.returncode != 0:
        raise Infra('driver exit %d: %s' % (p.returncode, p.stderr.decode(errors='replace')[-2000:]))
    outs = p.stdout.decode().split('\n')
    if outs and outs[-1] == '':
        outs.pop()
    if len(outs) != len(lines):
        raise Infra('driver produced %d lines for %d inputs' % (len(outs), len(lines)))
    return outs


# ---------------------------------------------------------------------------------------------
# Known findings
# ---------------------------------------------------------------------------------------------

def load_known():
    p = os.path.join(VERIF, 'known_findings.json')
    if not os.path.exists(p):
        return {'findings': [], 'fixed': []}
    return json.load(open(p))


# ---------------------------------------------------------------------------------------------
# The pipeline
# ---------------------------------------------------------------------------------------------

class Failure:
    """One failing case: `kind` in {'oracle','corr'}; `key` = finding key; `case` is JSON-able."""

    def __init__(self, kind, key, what, case, detail=None):
        self.kind, self.key, self.what, self.case, self.detail = kind, key, what, case, detail

    def to_json(self, pid):
        return {'property': pid, 'kind': self.kind, 'finding_key': self.key, 'what': self.what,
                'case': self.case, 'detail': self.detail}


def case_hash(obj):
    return hashlib.sha256(json.dumps(obj, sort_keys=True, default=str).encode()).hexdigest()[:12]


class Check:
    """Base class; a property module subclasses this.

    Subclass API
      ID, PROPS_MODULE, EXTRA_TARGETS
      gen_tables(log)                       -> None (writes lean/NcVerif/Gen/*.lean if it owns any)
      cases(rng, tier)                      -> iterable of JSON-able cases
      run_impl(case)                        -> JSON-able canonical observation of the REAL code
      model_lines(case)                     -> list of driver lines
      model_obs(case, outs)                 -> canonical observation predicted by the Lean model
      oracle(case, impl_obs)                -> None | (finding_key, what)     property predicate on the implementation
      nontrivial(case, impl_obs)            -> bool
      compare(case, impl_obs, model_obs)    -> None | str
      search(tier, rng, broken)             -> iterable of extra cases for the failing-input search
    """
    ID = None
    PROPS_MODULE = None
    EXTRA_TARGETS = []
    TRUST = []
    ASSUMPTIONS = []
    RULE = ''
    EXHAUSTIVE = False

    def gen_tables(self, log):
        pass

    CASE_TIMEOUT = None

    def case_timeout(self, case):
        """Watchdog (seconds) for cases that drive real threads / sockets; None = run inline."""
        return self.CASE_TIMEOUT

    def cases(self, rng, tier):
        return []

    def model_lines(self, case):
        return []

    def model_obs(self, case, outs):
        return None

    def compare(self, case, impl_obs, model_obs):
        if model_obs is None:
            return None
        if impl_obs != model_obs:
            return 'impl=%s model=%s' % (json.dumps(impl_obs, default=str)[:600], json.dumps(model_obs, default=str)[:600])
        return None

    def oracle(self, case, impl_obs):
        return None

    def nontrivial(self, case, impl_obs):
        return True

    def search(self, tier, rng, broken):
        return []

    def extra_coverage(self):
        return {}

    def shrink(self, case, still_fails):
        return case


def write_replay(pid, payload):
    os.makedirs(REPLAYS, exist_ok=True)
    h = case_hash(payload)
    path = os.path.join(REPLAYS, '%s-%s.json' % (pid, h))
    with open(path, 'w') as fh:
        json.dump(payload, fh, indent=1, sort_keys=True, default=str)
    return os.path.relpath(path, VERIF)


def load_corpus(pid):
    d = os.path.join(CORPUS, pid)
    out = []
    if os.path.isdir(d):
        for f in sorted(os.listdir(d)):
            if f.endswith('.json'):
                j = json.load(open(os.path.join(d, f)))
                out.append(j['case'] if isinstance(j, dict) and 'case' in j else j)
    return out


def run_check(chk, tier, seed, replay=None):
    t0 = time.time()
    pid = chk.ID
    log = {}
    rng = random.Random(seed)
    known = load_known()
    known_keys = {f['key']: f for f in known.get('findings', []) if f.get('property') == pid}
    violations = []          # list of (Failure)
    known_seen = {}
    infra_notes = []

    # ---- 1 GEN -------------------------------------------------------------------------------
    try:
        chk.gen_tables(log)
    except Exception as e:     # a translator that cannot read the source is a broken tie
        infra_notes.append('gen: %r' % (e,))
        log['gen_error'] = traceback.format_exc()[-3000:]

    # ---- 2 BUILD -----------------------------------------------------------------------------
    obligations = obligations_of(chk.PROPS_MODULE)
    targets = [chk.PROPS_MODULE] + list(chk.EXTRA_TARGETS) + ['driver']
    build_ok, build_out = lake_build(targets, log)
    forb = scan_forbidden([chk.PROPS_MODULE])
    discharged = []
    undischarged = []
    axioms_seen = set()
    if build_ok and not forb:
        thm_names = [o['name'] for o in obligations if o['kind'] == 'theorem']
        ax, ax_out = print_axioms(chk.PROPS_MODULE, thm_names)
        for o in obligations:
            if o['kind'] == 'example':
                discharged.append(o['name'])
            elif o['name'] in ax and ax[o['name']] <= ALLOWED_AXIOMS:
                discharged.append(o['name'])
                axioms_seen |= ax[o['name']]
            else:
                undischarged.append({'name': o['name'], 'why': 'axioms=%s' % sorted(ax.get(o['name'], ['<not found>']))})
    else:
        why = 'forbidden construct: %s' % forb[:3] if forb else 'lake build failed'
        undischarged = [{'name': o['name'], 'why': why} for o in obligations]
    if tier == 'thorough' and build_ok:
        mods = sorted(lean_sources([chk.PROPS_MODULE]).keys())
        if not leanchecker(mods, log):
            undischarged.append({'name': 'leanchecker', 'why': log.get('leanchecker_tail', '')[-400:]})
    proof_broken = bool(undischarged) or 'gen_error' in log

    # ---- 0/3/4 cases: corpus first, then generated ------------------------------------------
    if replay:
        j = json.load(open(replay))
        all_cases = [j['case']] if isinstance(j, dict) and j.get('case') is not None else []
        if not all_cases:
            print('replay file names no concrete case (%s)' % (j.get('what') if isinstance(j, dict) else ''))
    else:
        all_cases = load_corpus(pid) + list(chk.cases(rng, tier))

    evals = 0
    distinct = set()
    samples = []
    corr_diffs = []
    stats = {}

    def evaluate(cases, use_model=True):
        nonlocal evals
        cases = list(cases)
        impl_obs = []
        hangs = 0
        for c in cases:
            limit = chk.case_timeout(c)
            try:
                if hangs >= 3:
                    # the implementation wedges case after case: stop driving it, the hangs already recorded are the finding
                    impl_obs.append({'skipped_after_hangs': True})
                    continue
                if limit:
                    # cases that drive real threads / sockets run under a watchdog: a wedged implementation must become a finding,
                    # not a check that never ends
                    box = {}

                    def target(c=c, box=box):
                        try:
                            box['v'] = chk.run_impl(c)
                        except BaseException as e:      # noqa
                            box['e'] = e
                            box['tb'] = traceback.format_exc()[-1500:]
                    import threading
                    th = threading.Thread(target=target, daemon=True)
                    th.start()
                    th.join(limit)
                    if th.is_alive():
                        hangs += 1
                        impl_obs.append({'case_hangs': limit})
                    elif 'e' in box:
                        if isinstance(box['e'], Infra):
                            raise box['e']
                        impl_obs.append({'harness_exception': repr(box['e']), 'tb': box['tb']})
                    else:
                        impl_obs.append(box.get('v'))
                else:
                    impl_obs.append(chk.run_impl(c))
            except Infra:
                raise
            except Exception as e:
                impl_obs.append({'harness_exception': repr(e), 'tb': traceback.format_exc()[-1500:]})
        model = [None] * len(cases)
        if use_model and build_ok:
            lines, spans = [], []
            for c in cases:
                ls = chk.model_lines(c)
                spans.append((len(lines), len(lines) + len(ls)))
                lines.extend(ls)
            try:
                outs = run_driver(lines)
                for i, (a, b) in enumerate(spans):
                    if b > a:
                        model[i] = chk.model_obs(cases[i], outs[a:b])
            except Infra as e:
                infra_notes.append('driver: %s' % e)
        for c, io, mo in zip(cases, impl_obs, model):
            if isinstance(io, dict) and io.get('skipped_after_hangs'):
                continue
            evals += 1
            if isinstance(io, dict) and 'case_hangs' in io:
                violations.append(Failure('oracle', pid + ':implementation-hangs', 'the implementation did not finish this case within %ss (a call or the session is wedged)' % io['case_hangs'], c, io))
                continue
            if isinstance(io, dict) and 'harness_exception' in io:
                violations.append(Failure('oracle', pid + ':harness-exception', 'harness could not drive the implementation: ' + io['harness_exception'], c, io))
                continue
            if chk.nontrivial(c, io):
                distinct.add(case_hash(c))
            if len(samples) < 4:
                samples.append({'case': c, 'impl': io})
            r = chk.oracle(c, io)
            if r:
                key, what = r
                if key in known_keys and not replay:
                    known_seen.setdefault(key, (what, c))
                else:
                    violations.append(Failure('oracle', key, what, c, io))
            d = chk.compare(c, io, mo)
            if d:
                corr_diffs.append(Failure('corr', pid + ':correspondence', d, c, {'impl': io, 'model': mo}))

    evaluate(all_cases)

    # ---- failing-input search when a proof obligation or the correspondence broke -----------
    searched = 0
    if (proof_broken or corr_diffs) and not violations and not replay:
        extra = list(chk.search(tier, rng, {'undischarged': undischarged, 'corr': [f.case for f in corr_diffs[:20]]}))
        searched = len(extra)
        n_before = len(corr_diffs)
        evaluate(extra, use_model=False)
        del corr_diffs[n_before:]

    # ---- 5 VERDICT ---------------------------------------------------------------------------
    out_lines = []
    for key, (what, c) in sorted(known_seen.items()):
        out_lines.append('KNOWN-FINDING: property=%s %s [%s]' % (pid, known_keys[key].get('what', what), key))
    exit_code = 0
    reported = set()
    for f in violations:
        if f.key in reported:
            continue
        reported.add(f.key)
        try:
            f.case = chk.shrink(f.case, lambda cc: _still_fails(chk, cc, f.key))
        except Exception:
            pass
        path = write_replay(pid, f.to_json(pid))
        out_lines.append('FINDING property=%s key=%s what=%s' % (pid, f.key, str(f.what).replace('\n', ' ')[:400]))
        out_lines.append('VIOLATION property=%s replay=%s' % (pid, path))
        exit_code = 1
    if not violations and (proof_broken or corr_diffs):
        payload = {'property': pid, 'kind': 'unproved', 'case': None,
                   'what': 'property no longer shown to hold: proof obligation or correspondence does not check; '
                           'search of %d further implementation cases found no failing input' % searched,
                   'undischarged': undischarged, 'gen_error': log.get('gen_error'),
                   'lake_build_tail': log.get('lake_build_tail'),
                   'correspondence_differs': [f.to_json(pid) for f in corr_diffs[:3]]}
        path = write_replay(pid, payload)
        out_lines.append('VIOLATION property=%s replay=%s no-failing-input-found' % (pid, path))
        exit_code = 1

    wall = round(time.time() - t0, 2)
    cov = {
        'obligations': len(obligations),
        'discharged': len(discharged),
        'undischarged': undischarged,
        'obligation_names': [o['name'] for o in obligations],
        'checker_cmd': 'cd lean && lake build %s && lake env lean <#print axioms of every property theorem>%s' % (
            ' '.join(targets), ' && lake env leanchecker <modules>' if tier == 'thorough' else ''),
        'trusted_base': sorted('axiom ' + a for a in axioms_seen) + STANDING_TRUST + list(chk.TRUST),
        'evaluations': evals,
        'distinct_nontrivial': len(distinct),
        'rule': chk.RULE,
        'samples': samples,
        'traces_validated_against_impl': evals,
        'correspondence_differences': len(corr_diffs),
        'failing_input_search_cases': searched,
        'known_findings_seen': sorted(known_seen.keys()),
        'exhaustive': bool(chk.EXHAUSTIVE),
        'build': log,
        'infra_notes': infra_notes,
        'stats': stats,
    }
    try:
        cov.update(chk.extra_coverage() or {})
    except Exception as e:
        cov['extra_coverage_error'] = repr(e)
    ev = {
        'property_id': pid, 'tier': tier, 'seed': seed, 'level': 'proof', 'coverage': cov,
        'assumptions': list(chk.ASSUMPTIONS), 'wall_s': wall, 'violations': len(reported) + (1 if exit_code and not reported else 0),
    }
    if not replay:
        os.makedirs(EVID, exist_ok=True)
        with open(os.path.join(EVID, pid + '.json'), 'w') as fh:
            json.dump(ev, fh, indent=1, default=str)
    for l in out_lines:
        print(l)
    print('%s tier=%s seed=%d obligations=%d discharged=%d evaluations=%d nontrivial=%d corr_diffs=%d wall=%.1fs exit=%d' % (
        pid, tier, seed, len(obligations), len(discharged), evals, len(distinct), len(corr_diffs), wall, exit_code))
    return exit_code


def _still_fails(chk, case, key):
    try:
        io = chk.run_impl(case)
    except Exception:
        return False
    r = chk.oracle(case, io)
    return bool(r) and r[0] == key
