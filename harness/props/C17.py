"""C17 — XML helper round-trips (ncclient/xml_.py)."""
import xml.etree.ElementTree as ET

from core import Check, hexs, unhexs, hlist, unhlist
from cases import xml_gen as X


def gen_ctor_prog(rng):
    """A program over the module's own constructors: list of steps building one tree."""
    steps = []
    root_kind = rng.choice(['new_ele', 'new_ele_ns', 'new_ele_nsmap', 'new_ele+nsmap-default'])
    steps.append([root_kind, rng.choice(X.NAMES), rng.choice(['urn:a', 'urn:b'])])
    n = rng.randint(1, 7)
    for i in range(n):
        parent = rng.randint(0, i)
        kind = rng.choice(['sub_ele', 'sub_ele', 'sub_ele_ns'])
        # sub_ele_ns also with NO namespace (ns=None) - except below a root on which the caller himself declared a default namespace
        # (lxml cannot un-declare it for such a child; that combination is the caller's own doing)
        nss = ['urn:a', 'urn:c'] + ([None] if (kind == 'sub_ele_ns' and root_kind != 'new_ele+nsmap-default') else [])
        steps.append([kind, parent, rng.choice(X.NAMES), rng.choice(nss), rng.choice([None, rng.choice(X.TEXTS)]),
                      rng.choice([None, ['k', rng.choice(X.TEXTS)]])])
    return steps


def run_ctor(steps):
    from ncclient import xml_ as nx
    nodes = []
    kind, name, ns = steps[0]
    if kind == 'new_ele':
        root = nx.new_ele(name)
    elif kind == 'new_ele_ns':
        root = nx.new_ele_ns(name, ns)
    elif kind == 'new_ele_nsmap':
        root = nx.new_ele_nsmap(name, {'p': ns})
    else:
        root = nx.new_ele(name, nsmap={None: nx.BASE_NS_1_0})
    nodes.append(root)
    for kind, parent, name, ns, text, attr in steps[1:]:
        attrs = {attr[0]: attr[1]} if attr else {}
        if kind == 'sub_ele':
            e = nx.sub_ele(nodes[parent], name, attrs)
        else:
            e = nx.sub_ele_ns(nodes[parent], name, ns, attrs)
        if text is not None:
            e.text = text
        nodes.append(e)
    return root


RAW_DOCS = [
    # general entities declared in the internal subset, used in text and in an attribute value
    '<!DOCTYPE x [<!ENTITY site "lab-7"><!ENTITY two "x y">]><x loc="&site;"><n>&site;</n><m>a &two; b</m>tail &site;</x>',
    '<?xml version="1.0"?><!DOCTYPE x [<!ENTITY e "<i>in</i>">]><x><p>&e;</p></x>',
    # attribute defaults from the internal subset
    '<!DOCTYPE x [<!ATTLIST x kind CDATA "dflt">]><x><y/></x>',
    # CDATA sections, hexadecimal and decimal character references
    '<x><![CDATA[a <b> & ]]]]><![CDATA[>c]]></x>', '<x a="&#x41;&#66;&#x1F600;">&#x3c;&#62;&#xD;&#10;</x>',
    # comments / processing instructions around the root, standalone declaration
    '<?xml version="1.0" encoding="UTF-8" standalone="yes"?><!-- before --><?pi data?><x><y/></x><!-- after -->',
    # prefixes that are declared and used ONLY inside content (identityref, XPath): the bindings are part of the tree
    '<a xmlns="urn:a" xmlns:if="urn:iface"><t>if:eth0</t></a>',
    '<filter xmlns:ip="urn:ip" xmlns:nc="urn:ietf:params:xml:ns:netconf:base:1.0" type="xpath" select="/ip:a[ip:b=\'x\']"/>',
    '<a><b xmlns:ianaift="urn:iana-if-type"><type>ianaift:ethernetCsmacd</type></b><c xmlns:q="urn:q" ref="q:v"/></a>',
    '<p:a xmlns:p="urn:p" xmlns:unused="urn:unused"><p:b xmlns:p="urn:p2">p:x</p:b></p:a>',
    # redeclared default namespace, reset to none
    '<a xmlns="urn:a"><b xmlns=""><c xmlns="urn:c"/></b></a>',
    # a declared single-byte encoding with non-ASCII characters in the root start tag (whatever the text comes out as, the root-only
    # parse and the full parse must agree on it)
    '<?xml version="1.0" encoding="ISO-8859-1"?><x owner="Renée"><y>é</y></x>', '<?xml version="1.0" encoding="ISO-8859-15"?><übersicht a="1"/>',
    '<?xml version="1.0" encoding="windows-1252"?><x n="€uro"/>', '<?xml version="1.0" encoding="US-ASCII"?><x owner="R"/>',
    '<?xml version="1.0" encoding="utf-8"?><x owner="Renée ★"/>',
    # white space and line ends
    '<x>\r\nline\rend\t</x>', '<x  a = "1"   b=\'2\' ><y  /></x >',
]


def nsmaps(el):
    return [sorted(('' if k is None else k, v) for k, v in e.nsmap.items()) for e in el.iter() if isinstance(e.tag, str)]


def spec_validated(tags, reqs, node):
    tag = (node[1], node[2])
    present = {(a[0], a[1]) for a in node[3]}
    return (not tags or tag in [tuple(t) for t in tags]) and all(any(tuple(a) in present for a in alts) for alts in reqs)


def spec_replace(node, old, new):
    if node[0] != 'E':
        return node
    rn = lambda ns: new if ns == old else ns
    return ['E', rn(node[1]), node[2], [[rn(a[0]), a[1], a[2]] for a in node[3]], [spec_replace(c, old, new) for c in node[4]]]


class C17(Check):
    ID = 'C17'
    PROPS_MODULE = 'NcVerif.Props.C17'
    RULE = ('random documents (depth <= 4, default / several namespaces, namespaced attributes, text with markup characters, CR/LF/TAB, Unicode, '
            'whitespace-only text, comments) and constructor programs over new_ele / new_ele_ns / new_ele_nsmap / sub_ele / sub_ele_ns '
            '(incl. a default-namespace root): to_xml -> to_ele must give an equivalent tree which xml.etree (expat) reads identically, with '
            'exactly one XML declaration, and parse_root must agree with the full parse; random tag / attribute requirement sets for '
            'validated_element; random (old, new) namespace pairs for replace_namespace - each compared with the Lean model and with a spec '
            'written in the harness; namespace-free trees built with new_ele_ns / sub_ele_ns and nasty strings: to_xml vs the model\'s serialize byte for byte, expat vs parseDoc (theorem tree_roundtrip); a corpus of raw documents (internal-subset entities and attribute defaults, CDATA, character references, comments / PIs around the root, prefixes used only in content, namespace resets): round trip, in-scope namespace bindings per element, the tree left untouched by to_xml, xml.etree reading the serialised form as the tree. to_xml with the 7-bit encodings, the same text parsed twice with the first result changed in between, replace_namespace on trees with PIs, root-only parse of whole and truncated texts against the model. Non-trivial = a tree with >= 3 nodes; distinct by case.')
    TRUST = ['lxml parser / serialiser and expat are MODELLED for namespace-free trees (Model/XmlDoc.lean: serialize / parseDoc, compared with to_xml and expat each run) and environment otherwise (prefixes, comments, PIs, CDATA, DTD): there the round trip is a correspondence result']
    ASSUMPTIONS = ['replace_namespace: an element carrying both {old}a and {new}a attributes loses one of them (premise of replaceAttrs_exact; '
                   'such inputs are not generated)']

    def cases(self, rng, tier):
        n = 500 if tier == 'quick' else 15000
        out = []
        for i in range(n):
            t = X.gen_tree(rng)
            k = i % 4
            if k == 0:
                out.append({'kind': 'doc', 'tree': t})
            elif k == 1:
                out.append({'kind': 'ctor', 'steps': gen_ctor_prog(rng)})
            elif k == 2:
                tags = [[rng.choice(X.NSS), rng.choice(X.NAMES)] for _ in range(rng.choice([0, 1, 2, 3]))]
                if rng.random() < 0.5:
                    tags.append([t[1], t[2]])
                reqs = [[[rng.choice([None, 'urn:a', 'urn:p']), rng.choice(['k', 'type', 'select', 'id'])] for _ in range(rng.randint(1, 2))]
                        for _ in range(rng.choice([0, 0, 1, 2]))]
                if t[3] and rng.random() < 0.6:
                    # requirements met (only) by attributes the root really has, whatever their value (empty values included)
                    a = rng.choice(t[3])
                    if rng.random() < 0.5:
                        a[2] = rng.choice(['', '0', ' '])
                    reqs.append([[a[0], a[1]]] + ([[None, 'absent']] if rng.random() < 0.5 else []))
                if rng.random() < 0.3:
                    # one allowed tag that merely CONTAINS / EXTENDS the root's name (or the other way round)
                    tags = [[t[1], t[2] + rng.choice(['-reply', 'uration', 'x'])]] if rng.random() < 0.5 else [[t[1], t[2][:max(1, len(t[2]) - 1)]]]
                out.append({'kind': 'validate', 'tree': t, 'tags': tags, 'reqs': reqs, 'single_str': rng.random() < 0.5})
            else:
                old, new = rng.choice(X.NSS), rng.choice(X.NSS + ['urn:new'])
                # avoid attribute collisions after renaming (premise)
                out.append({'kind': 'replace', 'tree': X.gen_tree(rng, comments=True, pis=(rng.random() < 0.4)), 'old': old, 'new': new})
        from props import C07 as P7
        for i in range(n // 2):
            out.append({'kind': 'plain', 'tree': P7.plain_tree(rng), 'cut': rng.randrange(100)})
        for i, d in enumerate(RAW_DOCS):
            out.append({'kind': 'raw', 'i': i})
        # the SAME text parsed more than once, the earlier result changed in place in between (renamed, a child moved out, an attribute set):
        # every parse yields the tree of the text
        for i in range(20 if tier == 'quick' else 400):
            out.append({'kind': 'twice', 'tree': X.gen_tree(rng, comments=True), 'huge': i % 2 == 0, 'how': ['replace_ns', 'move_child', 'set_attr', 'clear'][i % 4]})
        # several threads parse back LARGE documents (more than a million characters each) at the same time: each gets its own tree
        for i in range(1 if tier == 'quick' else 6):
            out.append({'kind': 'bigpar', 'threads': 3, 'rounds': 3, 'chars': 1200000 + 50000 * i, 'huge': i % 2 == 1})
        out.append({'kind': 'ctor', 'steps': [['new_ele+nsmap-default', 'hello', 'urn:a'], ['sub_ele', 0, 'capabilities', 'urn:a', None, None],
                                              ['sub_ele', 1, 'capability', 'urn:a', 'urn:x', None]]})
        return out

    def run_impl(self, case):
        from ncclient import xml_ as nx
        from lxml import etree
        k = case['kind']
        if k == 'plain':
            from props import C07 as P7
            try:
                el = P7.plain_build(case['tree'])
            except ValueError as e:
                return {'unbuildable': repr(e)[:120]}
            xml = nx.to_xml(el)
            body = xml[xml.index('?>') + 2:] if xml.startswith('<?xml') else xml
            xml2 = nx.to_xml(nx.to_ele(xml))

            def root_of(text):
                try:
                    tag, attrib = nx.parse_root(text)
                    return [str(tag), [[str(a), str(b)] for a, b in attrib.items()]]
                except Exception as e:
                    return 'exc:' + type(e).__name__
            # the root-only parse on the whole text and on a text that stops somewhere after the root's start tag (the rest never matters)
            gt = body.index('>')
            cut = body[:gt + 1 + (len(body) - gt - 1) * (case.get('cut', 37) % 100) // 100]
            res = {'ser': body, 'back': P7.plain_from_etree(ET.fromstring(xml.encode('utf-8'))), 'same_again': xml2 == xml,
                   'lxml_back': P7.plain_from_etree(nx.to_ele(xml)), 'root': root_of(body), 'root_cut': root_of(cut), 'cut_text': cut}
            if not hasattr(self, '_last_plain'):
                self._last_plain = {}
            self._last_plain[id(case)] = res
            return res
        if k == 'bigpar' and not case.get('_child'):
            # concurrent use of C-level parsers: a crash there must not take the check down with it
            import os
            import json as _json
            r, w = os.pipe()
            pid = os.fork()
            if pid == 0:
                try:
                    os.close(r)
                    out = self.run_impl(dict(case, _child=True))
                    os.write(w, _json.dumps(out).encode())
                finally:
                    os._exit(0)
            os.close(w)
            data = b''
            while True:
                chunk = os.read(r, 65536)
                if not chunk:
                    break
                data += chunk
            os.close(r)
            _, status = os.waitpid(pid, 0)
            if os.WIFSIGNALED(status) or not data:
                return {'errs': ['the process was killed by signal %s' % (os.WTERMSIG(status) if os.WIFSIGNALED(status) else '?')], 'n_err': 1}
            return _json.loads(data.decode())
        if k == 'bigpar':
            import threading
            errs = []

            def work(ti):
                for r in range(case['rounds']):
                    n = case['chars'] // 40
                    doc = '<d%d xmlns="urn:t%d">%s</d%d>' % (ti, ti, ''.join('<item k="%d">value-%d-%d é</item>' % (j, ti, j) for j in range(n)), ti)
                    try:
                        el = nx.to_ele(nx.to_xml(etree.fromstring(doc.encode('utf-8'))), huge_tree=case['huge'])
                        if el.tag != '{urn:t%d}d%d' % (ti, ti) or len(el) != n or el[-1].text != 'value-%d-%d é' % (ti, n - 1):
                            errs.append('thread %d: wrong tree (%s, %d children)' % (ti, el.tag, len(el)))
                    except Exception as e:
                        errs.append('thread %d: %s: %s' % (ti, type(e).__name__, str(e)[:60]))
            ths = [threading.Thread(target=work, args=(ti,), daemon=True) for ti in range(case['threads'])]
            for t in ths:
                t.start()
            for t in ths:
                t.join(120)
            return {'errs': errs[:3], 'n_err': len(errs)}
        if k == 'twice':
            xml = nx.to_xml(X.to_lxml(case['tree']))
            first = nx.to_ele(xml, huge_tree=case['huge'])
            want = X.canon(X.from_lxml(first))
            if case['how'] == 'replace_ns':
                nx.replace_namespace(first, etree.QName(first).namespace, 'urn:changed')
            elif case['how'] == 'move_child':
                other = etree.Element('elsewhere')
                for c in list(first)[:1]:
                    other.append(c)
            elif case['how'] == 'set_attr':
                first.set('changed', 'yes')
                first.text = 'changed'
            else:
                first.clear()
            second = nx.to_ele(xml, huge_tree=case['huge'])
            return {'same_object': second is first, 'second': X.canon(X.from_lxml(second)), 'want': want,
                    'indep': X.canon(X.drop_comments(X.from_lxml(ET.fromstring(xml.encode('utf-8')))))}
        if k == 'raw':
            raw = RAW_DOCS[case['i']]
            t1 = nx.to_ele(raw)
            mem, ns1 = X.canon(X.from_lxml(t1)), nsmaps(t1)
            xml = nx.to_xml(t1)
            after = X.canon(X.from_lxml(t1))            # serialising must not change the caller's tree
            ns_after = nsmaps(t1)
            try:
                t2 = nx.to_ele(xml)
            except Exception as e:
                return {'reparse_error': type(e).__name__ + ': ' + str(e)[:100]}
            try:
                indep = X.canon(X.from_lxml(ET.fromstring(xml.encode('utf-8'))))
            except Exception as e:
                indep = 'parse-error:' + repr(e)[:100]
            try:
                tag, attrib = nx.parse_root(raw)
                root_ok = tag == t1.tag and dict(attrib) == dict(t1.attrib)
                root_got = [str(tag), sorted(dict(attrib).items())]
            except Exception as e:
                root_ok, root_got = False, 'exc:' + type(e).__name__
            return {'mem': mem, 'back': X.canon(X.from_lxml(t2)), 'ns_same': ns1 == nsmaps(t2), 'untouched': after == mem and ns_after == ns1,
                    'indep': indep, 'ndecl': xml.count('<?xml'), 'root_ok': root_ok, 'root_got': root_got, 'root_full': [t1.tag, sorted(dict(t1.attrib).items())]}
        if k in ('doc', 'ctor'):
            el = X.to_lxml(case['tree']) if k == 'doc' else run_ctor(case['steps'])
            mem = X.canon(X.from_lxml(el))
            xml = nx.to_xml(el)
            back = X.canon(X.from_lxml(nx.to_ele(xml)))
            try:
                indep = X.canon(X.from_lxml(ET.fromstring(xml.encode('utf-8'))))
            except Exception as e:
                indep = 'parse-error:' + repr(e)[:100]
            tag, attrib = nx.parse_root(xml)
            full = nx.to_ele(xml)
            # the documented `encoding` argument with the 7-bit encodings (non-ASCII characters then travel as character references): the
            # text must still be what its own declaration says, for to_ele and for an independent parser reading it in that encoding
            enc_back = {}
            # (names have no escape mechanism in XML: a tree with a non-ASCII name or prefix has no 7-bit form at all - not judged)
            names_ascii = all(ord(ch) < 128 for e in el.iter() if isinstance(e.tag, str)
                              for ch in e.tag + ''.join(str(a) for a in e.attrib.keys()) + ''.join(str(p) for p in e.nsmap.keys() if p))
            for enc in (('us-ascii', 'ASCII') if names_ascii else ()):
                try:
                    x2 = nx.to_xml(el, encoding=enc)
                    b2 = X.canon(X.from_lxml(nx.to_ele(x2)))
                    i2 = X.canon(X.from_lxml(ET.fromstring(x2.encode('utf-8'))))
                    enc_back[enc] = 'same' if (b2 == mem and i2 == X.canon(X.drop_comments(mem))) else 'differs'
                except Exception as e:
                    enc_back[enc] = 'exc:' + type(e).__name__ + ': ' + str(e)[:60]
            return {'mem': mem, 'back': back, 'indep': indep, 'ndecl': xml.count('<?xml'), 'starts_decl': xml.startswith('<?xml'), 'enc_back': enc_back,
                    'root_ok': tag == full.tag and dict(attrib) == dict(full.attrib), 'xml_ascii': nx.to_xml(el, encoding='us-ascii').count('<?xml')}
        if k == 'validate':
            el = X.to_lxml(case['tree'])
            tags = [X.q(a, b) for a, b in case['tags']]
            attrs = [[X.q(a, b) for a, b in alts] for alts in case['reqs']]
            if case.get('single_str') and len(tags) == 1:
                tags = tags[0]                                  # the documented "single allowable tag name" form
            if case.get('single_str') and attrs and all(len(a) == 1 for a in attrs):
                attrs = [a[0] for a in attrs]                   # each requirement a plain name instead of a list of alternatives
            try:
                nx.validated_element(nx.to_xml(el), tags or None, attrs or None)
                return {'ok': True}
            except nx.XMLError:
                return {'ok': False}
        if k == 'replace':
            el = X.to_lxml(case['tree'])
            try:
                nx.replace_namespace(el, case['old'], case['new'])
            except Exception as e:
                return {'tree': None, 'raised': type(e).__name__ + ': ' + str(e)[:80]}
            return {'tree': X.canon(X.from_lxml(el))}

    def _clash(self, case):
        def walk(n):
            if n[0] != 'E':
                return False
            names = [(case['new'] if a[0] == case['old'] else a[0], a[1]) for a in n[3]]
            return len(names) != len(set(names)) or any(walk(c) for c in n[4])
        return walk(case['tree'])

    def model_lines(self, case):
        k = case['kind']
        ns = lambda x: hexs(x) if x else '-'
        if k == 'plain':
            from props import C07 as P7
            lines = ['xd rt ' + ' '.join(P7.plain_toks(case['tree']))]
            io = getattr(self, '_last_plain', {}).get(id(case))
            if io and 'ser' in io:
                lines += ['xd root ' + hexs(io['ser']), 'xd root ' + hexs(io['cut_text'])]
            return lines
        if k == 'validate':
            qn = lambda l: hlist('%s|%s' % (ns(a), hexs(b)) for a, b in l)
            reqs = ';'.join(qn(alts) for alts in case['reqs']) or '_'
            return ['xm validated %s %s %s' % (qn(case['tags']), reqs, ' '.join(X.toks(case['tree'])))]
        if k == 'replace' and not self._clash(case):
            return ['xm replacens %s %s %s' % (ns(case['old']), ns(case['new']), ' '.join(X.toks(case['tree'])))]
        return []

    def model_obs(self, case, outs):
        k = case['kind']
        if k == 'plain':
            from props import C07 as P7
            toks = outs[0].split(' ')
            if len(toks) < 3:
                return {'bad': outs[0]}
            def root_obs(o):
                if o == 'none':
                    return None
                t = o.split(' ')
                return [unhexs(t[0]), [[unhexs(x) for x in p.split('=')] for p in unhlist(t[1])]]
            res = {'wf': toks[0], 'ser': unhexs(toks[1]), 'back': None if toks[2] == 'none' else P7.plain_from_toks(toks[2:])[0]}
            if len(outs) >= 3:
                res['root'], res['root_cut'] = root_obs(outs[1]), root_obs(outs[2])
            return res
        if k == 'validate':
            return {'ok': outs[0] == '1'}
        if k == 'replace' and outs:
            return {'tree': X.canon(X.parse_out_nodes(outs[0])[0])}
        return None

    def compare(self, case, io, mo):
        if case['kind'] != 'plain':
            return Check.compare(self, case, io, mo)
        if mo is None or 'unbuildable' in io:
            return None
        if mo.get('wf') != '1':
            return 'generated tree is not well-formed for the model'
        if io['ser'] != mo['ser']:
            return 'serialisation differs: to_xml %r, model %r' % (io['ser'][:200], mo['ser'][:200])
        if io['back'] != mo['back']:
            return 'reading differs: expat %r, model parseDoc %r' % (str(io['back'])[:200], str(mo['back'])[:200])
        if 'root' in mo:
            if io['root'] != mo['root']:
                return 'root-only parse differs: parse_root %r, model parseRoot %r' % (str(io['root'])[:200], str(mo['root'])[:200])
            if not str(io['root_cut']).startswith('exc:') and io['root_cut'] != mo['root_cut']:
                return 'root-only parse of a text that stops after the start tag differs: parse_root %r, model %r' % (str(io['root_cut'])[:200], str(mo['root_cut'])[:200])
        return None

    def oracle(self, case, io):
        k = case['kind']
        if k == 'raw':
            tag = 'document %d (%s...)' % (case['i'], RAW_DOCS[case['i']][:50])
            if 'reparse_error' in io:
                return ('C17:roundtrip-not-identity:raw', 'to_xml(to_ele(d)) cannot be parsed back (%s) for %s' % (io['reparse_error'], tag))
            if io['back'] != io['mem']:
                return ('C17:roundtrip-not-identity:raw', 'to_ele(to_xml(t)) differs from t for %s' % tag)
            if not io['ns_same']:
                return ('C17:namespace-bindings-lost', 'the in-scope namespace bindings of some element differ after to_xml -> to_ele for %s' % tag)
            if not io['untouched']:
                return ('C17:to-xml-mutates-tree', 'to_xml changed the tree it was given (%s)' % tag)
            if io['indep'] != X.canon(X.drop_comments(io['mem'])):
                return ('C17:independent-parser-disagrees:raw', 'xml.etree reads the serialised form differently from the tree (%s): %s' % (tag, str(io['indep'])[:120]))
            if io['ndecl'] != 1:
                return ('C17:declaration-count', 'serialised form has %d XML declarations' % io['ndecl'])
            if not io['root_ok']:
                return ('C17:parse-root-disagrees', 'parse_root gives %s, the full parse %s (%s)' % (io['root_got'], io['root_full'], tag))
            return None
        if k == 'bigpar':
            if io['n_err']:
                return ('C17:concurrent-parse', '%d threads parsing back documents of %d characters at the same time: %d failures (%s)' % (case['threads'], case['chars'], io['n_err'], io['errs']))
            return None
        if k == 'twice':
            if io['same_object'] or io['second'] != io['want'] or X.canon(X.drop_comments(io['second'])) != io['indep']:
                return ('C17:parse-depends-on-earlier-parse', 'the same text parsed a second time (huge_tree=%s) after the first result had been changed in place (%s) '
                        'does not yield the tree of the text%s' % (case['huge'], case['how'], ' (the very same object is handed out again)' if io['same_object'] else ''))
            return None
        if k == 'plain':
            if 'unbuildable' in io:
                return None
            if io['lxml_back'] != case['tree']:
                return ('C17:roundtrip-not-identity:plain', 'to_ele(to_xml(t)) differs from the tree that was built')
            if io['back'] != case['tree']:
                return ('C17:independent-parser-disagrees:plain', 'xml.etree reads the serialised form differently from the tree that was built')
            if not io['same_again']:
                return ('C17:roundtrip-not-identity:plain', 'to_xml(to_ele(to_xml(t))) differs from to_xml(t)')
            return None
        if k in ('doc', 'ctor'):
            if io['back'] != io['mem']:
                return ('C17:roundtrip-not-identity:' + k, 'to_ele(to_xml(t)) differs from t (%s)' % ('constructor-built tree' if k == 'ctor' else 'parsed document'))
            want = X.canon(X.drop_comments(io['mem']))
            if io['indep'] != want:
                return ('C17:independent-parser-disagrees:' + k, 'xml.etree reads the serialised form differently')
            bad = {k: v for k, v in (io.get('enc_back') or {}).items() if v != 'same'}
            if bad:
                return ('C17:declared-encoding-roundtrip', 'to_xml(tree, encoding=…) does not read back as the tree: %s' % bad)
            if io['ndecl'] != 1 or not io['starts_decl'] or io['xml_ascii'] != 1:
                return ('C17:declaration-count', 'serialised form has %d XML declarations (ascii: %d)' % (io['ndecl'], io['xml_ascii']))
            if not io['root_ok']:
                return ('C17:parse-root-disagrees', 'parse_root differs from the full parse on root tag / attributes')
            return None
        if k == 'validate':
            want = spec_validated(case['tags'], case['reqs'], case['tree'])
            if io['ok'] != want:
                return ('C17:validated-element', 'validated_element %s a document that %s the requirements' % ('accepted' if io['ok'] else 'rejected', 'meets' if want else 'does not meet'))
            return None
        if k == 'replace':
            if io.get('raised'):
                return ('C17:replace-namespace-raised', 'replace_namespace(%r -> %r) raised %s on a well-formed tree' % (case['old'], case['new'], io['raised']))
            if self._clash(case):
                return None
            want = X.canon(spec_replace(case['tree'], case['old'], case['new']))
            if io['tree'] != want:
                return ('C17:replace-namespace', 'replace_namespace(%r -> %r) did not rename exactly the names of the old namespace' % (case['old'], case['new']))
        return None

    def nontrivial(self, case, io):
        def size(n):
            return 1 + sum(size(c) for c in n[-1]) if n[0] == 'E' else 1
        if 'tree' in case:
            return size(case['tree']) >= 3
        if case['kind'] in ('raw', 'bigpar'):
            return True
        return len(case['steps']) >= 3

    def search(self, tier, rng, broken):
        return self.cases(rng, 'quick') * 2


CHECK = C17
