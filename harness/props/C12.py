"""C12 — closing a session releases it completely on every transport."""
from props._session import SessionCheck, rpc_states
from cases import session_gen as SG


class C12(SessionCheck):
    ID = 'C12'
    PROPS_MODULE = 'NcVerif.Props.C12'
    FLAVOR_WEIGHTS = {'close': 8, 'normal': 1, 'hello-timeout': 2}
    N_QUICK = 100
    RULE = ('lock-step histories in which a client thread calls the REAL close() of UnixSocketSession / TLSSession / SSHSession at a random '
            'point (requests in flight, worker at any program point), after which the environment answers as a closed transport does '
            '(no event / EOF / write error), for 14 profiles; failed connects (hello timeout) followed by close; plus real-socket sessions '
            '(Unix; TLS with harness-made certificates): close_session, with-block with and without exception, a server that never '
            'answers <close-session> (also with the manager in asynchronous mode), a peer that stops reading while a large request is being written (duration of the closing call measured), a request in flight at close, failed hello (malformed, peer closes at once), and open/close cycles '
            'counting threads and file descriptors. A server that refuses <close-session> with an rpc-error, close with a backlog of 2500+ untaken notifications, an application listener that unregisters itself in its errback. Non-trivial = history >= 8 commands / any socket run.')
    ASSUMPTIONS = ['what epoll / paramiko report for a locally closed descriptor is the environment parameter of the model '
                   '(Spec/Session.lean workerOpClosed); the real-socket runs observe it on Linux for Unix and TLS sockets; '
                   'the SSH transport is exercised through the lock-step fake channel (an in-process paramiko SSH server covers the SSH transport)']

    def e2e_cases(self, rng, tier):
        out = []
        trs = ['unix', 'tls', 'ssh']
        for tr in trs:
            for how in ('close_session', 'with', 'with-exception', 'with-transport-error'):
                for infl in (False, True):
                    if tier == 'quick' and tr in ('tls', 'ssh') and (infl or how == 'with'):
                        continue
                    out.append({'kind': 'e2e', 'life': True, 'sc': {'mode': 'close', 'transport': tr, 'how': how, 'inflight': infl,
                                                                     'profile': rng.choice(SG.PROFILES),
                                                                     # half of the sessions carry an application listener that unregisters itself on error
                                                                     'oneshot_listener': (len(out) % 2 == 0)}})
            out.append({'kind': 'e2e', 'life': True, 'sc': {'mode': 'close', 'transport': tr, 'how': 'with', 'no_close_reply': True}})
            # the server REFUSES <close-session> with an rpc-error (RFC 6241 7.8 allows it): the client side is released all the same
            if tier == 'thorough' or tr == 'unix':
                for how in ('close_session', 'with'):
                    out.append({'kind': 'e2e', 'life': True, 'sc': {'mode': 'close', 'transport': tr, 'how': how, 'close_error': True}})
            # closing a session with a large backlog of notifications nobody took
            if tier == 'thorough' or tr == 'unix':
                out.append({'kind': 'e2e', 'life': True, 'sc': {'mode': 'close', 'transport': tr, 'how': 'close_session', 'backlog': 2500 if tier == 'quick' else 12000}})
            # closing while the worker is inside a write to a peer that no longer reads (connect timeout 3 s bounds the write)
            if tier == 'thorough' or tr != 'ssh':
                out.append({'kind': 'e2e', 'life': True, 'sc': {'mode': 'close', 'transport': tr, 'how': 'close_session', 'blocked_writer': 24 * 1024 * 1024,
                                                                 'connect_timeout': 6, 'worker_deadline': 10}})
            # an application in asynchronous mode closes the session; the server never answers <close-session>
            if tier == 'thorough' or tr == 'unix':
                out.append({'kind': 'e2e', 'life': True, 'sc': {'mode': 'close', 'transport': tr, 'how': 'close_session', 'async_close': True,
                                                                 'no_close_reply': True}})
                out.append({'kind': 'e2e', 'life': True, 'sc': {'mode': 'close', 'transport': tr, 'how': 'close_session', 'async_close': True}})
            for what in ('bad-hello', 'close-at-once'):
                out.append({'kind': 'e2e', 'life': True, 'sc': {'mode': 'failed-hello', 'transport': tr, 'what': what, 'timeout': 0.6}})
            if tr == 'ssh':
                out.append({'kind': 'e2e', 'life': True, 'sc': {'mode': 'failed-auth', 'transport': 'ssh'}})
            out.append({'kind': 'e2e', 'life': True, 'sc': {'mode': 'cycles', 'transport': tr, 'n': 4 if tier == 'quick' else 40}})
        return out

    def run_impl(self, case):
        if case.get('life'):
            from impl.e2e import run_lifecycle
            self.stats['e2e'] = self.stats.get('e2e', 0) + 1
            return run_lifecycle(case['sc'])
        return SessionCheck.run_impl(self, case)

    def nontrivial(self, case, io):
        if case.get('life'):
            return True
        return SessionCheck.nontrivial(self, case, io)

    def oracle(self, case, io):
        if case.get('life'):
            sc = case['sc']
            key = '@%s/%s' % (sc['transport'], sc['mode'] + ':' + str(sc.get('how') or sc.get('what') or ''))
            if 'harness_error' in io:
                return ('C12:harness' + key, io['harness_error'])
            if sc['mode'] == 'close':
                if io.get('connected_after'):
                    return ('C12:still-connected' + key, 'session reports connected after close (%s)' % io.get('close'))
                if io.get('worker_alive'):
                    return ('C12:worker-alive' + key, 'session thread still alive %.1f s after close' % io.get('worker_deadline', 4))
                # the closing call itself is a synchronous request: it returns or raises within its timeout (+ scheduling slack)
                if io.get('close_dt', 0) > (io.get('call_timeout') or 30) + 2.5 or (not sc.get('no_close_reply') and not sc.get('blocked_writer') and io.get('close_dt', 0) > 4):
                    return ('C12:close-outlived-timeout' + key, 'closing took %.1f s (request timeout %.1f s)' % (io.get('close_dt', 0), io.get('call_timeout') or 30))
                if not io.get('eof_seen'):
                    return ('C12:peer-sees-no-eof' + key, 'the peer never saw the connection closed')
                if io.get('listener_calls_after_close'):
                    return ('C12:listener-after-close' + key, 'a listener was invoked after close had returned')
                if not str(io.get('later_request', '')).startswith('TransportError'):
                    return ('C12:later-request-not-refused' + key, 'a request after close gave %s' % io.get('later_request'))
                for k2 in ('later_commit', 'later_validate'):
                    if k2 in io and not str(io[k2]).startswith('TransportError'):
                        return ('C12:later-request-not-refused' + key, '%s after close gave %s, not a transport error' % (k2[6:], io[k2]))
                if sc.get('how') in ('with-exception', 'with-transport-error') and io.get('close') == 'ok' and not io.get('body_exception_propagated'):
                    return ('C12:body-exception-lost' + key, 'the with-body exception did not propagate')
                if sc.get('inflight') and io.get('inflight', {}).get('out') == 'reply':
                    return ('C12:inflight-got-reply' + key, 'the unanswered in-flight request returned a reply')
                if sc.get('inflight') and io.get('inflight', {}).get('dt', 0) > 2.5:
                    return ('C12:inflight-hung' + key, 'the in-flight request outlived its timeout')
            elif sc['mode'] == 'failed-hello':
                if not str(io.get('connect', '')).startswith('exc:'):
                    return ('C12:failed-connect-did-not-fail' + key, 'connect gave %s' % io.get('connect'))
                if io.get('leaked_threads', 0) > 0:
                    return ('C12:thread-leak-after-failed-connect' + key, 'session thread still alive after a failed connect')
                if not io.get('eof_seen'):
                    return ('C12:socket-leak-after-failed-connect' + key, 'the peer never saw the connection closed after a failed connect')
            elif sc['mode'] == 'failed-auth':
                if not str(io.get('connect', '')).startswith('exc:'):
                    return ('C12:failed-auth-did-not-fail' + key, 'connect with wrong credentials gave %s' % io.get('connect'))
                if not io.get('server_sees_closed'):
                    return ('C12:transport-open-after-failed-auth' + key, 'the SSH connection is still open towards the peer after a failed authentication')
                if io.get('leaked_threads', 0) > 0:
                    return ('C12:thread-leak-after-failed-auth' + key, '%d transport thread(s) left after a failed authentication' % io['leaked_threads'])
            elif sc['mode'] == 'cycles':
                if io.get('errors'):
                    return ('C12:cycle-error' + key, str(io['errors'][:2]))
                if io.get('leaked_threads', 0) > 0:
                    return ('C12:thread-leak' + key, '%d session threads left after %d open/close cycles' % (io['leaked_threads'], io['n']))
                if io.get('fd_growth', 0) > 3:
                    return ('C12:fd-leak' + key, '%d descriptors more after %d cycles' % (io['fd_growth'], io['n']))
            return None
        info = case.get('info') or {}
        obs = io['obs']
        if not obs or not info.get('closed'):
            return None
        cmds = case['cmds']
        ci = next(i for i, c in enumerate(cmds) if c[0] == 'close')
        after = obs[ci:]
        wsteps = 0
        stopped_at = None
        for k in range(ci + 1, len(cmds)):
            if cmds[k][0] == 'w':
                wsteps += 1
            if obs[k]['pc'] in ('stopped', 'notStarted'):
                stopped_at = k
                break
        key = '@%s' % case['transport']
        if stopped_at is None:
            if wsteps > 8:
                return ('C12:worker-does-not-terminate' + key, 'worker still running %d transport calls after close()' % wsteps)
            return None
        last = obs[-1]
        if last['connected']:
            return ('C12:still-connected' + key, 'worker stopped after close() but the session reports connected')
        # requests that were in flight have been failed
        for i, st in rpc_states(obs[stopped_at]).items():
            created = next(k for k, o in enumerate(obs) if i in rpc_states(o))
            if st == 'W' and created < ci and io['req_status'][i - 1] == 'sent':
                return ('C12:inflight-not-failed' + key, 'request %d was in flight at close() and was neither answered nor failed' % i)
        # later requests are refused
        for i, status in enumerate(io['req_status'], 1):
            created = next((k for k, o in enumerate(obs) if i in rpc_states(o)), None)
            if created is not None and created > stopped_at and not obs[created - 1]['connected'] and status == 'sent':
                return ('C12:later-request-not-refused' + key, 'request %d accepted after close' % i)
        return None


CHECK = C12
