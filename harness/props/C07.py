"""C07 — requests are well-formed and carry caller data faithfully."""
import xml.etree.ElementTree as ET

from core import Check, hexs, unhexs, LEAN, REPO
from oracle import ops_spec as OS

BASE = 'urn:ietf:params:xml:ns:netconf:base:1.0'
NASTY = ['plain', 'a<b>&c', '"quoted" & \'single\'', 'line1\nline2\r\nline3\rend', '\ttabbed\t', '  padded  ', 'ünïcödé ★ 中文 😀', ']]>', ']]>]]>x',
         '<!--not a comment-->', '<![CDATA[x]]>', '&amp;', '&#60;', 'x' * 5000, '</rpc>', '<?pi?>', 'a b c', '%s %d {}', '\\n\\t']


def nasty(rng):
    r = rng.random()
    if r < 0.6:
        return rng.choice(NASTY)
    pool = 'ab<>&"\'\n\r\t ]é€😀;#x'
    return ''.join(rng.choice(pool) for _ in range(rng.randint(1, 30)))


def plain_calls():
    """(name, profile, builder(X, Y) -> (method, kwargs), expected kind per string: 'text' | 'attr')"""
    from lxml import etree
    from ncclient.xml_ import new_ele, sub_ele

    def cfg(x):
        c = new_ele('config')
        t = etree.SubElement(c, '{urn:x}top')
        t.text = x
        t.set('note', x)
        return c
    def bare_cfg(x):
        c = etree.Element('config')            # un-qualified <config> root, as users often build it
        t = etree.SubElement(c, '{urn:x}top')
        t.text = x
        t.set('note', x)
        return c
    def rich_cfg(x, bare):
        # an element in its own namespace with PLAIN (un-prefixed) attributes, an un-namespaced descendant with an attribute, mixed prefixes
        c = etree.Element('config') if bare else new_ele('config')
        n = etree.SubElement(c, '{urn:vendor:native}native')
        n.set('operation', 'remove')
        n.set('format', x)
        d = etree.SubElement(c, 'cli-config-data')
        etree.SubElement(d, 'cmd').text = x
        e = etree.SubElement(n, '{urn:other}leaf', nsmap={'o': 'urn:other'})
        e.set('{urn:other}flag', 'on')
        e.text = x
        return c
    FRAG = {}
    for prof in ('default', 'iosxe', 'junos', 'nexus', 'sros', 'huawei'):
        for bare in (True, False):
            FRAG['edit_config-rich-%s-%s' % ('bare' if bare else 'qualified', prof)] = (prof, bare)
    rich = [(name, prof, (lambda x, y, bare=bare: ('edit_config', dict(config=rich_cfg(x, bare), target='running'))), 3) for name, (prof, bare) in FRAG.items()]
    return rich + [
        ('edit_config-bare-xml', 'default', lambda x, y: ('edit_config', dict(config=bare_cfg(x), target='running')), 2),
        ('kill_session', 'default', lambda x, y: ('kill_session', dict(session_id=x)), 1),
        ('get_schema', 'default', lambda x, y: ('get_schema', dict(identifier=x, version=y)), 2),
        ('create_subscription', 'default', lambda x, y: ('create_subscription', dict(stream_name=x, start_time=y)), 2),
        ('commit', 'default', lambda x, y: ('commit', dict(confirmed=True, timeout=x, persist=y)), 2),
        ('cancel_commit', 'default', lambda x, y: ('cancel_commit', dict(persist_id=x)), 1),
        ('edit_config-text', 'default', lambda x, y: ('edit_config', dict(config=x, format='text', target='candidate')), 1),
        ('edit_config-xml', 'default', lambda x, y: ('edit_config', dict(config=cfg(x), target='running')), 2),
        ('edit_config-xmlstr', 'default', lambda x, y: ('edit_config', dict(config=etree.tostring(cfg(x)).decode(), target='running')), 2),
        # the same configuration as XML TEXT that declares the value as an entity in its own internal DTD subset and refers to it
        ('edit_config-xmlstr-dtd', 'default', lambda x, y: ('edit_config', dict(
            config='<!DOCTYPE config [<!ENTITY u "%s">]>' % ''.join(('&#38;#%d;' % ord(ch)) if (ch in '&<' or ord(ch) < 32) else (('&#%d;' % ord(ch)) if ch in '%"' else ch) for ch in x)
            + etree.tostring(cfg('ZZENTITYZZ')).decode().replace('ZZENTITYZZ', '&u;'), target='running')), 2),
        ('get-xpath', 'default', lambda x, y: ('get', dict(filter=('xpath', x))), 1),
        ('get-xpath-ns', 'default', lambda x, y: ('get', dict(filter=('xpath', ({'p': y or 'urn:p'}, x)))), 1),
        ('get_config-url', 'default', lambda x, y: ('get_config', dict(source='ftp://h/' + x)), 1),
        ('copy_config-url', 'default', lambda x, y: ('copy_config', dict(source='running', target='file://' + x)), 1),
        ('command', 'junos', lambda x, y: ('command', dict(command=x, format='text')), 1),
        ('load_configuration', 'junos', lambda x, y: ('load_configuration', dict(format='text', config=x)), 1),
        ('load_configuration-set', 'junos', lambda x, y: ('load_configuration', dict(action='set', config=[x, y])), 0),
        ('commit-junos', 'junos', lambda x, y: ('commit', dict(comment=x, at_time=y)), 2),
        ('commit-sros', 'sros', lambda x, y: ('commit', dict(comment=x, confirmed=True, persist=y)), 2),
        ('md_cli_raw_command', 'sros', lambda x, y: ('md_cli_raw_command', dict(command=x)), 1),
        ('exec_command', 'nexus', lambda x, y: ('exec_command', dict(cmds=[x, y])), 2),
        ('save', 'h3c', lambda x, y: ('save', dict(file=x)), 1),
        ('cli_display', 'hpcomware', lambda x, y: ('cli_display', dict(cmds=[x, y])), 0),
        ('show_cli', 'alu', lambda x, y: ('show_cli', dict(command=x)), 1),
        ('rpc-element', 'default', lambda x, y: ('rpc', dict(rpc_command=cfg(x))), 2),
        ('edit_config-identityref', 'default', lambda x, y: ('edit_config', dict(target='running', config='<config xmlns="%s"><i xmlns="urn:i"><type xmlns:ianaift="urn:iana-if-type">ianaift:ethernetCsmacd</type><d>%s</d></i></config>' % (BASE, __import__('xml.sax.saxutils', fromlist=['escape']).escape(x, {'\r': '&#13;'})))), 1),
        ('get-subtree-qname', 'nexus', lambda x, y: ('get', dict(filter=('subtree', '<f xmlns="urn:f" xmlns:if="urn:iface"><t>if:%s</t></f>' % 'eth'))), 0),
    ]
PNAMES = ['a', 'b', 'rpc', 'get', 'filter', 'config', 'x-y', 'A1', '_u', 'n.m', 'edit-config', 'kill-session']
ANAMES = ['k', 'type', 'select', 'id', 'message-id', 'x.y', '_z']


def plain_tree(rng, depth=0):
    """Namespace-free element tree (JSON: ['E', name, [[k, v]…], [children…]] | ['T', s]) as the tree API can build it:
    XML names, distinct attribute names, no empty and no adjacent text nodes; texts and values are nasty strings."""
    attrs = []
    for k in rng.sample(ANAMES, rng.choice([0, 0, 1, 2, 3])):
        attrs.append([k, rng.choice(['', nasty(rng), nasty(rng)])])
    children = []
    if depth < 4:
        for _ in range(rng.choice([0, 1, 1, 2, 3, 5])):
            if rng.random() < 0.55:
                children.append(plain_tree(rng, depth + 1))
            elif not (children and children[-1][0] == 'T'):
                children.append(['T', nasty(rng)])
    return ['E', rng.choice(PNAMES), attrs, children]


def plain_toks(node):
    if node[0] == 'T':
        return ['T', hexs(node[1])]
    out = ['E', hexs(node[1]), str(len(node[2]))]
    for k, v in node[2]:
        out += [hexs(k), hexs(v)]
    out.append(str(len(node[3])))
    for c in node[3]:
        out += plain_toks(c)
    return out


def plain_from_toks(toks, i=0):
    if toks[i] == 'T':
        return ['T', unhexs(toks[i + 1])], i + 2
    name = unhexs(toks[i + 1])
    na = int(toks[i + 2])
    i += 3
    attrs = []
    for _ in range(na):
        attrs.append([unhexs(toks[i]), unhexs(toks[i + 1])])
        i += 2
    nc = int(toks[i])
    i += 1
    ch = []
    for _ in range(nc):
        c, i = plain_from_toks(toks, i)
        ch.append(c)
    return ['E', name, attrs, ch], i


def plain_build(node, ns=None):
    """Build the tree with ncclient's own constructors: in no namespace (new_ele_ns / sub_ele_ns with ns=None, the
    shape the Lean model serialises) or in the base namespace (new_ele / sub_ele)."""
    from ncclient.xml_ import new_ele, sub_ele, new_ele_ns, sub_ele_ns

    def rec(n, parent):
        if ns is None:
            el = new_ele_ns(n[1], None, dict(n[2])) if parent is None else sub_ele_ns(parent, n[1], None, dict(n[2]))
        else:
            el = new_ele(n[1], dict(n[2])) if parent is None else sub_ele(parent, n[1], dict(n[2]))
        last = None
        for c in n[3]:
            if c[0] == 'T':
                if last is None:
                    el.text = c[1]
                else:
                    last.tail = c[1]
            else:
                last = rec(c, el)
        return el
    return rec(node, None)


def plain_qualified(node, ns):
    if node[0] == 'T':
        return node
    return ['E', '{%s}%s' % (ns, node[1]), node[2], [plain_qualified(c, ns) for c in node[3]]]


def plain_from_etree(el):
    ch = []
    if el.text:
        ch.append(['T', el.text])
    for c in el:
        ch.append(plain_from_etree(c))
        if c.tail:
            ch.append(['T', c.tail])
    return ['E', el.tag, [[k, v] for k, v in el.attrib.items()], ch]


def call_of(case):
    """The call template of a case: by name when the case carries one (corpus witnesses), else by position."""
    calls = plain_calls()
    if case.get('name'):
        return next(c for c in calls if c[0] == case['name'])
    return calls[case['call']]


def capture_only(before, after):
    """True iff `after` differs from `before` ONLY in that elements without a namespace appear in the NETCONF base namespace."""
    if not isinstance(after, list) or len(before) != len(after):
        return False
    for b, a in zip(before, after):
        tag_ok = a[0] == b[0] or (not b[0].startswith('{') and a[0] == '{%s}%s' % (BASE, b[0]))
        if not tag_ok or a[1] != b[1] or a[2] != b[2] or a[4] != b[4] or not capture_only(b[3], a[3]):
            return False
    return True


NS_BINDINGS = {'get-xpath-ns': lambda x, y: [('p', y or 'urn:p')], 'edit_config-identityref': lambda x, y: [('ianaift', 'urn:iana-if-type')],
               'get-subtree-qname': lambda x, y: [('if', 'urn:iface')]}
if True:
    pass


class C07(Check):
    ID = 'C07'
    PROPS_MODULE = 'NcVerif.Props.C07'
    RULE = ('(a) the regenerated operation table (every standard and vendor operation x argument shape x profile envelope; each row a case): '
            'root / single operation element / RFC 6241 order / enumerations / caller strings exactly once, parsed off the wire with xml.etree; '
            '(b) 38 call templates (incl. <config> fragments with plain attributes and un-namespaced descendants, bare and qualified root, on six profiles: the fragment an independent parser finds in the request must be the caller\'s; (each call issued twice with the same argument objects: the second request must equal the first) instantiated with random nasty strings (markup characters, quotes, CR/LF/TAB, Unicode incl. astral, "]]>", '
            'long) and XML fragments, the request parsed with xml.etree (not lxml) and every string required to come back unaltered exactly '
            'where it belongs; (c) the model\'s escapeText/escapeAttr compared byte for byte with lxml\'s serialisation, and readText/readAttr '
            'with expat, on random strings; (d) random namespace-free trees built with new_ele/sub_ele: to_xml compared byte for byte with the model\'s '
            'serialize, expat\'s reading compared with the model\'s parseDoc and with the tree that was built (theorem doc_roundtrip). Configuration text declaring the value as an entity of its internal DTD subset (request built in a forked child); rich <config> fragments on six profiles; the retrieval builders on random arguments. Non-trivial = a sent request carrying at least one caller string; distinct by case.')
    TRUST = ['lxml/libxml2 serialisation is MODELLED (Model/XmlText.lean) and compared with the library on every run, not verified',
             'parametricity: behaviour depends on a caller string only through its position (sampled with concrete strings each run)',
             'the catalogue of argument shapes in harness/gen/optable.py']

    def gen_tables(self, log):
        from gen import optable
        r = optable.generate(REPO, LEAN)
        self._rows = r['rows']
        log['gen_optable_rows'] = len(r['rows'])

    def cases(self, rng, tier):
        rows = getattr(self, '_rows', [])
        out = [{'kind': 'row', 'i': i, 'key': '%s@%s[%s]' % (r['op'], r['profile'], r['shape'])} for i, r in enumerate(rows) if r['capsMode'] == 'all']
        n = 600 if tier == 'quick' else 20000
        ncalls = len(plain_calls())
        for i in range(n):
            out.append({'kind': 'call', 'call': i % ncalls, 'x': nasty(rng), 'y': nasty(rng)})
        for i in range(n):
            out.append({'kind': 'esc', 's': nasty(rng)})
        for s in NASTY:
            out.append({'kind': 'esc', 's': s})
        for i in range(n // 2):
            out.append({'kind': 'doc', 'tree': plain_tree(rng), 'ns': None if i % 3 else BASE})
        from cases import builders_gen as BG
        for i in range(n):
            out.append(BG.gen(rng, plain_tree))
        for i in range(n // 4):
            # the <rpc> envelope around a namespace-free operation tree, with a message-id that may contain anything
            out.append({'kind': 'env', 'tree': plain_tree(rng), 'mid': rng.choice(['urn:uuid:0', nasty(rng), nasty(rng)]),
                        'profile': ['default', 'junos', 'iosxr', 'csr'][i % 4]})
        return out

    def search(self, tier, rng, broken):
        ncalls = len(plain_calls())
        return [{'kind': 'call', 'call': i % ncalls, 'x': nasty(rng), 'y': nasty(rng)} for i in range(5000)]

    def run_impl(self, case):
        if case.get('kind') == 'call' and case.get('name', '') == 'edit_config-xmlstr-dtd' or (case.get('kind') == 'call' and call_of(case)[0] == 'edit_config-xmlstr-dtd'):
            # DTD / entity handling lives in C code: a crash there must not take the check down with it
            import os
            import json as _json
            r, w = os.pipe()
            pid = os.fork()
            if pid == 0:
                try:
                    os.close(r)
                    out = self._run_impl(case)
                    os.write(w, _json.dumps(out, default=str).encode())
                finally:
                    os._exit(0)
            os.close(w)
            data = b''
            while True:
                chunk = os.read(r, 65536)
                if not chunk:
                    break
                data += chunk
            os.close(r)
            _, status = os.waitpid(pid, 0)
            if os.WIFSIGNALED(status) or not data:
                return {'crashed': os.WTERMSIG(status) if os.WIFSIGNALED(status) else -1}
            return _json.loads(data.decode())
        return self._run_impl(case)

    def _run_impl(self, case):
        k = case['kind']
        if k == 'row':
            r = self._rows[case['i']]
            return {kk: r.get(kk) for kk in ('op', 'profile', 'shape', 'args', 'capsMode', 'outcome', 'nsent', 'asserted', 'probedMinus', 'outsider',
                                             'rootNs', 'rootName', 'hasMsgId', 'nOps', 'opNs', 'opName', 'params', 'sentinels', 'enumLeaves')}
        if k == 'build':
            from cases import builders_gen as BG
            return BG.run_impl(case, plain_build, plain_from_etree)
        if k == 'env':
            from impl.rpcstub import make_manager
            from ncclient.operations.rpc import RPC
            m, sess, dh = make_manager(profile=case['profile'], raise_mode=0)
            try:
                op = plain_build(case['tree'])
                r = RPC(sess, dh)
                r._id = case['mid']
                xml = r._wrap(op)
            except ValueError as e:
                return {'unbuildable': repr(e)[:120]}
            body = xml[xml.index('?>') + 2:] if xml.startswith('<?xml') else xml
            root = ET.fromstring(xml.encode('utf-8'))
            return {'ser': body, 'mid': root.get('message-id'), 'root': root.tag, 'ops': [plain_from_etree(c) for c in root]}
        if k == 'doc':
            from ncclient.xml_ import to_xml, to_ele
            try:
                el = plain_build(case['tree'], case.get('ns'))
            except ValueError as e:
                return {'unbuildable': repr(e)[:120]}     # a string XML cannot carry (lxml refuses it when the tree is built)
            ser = to_xml(el)
            body = ser[ser.index('?>') + 2:] if ser.startswith('<?xml') else ser
            back = plain_from_etree(ET.fromstring(ser.encode('utf-8')))      # independent reader (expat)
            again = plain_from_etree(ET.fromstring(to_xml(to_ele(ser)).encode('utf-8')))
            return {'ser': body, 'back': back, 'again': again}
        if k == 'esc':
            from lxml import etree
            s = case['s']
            e = etree.Element('a')
            e.text = s
            e.set('k', s)
            ser = etree.tostring(e, encoding='UTF-8').decode('utf-8')
            body = ser[ser.index('>', ser.index('?>') + 2 if ser.startswith('<?') else 0) + 1:ser.rindex('</a>')] if s else ''
            i = ser.index('k="') + 3
            attr = ser[i:ser.index('"', i)]
            # independent reader: expat via xml.etree
            back = ET.fromstring(('<a k="%s">%s</a>' % (attr, body)).encode('utf-8'))
            return {'esctext': body, 'escattr': attr, 'readtext': back.text or '', 'readattr': back.get('k')}
        from impl.rpcstub import make_manager
        name, profile, build, nstr = call_of(case)
        method, kw = build(case['x'], case['y'])

        def canon_children(el):
            def c(e):
                return [e.tag, sorted(e.attrib.items()), e.text or '', [c(k) for k in e], e.tail or '']
            return [c(k) for k in el]
        frag_before = None
        cfg_arg = kw.get('config')
        if cfg_arg is not None and hasattr(cfg_arg, 'tag') and hasattr(cfg_arg, 'iter'):
            from lxml import etree as _et
            frag_before = canon_children(ET.fromstring(_et.tostring(cfg_arg)))
        m, s, dh = make_manager(profile=profile, raise_mode=0, server_caps=__import__('gen.optable', fromlist=['x']).ALL_CAPS,
                                responder=lambda req, mid: '<rpc-reply message-id="%s" xmlns="%s"><ok/></rpc-reply>' % (mid, BASE))
        try:
            getattr(m, method)(**kw)
            exc = None
        except Exception as e:
            exc = type(e).__name__
        if not s.sent:
            return {'sent': 0, 'exc': exc}
        # the SAME argument objects handed to the operation once more (one config object pushed to several devices): the second
        # request must carry the same content - a call must not consume or alter what the caller passed in
        first_only = list(s.sent)
        repeat = None
        try:
            getattr(m, method)(**kw)
            if len(s.sent) == 2 * len(first_only):
                strip = lambda t: __import__('re').sub(r'message-id="[^"]*"', 'message-id=""', t)
                repeat = [strip(a) == strip(b) for a, b in zip(first_only, s.sent[len(first_only):])]
            else:
                repeat = 'sent %d then %d' % (len(first_only), len(s.sent) - len(first_only))
        except Exception as e:
            # an exception raised while digesting the stub's canned reply (after the request went out) is not about the request
            if type(e).__name__ == exc and len(s.sent) == 2 * len(first_only):
                strip = lambda t: __import__('re').sub(r'message-id="[^"]*"', 'message-id=""', t)
                repeat = [strip(a) == strip(b) for a, b in zip(first_only, s.sent[len(first_only):])]
            else:
                repeat = 'exc:' + type(e).__name__
        del s.sent[len(first_only):]
        try:
            root = ET.fromstring(s.sent[0].encode('utf-8'))
        except Exception as e:
            return {'sent': len(s.sent), 'parse_error': repr(e)[:200]}
        import io as _io
        decls = []
        try:
            for ev, nsdecl in ET.iterparse(_io.BytesIO(s.sent[0].encode('utf-8')), events=('start-ns',)):
                decls.append(list(nsdecl))
        except Exception:
            pass
        texts, attrs = [], []
        for el in root.iter():
            if el.text:
                texts.append(el.text)
            for a, v in el.attrib.items():
                if a != 'message-id':
                    attrs.append(v)
        frag_after = None
        if frag_before is not None:
            cfgs = [e for e in root.iter() if e.tag in ('config', '{%s}config' % BASE)]
            frag_after = canon_children(cfgs[0]) if cfgs else 'no <config> element in the request'
        return {'sent': len(s.sent), 'texts': texts, 'attrs': attrs, 'root': root.tag, 'nops': len(list(root)), 'nsdecls': decls, 'repeat': repeat,
                'frag_before': frag_before, 'frag_after': frag_after}

    def model_lines(self, case):
        if case['kind'] == 'esc':
            s = case['s']
            return ['xt esctext ' + hexs(s), 'xt escattr ' + hexs(s)]
        if case['kind'] == 'doc' and not case.get('ns'):
            return ['xd rt ' + ' '.join(plain_toks(case['tree']))]
        if case['kind'] == 'env':
            return ['xd rpc %s %s %s' % (hexs('nc:'), hexs(case['mid']), ' '.join(plain_toks(case['tree'])))]
        if case['kind'] == 'build':
            from cases import builders_gen as BG
            return [BG.model_line(case)]
        return []

    def model_obs(self, case, outs):
        if case['kind'] == 'esc':
            return {'esctext': unhexs(outs[0]), 'escattr': unhexs(outs[1])}
        if case['kind'] == 'build':
            from cases import builders_gen as BG
            return BG.model_obs(outs[0])
        if case['kind'] == 'env':
            t = outs[0].split(' ')
            return {'ser': unhexs(t[0]), 'mid': None if t[1] in ('-', 'none') else unhexs(t[1])} if len(t) == 2 else {'bad': outs[0]}
        if case['kind'] == 'doc' and outs:
            toks = outs[0].split(' ')
            if len(toks) < 3:
                return {'bad': outs[0]}
            return {'wf': toks[0], 'ser': unhexs(toks[1]), 'back': None if toks[2] == 'none' else plain_from_toks(toks[2:])[0]}
        return None

    def compare(self, case, io, mo):
        if mo is None:
            return None
        if case['kind'] == 'esc':
            for k in ('esctext', 'escattr'):
                if io[k] != mo[k]:
                    return '%s of %r: lxml %r, model %r' % (k, case['s'][:40], io[k][:80], mo[k][:80])
        if case['kind'] == 'build':
            from cases import builders_gen as BG
            return BG.compare(case, io, mo)
        if case['kind'] == 'env':
            if 'unbuildable' in io:
                return None
            if io['ser'] != mo.get('ser'):
                return '<rpc> envelope differs: _wrap %r, model %r' % (io['ser'][:200], str(mo.get('ser'))[:200])
            if io['mid'] != mo.get('mid'):
                return 'message-id read back differs: expat %r, model %r' % (io['mid'], mo.get('mid'))
            return None
        if case['kind'] == 'doc':
            if 'unbuildable' in io:
                return None
            if mo.get('wf') != '1':
                return 'generated tree is not well-formed for the model (wf = %s)' % mo.get('wf')
            if io['ser'] != mo['ser']:
                return 'serialisation differs: to_xml %r, model %r' % (io['ser'][:200], mo['ser'][:200])
            if io['back'] != mo['back']:
                return 'reading differs: expat %r, model parseDoc %r' % (str(io['back'])[:200], str(mo['back'])[:200])
        return None

    def extra_lines(self):
        return []

    def oracle(self, case, io):
        k = case['kind']
        if isinstance(io, dict) and 'crashed' in io:
            return ('C07:request-building-crashed:' + call_of(case)[0], 'building the request killed the process (signal %s): caller text with an internal DTD subset, entity value %r' % (io['crashed'], case.get('x', '')[:40]))
        if k == 'row':
            v = OS.row_violation(io, ('shape', 'op-element', 'param-order', 'caller-string', 'enumeration'))
            if v:
                return ('C07:%s:%s' % (v[0], case['key']), v[1])
            return None
        if k == 'esc':
            if io['readtext'] != case['s'] or io['readattr'] != case['s']:
                return ('C07:escape-roundtrip', 'string %r does not survive serialise + independent parse' % case['s'][:60])
            return None
        if k == 'build':
            from cases import builders_gen as BG
            return BG.oracle(case, io, 'C07')
        if k == 'env':
            if 'unbuildable' in io:
                return None
            if io['root'] != '{%s}rpc' % BASE or io['mid'] != case['mid'] or io['ops'] != [case['tree']]:
                return ('C07:envelope-altered', 'the <rpc> envelope read by an independent parser: root %s, message-id %r (generated %r), operation %s the one that was built' % (
                    io['root'], io['mid'], case['mid'], 'is' if io['ops'] == [case['tree']] else 'is NOT'))
            return None
        if k == 'doc':
            if 'unbuildable' in io:
                return None
            want = plain_qualified(case['tree'], case['ns']) if case.get('ns') else case['tree']
            if io['back'] != want:
                return ('C07:tree-altered-on-the-wire', 'a tree built with the element constructors and serialised with to_xml is read by an independent parser as a different tree: %r' % (str(io['back'])[:200],))
            if io['again'] != want:
                return ('C07:tree-altered-on-the-wire', 'to_xml(to_ele(to_xml(t))) is read as a different tree')
            return None
        name = call_of(case)[0]
        if 'parse_error' in io:
            return ('C07:malformed-request:' + name, 'request is not well-formed XML: %s' % io['parse_error'])
        if io['sent'] == 0:
            # an argument that cannot be represented (e.g. characters XML forbids) may be rejected locally, but then nothing is sent
            return None
        if io['sent'] != 1 or io['root'] != '{%s}rpc' % BASE or io['nops'] != 1:
            return ('C07:shape:' + name, 'not exactly one <rpc> with one operation element')
        if io.get('repeat') is not None and io['repeat'] != [True] * len(io['repeat'] if isinstance(io['repeat'], list) else []):
            return ('C07:second-call-differs:' + name, 'the same call with the same argument objects, issued a second time, did not send the same request (%s)' % (io['repeat'],))
        if io.get('frag_before') is not None and io['frag_after'] != io['frag_before']:
            if capture_only(io['frag_before'], io['frag_after']):
                prof = call_of(case)[1]
                return ('C07:unnamespaced-descendant-captured-by-default-namespace@' + prof,
                        'profile %s writes the <rpc> envelope with the base namespace as DEFAULT namespace; an element WITHOUT a namespace inside the caller\'s '
                        '<config> fragment is serialised without xmlns="" and is read by the server in the base namespace' % prof)
            return ('C07:fragment-altered:' + name, 'the content of the caller\'s <config> element (names, namespaces, attribute names, text) is not what an independent '
                    'parser finds in the request: %s' % (str(io['frag_after'])[:240],))
        want = call_of(case)[3]
        x, y = case['x'], case['y']
        if name in NS_BINDINGS:
            for pfx, uri in NS_BINDINGS[name](x, y):
                if [pfx, uri] not in io.get('nsdecls', []):
                    return ('C07:namespace-binding-lost:' + name, 'the prefix %r -> %r used in a value of the caller\'s fragment / filter is not declared in the request' % (pfx, uri))
        if name in ('load_configuration-set', 'cli_display'):
            if (x + '\n' + y) not in io['texts']:
                return ('C07:caller-string-altered:' + name, 'joined set commands not found unaltered')
            if name == 'load_configuration-set' and ('text' not in io['attrs'] or 'set' not in io['attrs'] or 'xml' in io['attrs']):
                # Junos XML protocol: <configuration-set> goes with action="set" format="text" (the documented meaning of action='set')
                return ('C07:junos-set-format', 'load_configuration(action="set") with the format left at its default must be sent as action="set" '
                        'format="text"; attribute values on the wire: %s' % (io['attrs'][:6],))
            return None
        hay = io['texts'] + io['attrs']
        tail = lambda v, s: v == s or v.endswith('/' + s)
        for sname, sval in (('x', x), ('y', y))[:max(want, 1)]:
            if name == 'get-xpath-ns' and sname == 'y':
                continue
            if want == 0:
                continue
            n = sum(1 for v in hay if tail(v, sval))
            expect = 3 if name.startswith('edit_config-rich-') else (2 if name in ('edit_config-xml', 'edit_config-xmlstr', 'edit_config-xmlstr-dtd', 'rpc-element', 'edit_config-bare-xml') else 1)
            if sname == 'y' and (name.startswith('edit_config-rich-') or name in ('edit_config-xml', 'edit_config-xmlstr', 'edit_config-xmlstr-dtd', 'rpc-element', 'edit_config-bare-xml')):
                continue
            if x == y:
                continue
            if name == 'commit-sros' and sname == 'x' and not sval.strip():
                continue        # SR OS commit documents the comment as descriptive text and omits a blank one
            if n != expect:
                return ('C07:caller-string-altered:' + name, 'string %r found %d time(s) unaltered in the parsed request, expected %d' % (sval[:50], n, expect))
        return None

    def nontrivial(self, case, io):
        if case['kind'] == 'row':
            return io['outcome'] == 'sent' and bool(io.get('sentinels'))
        if case['kind'] == 'esc':
            return any(c in case['s'] for c in '<>&"\r\n\t')
        if case['kind'] == 'build':
            return io.get('out') == 'ok'
        if case['kind'] in ('doc', 'env'):
            return 'ser' in io and any(c in io['ser'] for c in ('&lt;', '&amp;', '&quot;', '&#13;'))
        return io.get('sent') == 1

    def extra_coverage(self):
        return {'gen_tables': {'Gen/OpTable.lean': len(getattr(self, '_rows', []))}}


CHECK = C07
