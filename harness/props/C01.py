"""C01 — inbound framing is independent of stream segmentation and chunking."""
import itertools

from core import Check, hexb, hexs, unhexs
from props import _framing as F
from cases import framing_gen as G


def utf8_cases(rng, n):
    out = []
    pool = [b'', b'a', 'é'.encode(), '€'.encode(), '😀'.encode(), b'\xc3', b'\xe2\x82', b'\xf0\x9f\x98', b'\xff', b'\xc0\xaf',
            b'\xed\xa0\x80', b'\xed\x9f\xbf', b'\xee\x80\x80', b'\xf4\x8f\xbf\xbf', b'\xf4\x90\x80\x80', b'\xe0\x9f\xbf', b'\xe0\xa0\x80',
            b'\xf0\x8f\xbf\xbf', b'\xf0\x90\x80\x80', b'\xc2\x80', b'\xc1\xbf', b'\xdf\xbf', b'\x80', b'\xbf', b'\xf5\x80\x80\x80', b'\x7f', b'\x00']
    for _ in range(n):
        k = rng.randint(0, 5)
        b = b''.join(rng.choice(pool) for _ in range(k))
        if rng.random() < 0.3:
            b = bytes(rng.randrange(256) for _ in range(rng.randint(1, 6)))
        out.append({'kind': 'utf8', 'bytes': b.hex()})
    ws = [' ', '\t', '\n', '\r', '\x0b', '\x0c', '\x1c', '\x1d', '\x1e', '\x1f', '\x85', '\xa0', ' ', ' ', ' ', ' ',
          '​', ' ', ' ', ' ', ' ', '　', '﻿', '᠎', 'a', '<', '\x00', '\x08', '\x0e', '\x7f', '⁠']
    for _ in range(n):
        s = ''.join(rng.choice(ws) for _ in range(rng.randint(0, 6)))
        out.append({'kind': 'strip', 's': s})
    for c in ws:
        out.append({'kind': 'strip', 's': c + 'x' + c})
    return out


class C01(Check):
    ID = 'C01'
    PROPS_MODULE = 'NcVerif.Props.C01'
    RULE = ('message lists (ASCII / 2-,3-,4-byte UTF-8 / whitespace-wrapped / containing delimiter look-alikes; up to multi-read size) '
            'encoded as a server would (1.0: end-of-message; 1.1: random chunkings down to single octets) and cut into transport reads '
            '<= BUF_SIZE (whole, single cut, cuts biased to delimiter / header / multi-byte positions, random, all-ones, BUF_SIZE); '
            'every single cut position for short streams (exhaustive over cut positions); plus byte strings for the UTF-8 decoder '
            'and strings for str.strip. Reads of up to 4096 + 16384 octets (what the TLS transport hands over per read), incl. a terminator at the front of a large read followed by thousands of octets of the next message. Non-trivial = a framing case with at least one message and at least two reads or two chunks; '
            'distinct by (version, chunks, reads).')
    TRUST = ['CPython bytes.decode("UTF-8") and str.strip() as modelled in Model/Utf8.lean, Model/Basic.lean (compared on every run)',
             'the three transports\' _transport_read bodies are recv(BUF_SIZE) (checked textually each run)']
    ASSUMPTIONS = ['1.0: a message must not contain the end-of-message delimiter itself (RFC 4742 limitation; premise Frameable10)']

    def cases(self, rng, tier):
        n = 1200 if tier == 'quick' else 30000
        out = []
        # every single cut of a few short non-ASCII streams, both versions
        from oracle.framing_spec import enc10, enc11
        m1, m2 = '<a>é€</a>'.encode(), ' <b>😀]]></b>\n'.encode()
        for base11, stream in ((False, enc10([m1, m2])), (True, enc11([[m1[:4], m1[4:]], [m2[:6], m2[6:7], m2[7:]]]))):
            for cut in range(1, len(stream)):
                out.append({'base11': base11, 'msgs': [m1.decode(), m2.decode()], 'chunks': None,
                            'segs': [stream[:cut].hex(), stream[cut:].hex()]})
        for i in range(n):
            out.append(G.gen_valid_case(rng, big=(i % 9 == 0)))
        out += [G.gen_record_case(rng) for _ in range(40 if tier == 'quick' else 1500)]
        out += utf8_cases(rng, 300 if tier == 'quick' else 5000)
        # the read loop and the three real read primitives: frames of exactly k * BUF_SIZE octets (and their neighbours), then silence
        B = 4096
        for tr in ('unix', 'tls', 'ssh'):
            for b11 in (False, True):
                if tier == 'quick' and tr != 'unix' and b11 != (tr == 'tls'):
                    continue
                caps = None if b11 else ['urn:ietf:params:netconf:base:1.0', 'urn:ietf:params:netconf:capability:notification:1.0']
                out.append({'kind': 'sock', 'sc': {'transport': tr, 'profile': 'default', 'server_caps': caps,
                                                   'sizes': [B - 1, B, B + 1, 2 * B, 3 * B - 1, 3 * B] + ([rng.randint(300, 5 * B)] if tier == 'thorough' else [])}})
        return out

    def case_timeout(self, case):
        return 120 if case.get('kind') == 'sock' else None

    def run_impl(self, case):
        k = case.get('kind')
        if k == 'utf8':
            try:
                return {'text': bytes.fromhex(case['bytes']).decode('UTF-8')}
            except UnicodeDecodeError:
                return {'text': None}
        if k == 'strip':
            return {'text': case['s'].strip()}
        if k == 'sock':
            from impl.e2e import run_sized_frames
            return run_sized_frames(case['sc'])
        return F.run_feed_impl(case)

    def model_lines(self, case):
        k = case.get('kind')
        if k == 'sock':
            return []
        if k == 'utf8':
            return ['fr utf8 b' + case['bytes']]
        if k == 'strip':
            return ['fr strip ' + hexs(case['s'])]
        return [F.feed_line(case)]

    def model_obs(self, case, outs):
        k = case.get('kind')
        if k in ('utf8', 'strip'):
            return {'text': None if outs[0] == 'none' else unhexs(outs[0])}
        return F.parse_feed_out(outs[0])

    def oracle(self, case, io):
        if case.get('kind') == 'sock':
            sc = case['sc']
            tag = '%s/%s' % (sc['transport'], '1.1' if io.get('base11') else '1.0')
            if io['connect'] != 'ok':
                return ('C01:sock-connect', 'connect over %s failed: %s' % (tag, io['connect']))
            for i, g in enumerate(io['got']):
                if g['text'] is None:
                    return ('C01:message-not-delivered@' + sc['transport'], '%s: a complete message of %d framed octets, followed by silence, was not delivered within %.1fs'
                            % (tag, io['framed'][i], g['dt']))
                if g['text'].strip() != io['want'][i].strip():
                    return ('C01:wrong-delivery@' + sc['transport'], '%s: message of %d framed octets arrived altered' % (tag, io['framed'][i]))
            if len(io['got']) != len(io['sizes']) or not io.get('connected'):
                return ('C01:session-died@' + sc['transport'], '%s: session ended while receiving valid messages' % tag)
            return None
        if case.get('kind'):
            return None
        want = [m if case['base11'] else m.strip() for m in case['msgs']]
        if io['error']:
            return ('C01:error-on-valid-stream', 'valid stream raised %s in the parser' % io['error'])
        if io['delivered'] != want:
            return ('C01:wrong-delivery', 'delivered %d messages, sent %d (or altered text)' % (len(io['delivered']), len(want)))
        exp = F.per_step_expected(case)
        if io['counts'] != [c for c, _ in exp]:
            return ('C01:delivery-timing', 'a message was delivered before its terminator arrived, or late: %s vs %s' % (io['counts'], [c for c, _ in exp]))
        return None

    def nontrivial(self, case, io):
        if case.get('kind') == 'sock':
            return io.get('connect') == 'ok'
        if case.get('kind'):
            return False
        return len(case['msgs']) >= 1 and (len(case['segs']) >= 2 or (case['chunks'] and any(len(c) >= 2 for c in case['chunks'])))

    def search(self, tier, rng, broken):
        return [G.gen_valid_case(rng, big=(i % 9 == 0)) for i in range(8000)]

    def extra_coverage(self):
        import re
        from core import REPO
        reads = {}
        for f in ('ssh.py', 'tls.py', 'unixSocket.py'):
            src = open('%s/ncclient/transport/%s' % (REPO, f)).read()
            m = re.search(r'def _transport_read\(self\):\n((?:\s+.*\n)+?)\n', src)
            reads[f] = m.group(1).strip() if m else None
        return {'transport_read_bodies': reads}


CHECK = C01
