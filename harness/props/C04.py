"""C04 — transport loss fails every outstanding request; no call outlives its timeout."""
from props._session import SessionCheck, rpc_states, client_frames, msg_id_of
from core import unhexs
from cases import session_gen as SG


class C04(SessionCheck):
    ID = 'C04'
    PROPS_MODULE = 'NcVerif.Props.C04'
    FLAVOR_WEIGHTS = {'fault': 8, 'normal': 1, 'odd': 1}
    N_QUICK = 150
    RULE = ('lock-step histories with one injected fault (EOF / read error / write returning 0 or -1 / write raising) at a random '
            'point of the worker loop, 0-6 outstanding requests, over 3 transports x 14 profiles, compared step by step with the model; '
            '(incl. EOF in the middle of a message whose start tag has arrived, under both framings) plus real-socket sessions (1.0-only and 1.1 servers alternating) whose server closes at EVERY byte offset of a scripted response stream (quick: a sample of offsets; '
            'thorough: every offset) or after the k-th request, with client threads issuing requests meanwhile; elapsed time of every call measured. '
            'A peer that trickles notifications or the reply in pieces for several timeouts; a stalled peer with a burst of 200 asynchronous requests and a synchronous call; DEPENDS operations and close_session after the loss. Non-trivial = history >= 8 commands / socket run with >= 2 calls.')
    ASSUMPTIONS = ['a request created after the worker delivered its final error but before the session is marked disconnected is not failed; '
                   'it times out (model: lateBorn) - allowed by the statement (returns within its timeout)']

    def e2e_cases(self, rng, tier):
        out = []
        offs = list(range(0, 700, 37)) if tier == 'quick' else list(range(0, 900))
        from impl import fakeserver as FS
        only10 = [c for c in FS.STD_CAPS if c != FS.B11]
        for i, off in enumerate(offs):
            # half of the servers speak base:1.0 only (end-of-message framing), the others negotiate chunked framing
            out.append({'kind': 'e2e', 'sc': {'transport': 'tls' if (tier == 'thorough' and i % 10 == 9) else ('ssh' if i % 5 == 4 else 'unix'), 'profile': 'default',
                                              'server_caps': only10 if i % 2 else None,
                                              'threads': 2, 'per_thread': 2, 'window': 2, 'notifs': 0, 'seg': rng.choice(['random', 'whole']),
                                              'seed': 11, 'timeout': 1.5, 'fault': {'kind': 'close-at-offset', 'offset': off}}})
        for k in range(1, 4 if tier == 'quick' else 8):
            out.append({'kind': 'e2e', 'sc': {'transport': 'unix', 'profile': SG.PROFILES[k % len(SG.PROFILES)], 'threads': 3, 'per_thread': 2,
                                              'window': 4, 'notifs': 0, 'seg': 'random', 'seed': rng.randrange(1 << 30), 'timeout': 1.5,
                                              'fault': {'kind': 'close-after-requests', 'n': k}}})
        # the peer stops reading: a 6 MB request is stuck in the transport write, 200 small asynchronous requests follow, then a
        # synchronous call with a 1 s timeout - which must return or raise within it, whatever happens to the others
        out.append({'kind': 'stall', 'transport': 'unix', 'size': 6 * 1024 * 1024, 'timeout': 4.0, 'burst': 200, 'sync_timeout': 1.0})
        # a peer that is NOT silent but never answers in time: it trickles notifications, or the reply itself in small pieces, for several
        # timeouts - the synchronous call still ends within its configured timeout
        for i in range(2 if tier == 'quick' else 8):
            out.append({'kind': 'trickle', 'transport': ['unix', 'ssh', 'tls'][i % 3] if tier == 'thorough' else 'unix', 'what': ['notifications', 'reply-pieces'][i % 2],
                        'sync_timeout': 1.0, 'for': 3.5, 'base11': i % 4 < 2})
        return out

    def run_impl(self, case):
        if case.get('kind') == 'trickle':
            from impl import e2e
            return e2e.run_trickle(case)
        if case.get('kind') == 'stall':
            from impl import e2e
            return e2e.run_stall(case)
        return SessionCheck.run_impl(self, case)

    def model_lines(self, case):
        return [] if case.get('kind') in ('stall', 'trickle') else SessionCheck.model_lines(self, case)

    def model_obs(self, case, outs):
        return None if case.get('kind') in ('stall', 'trickle') else SessionCheck.model_obs(self, case, outs)

    def compare(self, case, io, mo):
        return None if case.get('kind') in ('stall', 'trickle') else SessionCheck.compare(self, case, io, mo)

    def nontrivial(self, case, io):
        return True if case.get('kind') in ('stall', 'trickle') else SessionCheck.nontrivial(self, case, io)

    def oracle_e2e(self, case, io):
        sc = case['sc']
        if io.get('connect') != 'ok':
            return ('C04:e2e-connect', 'connect failed: %s' % io.get('connect'))
        tmo = sc['timeout']
        if io.get('hung_threads'):
            return ('C04:call-outlived-timeout', 'a synchronous call never returned')
        for c in io['calls']:
            if c['dt'] > tmo + 4:
                return ('C04:call-outlived-timeout', 'call %s took %.2fs with timeout %.1fs' % (c['tag'], c['dt'], tmo))
            if c['out'][0] == 'reply':
                if c['out'][2] != c['tag']:
                    return ('C04:foreign-or-partial-reply', 'call %s returned a reply for %s' % (c['tag'], c['out'][2]))
            elif c['out'][1] == 'TimeoutExpiredError':
                # allowed only for a request that raced with the failure (never reached the server before the close)
                if c['tag'] in io['server_saw'] and io.get('closed_at') and c['t_end'] - c['dt'] < io['closed_at'] - 0.05:
                    return ('C04:pending-request-timed-out', 'request %s had reached the server before the close, yet waited out its timeout' % c['tag'])
            elif not c['out'][1].startswith('TransportError'):
                return ('C04:wrong-error-class', 'call %s raised %s, not a transport error' % (c['tag'], c['out'][1]))
        if io.get('closed_at'):
            if io.get('connected_after_fault'):
                return ('C04:still-connected', 'session still reports connected after the peer closed')
            if not str(io.get('late', '')).startswith('TransportError'):
                return ('C04:late-request-not-refused', 'a request after the loss gave %s' % io.get('late'))
            for key in ('late_commit', 'late_discard', 'late_close'):
                if key in io and not str(io[key]).startswith('TransportError'):
                    return ('C04:late-request-not-refused', '%s after the loss gave %s, not a transport error' % (key[5:], io[key]))
            if io.get('worker_alive_after_fault'):
                return ('C04:worker-alive', 'session thread still alive after the loss')
        return None

    def oracle(self, case, io):
        if case.get('kind') == 'trickle':
            if io.get('connect') != 'ok':
                return ('C04:e2e-connect', 'connect failed: %s' % io.get('connect'))
            if io['state'] != 'ok' or io['dt'] > case['sync_timeout'] + 1.0:
                return ('C04:call-outlived-timeout', 'a synchronous call with timeout %.1f s to a peer that keeps sending %s for %.1f s without completing an answer %s after %.2f s' % (
                    case['sync_timeout'], case['what'], case['for'], 'had not returned' if io['state'] != 'ok' else 'ended (%s)' % io['out'], io['dt']))
            return None
        if case.get('kind') == 'stall':
            if 'harness_error' in io:
                return ('C04:harness', io['harness_error'])
            sy = io.get('sync') or {}
            rf = io['burst'].get('refused')
            if rf and rf[2]:
                return ('C04:submission-refused-while-connected', 'request %d of a burst of asynchronous requests was refused (%s: %s) although the session still reported itself connected' % (
                    io['burst']['accepted'] + 1, rf[0], rf[1]))
            if io['burst']['blocked']:
                return ('C04:submission-blocks', 'submitting asynchronous requests to a session whose peer stopped reading blocked the caller (%d accepted)' % io['burst']['accepted'])
            if sy.get('state') != 'ok' or sy.get('dt', 0) > case['sync_timeout'] + 3:
                return ('C04:call-outlived-timeout', 'a synchronous call with timeout %.1f s on a session whose peer stopped reading %s after %.1f s' % (
                    case['sync_timeout'], 'had not returned' if sy.get('state') != 'ok' else 'returned (%s)' % sy.get('out'), sy.get('dt', -1)))
            if sy.get('out') == 'reply':
                return ('C04:foreign-or-partial-reply', 'a synchronous call got a reply from a peer that reads nothing')
            return None
        if case.get('kind') == 'e2e':
            return self.oracle_e2e(case, io)
        info = case.get('info') or {}
        obs = io['obs']
        if not obs:
            return None
        # find the step at which the worker stopped after an injected fault
        faults = info.get('faults') or []
        last = obs[-1]
        if faults and last['pc'] == 'stopped':
            if last['connected']:
                return ('C04:still-connected', 'worker stopped after %s but the session reports connected' % faults)
            # every request whose bytes were queued before the stop must have its event set
            first_stop = next(i for i, o in enumerate(obs) if o['pc'] == 'stopped')
            before = rpc_states(obs[first_stop - 1]) if first_stop > 0 else {}
            now = rpc_states(obs[first_stop])
            for i, st in now.items():
                if i in before and st == 'W' and io['req_status'][i - 1] == 'sent':
                    # created before the failure was processed?  (requests created while the worker was parked in close() are lateBorn)
                    created_step = next(k for k, o in enumerate(obs) if i in rpc_states(o))
                    failing_from = next((k for k, o in enumerate(obs) if o['pc'] in ('close', 'stopped')), len(obs))
                    if created_step < failing_from:
                        return ('C04:pending-not-failed', 'request %d was outstanding when the transport was lost (%s) but got no error' % (i, faults))
                if st.startswith('E') and st[1:] not in ('sessionClose', 'transport', 'framing', 'operation', 'xml', 'rawDispatch', 'decode'):
                    return ('C04:wrong-error-class', 'request %d failed with %s' % (i, st))
                if st.startswith('E') and faults[0] in ('eof',) and case['flavor'] == 'fault' and st[1:] not in ('sessionClose', 'transport', 'operation', 'xml', 'rawDispatch', 'framing', 'decode'):
                    return ('C04:wrong-error-class', 'request %d failed with %s after a close by the peer' % (i, st))
            # later requests are refused
            for k in range(len(obs)):
                pass
            stopped_at = first_stop
            for i, status in enumerate(io['req_status'], 1):
                created_step = next((k for k, o in enumerate(obs) if i in rpc_states(o)), None)
                if created_step is not None and created_step > stopped_at and not obs[created_step - 1]['connected'] and status == 'sent':
                    return ('C04:late-request-not-refused', 'request %d was accepted by a disconnected session' % i)
        return None


CHECK = C04
